package main

// Gen/PureFns.v: whitelisted pure-integer Go functions of /repo translated statement by statement into
// Gallina over Z with Go's 64-bit integer semantics (wrapS / wrapU from SV.Safe.GoInt).
//
// Supported: `:=`, `=`, `op=`, `++/--`, parallel assignment, `var x T`, `if [init;] c {..} [else ..]`,
// early `return`, named results with bare `return`, `+ - * / % >> << & |`, unary `-`, comparisons,
// `&& || !`, integer conversions, constants (folded by go/types), calls of other whitelisted functions.
// Slice-typed variables are abstracted to their (len, cap) pair: `len(x)`, `cap(x)`, `make([]byte, l, c)`,
// `copy` (no effect on sizes), `x = y`, `*p = ...` through a pointer parameter.
// Anything else is an error (the tie to the source is then reported as broken).

import (
	"fmt"
	"go/ast"
	"go/constant"
	"go/printer"
	"go/token"
	"go/types"
	"sort"
	"strings"
)

func init() { emitters["PureFns"] = emitPureFns }

type pfSpec struct {
	coq              string
	path, recv, name string
	// abs: source text of an expression -> name of a fresh Z parameter standing for it
	abs [][2]string
	// receiver / parameters that are not integers and only occur inside abstracted expressions
	opaque []string
	// excerpt: the function ends in `return fmt.Sprintf(..., Src[p:q], strings.Repeat(".", x), strings.Repeat(".", y))`;
	// the translated result is (p, q, x, y).  emptyGuard: `if self.Src == "" { return fmt.Sprintf(...) }` is
	// translated to `if size =? 0 then (0,0,0,0)`.
	excerpt bool
	sliceOf string // text of the sliced string in excerpt mode
	sizeOf  string // abs name that is the length of sliceOf
	doc     string
}

var pfSpecs = []pfSpec{
	{coq: "errors_clamp_zero", path: mod + "/internal/decoder/errors", name: "clamp_zero"},
	{coq: "errors_calcBounds", path: mod + "/internal/decoder/errors", name: "calcBounds"},
	{coq: "errors_description", path: mod + "/internal/decoder/errors", recv: "SyntaxError", name: "description",
		abs: [][2]string{{"len(self.Src)", "size"}, {"self.Pos", "pos"}}, opaque: []string{"self"}, excerpt: true, sliceOf: "self.Src", sizeOf: "size",
		doc: "result (p, q, x, y): description() evaluates self.Src[p:q], strings.Repeat(\".\", x), strings.Repeat(\".\", y); (0,0,0,0) on the empty-source path"},
	{coq: "ast_clamp_zero", path: mod + "/ast", name: "clamp_zero"},
	{coq: "ast_description", path: mod + "/ast", recv: "SyntaxError", name: "description",
		abs: [][2]string{{"len(self.Src)", "size"}, {"self.Pos", "pos"}}, opaque: []string{"self"}, excerpt: true, sliceOf: "self.Src", sizeOf: "size",
		doc: "result (p, q, x, y): description() evaluates self.Src[p:q], strings.Repeat(\".\", x), strings.Repeat(\".\", y); (0,0,0,0) on the empty-source path"},
	{coq: "types_Message_inbounds", path: mod + "/internal/native/types", recv: "ParsingError", name: "Message",
		doc: "true: the branch indexing _ParsingErrors[self] is taken (index expression = self); false: the fmt.Sprintf branch"},
	{coq: "rt_GuardSlice2", path: mod + "/internal/rt", name: "GuardSlice2",
		doc: "slice abstracted to (len, cap); result = (len, cap) of the returned slice; make_ok records the make([]byte, l, c) arguments"},
	{coq: "rt_CanSizeResue", path: mod + "/internal/rt", name: "CanSizeResue"},
	{coq: "stream_realloc", path: mod + "/internal/decoder/api", name: "realloc",
		doc: "*buf abstracted to (len, cap); pool_len/pool_cap = the buffer bufPool.Get() returns; result = (returned bool, len, cap of *buf afterwards)"},
}

type pfFn struct {
	spec    *pfSpec
	p       *pkgT
	fd      *ast.FuncDecl
	names   map[types.Object]string
	used    map[string]bool
	abs     map[string]string
	results []types.Object // named results
	nres    int
	globals []string // extra leading parameters for package-level variables
	gvars   map[string]*types.Var
	gseen   map[string]bool
	gdefs   *[]string
	callee  map[string]string // types.Func full name -> coq name
	slices  map[types.Object]bool
	ptrs    map[types.Object]bool // pointer-to-slice parameters
	extra   []string              // extra abstract parameters (pool buffer)
}

func (f *pfFn) pos(n ast.Node) string { return f.p.Fset.Position(n.Pos()).String() }

func (f *pfFn) src(n ast.Node) string {
	var b strings.Builder
	printer.Fprint(&b, f.p.Fset, n)
	return b.String()
}

func (f *pfFn) fresh(base string) string {
	base = strings.TrimLeft(base, "_")
	if base == "" {
		base = "v"
	}
	switch base {
	case "if", "then", "else", "let", "in", "fun", "match", "end", "with", "as", "at", "return", "Type", "Set", "Prop", "fix", "forall", "exists":
		base = base + "_"
	}
	n := base
	for i := 1; f.used[n]; i++ {
		n = fmt.Sprintf("%s_%d", base, i)
	}
	f.used[n] = true
	return n
}

func (f *pfFn) nameOf(o types.Object) string {
	if n, ok := f.names[o]; ok {
		return n
	}
	n := f.fresh(o.Name())
	f.names[o] = n
	return n
}

// kind of a 64-bit integer type: "S" signed, "U" unsigned, "" unsupported
func pfKind(t types.Type) string {
	b, ok := t.Underlying().(*types.Basic)
	if !ok {
		return ""
	}
	switch b.Kind() {
	case types.Int, types.Int64, types.UntypedInt:
		return "S"
	case types.Uint, types.Uint64, types.Uintptr:
		return "U"
	}
	return ""
}

func pfIsByteSlice(t types.Type) bool {
	s, ok := t.Underlying().(*types.Slice)
	if !ok {
		return false
	}
	b, ok := s.Elem().Underlying().(*types.Basic)
	return ok && b.Kind() == types.Uint8
}

func pfZ(v int64) string {
	if v < 0 {
		return fmt.Sprintf("(%d)", v)
	}
	return fmt.Sprintf("%d", v)
}

func (f *pfFn) wrap(kind, e string) string {
	if kind == "U" {
		return "(wrapU (" + e + "))"
	}
	return "(wrapS (" + e + "))"
}

// integer expression
func (f *pfFn) expr(e ast.Expr) (string, error) {
	if a, ok := f.abs[f.src(e)]; ok {
		return a, nil
	}
	tv, ok := f.p.TypesInfo.Types[e]
	if ok && tv.Value != nil {
		v := constant.ToInt(tv.Value)
		if v.Kind() == constant.Int {
			if i, ok := constant.Int64Val(v); ok {
				return pfZ(i), nil
			}
			if u, ok := constant.Uint64Val(v); ok {
				return fmt.Sprintf("%d", u), nil
			}
		}
		return "", fmt.Errorf("%s: constant %s is not a 64-bit integer", f.pos(e), f.src(e))
	}
	if !ok {
		return "", fmt.Errorf("%s: untyped expression %s", f.pos(e), f.src(e))
	}
	kind := pfKind(tv.Type)
	if kind == "" {
		return "", fmt.Errorf("%s: expression %s has unsupported type %s", f.pos(e), f.src(e), tv.Type)
	}
	switch e := e.(type) {
	case *ast.ParenExpr:
		return f.expr(e.X)
	case *ast.Ident:
		o := f.p.TypesInfo.Uses[e]
		if o == nil {
			o = f.p.TypesInfo.Defs[e]
		}
		return f.varRef(o, e)
	case *ast.SelectorExpr:
		// package-qualified variable (option.LimitBufferSize)
		if o, ok := f.p.TypesInfo.Uses[e.Sel].(*types.Var); ok && !o.IsField() && o.Parent() == o.Pkg().Scope() {
			return f.varRef(o, e)
		}
		return "", fmt.Errorf("%s: unsupported selector %s", f.pos(e), f.src(e))
	case *ast.UnaryExpr:
		x, err := f.expr(e.X)
		if err != nil {
			return "", err
		}
		switch e.Op {
		case token.SUB:
			return f.wrap(kind, "- "+x), nil
		case token.ADD:
			return x, nil
		}
		return "", fmt.Errorf("%s: unsupported unary operator %s", f.pos(e), e.Op)
	case *ast.BinaryExpr:
		x, err := f.expr(e.X)
		if err != nil {
			return "", err
		}
		switch e.Op {
		case token.SHL, token.SHR:
			ytv := f.p.TypesInfo.Types[e.Y]
			var k string
			if ytv.Value == nil {
				// a variable count: only unsigned counts (a negative signed count panics in Go); counts >= 64
				// give 0 / the sign, which is what Z.shiftr and wrap (Z.shiftl) compute
				if pfKind(ytv.Type) != "U" {
					return "", fmt.Errorf("%s: shift count %s is neither constant nor unsigned", f.pos(e), f.src(e.Y))
				}
				var err error
				if k, err = f.expr(e.Y); err != nil {
					return "", err
				}
			} else {
				kv, ok := constant.Int64Val(constant.ToInt(ytv.Value))
				if !ok || kv < 0 || kv > 63 {
					return "", fmt.Errorf("%s: shift count out of range", f.pos(e))
				}
				k = fmt.Sprint(kv)
			}
			if e.Op == token.SHR {
				return fmt.Sprintf("(Z.shiftr %s %s)", x, k), nil
			}
			return f.wrap(kind, fmt.Sprintf("Z.shiftl %s %s", x, k)), nil
		}
		y, err := f.expr(e.Y)
		if err != nil {
			return "", err
		}
		switch e.Op {
		case token.ADD:
			return f.wrap(kind, x+" + "+y), nil
		case token.SUB:
			return f.wrap(kind, x+" - "+y), nil
		case token.MUL:
			return f.wrap(kind, x+" * "+y), nil
		case token.QUO, token.REM:
			ytv := f.p.TypesInfo.Types[e.Y]
			if ytv.Value == nil || constant.Sign(ytv.Value) <= 0 {
				return "", fmt.Errorf("%s: division by a non-constant or non-positive value", f.pos(e))
			}
			if e.Op == token.QUO {
				return fmt.Sprintf("(Z.quot %s %s)", x, y), nil
			}
			return fmt.Sprintf("(Z.rem %s %s)", x, y), nil
		case token.AND:
			return fmt.Sprintf("(Z.land %s %s)", x, y), nil
		case token.OR:
			return fmt.Sprintf("(Z.lor %s %s)", x, y), nil
		}
		return "", fmt.Errorf("%s: unsupported binary operator %s", f.pos(e), e.Op)
	case *ast.CallExpr:
		// conversion
		if ftv, ok := f.p.TypesInfo.Types[e.Fun]; ok && ftv.IsType() {
			if len(e.Args) != 1 {
				return "", fmt.Errorf("%s: bad conversion", f.pos(e))
			}
			atv := f.p.TypesInfo.Types[e.Args[0]]
			if pfKind(atv.Type) == "" {
				return "", fmt.Errorf("%s: conversion from unsupported type %s", f.pos(e), atv.Type)
			}
			x, err := f.expr(e.Args[0])
			if err != nil {
				return "", err
			}
			if pfKind(atv.Type) == kind {
				return x, nil
			}
			return f.wrap(kind, x), nil
		}
		if id, ok := e.Fun.(*ast.Ident); ok && (id.Name == "len" || id.Name == "cap") && len(e.Args) == 1 {
			if _, isb := f.p.TypesInfo.Uses[id].(*types.Builtin); isb {
				return f.lenCap(id.Name, e.Args[0])
			}
		}
		if name, args, err := f.call(e); err != nil {
			return "", err
		} else if name != "" {
			return "(" + name + " " + strings.Join(args, " ") + ")", nil
		}
		return "", fmt.Errorf("%s: unsupported call %s", f.pos(e), f.src(e))
	}
	return "", fmt.Errorf("%s: unsupported expression %s", f.pos(e), f.src(e))
}

func (f *pfFn) varRef(o types.Object, at ast.Node) (string, error) {
	v, ok := o.(*types.Var)
	if !ok {
		return "", fmt.Errorf("%s: %s is not a variable", f.pos(at), f.src(at))
	}
	if v.Pkg() != nil && v.Parent() == v.Pkg().Scope() {
		// package-level variable: an explicit parameter of the translated function
		n := "g_" + v.Pkg().Name() + "_" + v.Name()
		if !f.gseen[n] {
			f.gseen[n] = true
			f.globals = append(f.globals, n)
			f.gvars[n] = v
		}
		return n, nil
	}
	if _, ok := f.names[o]; !ok {
		return "", fmt.Errorf("%s: variable %s used before definition", f.pos(at), o.Name())
	}
	return f.names[o], nil
}

// len / cap of: a slice variable, *ptr, or a package-level slice/array variable with a literal initialiser
func (f *pfFn) lenCap(which string, arg ast.Expr) (string, error) {
	if o := f.sliceObj(arg); o != nil {
		return f.names[o] + "_" + which, nil
	}
	if id, ok := arg.(*ast.Ident); ok {
		if v, ok := f.p.TypesInfo.Uses[id].(*types.Var); ok && v.Parent() == v.Pkg().Scope() {
			n, err := pfLiteralLen(f.p, v.Name())
			if err != nil {
				return "", fmt.Errorf("%s: %v", f.pos(arg), err)
			}
			return fmt.Sprintf("%d", n), nil
		}
	}
	return "", fmt.Errorf("%s: unsupported %s(%s)", f.pos(arg), which, f.src(arg))
}

func (f *pfFn) sliceObj(e ast.Expr) types.Object {
	switch e := e.(type) {
	case *ast.ParenExpr:
		return f.sliceObj(e.X)
	case *ast.Ident:
		o := f.p.TypesInfo.Uses[e]
		if o != nil && f.slices[o] {
			return o
		}
	case *ast.StarExpr:
		if id, ok := e.X.(*ast.Ident); ok {
			o := f.p.TypesInfo.Uses[id]
			if o != nil && f.ptrs[o] {
				return o
			}
		}
	}
	return nil
}

// length of a package-level `var x = []T{...}` with optional constant keys
func pfLiteralLen(p *pkgT, name string) (int64, error) {
	for _, file := range p.Syntax {
		for _, d := range file.Decls {
			gd, ok := d.(*ast.GenDecl)
			if !ok || gd.Tok != token.VAR {
				continue
			}
			for _, sp := range gd.Specs {
				vs := sp.(*ast.ValueSpec)
				for i, n := range vs.Names {
					if n.Name != name {
						continue
					}
					if i >= len(vs.Values) {
						return 0, fmt.Errorf("%s has no initialiser", name)
					}
					lit, ok := vs.Values[i].(*ast.CompositeLit)
					if !ok {
						return 0, fmt.Errorf("%s is not initialised by a composite literal", name)
					}
					var next, max int64
					for _, el := range lit.Elts {
						if kv, ok := el.(*ast.KeyValueExpr); ok {
							k, err := evalInt(p, kv.Key)
							if err != nil {
								return 0, err
							}
							next = k
						}
						next++
						if next > max {
							max = next
						}
					}
					return max, nil
				}
			}
		}
	}
	return 0, fmt.Errorf("package variable %s not found", name)
}

func (f *pfFn) call(e *ast.CallExpr) (string, []string, error) {
	var o types.Object
	switch fn := e.Fun.(type) {
	case *ast.Ident:
		o = f.p.TypesInfo.Uses[fn]
	case *ast.SelectorExpr:
		o = f.p.TypesInfo.Uses[fn.Sel]
	}
	fo, ok := o.(*types.Func)
	if !ok {
		return "", nil, nil
	}
	name, ok := f.callee[fo.FullName()]
	if !ok {
		return "", nil, nil
	}
	var args []string
	for _, a := range e.Args {
		x, err := f.expr(a)
		if err != nil {
			return "", nil, err
		}
		args = append(args, x)
	}
	return name, args, nil
}

// boolean expression
func (f *pfFn) cond(e ast.Expr) (string, error) {
	if a, ok := f.abs[f.src(e)]; ok {
		return a, nil
	}
	switch e := e.(type) {
	case *ast.ParenExpr:
		return f.cond(e.X)
	case *ast.UnaryExpr:
		if e.Op == token.NOT {
			x, err := f.cond(e.X)
			return "(negb " + x + ")", err
		}
	case *ast.BinaryExpr:
		switch e.Op {
		case token.LAND, token.LOR:
			x, err := f.cond(e.X)
			if err != nil {
				return "", err
			}
			y, err := f.cond(e.Y)
			if err != nil {
				return "", err
			}
			if e.Op == token.LAND {
				return "(andb " + x + " " + y + ")", nil
			}
			return "(orb " + x + " " + y + ")", nil
		case token.LSS, token.LEQ, token.GTR, token.GEQ, token.EQL, token.NEQ:
			x, err := f.expr(e.X)
			if err != nil {
				return "", err
			}
			y, err := f.expr(e.Y)
			if err != nil {
				return "", err
			}
			switch e.Op {
			case token.LSS:
				return "(Z.ltb " + x + " " + y + ")", nil
			case token.LEQ:
				return "(Z.leb " + x + " " + y + ")", nil
			case token.GTR:
				return "(Z.ltb " + y + " " + x + ")", nil
			case token.GEQ:
				return "(Z.leb " + y + " " + x + ")", nil
			case token.EQL:
				return "(Z.eqb " + x + " " + y + ")", nil
			default:
				return "(negb (Z.eqb " + x + " " + y + "))", nil
			}
		}
	}
	return "", fmt.Errorf("%s: unsupported condition %s", f.pos(e), f.src(e))
}

func pfAlwaysReturns(stmts []ast.Stmt) bool {
	if len(stmts) == 0 {
		return false
	}
	switch s := stmts[len(stmts)-1].(type) {
	case *ast.ReturnStmt:
		return true
	case *ast.BlockStmt:
		return pfAlwaysReturns(s.List)
	case *ast.IfStmt:
		if s.Else == nil {
			return false
		}
		var els []ast.Stmt
		switch e := s.Else.(type) {
		case *ast.BlockStmt:
			els = e.List
		case *ast.IfStmt:
			els = []ast.Stmt{e}
		}
		return pfAlwaysReturns(s.Body.List) && pfAlwaysReturns(els)
	}
	return false
}

func (f *pfFn) resultTuple() (string, error) {
	if f.results == nil {
		return "", fmt.Errorf("%s: control reaches the end of %s without a return", f.pos(f.fd), f.fd.Name.Name)
	}
	var parts []string
	for _, o := range f.results {
		parts = append(parts, f.names[o])
	}
	return f.finish(parts), nil
}

// finish appends the final (len, cap) of every pointer-to-slice parameter to the returned tuple
func (f *pfFn) finish(parts []string) string {
	var ps []types.Object
	for o := range f.ptrs {
		ps = append(ps, o)
	}
	sort.Slice(ps, func(i, j int) bool { return ps[i].Pos() < ps[j].Pos() })
	for _, o := range ps {
		parts = append(parts, f.names[o]+"_len", f.names[o]+"_cap")
	}
	if len(parts) == 1 {
		return parts[0]
	}
	return "(" + strings.Join(parts, ", ") + ")"
}

func (f *pfFn) assignTo(lhs ast.Expr, define bool) (types.Object, error) {
	switch l := lhs.(type) {
	case *ast.Ident:
		if l.Name == "_" {
			return nil, fmt.Errorf("%s: blank assignment", f.pos(lhs))
		}
		var o types.Object
		if define {
			o = f.p.TypesInfo.Defs[l]
		}
		if o == nil {
			o = f.p.TypesInfo.Uses[l]
		}
		if o == nil {
			return nil, fmt.Errorf("%s: cannot resolve %s", f.pos(lhs), l.Name)
		}
		if v, ok := o.(*types.Var); !ok || (v.Pkg() != nil && v.Parent() == v.Pkg().Scope()) {
			return nil, fmt.Errorf("%s: assignment to non-local %s", f.pos(lhs), l.Name)
		}
		return o, nil
	case *ast.StarExpr:
		if o := f.sliceObj(l); o != nil {
			return o, nil
		}
	}
	return nil, fmt.Errorf("%s: unsupported assignment target %s", f.pos(lhs), f.src(lhs))
}

// slice-valued right-hand side -> (len, cap) terms
func (f *pfFn) sliceExpr(e ast.Expr) (string, string, error) {
	if o := f.sliceObj(e); o != nil {
		return f.names[o] + "_len", f.names[o] + "_cap", nil
	}
	switch e := e.(type) {
	case *ast.ParenExpr:
		return f.sliceExpr(e.X)
	case *ast.CallExpr:
		if id, ok := e.Fun.(*ast.Ident); ok && id.Name == "make" && len(e.Args) == 3 {
			if _, isb := f.p.TypesInfo.Uses[id].(*types.Builtin); isb && pfIsByteSlice(f.p.TypesInfo.Types[e.Args[0]].Type) {
				l, err := f.expr(e.Args[1])
				if err != nil {
					return "", "", err
				}
				c, err := f.expr(e.Args[2])
				if err != nil {
					return "", "", err
				}
				return l, c, nil
			}
		}
	case *ast.TypeAssertExpr:
		// bufPool.Get().([]byte): an arbitrary pooled buffer
		if f.src(e) == "bufPool.Get().([]byte)" {
			if len(f.extra) == 0 {
				f.extra = []string{"pool_len", "pool_cap"}
			}
			return "pool_len", "pool_cap", nil
		}
	}
	return "", "", fmt.Errorf("%s: unsupported slice expression %s", f.pos(e), f.src(e))
}

func (f *pfFn) stmts(list []ast.Stmt, ind string) (string, error) {
	if len(list) == 0 {
		return f.resultTuple()
	}
	s, rest := list[0], list[1:]
	switch s := s.(type) {
	case *ast.BlockStmt:
		return f.stmts(append(append([]ast.Stmt{}, s.List...), rest...), ind)
	case *ast.EmptyStmt:
		return f.stmts(rest, ind)
	case *ast.DeclStmt:
		gd, ok := s.Decl.(*ast.GenDecl)
		if !ok || gd.Tok != token.VAR {
			return "", fmt.Errorf("%s: unsupported declaration", f.pos(s))
		}
		var b strings.Builder
		for _, sp := range gd.Specs {
			vs := sp.(*ast.ValueSpec)
			for i, n := range vs.Names {
				o := f.p.TypesInfo.Defs[n]
				if pfKind(o.Type()) == "" {
					return "", fmt.Errorf("%s: variable %s has unsupported type %s", f.pos(n), n.Name, o.Type())
				}
				v := "0"
				if i < len(vs.Values) {
					x, err := f.expr(vs.Values[i])
					if err != nil {
						return "", err
					}
					v = x
				}
				fmt.Fprintf(&b, "%slet %s := %s in\n", ind, f.nameOf(o), v)
			}
		}
		r, err := f.stmts(rest, ind)
		return b.String() + r, err
	case *ast.IncDecStmt:
		o, err := f.assignTo(s.X, false)
		if err != nil {
			return "", err
		}
		x, err := f.expr(s.X)
		if err != nil {
			return "", err
		}
		op := " + 1"
		if s.Tok == token.DEC {
			op = " - 1"
		}
		r, err := f.stmts(rest, ind)
		return fmt.Sprintf("%slet %s := %s in\n", ind, f.names[o], f.wrap(pfKind(o.Type()), x+op)) + r, err
	case *ast.ExprStmt:
		// copy(dst, src) between abstracted slices does not change any size
		if c, ok := s.X.(*ast.CallExpr); ok {
			if id, ok := c.Fun.(*ast.Ident); ok && id.Name == "copy" && len(c.Args) == 2 {
				if _, isb := f.p.TypesInfo.Uses[id].(*types.Builtin); isb && f.sliceObj(c.Args[0]) != nil && f.sliceObj(c.Args[1]) != nil {
					r, err := f.stmts(rest, ind)
					return ind + "(* " + f.src(s) + " *)\n" + r, err
				}
			}
		}
		return "", fmt.Errorf("%s: unsupported statement %s", f.pos(s), f.src(s))
	case *ast.AssignStmt:
		return f.assign(s, rest, ind)
	case *ast.ReturnStmt:
		if len(s.Results) == 0 {
			return f.resultTuple()
		}
		if f.spec.excerpt && len(s.Results) == 1 {
			if call, ok := s.Results[0].(*ast.CallExpr); ok && f.src(call.Fun) == "fmt.Sprintf" {
				return f.excerptReturn(call, ind)
			}
		}
		var parts []string
		for _, r := range s.Results {
			tv := f.p.TypesInfo.Types[r]
			var x string
			var err error
			if o := f.sliceObj(r); o != nil {
				parts = append(parts, f.names[o]+"_len", f.names[o]+"_cap")
				continue
			}
			if b, ok := tv.Type.Underlying().(*types.Basic); ok && b.Info()&types.IsBoolean != 0 {
				if tv.Value != nil {
					x = map[bool]string{true: "true", false: "false"}[constant.BoolVal(tv.Value)]
				} else {
					x, err = f.cond(r)
				}
			} else if b, ok := tv.Type.Underlying().(*types.Basic); ok && b.Info()&types.IsString != 0 && f.spec.name == "Message" {
				// Message: which branch indexes the table
				if ix, ok := r.(*ast.IndexExpr); ok && f.src(ix.X) == "_ParsingErrors" && f.src(ix.Index) == f.fd.Recv.List[0].Names[0].Name {
					x = "true"
				} else if call, ok := r.(*ast.CallExpr); ok && f.src(call.Fun) == "fmt.Sprintf" {
					x = "false"
				} else {
					return "", fmt.Errorf("%s: unsupported string result %s", f.pos(r), f.src(r))
				}
			} else {
				x, err = f.expr(r)
			}
			if err != nil {
				return "", err
			}
			parts = append(parts, x)
		}
		return ind + f.finish(parts), nil
	case *ast.IfStmt:
		if s.Init != nil {
			return f.stmts(append([]ast.Stmt{s.Init, &ast.IfStmt{If: s.If, Cond: s.Cond, Body: s.Body, Else: s.Else}}, rest...), ind)
		}
		var c string
		var err error
		if f.spec.excerpt && f.src(s.Cond) == f.spec.sliceOf+` == ""` {
			// the empty-source path formats the value with %#v and slices nothing
			if len(s.Body.List) != 1 || s.Else != nil {
				return "", fmt.Errorf("%s: unexpected shape of the empty-source guard", f.pos(s))
			}
			ret, ok := s.Body.List[0].(*ast.ReturnStmt)
			if !ok || len(ret.Results) != 1 || strings.Contains(f.src(ret.Results[0]), "[") || strings.Contains(f.src(ret.Results[0]), "Repeat") {
				return "", fmt.Errorf("%s: the empty-source guard must return a plain fmt.Sprintf", f.pos(s))
			}
			r, err := f.stmts(rest, ind+"  ")
			if err != nil {
				return "", err
			}
			return fmt.Sprintf("%sif (Z.eqb %s 0) then (0, 0, 0, 0) else\n%s", ind, f.spec.sizeOf, r), nil
		}
		c, err = f.cond(s.Cond)
		if err != nil {
			return "", err
		}
		thenL := append(append([]ast.Stmt{}, s.Body.List...), rest...)
		if pfAlwaysReturns(s.Body.List) {
			thenL = s.Body.List
		}
		var elseL []ast.Stmt
		switch e := s.Else.(type) {
		case nil:
			elseL = rest
		case *ast.BlockStmt:
			elseL = append(append([]ast.Stmt{}, e.List...), rest...)
			if pfAlwaysReturns(e.List) {
				elseL = e.List
			}
		case *ast.IfStmt:
			elseL = append([]ast.Stmt{e}, rest...)
		default:
			return "", fmt.Errorf("%s: unsupported else", f.pos(s))
		}
		// names defined inside one branch must not leak into the other: the translation of each branch
		// works on a copy of the naming environment
		save := f.snapshot()
		t, err := f.stmts(thenL, ind+"  ")
		if err != nil {
			return "", err
		}
		f.restore(save)
		el, err := f.stmts(elseL, ind+"  ")
		if err != nil {
			return "", err
		}
		f.restore(save)
		return fmt.Sprintf("%sif %s then\n%s\n%selse\n%s", ind, c, t, ind, el), nil
	}
	return "", fmt.Errorf("%s: unsupported statement %s", f.pos(s), strings.SplitN(f.src(s), "\n", 2)[0])
}

func (f *pfFn) snapshot() map[types.Object]string {
	m := make(map[types.Object]string, len(f.names))
	for k, v := range f.names {
		m[k] = v
	}
	return m
}

func (f *pfFn) restore(m map[types.Object]string) {
	f.names = make(map[types.Object]string, len(m))
	for k, v := range m {
		f.names[k] = v
	}
}

func (f *pfFn) assign(s *ast.AssignStmt, rest []ast.Stmt, ind string) (string, error) {
	define := s.Tok == token.DEFINE
	var b strings.Builder
	switch s.Tok {
	case token.DEFINE, token.ASSIGN:
		// tuple from a whitelisted call: p, x, q, y := calcBounds(...)
		if len(s.Rhs) == 1 && len(s.Lhs) > 1 {
			call, ok := s.Rhs[0].(*ast.CallExpr)
			if !ok {
				return "", fmt.Errorf("%s: unsupported multi-value assignment", f.pos(s))
			}
			name, args, err := f.call(call)
			if err != nil {
				return "", err
			}
			if name == "" {
				return "", fmt.Errorf("%s: call of a function that is not whitelisted: %s", f.pos(s), f.src(call))
			}
			var tmp, lets []string
			for _, l := range s.Lhs {
				o, err := f.assignTo(l, define)
				if err != nil {
					return "", err
				}
				if pfKind(o.Type()) == "" {
					return "", fmt.Errorf("%s: %s has unsupported type", f.pos(l), f.src(l))
				}
				t := f.fresh("t")
				tmp = append(tmp, t)
				lets = append(lets, fmt.Sprintf("%slet %s := %s in\n", ind, f.nameOf(o), t))
			}
			fmt.Fprintf(&b, "%slet '(%s) := %s %s in\n%s", ind, strings.Join(tmp, ", "), name, strings.Join(args, " "), strings.Join(lets, ""))
			r, err := f.stmts(rest, ind)
			return b.String() + r, err
		}
		if len(s.Lhs) != len(s.Rhs) {
			return "", fmt.Errorf("%s: unsupported assignment shape", f.pos(s))
		}
		// evaluate all right-hand sides first (parallel assignment)
		type tgt struct {
			o        types.Object
			slice    bool
			v, l, c  string
		}
		var ts []tgt
		for i := range s.Lhs {
			// slice-valued?
			rtv := f.p.TypesInfo.Types[s.Rhs[i]]
			if rtv.Type != nil && pfIsByteSlice(rtv.Type) {
				l, c, err := f.sliceExpr(s.Rhs[i])
				if err != nil {
					return "", err
				}
				ts = append(ts, tgt{slice: true, l: l, c: c})
				continue
			}
			x, err := f.expr(s.Rhs[i])
			if err != nil {
				return "", err
			}
			ts = append(ts, tgt{v: x})
		}
		var second strings.Builder
		for i, l := range s.Lhs {
			var o types.Object
			var err error
			if ts[i].slice {
				if id, ok := l.(*ast.Ident); ok && define {
					o = f.p.TypesInfo.Defs[id]
					if o == nil {
						o = f.p.TypesInfo.Uses[id]
					}
					f.slices[o] = true
				} else if so := f.sliceObj(l); so != nil {
					o = so
				} else {
					return "", fmt.Errorf("%s: unsupported slice assignment target %s", f.pos(l), f.src(l))
				}
				n := f.nameOf(o)
				if len(s.Lhs) == 1 {
					fmt.Fprintf(&b, "%slet %s_len := %s in\n%slet %s_cap := %s in\n", ind, n, ts[i].l, ind, n, ts[i].c)
					if call, ok := s.Rhs[i].(*ast.CallExpr); ok && f.src(call.Fun) == "make" {
						fmt.Fprintf(&b, "%s(* make([]byte, %s_len, %s_cap): panics unless 0 <= len <= cap *)\n", ind, n, n)
					}
				} else {
					return "", fmt.Errorf("%s: parallel assignment of slices is not supported", f.pos(s))
				}
				continue
			}
			o, err = f.assignTo(l, define)
			if err != nil {
				return "", err
			}
			if pfKind(o.Type()) == "" {
				return "", fmt.Errorf("%s: %s has unsupported type %s", f.pos(l), f.src(l), o.Type())
			}
			if len(s.Lhs) == 1 {
				fmt.Fprintf(&b, "%slet %s := %s in\n", ind, f.nameOf(o), ts[i].v)
			} else {
				t := f.fresh("t")
				fmt.Fprintf(&b, "%slet %s := %s in\n", ind, t, ts[i].v)
				fmt.Fprintf(&second, "%slet %s := %s in\n", ind, f.nameOf(o), t)
			}
		}
		b.WriteString(second.String())
	case token.ADD_ASSIGN, token.SUB_ASSIGN, token.MUL_ASSIGN:
		if len(s.Lhs) != 1 || len(s.Rhs) != 1 {
			return "", fmt.Errorf("%s: unsupported assignment shape", f.pos(s))
		}
		o, err := f.assignTo(s.Lhs[0], false)
		if err != nil {
			return "", err
		}
		x, err := f.expr(s.Lhs[0])
		if err != nil {
			return "", err
		}
		y, err := f.expr(s.Rhs[0])
		if err != nil {
			return "", err
		}
		op := map[token.Token]string{token.ADD_ASSIGN: " + ", token.SUB_ASSIGN: " - ", token.MUL_ASSIGN: " * "}[s.Tok]
		fmt.Fprintf(&b, "%slet %s := %s in\n", ind, f.names[o], f.wrap(pfKind(o.Type()), x+op+y))
	default:
		return "", fmt.Errorf("%s: unsupported assignment operator %s", f.pos(s), s.Tok)
	}
	r, err := f.stmts(rest, ind)
	return b.String() + r, err
}

// return fmt.Sprintf(fmt, self.Pos, self.Message(), self.Src[p:q], strings.Repeat(".", x), strings.Repeat(".", y))
func (f *pfFn) excerptReturn(call *ast.CallExpr, ind string) (string, error) {
	var lo, hi string
	var reps []string
	nslice := 0
	for i, a := range call.Args {
		switch a := a.(type) {
		case *ast.BasicLit:
			if i == 0 && a.Kind == token.STRING {
				continue
			}
		case *ast.SliceExpr:
			if f.src(a.X) != f.spec.sliceOf || a.Slice3 {
				return "", fmt.Errorf("%s: unexpected slice %s", f.pos(a), f.src(a))
			}
			nslice++
			lo, hi = "0", f.spec.sizeOf
			var err error
			if a.Low != nil {
				if lo, err = f.expr(a.Low); err != nil {
					return "", err
				}
			}
			if a.High != nil {
				if hi, err = f.expr(a.High); err != nil {
					return "", err
				}
			}
			continue
		case *ast.CallExpr:
			if f.src(a.Fun) == "strings.Repeat" && len(a.Args) == 2 {
				if lit, ok := a.Args[0].(*ast.BasicLit); !ok || len(lit.Value) != 3 {
					return "", fmt.Errorf("%s: strings.Repeat of something other than a 1-byte literal", f.pos(a))
				}
				x, err := f.expr(a.Args[1])
				if err != nil {
					return "", err
				}
				reps = append(reps, x)
				continue
			}
			if f.src(a) == "self.Message()" {
				continue
			}
		case *ast.SelectorExpr:
			if f.src(a) == "self.Pos" {
				continue
			}
		}
		return "", fmt.Errorf("%s: unsupported argument of the final fmt.Sprintf: %s", f.pos(a), f.src(a))
	}
	if nslice != 1 || len(reps) != 2 {
		return "", fmt.Errorf("%s: expected exactly one slice of %s and two strings.Repeat in the final fmt.Sprintf", f.pos(call), f.spec.sliceOf)
	}
	return fmt.Sprintf("%s(%s, %s, %s, %s)", ind, lo, hi, reps[0], reps[1]), nil
}

func emitPureFns(w *world) (string, error) {
	var b strings.Builder
	b.WriteString("From Coq Require Import ZArith Bool.\nFrom SV.Safe Require Import GoInt.\nOpen Scope Z_scope.\n\n")
	// one go/packages call for everything (each Load spawns `go list`)
	var paths []string
	for _, sp := range pfSpecs {
		paths = append(paths, sp.path)
	}
	paths = append(paths, mod+"/option")
	if err := w.load(pfDedupe(paths)...); err != nil {
		return "", err
	}
	callee := map[string]string{}
	var gdefs []string
	gdone := map[string]bool{}
	var listed []string
	for i := range pfSpecs {
		sp := &pfSpecs[i]
		fd, p, err := w.funcDecl(sp.path, sp.recv, sp.name)
		if err != nil {
			return "", err
		}
		if fd.Body == nil {
			return "", fmt.Errorf("%s has no body", sp.coq)
		}
		f := &pfFn{spec: sp, p: p, fd: fd, names: map[types.Object]string{}, used: map[string]bool{}, abs: map[string]string{},
			gseen: map[string]bool{}, gvars: map[string]*types.Var{}, callee: callee, slices: map[types.Object]bool{}, ptrs: map[types.Object]bool{}}
		for _, r := range []string{"wrapS", "wrapU", "pool_len", "pool_cap"} {
			f.used[r] = true
		}
		for _, a := range sp.abs {
			f.abs[a[0]] = a[1]
			f.used[a[1]] = true
		}
		opaque := map[string]bool{}
		for _, o := range sp.opaque {
			opaque[o] = true
		}
		var params []string
		addParam := func(id *ast.Ident, t types.Type) error {
			o := p.TypesInfo.Defs[id]
			if opaque[id.Name] {
				return nil
			}
			switch {
			case pfKind(t) != "":
				params = append(params, f.nameOf(o))
			case pfIsByteSlice(t):
				f.slices[o] = true
				n := f.nameOf(o)
				f.used[n+"_len"], f.used[n+"_cap"] = true, true
				params = append(params, n+"_len", n+"_cap")
			default:
				if pt, ok := t.Underlying().(*types.Pointer); ok && pfIsByteSlice(pt.Elem()) {
					f.ptrs[o] = true
					n := f.nameOf(o)
					params = append(params, n+"_len", n+"_cap")
					return nil
				}
				return fmt.Errorf("%s: parameter %s has unsupported type %s", f.pos(id), id.Name, t)
			}
			return nil
		}
		if fd.Recv != nil {
			for _, fl := range fd.Recv.List {
				for _, id := range fl.Names {
					if err := addParam(id, p.TypesInfo.Defs[id].Type()); err != nil {
						return "", err
					}
				}
			}
		}
		for _, fl := range fd.Type.Params.List {
			for _, id := range fl.Names {
				if err := addParam(id, p.TypesInfo.Defs[id].Type()); err != nil {
					return "", err
				}
			}
		}
		for _, a := range sp.abs {
			params = append(params, a[1])
		}
		var pre strings.Builder
		if fd.Type.Results != nil {
			for _, fl := range fd.Type.Results.List {
				for _, id := range fl.Names {
					o := p.TypesInfo.Defs[id]
					if pfKind(o.Type()) == "" {
						return "", fmt.Errorf("%s: named result %s has unsupported type", f.pos(id), id.Name)
					}
					f.results = append(f.results, o)
					fmt.Fprintf(&pre, "  let %s := 0 in\n", f.nameOf(o))
				}
			}
		}
		body, err := f.stmts(fd.Body.List, "  ")
		if err != nil {
			return "", fmt.Errorf("%s: %v", sp.coq, err)
		}
		all := append(append(append([]string{}, f.globals...), f.extra...), params...)
		if sp.doc != "" {
			fmt.Fprintf(&b, "(* %s *)\n", sp.doc)
		}
		fmt.Fprintf(&b, "(* %s *)\n", p.Fset.Position(fd.Pos()))
		if len(all) == 0 {
			fmt.Fprintf(&b, "Definition %s :=\n%s%s.\n\n", sp.coq, pre.String(), body)
		} else {
			fmt.Fprintf(&b, "Definition %s (%s : Z) :=\n%s%s.\n\n", sp.coq, strings.Join(all, " "), pre.String(), body)
		}
		listed = append(listed, sp.coq)
		if len(f.globals) == 0 && len(f.extra) == 0 && len(f.ptrs) == 0 && len(sp.abs) == 0 {
			// callable from later functions with exactly its Go arguments
			obj := p.TypesInfo.Defs[fd.Name].(*types.Func)
			callee[obj.FullName()] = sp.coq
		}
		// initial values of the package-level variables used
		for _, g := range f.globals {
			if gdone[g] {
				continue
			}
			gdone[g] = true
			gv := f.gvars[g]
			pk, err := w.pkg(gv.Pkg().Path())
			if err != nil {
				return "", err
			}
			v, err := pfVarInit(pk, gv.Name())
			if err != nil {
				return "", err
			}
			gdefs = append(gdefs, fmt.Sprintf("(* initial value of %s.%s (a variable: callers may change it) *)\nDefinition %s_init : Z := %d.\n", gv.Pkg().Path(), gv.Name(), g, v))
		}
	}
	for _, g := range gdefs {
		b.WriteString(g + "\n")
	}
	fmt.Fprintf(&b, "(* translated functions: %s *)\n", strings.Join(listed, ", "))
	return b.String(), nil
}

func pfVarInit(p *pkgT, name string) (int64, error) {
	for _, file := range p.Syntax {
		for _, d := range file.Decls {
			gd, ok := d.(*ast.GenDecl)
			if !ok || gd.Tok != token.VAR {
				continue
			}
			for _, sp := range gd.Specs {
				vs := sp.(*ast.ValueSpec)
				for i, n := range vs.Names {
					if n.Name == name && i < len(vs.Values) {
						return evalInt(p, vs.Values[i])
					}
				}
			}
		}
	}
	return 0, fmt.Errorf("no initialiser for %s", name)
}

func pfDedupe(in []string) []string {
	seen := map[string]bool{}
	var out []string
	for _, s := range in {
		if !seen[s] {
			seen[s] = true
			out = append(out, s)
		}
	}
	return out
}
