package main

// Gen/Tables.v: the escape tables and flag/error constants the quote / unquote / html_escape / utf8
// routines are driven by.  C side: native/parsing.h (tables), native/types.h (F_*, ERR_*, MAX_RECURSE);
// Go side: internal/native/types (flags, errors, BufPaddingSize, MAX_RECURSE), internal/rt (SafeSet, Hex).

import (
	"fmt"
	"go/ast"
	"go/constant"
	"os"
	"path/filepath"
	"regexp"
	"strconv"
	"strings"
)

func init() { emitters["Tables"] = emitTables }

var (
	reCLineComment  = regexp.MustCompile(`(?m)//.*$`)
	reCBlockComment = regexp.MustCompile(`(?s)/\*.*?\*/`)
	reQuotedEntry   = regexp.MustCompile(`\[\s*('(?:[^'\\]|\\.)+'|0[xX][0-9a-fA-F]+|\d+)\s*\]\s*=\s*\{\s*\.n\s*=\s*(\d+)\s*,\s*\.s\s*=\s*("(?:[^"\\]|\\.)*"|\{\s*0\s*\})\s*\}`)
	reCharEntry     = regexp.MustCompile(`\[\s*('(?:[^'\\]|\\.)+'|0[xX][0-9a-fA-F]+|\d+)\s*\]\s*=\s*('(?:[^'\\]|\\.)+'|-?\d+)`)
	reDefInt        = regexp.MustCompile(`(?m)^\s*#define\s+([A-Z_0-9a-z]+)\s+(\d+)\s*$`)
)

func stripC(src string) string {
	// string/char literals of the files we read contain neither "//" nor "/*"
	return reCLineComment.ReplaceAllString(reCBlockComment.ReplaceAllString(src, " "), "")
}

func cCharValue(lit string) (int, error) {
	if strings.HasPrefix(lit, "'") {
		body := lit[1 : len(lit)-1]
		r, _, tail, err := strconv.UnquoteChar(body, '\'')
		if err != nil || tail != "" {
			// strconv accepts \xHH, \n, \t, \b, \f, \r, \\, \'; C's '"' and '\"' handled here
			if body == `"` || body == `\"` {
				return '"', nil
			}
			if body == `\0` {
				return 0, nil
			}
			return 0, fmt.Errorf("unsupported C character literal %s", lit)
		}
		if r > 255 {
			return 0, fmt.Errorf("character literal %s out of range", lit)
		}
		return int(r), nil
	}
	v, err := strconv.ParseInt(lit, 0, 32)
	return int(v), err
}

func cStringBytes(lit string) ([]byte, error) {
	if strings.HasPrefix(lit, "{") {
		return nil, nil
	}
	s, err := strconv.Unquote(lit) // C escapes used in these tables (\\ \" \xHH) coincide with Go's
	if err != nil {
		return nil, fmt.Errorf("unsupported C string literal %s: %v", lit, err)
	}
	return []byte(s), nil
}

// body of `static const <type> <name>[256] = { ... };`
func cTableBody(src, typ, name string) (string, error) {
	re := regexp.MustCompile(`static\s+const\s+` + typ + `\s+` + name + `\s*\[\s*256\s*\]\s*=\s*\{`)
	loc := re.FindStringIndex(src)
	if loc == nil {
		return "", fmt.Errorf("table %s not found", name)
	}
	end := strings.Index(src[loc[1]:], "};")
	if end < 0 {
		return "", fmt.Errorf("table %s not terminated", name)
	}
	return src[loc[1] : loc[1]+end], nil
}

func onlySeparators(s string) bool { return strings.Trim(s, " \t\r\n,") == "" }

type quotedEnt struct {
	n int
	s []byte
}

func cQuotedTable(src, name string) ([256]quotedEnt, error) {
	var t [256]quotedEnt
	body, err := cTableBody(src, "quoted_t", name)
	if err != nil {
		return t, err
	}
	seen := map[int]bool{}
	for _, m := range reQuotedEntry.FindAllStringSubmatch(body, -1) {
		k, err := cCharValue(m[1])
		if err != nil {
			return t, err
		}
		if k < 0 || k > 255 || seen[k] {
			return t, fmt.Errorf("%s: bad or duplicate index %s", name, m[1])
		}
		seen[k] = true
		n, _ := strconv.Atoi(m[2])
		s, err := cStringBytes(m[3])
		if err != nil {
			return t, err
		}
		t[k] = quotedEnt{n, s}
	}
	if rest := reQuotedEntry.ReplaceAllString(body, ""); !onlySeparators(rest) {
		return t, fmt.Errorf("%s: unsupported initializer text %q", name, strings.TrimSpace(rest))
	}
	return t, nil
}

func coqBytes(s []byte) string {
	var p []string
	for _, c := range s {
		p = append(p, strconv.Itoa(int(c)))
	}
	return "[" + strings.Join(p, "; ") + "]"
}

func emitQuoted(b *strings.Builder, name string, t [256]quotedEnt) {
	fmt.Fprintf(b, "Definition %s : list (N * list N) := [\n", name)
	for i, e := range t {
		sep := ";"
		if i == 255 {
			sep = ""
		}
		fmt.Fprintf(b, "  (%d, %s)%s\n", e.n, coqBytes(e.s), sep)
	}
	b.WriteString("].\n\n")
}

func emitTables(w *world) (string, error) {
	var b strings.Builder
	b.WriteString("From Coq Require Import NArith ZArith Bool List.\nImport ListNotations.\nOpen Scope N_scope.\n\n")
	raw, err := os.ReadFile(filepath.Join(*repo, "native", "parsing.h"))
	if err != nil {
		return "", err
	}
	src := stripC(string(raw))
	b.WriteString("(* ---- native/parsing.h: quoted_t tables, entry i = (n, bytes of the initialiser of s) ---- *)\n")
	for _, name := range []string{"_SingleQuoteTab", "_DoubleQuoteTab", "_HtmlQuoteTab"} {
		t, err := cQuotedTable(src, name)
		if err != nil {
			return "", err
		}
		emitQuoted(&b, name, t)
	}
	m := regexp.MustCompile(`(?m)^\s*#define\s+MAX_ESCAPED_BYTES\s+(\d+)\s*$`).FindStringSubmatch(src)
	if m == nil {
		return "", fmt.Errorf("MAX_ESCAPED_BYTES not found")
	}
	fmt.Fprintf(&b, "Definition MAX_ESCAPED_BYTES : N := %s.\n\n", m[1])

	// _EscTab: plain list of 0/1, missing tail is zero
	body, err := cTableBody(src, "bool", "_EscTab")
	if err != nil {
		return "", err
	}
	var esc [256]bool
	idx := 0
	for _, f := range strings.FieldsFunc(body, func(r rune) bool { return r == ',' || r == ' ' || r == '\n' || r == '\t' || r == '\r' }) {
		if f != "0" && f != "1" {
			return "", fmt.Errorf("_EscTab: unsupported element %q", f)
		}
		if idx >= 256 {
			return "", fmt.Errorf("_EscTab: too many elements")
		}
		esc[idx] = f == "1"
		idx++
	}
	b.WriteString("Definition _EscTab : list bool := [")
	for i, v := range esc {
		if i > 0 {
			b.WriteString("; ")
		}
		if i%16 == 0 {
			b.WriteString("\n  ")
		}
		fmt.Fprintf(&b, "%v", v)
	}
	b.WriteString("].\n\n")

	// _UnquoteTab: char values (signed), 'u' -> -1
	body, err = cTableBody(src, "char", "_UnquoteTab")
	if err != nil {
		return "", err
	}
	var unq [256]int
	seen := map[int]bool{}
	for _, m := range reCharEntry.FindAllStringSubmatch(body, -1) {
		k, err := cCharValue(m[1])
		if err != nil {
			return "", err
		}
		var v int
		if strings.HasPrefix(m[2], "'") {
			if v, err = cCharValue(m[2]); err != nil {
				return "", err
			}
			if v > 127 {
				v -= 256
			}
		} else {
			v, _ = strconv.Atoi(m[2])
		}
		if k < 0 || k > 255 || seen[k] {
			return "", fmt.Errorf("_UnquoteTab: bad or duplicate index %s", m[1])
		}
		seen[k] = true
		unq[k] = v
	}
	if rest := reCharEntry.ReplaceAllString(body, ""); !onlySeparators(rest) {
		return "", fmt.Errorf("_UnquoteTab: unsupported initializer text %q", strings.TrimSpace(rest))
	}
	b.WriteString("Definition _UnquoteTab : list Z := [")
	for i, v := range unq {
		if i > 0 {
			b.WriteString("; ")
		}
		if i%16 == 0 {
			b.WriteString("\n  ")
		}
		if v < 0 {
			fmt.Fprintf(&b, "(%d)%%Z", v)
		} else {
			fmt.Fprintf(&b, "%d%%Z", v)
		}
	}
	b.WriteString("].\n\n")

	// ---- native/types.h
	raw, err = os.ReadFile(filepath.Join(*repo, "native", "types.h"))
	if err != nil {
		return "", err
	}
	th := stripC(string(raw))
	flags, err := cFlagDefs(filepath.Join(*repo, "native"))
	if err != nil {
		return "", err
	}
	b.WriteString("(* ---- native/types.h ---- *)\n")
	for _, n := range []string{"F_DBLUNQ", "F_UNIREP"} {
		v, ok := flags[n]
		if !ok {
			return "", fmt.Errorf("native/types.h: %s not found", n)
		}
		fmt.Fprintf(&b, "Definition c_%s : N := %d.\n", n, v)
	}
	ints := map[string]string{}
	for _, m := range reDefInt.FindAllStringSubmatch(th, -1) {
		ints[m[1]] = m[2]
	}
	for _, n := range []string{"ERR_EOF", "ERR_INVAL", "ERR_ESCAPE", "ERR_UNICODE", "MAX_RECURSE"} {
		v, ok := ints[n]
		if !ok {
			return "", fmt.Errorf("native/types.h: %s not found", n)
		}
		fmt.Fprintf(&b, "Definition c_%s : N := %s.\n", n, v)
	}

	// ---- Go side
	b.WriteString("\n(* ---- internal/native/types (Go) ---- *)\n")
	tp := mod + "/internal/native/types"
	for _, n := range []string{"F_DOUBLE_UNQUOTE", "F_UNICODE_REPLACE", "ERR_EOF", "ERR_INVALID_CHAR", "ERR_INVALID_ESCAPE", "ERR_INVALID_UNICODE", "MAX_RECURSE", "BufPaddingSize"} {
		v, err := w.constInt(tp, n)
		if err != nil {
			return "", err
		}
		fmt.Fprintf(&b, "Definition go_%s : N := %d.\n", n, v)
	}

	// ---- internal/rt: SafeSet, Hex
	rtp, err := w.pkg(mod + "/internal/rt")
	if err != nil {
		return "", err
	}
	var safe [128]bool
	foundSafe, foundHex := false, false
	for _, f := range rtp.Syntax {
		for _, d := range f.Decls {
			gd, ok := d.(*ast.GenDecl)
			if !ok {
				continue
			}
			for _, sp := range gd.Specs {
				vs, ok := sp.(*ast.ValueSpec)
				if !ok || len(vs.Names) != 1 || len(vs.Values) != 1 {
					continue
				}
				switch vs.Names[0].Name {
				case "SafeSet":
					cl, ok := vs.Values[0].(*ast.CompositeLit)
					if !ok {
						return "", fmt.Errorf("rt.SafeSet is not a composite literal")
					}
					for _, e := range cl.Elts {
						kv, ok := e.(*ast.KeyValueExpr)
						if !ok {
							return "", fmt.Errorf("rt.SafeSet: positional element unsupported")
						}
						k, err := evalInt(rtp, kv.Key)
						if err != nil {
							return "", err
						}
						tv, ok := rtp.TypesInfo.Types[kv.Value]
						if !ok || tv.Value == nil || tv.Value.Kind() != constant.Bool {
							return "", fmt.Errorf("rt.SafeSet: non-constant value")
						}
						if k < 0 || k >= 128 {
							return "", fmt.Errorf("rt.SafeSet: index %d out of range", k)
						}
						safe[k] = constant.BoolVal(tv.Value)
					}
					foundSafe = true
				case "Hex":
					tv, ok := rtp.TypesInfo.Types[vs.Values[0]]
					if !ok || tv.Value == nil || tv.Value.Kind() != constant.String {
						return "", fmt.Errorf("rt.Hex is not a constant string")
					}
					fmt.Fprintf(&b, "\n(* ---- internal/rt ---- *)\nDefinition go_Hex : list N := %s.\n", coqBytes([]byte(constant.StringVal(tv.Value))))
					foundHex = true
				}
			}
		}
	}
	if !foundSafe || !foundHex {
		return "", fmt.Errorf("rt.SafeSet / rt.Hex not found")
	}
	b.WriteString("Definition go_SafeSet : list bool := [")
	for i, v := range safe {
		if i > 0 {
			b.WriteString("; ")
		}
		if i%16 == 0 {
			b.WriteString("\n  ")
		}
		fmt.Fprintf(&b, "%v", v)
	}
	b.WriteString("].\n")
	return b.String(), nil
}
