package main

// Gen/AstConsts.v: the constants of /repo/ast that parameterise the node model of Ast/Linked.v and Ast/Node.v
// (C15, C14): the chunk size of linkedNodes / linkedPairs and the pair count above which an object gets a key index.
// The emitter also checks the syntactic facts the model relies on: both chunk array types are declared with
// _DEFAULT_NODE_CAP, and newObject / setObject compare the size with _Threshold_Index using ">".

import (
	"fmt"
	"go/ast"
	"go/token"
	"go/types"
	"strings"
)

func init() { emitters["AstConsts"] = emitAstConsts }

func emitAstConsts(w *world) (string, error) {
	const path = mod + "/ast"
	p, err := w.pkg(path)
	if err != nil {
		return "", err
	}
	capv, err := w.constInt(path, "_DEFAULT_NODE_CAP")
	if err != nil {
		return "", err
	}
	thr, err := w.constInt(path, "_Threshold_Index")
	if err != nil {
		return "", err
	}
	if capv <= 0 || capv > 4096 || thr < 0 || thr > 1<<20 {
		return "", fmt.Errorf("ast constants out of the modelled range: _DEFAULT_NODE_CAP=%d _Threshold_Index=%d", capv, thr)
	}
	// nodeChunk and pairChunk must be arrays of exactly _DEFAULT_NODE_CAP cells
	for _, name := range []string{"nodeChunk", "pairChunk"} {
		o := p.Types.Scope().Lookup(name)
		if o == nil {
			return "", fmt.Errorf("%s.%s not found", path, name)
		}
		arr, ok := o.Type().Underlying().(*types.Array)
		if !ok || arr.Len() != capv {
			return "", fmt.Errorf("%s.%s is not an array of _DEFAULT_NODE_CAP (%d) cells", path, name, capv)
		}
	}
	// newObject / setObject: `if v.size > _Threshold_Index { v.BuildIndex() }`
	for _, fn := range []struct{ recv, name string }{{"", "newObject"}, {"Node", "setObject"}} {
		fd, pk, err := w.funcDecl(path, fn.recv, fn.name)
		if err != nil {
			return "", err
		}
		found := false
		ast.Inspect(fd.Body, func(n ast.Node) bool {
			ifs, ok := n.(*ast.IfStmt)
			if !ok {
				return true
			}
			be, ok := ifs.Cond.(*ast.BinaryExpr)
			if !ok || be.Op != token.GTR {
				return true
			}
			id, ok := be.Y.(*ast.Ident)
			if !ok || id.Name != "_Threshold_Index" {
				return true
			}
			sel, ok := be.X.(*ast.SelectorExpr)
			if !ok || sel.Sel.Name != "size" {
				return true
			}
			calls := false
			ast.Inspect(ifs.Body, func(m ast.Node) bool {
				if c, ok := m.(*ast.CallExpr); ok {
					if s, ok := c.Fun.(*ast.SelectorExpr); ok && s.Sel.Name == "BuildIndex" {
						calls = true
					}
				}
				return true
			})
			found = found || calls
			return true
		})
		if !found {
			return "", fmt.Errorf("%s: %s no longer has the shape `if v.size > _Threshold_Index { v.BuildIndex() }` the node model transcribes", pk.Fset.Position(fd.Pos()), fn.name)
		}
	}
	var b strings.Builder
	b.WriteString("(* constants of /repo/ast: chunk size of linkedNodes/linkedPairs, index threshold of objects *)\n")
	fmt.Fprintf(&b, "Definition DEFAULT_NODE_CAP : nat := %d.\n", capv)
	fmt.Fprintf(&b, "Definition Threshold_Index : nat := %d.\n", thr)
	return b.String(), nil
}
