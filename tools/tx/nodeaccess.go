package main

// Gen/NodeAccess.v: every access to the fields t / l / p / m of ast.Node (and whole-struct reads/writes `*self`)
// and every call of a Node method, per function of package ast, in source order, tagged by syntactic position:
//   Atomic      operand of atomic.LoadInt64 / atomic.StoreInt64
//   UnderLock   after X.lock() (until X.unlock(); a deferred unlock holds to the end of the function)
//   UnderRLock  after X.rlock() until X.runlock()
//   Plain       otherwise
// plus `guarded`: the access comes after a successful X.checkRaw() / X.should(..) on the same receiver, after
// `if X.isRaw() { ...return }`, or inside `if !X.isRaw() { ... }` - i.e. after an atomic load observed the node non-raw.
// The walk is a small abstract interpretation over the statement tree (if / else / switch / for / range / blocks);
// a statement kind it does not know is an error.

import (
	"fmt"
	"go/ast"
	"go/token"
	"go/types"
	"sort"
	"strings"
)

func init() { emitters["NodeAccess"] = emitNodeAccess }

type naState struct {
	lock    int // 0 none, 1 write lock, 2 read lock
	guarded bool
}

type naEvent struct {
	call    bool
	name    string // field name or callee
	write   bool
	self    bool
	atomic  bool
	st      naState
	line    int
	basestr string
	kind    int
}

type naWalker struct {
	p      *pkgT
	recv   string
	node   *types.Named
	events []naEvent
	err    error
}

func (w *naWalker) fail(n ast.Node, format string, a ...interface{}) {
	if w.err == nil {
		w.err = fmt.Errorf("%s: %s", w.p.Fset.Position(n.Pos()), fmt.Sprintf(format, a...))
	}
}

func (w *naWalker) isNodeType(t types.Type) bool {
	if pt, ok := t.(*types.Pointer); ok {
		t = pt.Elem()
	}
	n, ok := t.(*types.Named)
	return ok && n == w.node
}

func (w *naWalker) isSelf(e ast.Expr) bool {
	for {
		if pe, ok := e.(*ast.ParenExpr); ok {
			e = pe.X
			continue
		}
		break
	}
	id, ok := e.(*ast.Ident)
	return ok && w.recv != "" && id.Name == w.recv
}

// 0 = the method receiver, 1 = a local variable / parameter holding a Node BY VALUE (a private copy), 2 = anything else
func (w *naWalker) baseKind(e ast.Expr) int {
	if w.isSelf(e) {
		return 0
	}
	for {
		if pe, ok := e.(*ast.ParenExpr); ok {
			e = pe.X
			continue
		}
		break
	}
	switch x := e.(type) {
	case *ast.CallExpr: // the result of a call (a freshly built node such as newSyntaxError(..)) is private until stored
		return 1
	case *ast.UnaryExpr:
		if _, ok := x.X.(*ast.CompositeLit); ok && x.Op == token.AND {
			return 1
		}
	}
	if id, ok := e.(*ast.Ident); ok {
		if v, ok := w.p.TypesInfo.Uses[id].(*types.Var); ok && !v.IsField() && v.Parent() != w.p.Types.Scope() {
			if n, ok := v.Type().(*types.Named); ok && n == w.node {
				return 1
			}
		}
	}
	return 2
}

func exprStr(e ast.Expr) string {
	switch v := e.(type) {
	case *ast.Ident:
		return v.Name
	case *ast.SelectorExpr:
		return exprStr(v.X) + "." + v.Sel.Name
	case *ast.StarExpr:
		return "*" + exprStr(v.X)
	case *ast.ParenExpr:
		return exprStr(v.X)
	case *ast.UnaryExpr:
		return v.Op.String() + exprStr(v.X)
	case *ast.CallExpr:
		return exprStr(v.Fun) + "()"
	case *ast.IndexExpr:
		return exprStr(v.X) + "[]"
	}
	return "?"
}

// the Node method called by a call expression, if any: (method name, receiver expression)
func (w *naWalker) nodeMethod(c *ast.CallExpr) (string, ast.Expr) {
	sel, ok := c.Fun.(*ast.SelectorExpr)
	if !ok {
		return "", nil
	}
	s := w.p.TypesInfo.Selections[sel]
	if s == nil || s.Kind() != types.MethodVal {
		return "", nil
	}
	if !w.isNodeType(s.Recv()) {
		return "", nil
	}
	return sel.Sel.Name, sel.X
}

func (w *naWalker) atomicCall(c *ast.CallExpr) (string, bool) {
	sel, ok := c.Fun.(*ast.SelectorExpr)
	if !ok {
		return "", false
	}
	id, ok := sel.X.(*ast.Ident)
	if !ok {
		return "", false
	}
	pn, ok := w.p.TypesInfo.Uses[id].(*types.PkgName)
	if !ok || pn.Imported().Path() != "sync/atomic" {
		return "", false
	}
	return sel.Sel.Name, true
}

func (w *naWalker) add(e naEvent, base ast.Expr) {
	e.kind = w.baseKind(base)
	w.events = append(w.events, e)
}

func (w *naWalker) line(n ast.Node) int { return w.p.Fset.Position(n.Pos()).Line }

// field of Node selected by a selector expression
func (w *naWalker) nodeField(sel *ast.SelectorExpr) (string, bool) {
	s := w.p.TypesInfo.Selections[sel]
	if s == nil || s.Kind() != types.FieldVal {
		return "", false
	}
	if !w.isNodeType(s.Recv()) {
		return "", false
	}
	return sel.Sel.Name, true
}

// expression in rvalue position
func (w *naWalker) expr(e ast.Expr, st *naState) {
	if e == nil {
		return
	}
	switch v := e.(type) {
	case *ast.SelectorExpr:
		if f, ok := w.nodeField(v); ok {
			w.add(naEvent{name: f, self: w.isSelf(v.X), st: *st, line: w.line(v), basestr: exprStr(v.X)}, v.X)
			if !w.isSelf(v.X) {
				w.expr(v.X, st)
			}
			return
		}
		w.expr(v.X, st)
	case *ast.StarExpr:
		if tv, ok := w.p.TypesInfo.Types[v]; ok && w.isNodeType(tv.Type) {
			if _, isPtr := w.p.TypesInfo.Types[v.X].Type.(*types.Pointer); isPtr {
				w.add(naEvent{name: "*", self: w.isSelf(v.X), st: *st, line: w.line(v), basestr: exprStr(v.X)}, v.X)
			}
		}
		w.expr(v.X, st)
	case *ast.CallExpr:
		if name, ok := w.atomicCall(v); ok {
			if len(v.Args) >= 1 {
				if u, ok := v.Args[0].(*ast.UnaryExpr); ok && u.Op == token.AND {
					if sel, ok := u.X.(*ast.SelectorExpr); ok {
						if f, ok := w.nodeField(sel); ok {
							w.add(naEvent{name: f, write: strings.HasPrefix(name, "Store") || strings.HasPrefix(name, "Swap") || strings.HasPrefix(name, "CompareAndSwap") || strings.HasPrefix(name, "Add"),
								self: w.isSelf(sel.X), atomic: true, st: *st, line: w.line(v), basestr: exprStr(sel.X)}, sel.X)
							for _, a := range v.Args[1:] {
								w.expr(a, st)
							}
							return
						}
					}
				}
			}
		}
		if m, recv := w.nodeMethod(v); m != "" {
			for _, a := range v.Args {
				w.expr(a, st)
			}
			if !w.isSelf(recv) {
				w.expr(recv, st)
			}
			w.add(naEvent{call: true, name: m, self: w.isSelf(recv), st: *st, line: w.line(v), basestr: exprStr(recv)}, recv)
			if w.isSelf(recv) {
				switch m {
				case "lock":
					st.lock = 1
				case "rlock":
					st.lock = 2
				case "unlock", "runlock":
					st.lock = 0
				case "checkRaw", "should":
					st.guarded = true
				}
			}
			return
		}
		w.expr(v.Fun, st)
		for _, a := range v.Args {
			w.expr(a, st)
		}
	case *ast.UnaryExpr:
		if v.Op == token.AND {
			if sel, ok := v.X.(*ast.SelectorExpr); ok {
				if f, ok := w.nodeField(sel); ok {
					// address of a field escapes: treat as read+write
					w.add(naEvent{name: f, self: w.isSelf(sel.X), st: *st, line: w.line(v), basestr: exprStr(sel.X)}, sel.X)
					w.add(naEvent{name: f, write: true, self: w.isSelf(sel.X), st: *st, line: w.line(v), basestr: exprStr(sel.X)}, sel.X)
					return
				}
			}
		}
		w.expr(v.X, st)
	case *ast.BinaryExpr:
		w.expr(v.X, st)
		w.expr(v.Y, st)
	case *ast.ParenExpr:
		w.expr(v.X, st)
	case *ast.IndexExpr:
		w.expr(v.X, st)
		w.expr(v.Index, st)
	case *ast.SliceExpr:
		w.expr(v.X, st)
		w.expr(v.Low, st)
		w.expr(v.High, st)
		w.expr(v.Max, st)
	case *ast.TypeAssertExpr:
		w.expr(v.X, st)
	case *ast.CompositeLit:
		for _, el := range v.Elts {
			if kv, ok := el.(*ast.KeyValueExpr); ok {
				w.expr(kv.Value, st)
			} else {
				w.expr(el, st)
			}
		}
	case *ast.KeyValueExpr:
		w.expr(v.Value, st)
	case *ast.FuncLit:
		inner := *st
		w.block(v.Body.List, &inner)
	case *ast.Ident, *ast.BasicLit, *ast.ArrayType, *ast.MapType, *ast.StructType, *ast.InterfaceType, *ast.FuncType, *ast.ChanType, *ast.Ellipsis:
	default:
		w.fail(e, "unsupported expression %T", e)
	}
}

// expression in lvalue position
func (w *naWalker) lvalue(e ast.Expr, st *naState) {
	switch v := e.(type) {
	case *ast.SelectorExpr:
		if f, ok := w.nodeField(v); ok {
			w.add(naEvent{name: f, write: true, self: w.isSelf(v.X), st: *st, line: w.line(v), basestr: exprStr(v.X)}, v.X)
			if !w.isSelf(v.X) {
				w.expr(v.X, st)
			}
			return
		}
		w.expr(v.X, st)
	case *ast.StarExpr:
		if tv, ok := w.p.TypesInfo.Types[v]; ok && w.isNodeType(tv.Type) {
			w.add(naEvent{name: "*", write: true, self: w.isSelf(v.X), st: *st, line: w.line(v), basestr: exprStr(v.X)}, v.X)
			if !w.isSelf(v.X) {
				w.expr(v.X, st)
			}
			return
		}
		w.expr(v.X, st)
	case *ast.IndexExpr:
		w.expr(v.X, st)
		w.expr(v.Index, st)
	case *ast.ParenExpr:
		w.lvalue(v.X, st)
	case *ast.Ident:
	default:
		w.fail(e, "unsupported lvalue %T", e)
	}
}

func terminates(list []ast.Stmt) bool {
	if len(list) == 0 {
		return false
	}
	switch s := list[len(list)-1].(type) {
	case *ast.ReturnStmt:
		return true
	case *ast.BranchStmt:
		return s.Tok == token.GOTO || s.Tok == token.BREAK || s.Tok == token.CONTINUE
	case *ast.ExprStmt:
		if c, ok := s.X.(*ast.CallExpr); ok {
			if id, ok := c.Fun.(*ast.Ident); ok && id.Name == "panic" {
				return true
			}
		}
	case *ast.BlockStmt:
		return terminates(s.List)
	}
	return false
}

// +1: condition true means the receiver may be raw and false means it is not (X.isRaw()); -1: the converse
// (!X.isRaw(), X.isAny()); 0: unrelated
func (w *naWalker) rawTest(e ast.Expr) int {
	switch v := e.(type) {
	case *ast.ParenExpr:
		return w.rawTest(v.X)
	case *ast.UnaryExpr:
		if v.Op == token.NOT {
			return -w.rawTest(v.X)
		}
	case *ast.CallExpr:
		if m, recv := w.nodeMethod(v); w.isSelf(recv) {
			switch m {
			case "isRaw":
				return 1
			case "isAny": // atomic load observed _V_ANY: true => certainly not raw
				return -1
			}
		}
	}
	return 0
}

func merge(a, b naState) naState {
	r := naState{}
	if a.lock == b.lock {
		r.lock = a.lock
	}
	r.guarded = a.guarded && b.guarded
	return r
}

func (w *naWalker) block(list []ast.Stmt, st *naState) {
	for _, s := range list {
		w.stmt(s, st)
	}
}

func (w *naWalker) stmt(s ast.Stmt, st *naState) {
	switch v := s.(type) {
	case nil:
	case *ast.ExprStmt:
		w.expr(v.X, st)
	case *ast.AssignStmt:
		for _, r := range v.Rhs {
			w.expr(r, st)
		}
		for _, l := range v.Lhs {
			if v.Tok != token.ASSIGN && v.Tok != token.DEFINE {
				w.expr(l, st) // op-assignment reads too
			}
			w.lvalue(l, st)
		}
	case *ast.IncDecStmt:
		w.expr(v.X, st)
		w.lvalue(v.X, st)
	case *ast.DeclStmt:
		if gd, ok := v.Decl.(*ast.GenDecl); ok {
			for _, sp := range gd.Specs {
				if vs, ok := sp.(*ast.ValueSpec); ok {
					for _, x := range vs.Values {
						w.expr(x, st)
					}
				}
			}
		}
	case *ast.ReturnStmt:
		for _, r := range v.Results {
			w.expr(r, st)
		}
	case *ast.DeferStmt:
		// a deferred unlock keeps the lock to the end; other deferred calls are evaluated in the current state
		if m, recv := w.nodeMethod(v.Call); (m == "unlock" || m == "runlock") && w.isSelf(recv) {
			w.add(naEvent{call: true, name: "defer " + m, self: true, st: *st, line: w.line(v), basestr: exprStr(recv)}, recv)
			return
		}
		inner := *st
		w.expr(v.Call, &inner)
	case *ast.GoStmt:
		inner := naState{}
		w.expr(v.Call, &inner)
	case *ast.BlockStmt:
		w.block(v.List, st)
	case *ast.IfStmt:
		w.stmt(v.Init, st)
		w.expr(v.Cond, st)
		rt := w.rawTest(v.Cond)
		thenSt := *st
		elseSt := *st
		if rt == -1 {
			thenSt.guarded = true
		}
		if rt == 1 {
			elseSt.guarded = true
		}
		w.block(v.Body.List, &thenSt)
		thenEnds := terminates(v.Body.List)
		elseEnds := false
		if v.Else != nil {
			w.stmt(v.Else, &elseSt)
			switch e := v.Else.(type) {
			case *ast.BlockStmt:
				elseEnds = terminates(e.List)
			}
		}
		switch {
		case thenEnds && elseEnds:
			// nothing flows out; keep the else state for any (dead) code
			*st = elseSt
		case thenEnds:
			*st = elseSt
		case elseEnds:
			*st = thenSt
		default:
			*st = merge(thenSt, elseSt)
		}
	case *ast.SwitchStmt:
		w.stmt(v.Init, st)
		w.expr(v.Tag, st)
		out := *st
		first := true
		for _, c := range v.Body.List {
			cc := c.(*ast.CaseClause)
			inner := *st
			for _, x := range cc.List {
				w.expr(x, &inner)
			}
			w.block(cc.Body, &inner)
			if !terminates(cc.Body) {
				if first {
					out = merge(*st, inner)
					first = false
				} else {
					out = merge(out, inner)
				}
			}
		}
		*st = out
	case *ast.TypeSwitchStmt:
		w.stmt(v.Init, st)
		w.stmt(v.Assign, st)
		out := *st
		for _, c := range v.Body.List {
			cc := c.(*ast.CaseClause)
			inner := *st
			w.block(cc.Body, &inner)
			if !terminates(cc.Body) {
				out = merge(out, inner)
			}
		}
		*st = out
	case *ast.ForStmt:
		w.stmt(v.Init, st)
		inner := *st
		w.expr(v.Cond, &inner)
		w.block(v.Body.List, &inner)
		w.stmt(v.Post, &inner)
		*st = merge(*st, inner)
	case *ast.RangeStmt:
		w.expr(v.X, st)
		inner := *st
		w.block(v.Body.List, &inner)
		*st = merge(*st, inner)
	case *ast.BranchStmt, *ast.EmptyStmt:
	case *ast.LabeledStmt:
		w.stmt(v.Stmt, st)
	default:
		w.fail(s, "unsupported statement %T", s)
	}
}

func emitNodeAccess(w *world) (string, error) {
	path := mod + "/ast"
	p, err := w.pkg(path)
	if err != nil {
		return "", err
	}
	obj := p.Types.Scope().Lookup("Node")
	if obj == nil {
		return "", fmt.Errorf("ast.Node not found")
	}
	named, ok := obj.Type().(*types.Named)
	if !ok {
		return "", fmt.Errorf("ast.Node is not a named type")
	}
	st, ok := named.Underlying().(*types.Struct)
	if !ok {
		return "", fmt.Errorf("ast.Node is not a struct")
	}
	var fields []string
	for i := 0; i < st.NumFields(); i++ {
		fields = append(fields, st.Field(i).Name())
	}
	type fn struct {
		name, file string
		events     []naEvent
	}
	var fns []fn
	for _, f := range p.Syntax {
		fname := p.Fset.Position(f.Pos()).Filename
		base := fname[strings.LastIndex(fname, "/")+1:]
		if isHookFile(fname) || strings.HasSuffix(base, "_test.go") {
			continue
		}
		for _, d := range f.Decls {
			fd, ok := d.(*ast.FuncDecl)
			if !ok || fd.Body == nil {
				continue
			}
			wk := &naWalker{p: p, node: named}
			name := fd.Name.Name
			if fd.Recv != nil && len(fd.Recv.List) == 1 {
				t := fd.Recv.List[0].Type
				if s, ok := t.(*ast.StarExpr); ok {
					t = s.X
				}
				if id, ok := t.(*ast.Ident); ok {
					name = id.Name + "." + name
					if id.Name == "Node" && len(fd.Recv.List[0].Names) == 1 {
						wk.recv = fd.Recv.List[0].Names[0].Name
					}
				}
			}
			state := naState{}
			wk.block(fd.Body.List, &state)
			if wk.err != nil {
				return "", wk.err
			}
			if len(wk.events) > 0 {
				fns = append(fns, fn{name, base, wk.events})
			}
		}
	}
	sort.Slice(fns, func(i, j int) bool { return fns[i].name < fns[j].name })
	var b strings.Builder
	b.WriteString("From Coq Require Import String List.\nImport ListNotations.\nOpen Scope string_scope.\n\n")
	b.WriteString("Inductive tag := Atomic | UnderLock | UnderRLock | Plain.\nInductive rw := Rd | Wr.\n")
	b.WriteString("(* base: 0 = the method receiver, 1 = a local Node held by value (private copy), 2 = any other node *)\n")
	b.WriteString("Inductive ev :=\n| Acc (field : string) (k : rw) (base : nat) (t : tag) (guarded : bool) (line : nat)\n| Call (callee : string) (base : nat) (t : tag) (guarded : bool) (line : nat).\n\n")
	fmt.Fprintf(&b, "Definition node_fields : list string := [%s].\n\n", coqList(fields))
	b.WriteString("Definition node_funcs : list (string * (string * list ev)) :=\n  [")
	for i, f := range fns {
		if i > 0 {
			b.WriteString(";\n   ")
		}
		fmt.Fprintf(&b, "(%s, (%s,\n     [", coqStr(f.name), coqStr(f.file))
		for j, e := range f.events {
			if j > 0 {
				b.WriteString(";\n      ")
			}
			tag := "Plain"
			switch {
			case e.atomic:
				tag = "Atomic"
			case e.st.lock == 1:
				tag = "UnderLock"
			case e.st.lock == 2:
				tag = "UnderRLock"
			}
			if e.call {
				fmt.Fprintf(&b, "Call %s %d %s %v %d", coqStr("Node."+e.name), e.kind, tag, e.st.guarded, e.line)
			} else {
				k := "Rd"
				if e.write {
					k = "Wr"
				}
				fmt.Fprintf(&b, "Acc %s %s %d %s %v %d", coqStr(e.name), k, e.kind, tag, e.st.guarded, e.line)
			}
		}
		b.WriteString("]))")
	}
	b.WriteString("].\n")
	return b.String(), nil
}
