package main

// Gen/EncCacheKey.v: the KEY SHAPE of the encoder program cache, from internal/encoder/vars (cache.go, stack.go).
//
//   - the package-level caches created by caching.CreateProgramCache()            -> Inductive enc_cache
//   - func cacheOf(pv bool) *caching.ProgramCache { if pv { return A }; return B } -> Definition cacheOf
//   - for FindOrCompile / GetProgram / ComputeProgram: which cache their X.Get(vt) and X.Compute(vt, f, arg) calls
//     address, and which flag is handed to the compile callback, as functions of the parameter `pv`
//
// Cache/Served.v proves "the program that serves (type, pv) is compile(type, pv) after every history" from these
// definitions: if pv is dropped from the key (one cache for both flag values) the side conditions fail.

import (
	"fmt"
	"go/ast"
	"go/types"
	"sort"
	"strings"
)

func init() { emitters["EncCacheKey"] = emitEncCacheKey }

func emitEncCacheKey(w *world) (out string, err error) {
	defer func() {
		if r := recover(); r != nil {
			err = fmt.Errorf("%v", r)
		}
	}()
	const path = mod + "/internal/encoder/vars"
	p, err := w.pkg(path)
	if err != nil {
		return "", err
	}
	pos := func(n ast.Node) string { return p.Fset.Position(n.Pos()).String() }
	// caches: package-level vars initialised with caching.CreateProgramCache()
	caches := map[string]bool{}
	for _, f := range p.Syntax {
		for _, d := range f.Decls {
			gd, ok := d.(*ast.GenDecl)
			if !ok {
				continue
			}
			for _, sp := range gd.Specs {
				vs, ok := sp.(*ast.ValueSpec)
				if !ok {
					continue
				}
				for i, v := range vs.Values {
					if c, ok := v.(*ast.CallExpr); ok && i < len(vs.Names) {
						if sel, ok := c.Fun.(*ast.SelectorExpr); ok && sel.Sel.Name == "CreateProgramCache" {
							caches[vs.Names[i].Name] = true
						}
					}
				}
			}
		}
	}
	if len(caches) == 0 {
		return "", fmt.Errorf("%s: no program cache found", path)
	}
	var names []string
	for n := range caches {
		names = append(names, n)
	}
	sort.Strings(names)
	isBoolParam := func(fd *ast.FuncDecl, name string) bool {
		for _, fl := range fd.Type.Params.List {
			for _, n := range fl.Names {
				if n.Name == name {
					if id, ok := fl.Type.(*ast.Ident); ok && id.Name == "bool" {
						return true
					}
				}
			}
		}
		return false
	}
	// an expression denoting a cache, as Gallina over the variable pv
	var cacheExpr func(fd *ast.FuncDecl, e ast.Expr) string
	haveCacheOf := false
	cacheExpr = func(fd *ast.FuncDecl, e ast.Expr) string {
		switch x := e.(type) {
		case *ast.Ident:
			if caches[x.Name] {
				return "EC_" + x.Name
			}
		case *ast.ParenExpr:
			return cacheExpr(fd, x.X)
		case *ast.CallExpr:
			if id, ok := x.Fun.(*ast.Ident); ok && id.Name == "cacheOf" && len(x.Args) == 1 && haveCacheOf {
				if a, ok := x.Args[0].(*ast.Ident); ok && a.Name == "pv" && isBoolParam(fd, "pv") {
					return "(cacheOf pv)"
				}
			}
		}
		panic(fmt.Sprintf("%s: cannot tell which program cache this expression denotes", pos(e)))
	}
	var b strings.Builder
	b.WriteString("From Coq Require Import Bool.\n\n(* the encoder program caches of internal/encoder/vars *)\nInductive enc_cache := ")
	for i, n := range names {
		if i > 0 {
			b.WriteString(" | ")
		}
		b.WriteString("EC_" + n)
	}
	b.WriteString(".\n\nDefinition enc_cache_eqb (a b : enc_cache) : bool :=\n  match a, b with\n")
	for _, n := range names {
		fmt.Fprintf(&b, "  | EC_%s, EC_%s => true\n", n, n)
	}
	if len(names) > 1 {
		b.WriteString("  | _, _ => false\n")
	}
	b.WriteString("  end.\n\n")
	// cacheOf
	if fd, _, e := w.funcDecl(path, "", "cacheOf"); e == nil {
		if len(fd.Body.List) != 2 || !isBoolParam(fd, "pv") {
			return "", fmt.Errorf("%s: cacheOf has an unrecognised shape", pos(fd))
		}
		is, ok1 := fd.Body.List[0].(*ast.IfStmt)
		rs, ok2 := fd.Body.List[1].(*ast.ReturnStmt)
		if !ok1 || !ok2 || is.Init != nil || is.Else != nil || len(is.Body.List) != 1 || len(rs.Results) != 1 {
			return "", fmt.Errorf("%s: cacheOf has an unrecognised shape", pos(fd))
		}
		cond, ok := is.Cond.(*ast.Ident)
		r1, ok3 := is.Body.List[0].(*ast.ReturnStmt)
		if !ok || cond.Name != "pv" || !ok3 || len(r1.Results) != 1 {
			return "", fmt.Errorf("%s: cacheOf has an unrecognised shape", pos(fd))
		}
		fmt.Fprintf(&b, "Definition cacheOf (pv : bool) : enc_cache := if pv then %s else %s.\n\n", cacheExpr(fd, r1.Results[0]), cacheExpr(fd, rs.Results[0]))
		haveCacheOf = true
	}
	// the three entry points
	for _, fn := range []string{"FindOrCompile", "GetProgram", "ComputeProgram"} {
		fd, _, e := w.funcDecl(path, "", fn)
		if e != nil {
			return "", e
		}
		var gets, computes []string
		ast.Inspect(fd.Body, func(n ast.Node) bool {
			c, ok := n.(*ast.CallExpr)
			if !ok {
				return true
			}
			sel, ok := c.Fun.(*ast.SelectorExpr)
			if !ok {
				return true
			}
			if s, ok := p.TypesInfo.Selections[sel]; !ok || s.Kind() != types.MethodVal || !strings.HasSuffix(s.Recv().String(), "caching.ProgramCache") {
				return true
			}
			switch sel.Sel.Name {
			case "Get":
				gets = append(gets, cacheExpr(fd, sel.X))
			case "Compute":
				if len(c.Args) != 3 {
					panic(fmt.Sprintf("%s: Compute is expected to pass exactly one extra argument (the pointer-value flag)", pos(c)))
				}
				a, ok := c.Args[2].(*ast.Ident)
				if !ok || a.Name != "pv" || !isBoolParam(fd, "pv") {
					panic(fmt.Sprintf("%s: the argument handed to the compile callback is not the parameter pv", pos(c)))
				}
				computes = append(computes, "("+cacheExpr(fd, sel.X)+", pv)")
			default:
				panic(fmt.Sprintf("%s: unexpected use of a program cache: %s", pos(c), sel.Sel.Name))
			}
			return true
		})
		if len(gets) > 1 || len(computes) > 1 {
			return "", fmt.Errorf("%s: %s uses a cache more than once per operation", pos(fd), fn)
		}
		for _, g := range gets {
			fmt.Fprintf(&b, "(* %s: the cache its X.Get(vt) reads *)\nDefinition %s_get (pv : bool) : enc_cache := %s.\n", fn, fn, strings.Trim(g, "()"))
		}
		for _, c := range computes {
			fmt.Fprintf(&b, "(* %s: the cache its X.Compute(vt, f, pv) fills, and the flag handed to the compile callback *)\nDefinition %s_compute (pv : bool) : enc_cache * bool := %s.\n", fn, fn, c)
		}
	}
	return b.String(), nil
}
