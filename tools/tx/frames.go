package main

// Gen/Frames.v: the instructions of the three x86 emitters that touch SP or BP in the frame set-up and tear-down:
//   jitdec (*_Assembler).prologue / .epilogue, jitdec (*_ValueDecoder).compile (inline prologue and "_epilogue"),
//   encoder/x86 (*Assembler).prologue / .epilogue
// Each row: mnemonic, source, destination, with `jit.Imm(c)` evaluated to "$<c>", `jit.Ptr(_SP, c)` to "SP+<c>",
// the registers _SP / _BP to "SP" / "BP"; any other operand is kept as its source text.  Only Emit calls with an
// operand that is SP, BP or SP-relative are listed (plus RET), in source order.

import (
	"fmt"
	"go/ast"
	"go/types"
	"strings"
)

func init() { emitters["Frames"] = emitFrames }

func frameOperand(p *pkgT, e ast.Expr) (string, bool, error) {
	switch v := e.(type) {
	case *ast.Ident:
		switch v.Name {
		case "_SP":
			return "SP", true, nil
		case "_BP":
			return "BP", true, nil
		}
		return v.Name, false, nil
	case *ast.CallExpr:
		if sel, ok := v.Fun.(*ast.SelectorExpr); ok {
			if id, ok := sel.X.(*ast.Ident); ok && id.Name == "jit" {
				switch sel.Sel.Name {
				case "Imm":
					n, err := evalInt(p, v.Args[0])
					if err != nil {
						return types.ExprString(e), false, nil
					}
					return fmt.Sprintf("$%d", n), false, nil
				case "Ptr":
					if b, ok := v.Args[0].(*ast.Ident); ok && (b.Name == "_SP" || b.Name == "_BP") {
						n, err := evalInt(p, v.Args[1])
						if err != nil {
							return "", false, fmt.Errorf("%s: frame offset is not a constant", p.Fset.Position(e.Pos()))
						}
						return fmt.Sprintf("%s+%d", b.Name[1:], n), true, nil
					}
				}
			}
		}
	}
	return types.ExprString(e), false, nil
}

func emitFrames(w *world) (string, error) {
	type target struct{ path, recv, fn, coq string }
	targets := []target{
		{mod + "/internal/decoder/jitdec", "_Assembler", "prologue", "jitdec_prologue"},
		{mod + "/internal/decoder/jitdec", "_Assembler", "epilogue", "jitdec_epilogue"},
		{mod + "/internal/decoder/jitdec", "_ValueDecoder", "compile", "generic_compile"},
		{mod + "/internal/encoder/x86", "Assembler", "prologue", "encoder_prologue"},
		{mod + "/internal/encoder/x86", "Assembler", "epilogue", "encoder_epilogue"},
	}
	var b strings.Builder
	b.WriteString("From Coq Require Import String List.\nImport ListNotations.\nOpen Scope string_scope.\n\n")
	b.WriteString("(* (mnemonic, (source, destination)) *)\n")
	for _, t := range targets {
		fd, p, err := w.funcDecl(t.path, t.recv, t.fn)
		if err != nil {
			return "", err
		}
		var rows []string
		var ferr error
		ast.Inspect(fd.Body, func(n ast.Node) bool {
			ce, ok := n.(*ast.CallExpr)
			if !ok || ferr != nil {
				return true
			}
			sel, ok := ce.Fun.(*ast.SelectorExpr)
			if !ok || sel.Sel.Name != "Emit" || len(ce.Args) < 1 {
				return true
			}
			tv, ok := p.TypesInfo.Types[ce.Args[0]]
			if !ok || tv.Value == nil {
				return true
			}
			mn := strings.Trim(tv.Value.ExactString(), "\"")
			if mn == "RET" {
				rows = append(rows, fmt.Sprintf("(%s, (%s, %s))", coqStr(mn), coqStr(""), coqStr("")))
				return true
			}
			if len(ce.Args) != 3 {
				return true
			}
			a, fa, err := frameOperand(p, ce.Args[1])
			if err != nil {
				ferr = err
				return false
			}
			d, fd2, err := frameOperand(p, ce.Args[2])
			if err != nil {
				ferr = err
				return false
			}
			// SP-relative spills of arguments (_ARG_x are package operands, not jit.Ptr literals) are not frame set-up
			if (fa && (a == "SP" || a == "BP" || strings.HasPrefix(a, "SP+"))) || (fd2 && (d == "SP" || d == "BP")) || (fd2 && strings.HasPrefix(d, "SP+") && a == "BP") {
				rows = append(rows, fmt.Sprintf("(%s, (%s, %s))", coqStr(mn), coqStr(a), coqStr(d)))
			}
			return true
		})
		if ferr != nil {
			return "", ferr
		}
		fmt.Fprintf(&b, "Definition %s : list (string * (string * string)) :=\n  [%s].\n\n", t.coq, strings.Join(rows, ";\n   "))
	}
	for _, c := range []struct{ path, name, coq string }{
		{mod + "/internal/decoder/jitdec", "_FP_size", "fr_jitdec_size"}, {mod + "/internal/decoder/jitdec", "_FP_offs", "fr_jitdec_offs"},
		{mod + "/internal/decoder/jitdec", "_VD_size", "fr_generic_size"}, {mod + "/internal/decoder/jitdec", "_VD_offs", "fr_generic_offs"},
		{mod + "/internal/encoder/x86", "_FP_size", "fr_encoder_size"}, {mod + "/internal/encoder/x86", "FP_offs", "fr_encoder_offs"},
	} {
		v, err := w.constInt(c.path, c.name)
		if err != nil {
			return "", err
		}
		fmt.Fprintf(&b, "Definition %s : nat := %d.\n", c.coq, v)
	}
	return b.String(), nil
}
