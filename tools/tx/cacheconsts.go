package main

// Gen/CacheConsts.v: the constants of /repo/internal/caching/pcache.go that parameterise the model in
// Cache/PCache.v (load factor as an exact fraction, initial capacity).

import (
	"fmt"
	"go/constant"
	"go/types"
	"strings"
)

func init() { emitters["CacheConsts"] = emitCacheConsts }

func emitCacheConsts(w *world) (string, error) {
	const path = mod + "/internal/caching"
	p, err := w.pkg(path)
	if err != nil {
		return "", err
	}
	var b strings.Builder
	b.WriteString("From Coq Require Import NArith.\nOpen Scope N_scope.\n\n")
	// _LoadFactor: an untyped (float) constant; emitted as the exact fraction num/den
	o, ok := p.Types.Scope().Lookup("_LoadFactor").(*types.Const)
	if !ok {
		return "", fmt.Errorf("%s._LoadFactor is not a constant", path)
	}
	v := constant.ToFloat(o.Val())
	if v.Kind() != constant.Float && v.Kind() != constant.Int {
		return "", fmt.Errorf("_LoadFactor: unsupported constant kind %v", v.Kind())
	}
	num, den := constant.Num(v), constant.Denom(v)
	if num.Kind() != constant.Int || den.Kind() != constant.Int || constant.Sign(num) < 0 {
		return "", fmt.Errorf("_LoadFactor: not an exact non-negative fraction: %s", v.ExactString())
	}
	// the value the float64 comparison in add() sees must be exactly this fraction
	if f, exact := constant.Float64Val(v); !exact {
		return "", fmt.Errorf("_LoadFactor = %s is not exactly representable as float64 (%v)", v.ExactString(), f)
	}
	fmt.Fprintf(&b, "(* _LoadFactor = %s *)\nDefinition LoadFactor_num : N := %s.\nDefinition LoadFactor_den : N := %s.\n", v.ExactString(), num.ExactString(), den.ExactString())
	ic, err := w.constInt(path, "_InitCapacity")
	if err != nil {
		return "", err
	}
	if ic < 0 {
		return "", fmt.Errorf("_InitCapacity negative")
	}
	fmt.Fprintf(&b, "Definition InitCapacity : N := %d.\n", ic)
	return b.String(), nil
}
