package main

import (
	"fmt"
	"go/ast"
	"go/token"
	"go/types"
	"os"
	"path/filepath"
	"regexp"
	"strconv"
	"strings"
)

func init() { emitters["OptBits"] = emitOptBits }

type constSpec struct{ coq, path, name string }

func emitOptBits(w *world) (string, error) {
	var b strings.Builder
	b.WriteString("From Coq Require Import NArith Bool List String.\nImport ListNotations.\nOpen Scope N_scope.\n\n")

	root, err := w.pkg(mod)
	if err != nil {
		return "", err
	}
	// ---- Config record (api.go)
	cfgObj := root.Types.Scope().Lookup("Config")
	if cfgObj == nil {
		return "", fmt.Errorf("sonic.Config not found")
	}
	st, ok := cfgObj.Type().Underlying().(*types.Struct)
	if !ok {
		return "", fmt.Errorf("sonic.Config is not a struct")
	}
	var fields []string
	for i := 0; i < st.NumFields(); i++ {
		f := st.Field(i)
		if bt, ok := f.Type().Underlying().(*types.Basic); !ok || bt.Kind() != types.Bool {
			return "", fmt.Errorf("Config.%s is not a bool: the option model needs extending", f.Name())
		}
		fields = append(fields, f.Name())
	}
	b.WriteString("Record config := mkConfig {\n")
	for i, f := range fields {
		sep := ";"
		if i == len(fields)-1 {
			sep = ""
		}
		fmt.Fprintf(&b, "  cfg_%s : bool%s\n", f, sep)
	}
	b.WriteString("}.\n\n")
	fmt.Fprintf(&b, "Definition config_fields : list string := [%s]%%string.\n\n", quoteList(fields))
	// all configs from a bit list (used for the exhaustive sweep)
	b.WriteString("Definition config_of_bits (l : list bool) : config :=\n  mkConfig")
	for i := range fields {
		fmt.Fprintf(&b, " (nth %d l false)", i)
	}
	b.WriteString(".\n\n")
	b.WriteString("Definition bits_of_config (c : config) : list bool :=\n  [")
	for i, f := range fields {
		if i > 0 {
			b.WriteString("; ")
		}
		fmt.Fprintf(&b, "cfg_%s c", f)
	}
	b.WriteString("].\n\n")

	// ---- Froze (sonic.go)
	fd, p, err := w.funcDecl(mod, "Config", "Froze")
	if err != nil {
		return "", err
	}
	recvName := fd.Recv.List[0].Names[0].Name
	b.WriteString("(* literal transcription of sonic.go:Config.Froze; result = (encoder options, decoder options) *)\n")
	b.WriteString("Definition froze (c : config) : N * N :=\n  let e := 0 in\n  let d := 0 in\n")
	apiVar := ""
	for _, s := range fd.Body.List {
		switch s := s.(type) {
		case *ast.AssignStmt:
			// api := &frozenConfig{Config: cfg}
			if s.Tok == token.DEFINE && len(s.Lhs) == 1 {
				if id, ok := s.Lhs[0].(*ast.Ident); ok && apiVar == "" {
					apiVar = id.Name
					continue
				}
			}
			return "", fmt.Errorf("%s: unsupported statement in Froze", p.Fset.Position(s.Pos()))
		case *ast.IfStmt:
			if s.Init != nil || s.Else != nil || len(s.Body.List) != 1 {
				return "", fmt.Errorf("%s: unsupported if-shape in Froze", p.Fset.Position(s.Pos()))
			}
			cond, err := frozeCond(p, s.Cond, recvName)
			if err != nil {
				return "", err
			}
			as, ok := s.Body.List[0].(*ast.AssignStmt)
			if !ok || len(as.Lhs) != 1 || len(as.Rhs) != 1 {
				return "", fmt.Errorf("%s: unsupported body in Froze", p.Fset.Position(s.Pos()))
			}
			sel, ok := as.Lhs[0].(*ast.SelectorExpr)
			if !ok {
				return "", fmt.Errorf("%s: unsupported lhs in Froze", p.Fset.Position(as.Pos()))
			}
			if id, ok := sel.X.(*ast.Ident); !ok || id.Name != apiVar {
				return "", fmt.Errorf("%s: unsupported lhs in Froze", p.Fset.Position(as.Pos()))
			}
			var v string
			switch sel.Sel.Name {
			case "encoderOpts":
				v = "e"
			case "decoderOpts":
				v = "d"
			default:
				return "", fmt.Errorf("%s: assignment to unknown field %s", p.Fset.Position(as.Pos()), sel.Sel.Name)
			}
			val, err := evalInt(p, as.Rhs[0])
			if err != nil {
				return "", err
			}
			var op string
			switch as.Tok {
			case token.OR_ASSIGN:
				op = fmt.Sprintf("N.lor %s %d", v, val)
			case token.AND_NOT_ASSIGN:
				op = fmt.Sprintf("N.ldiff %s %d", v, val)
			case token.XOR_ASSIGN:
				op = fmt.Sprintf("N.lxor %s %d", v, val)
			case token.ASSIGN:
				op = fmt.Sprintf("%d", val)
			default:
				return "", fmt.Errorf("%s: unsupported operator %s in Froze", p.Fset.Position(as.Pos()), as.Tok)
			}
			fmt.Fprintf(&b, "  let %s := if %s then %s else %s in\n", v, cond, op, v)
		case *ast.ReturnStmt:
			continue
		default:
			return "", fmt.Errorf("%s: unsupported statement in Froze", p.Fset.Position(s.Pos()))
		}
	}
	b.WriteString("  (e, d).\n\n")

	// ---- stock configurations (api.go)
	for _, name := range []string{"ConfigDefault", "ConfigStd", "ConfigFastest"} {
		lit, lp, err := findConfigLit(w, name)
		if err != nil {
			return "", err
		}
		set := map[string]bool{}
		for _, el := range lit.Elts {
			kv, ok := el.(*ast.KeyValueExpr)
			if !ok {
				return "", fmt.Errorf("%s: positional Config literal", lp.Fset.Position(el.Pos()))
			}
			k := kv.Key.(*ast.Ident).Name
			tv := lp.TypesInfo.Types[kv.Value]
			if tv.Value == nil {
				return "", fmt.Errorf("%s: non-constant field value", lp.Fset.Position(el.Pos()))
			}
			set[k] = tv.Value.String() == "true"
		}
		fmt.Fprintf(&b, "Definition %s_cfg : config := mkConfig", name)
		for _, f := range fields {
			if set[f] {
				b.WriteString(" true")
			} else {
				b.WriteString(" false")
			}
		}
		b.WriteString(".\n")
	}
	b.WriteString("\n")

	// ---- named constants of every layer
	enc := mod + "/encoder"
	dec := mod + "/decoder"
	ienc := mod + "/internal/encoder"
	alg := mod + "/internal/encoder/alg"
	consts := mod + "/internal/decoder/consts"
	api := mod + "/internal/decoder/api"
	jit := mod + "/internal/decoder/jitdec"
	opt := mod + "/internal/decoder/optdec"
	nt := mod + "/internal/native/types"
	var cs []constSpec
	for _, n := range []string{"SortMapKeys", "EscapeHTML", "CompactMarshaler", "NoQuoteTextMarshaler", "NoNullSliceOrMap",
		"ValidateString", "NoValidateJSONMarshaler", "NoEncoderNewline", "EncodeNullForInfOrNan", "CompatibleWithStd"} {
		cs = append(cs, constSpec{"encpub_" + n, enc, n}, constSpec{"encint_" + n, ienc, n})
	}
	for _, n := range []string{"BitSortMapKeys", "BitEscapeHTML", "BitCompactMarshaler", "BitNoQuoteTextMarshaler", "BitNoNullSliceOrMap",
		"BitValidateString", "BitNoValidateJSONMarshaler", "BitNoEncoderNewline", "BitEncodeNullForInfOrNan", "BitPointerValue"} {
		cs = append(cs, constSpec{"alg_" + n, alg, n})
	}
	for _, n := range []string{"OptionUseInt64", "OptionUseNumber", "OptionUseUnicodeErrors", "OptionDisableUnknown", "OptionCopyString",
		"OptionValidateString", "OptionNoValidateJSON", "OptionCaseSensitive"} {
		cs = append(cs, constSpec{"decpub_" + n, dec, n}, constSpec{"decapi_" + n, api, n}, constSpec{"consts_" + n, consts, n})
	}
	for _, n := range []string{"F_use_int64", "F_disable_urc", "F_disable_unknown", "F_copy_string", "F_use_number", "F_validate_string",
		"F_allow_control", "F_no_validate_json", "F_case_sensitive"} {
		cs = append(cs, constSpec{"consts_" + n, consts, n}, constSpec{"jitdec" + "_" + n, jit, "_" + n})
	}
	for _, n := range []string{"_F_use_int64", "_F_disable_urc", "_F_disable_unknown", "_F_copy_string", "_F_use_number", "_F_validate_string"} {
		cs = append(cs, constSpec{"decapi" + n, api, n})
	}
	for _, n := range []string{"_F_use_int64", "_F_disable_urc", "_F_disable_unknown", "_F_copy_string", "_F_use_number", "_F_validate_string"} {
		cs = append(cs, constSpec{"optdec" + n, opt, n})
	}
	for _, n := range []string{"B_DOUBLE_UNQUOTE", "B_UNICODE_REPLACE", "B_USE_NUMBER", "B_VALIDATE_STRING", "B_ALLOW_CONTROL", "B_NO_VALIDATE_JSON",
		"F_DOUBLE_UNQUOTE", "F_UNICODE_REPLACE", "F_USE_NUMBER", "F_VALIDATE_STRING", "F_ALLOW_CONTROL"} {
		cs = append(cs, constSpec{"ntypes_" + n, nt, n})
	}
	for _, c := range cs {
		v, err := w.constInt(c.path, c.name)
		if err != nil {
			return "", err
		}
		fmt.Fprintf(&b, "Definition %s : N := %d.\n", c.coq, uint64(v))
	}
	b.WriteString("\n")

	// ---- C side (native/types.h, native/scanning.h): #define NAME (1 << k) and static const ... = 1ull << k
	cdefs, err := cFlagDefs(filepath.Join(*repo, "native"))
	if err != nil {
		return "", err
	}
	for _, n := range []string{"F_DBLUNQ", "F_UNIREP", "F_NO_VALIDATE_JSON", "MASK_VALIDATE_STRING", "MASK_ALLOW_CONTROL", "MASK_USE_NUMBER"} {
		v, ok := cdefs[n]
		if !ok {
			return "", fmt.Errorf("C constant %s not found in native/*.h", n)
		}
		fmt.Fprintf(&b, "Definition c_%s : N := %d.\n", n, v)
	}
	b.WriteString("\n")

	// ---- setters of Encoder / Decoder
	if err := emitSetters(w, &b, ienc, "Encoder", "Opts", "encset_"); err != nil {
		return "", err
	}
	if err := emitSetters(w, &b, api, "Decoder", "f", "decset_"); err != nil {
		return "", err
	}
	return b.String(), nil
}

func quoteList(l []string) string {
	var q []string
	for _, s := range l {
		q = append(q, strconv.Quote(s))
	}
	return strings.Join(q, "; ")
}

func frozeCond(p *pkgT, e ast.Expr, recv string) (string, error) {
	switch e := e.(type) {
	case *ast.SelectorExpr:
		if id, ok := e.X.(*ast.Ident); ok && id.Name == recv {
			return "cfg_" + e.Sel.Name + " c", nil
		}
	case *ast.ParenExpr:
		return frozeCond(p, e.X, recv)
	case *ast.UnaryExpr:
		if e.Op == token.NOT {
			s, err := frozeCond(p, e.X, recv)
			return "negb (" + s + ")", err
		}
	case *ast.BinaryExpr:
		l, err := frozeCond(p, e.X, recv)
		if err != nil {
			return "", err
		}
		r, err := frozeCond(p, e.Y, recv)
		if err != nil {
			return "", err
		}
		switch e.Op {
		case token.LAND:
			return "andb (" + l + ") (" + r + ")", nil
		case token.LOR:
			return "orb (" + l + ") (" + r + ")", nil
		}
	}
	return "", fmt.Errorf("unsupported condition in Froze at offset %d", e.Pos())
}

func findConfigLit(w *world, name string) (*ast.CompositeLit, *pkgT, error) {
	root, _ := w.pkg(mod)
	for _, f := range root.Syntax {
		for _, d := range f.Decls {
			gd, ok := d.(*ast.GenDecl)
			if !ok || gd.Tok != token.VAR {
				continue
			}
			for _, sp := range gd.Specs {
				vs := sp.(*ast.ValueSpec)
				for i, n := range vs.Names {
					if n.Name != name || i >= len(vs.Values) {
						continue
					}
					call, ok := vs.Values[i].(*ast.CallExpr)
					if !ok {
						return nil, nil, fmt.Errorf("%s is not Config{...}.Froze()", name)
					}
					sel, ok := call.Fun.(*ast.SelectorExpr)
					if !ok || sel.Sel.Name != "Froze" {
						return nil, nil, fmt.Errorf("%s is not Config{...}.Froze()", name)
					}
					lit, ok := sel.X.(*ast.CompositeLit)
					if !ok {
						return nil, nil, fmt.Errorf("%s is not Config{...}.Froze()", name)
					}
					return lit, root, nil
				}
			}
		}
	}
	return nil, nil, fmt.Errorf("%s not found", name)
}

var reDefine = regexp.MustCompile(`(?m)^\s*#define\s+([A-Z_0-9]+)\s+\(?\s*1\s*<<\s*(\d+)\s*\)?`)
var reStatic = regexp.MustCompile(`(?m)^\s*(?:static\s+)?const\s+\w+\s+([A-Z_0-9]+)\s*=\s*1(?:ull|ULL)?\s*<<\s*(\d+)\s*;`)

func cFlagDefs(dir string) (map[string]uint64, error) {
	out := map[string]uint64{}
	for _, fn := range []string{"types.h", "scanning.h"} {
		b, err := os.ReadFile(filepath.Join(dir, fn))
		if err != nil {
			return nil, err
		}
		for _, re := range []*regexp.Regexp{reDefine, reStatic} {
			for _, m := range re.FindAllStringSubmatch(string(b), -1) {
				k, _ := strconv.Atoi(m[2])
				out[m[1]] = uint64(1) << uint(k)
			}
		}
	}
	return out, nil
}

// emitSetters: every method of *recv whose body only updates self.<field> with constants.
func emitSetters(w *world, b *strings.Builder, path, recv, field, prefix string) error {
	p, err := w.pkg(path)
	if err != nil {
		return err
	}
	n := 0
	for _, f := range p.Syntax {
		for _, d := range f.Decls {
			fd, ok := d.(*ast.FuncDecl)
			if !ok || fd.Recv == nil || fd.Body == nil || len(fd.Recv.List) != 1 || len(fd.Recv.List[0].Names) != 1 {
				continue
			}
			t := fd.Recv.List[0].Type
			if s, ok := t.(*ast.StarExpr); ok {
				t = s.X
			}
			if id, ok := t.(*ast.Ident); !ok || id.Name != recv {
				continue
			}
			self := fd.Recv.List[0].Names[0].Name
			if !touchesField(fd.Body, self, field) {
				continue
			}
			// parameter: none or one bool
			bparam := ""
			if fd.Type.Params != nil {
				for _, pf := range fd.Type.Params.List {
					for _, nm := range pf.Names {
						if id, ok := pf.Type.(*ast.Ident); ok && id.Name == "bool" && bparam == "" {
							bparam = nm.Name
						} else {
							bparam = "?"
						}
					}
				}
			}
			if bparam == "?" {
				continue // SetOptions(opts) and friends: not a switch setter
			}
			body, err := setterStmts(p, fd.Body.List, self, field, bparam)
			if err != nil {
				return fmt.Errorf("%s.%s: %v", recv, fd.Name.Name, err)
			}
			if bparam != "" {
				fmt.Fprintf(b, "Definition %s%s (o : N) (f : bool) : N :=\n%s  o.\n", prefix, fd.Name.Name, body)
			} else {
				fmt.Fprintf(b, "Definition %s%s (o : N) : N :=\n%s  o.\n", prefix, fd.Name.Name, body)
			}
			n++
		}
	}
	if n == 0 {
		return fmt.Errorf("no option setters found on %s.%s", path, recv)
	}
	b.WriteString("\n")
	return nil
}

func touchesField(body *ast.BlockStmt, self, field string) bool {
	found := false
	onlyThat := true
	ast.Inspect(body, func(n ast.Node) bool {
		as, ok := n.(*ast.AssignStmt)
		if !ok {
			return true
		}
		for _, l := range as.Lhs {
			if sel, ok := l.(*ast.SelectorExpr); ok {
				if id, ok := sel.X.(*ast.Ident); ok && id.Name == self && sel.Sel.Name == field {
					found = true
					continue
				}
			}
			onlyThat = false
		}
		return true
	})
	return found && onlyThat
}

func setterStmts(p *pkgT, list []ast.Stmt, self, field, bparam string) (string, error) {
	var b strings.Builder
	for _, s := range list {
		switch s := s.(type) {
		case *ast.AssignStmt:
			if len(s.Rhs) != 1 {
				return "", fmt.Errorf("unsupported assignment")
			}
			rhs := s.Rhs[0]
			neg := false
			if u, ok := rhs.(*ast.UnaryExpr); ok && u.Op == token.XOR {
				neg = true
				rhs = u.X
			}
			v, err := evalInt(p, rhs)
			if err != nil {
				return "", err
			}
			switch {
			case s.Tok == token.OR_ASSIGN && !neg:
				fmt.Fprintf(&b, "  let o := N.lor o %d in\n", uint64(v))
			case s.Tok == token.AND_ASSIGN && neg, s.Tok == token.AND_NOT_ASSIGN && !neg:
				fmt.Fprintf(&b, "  let o := N.ldiff o %d in\n", uint64(v))
			default:
				return "", fmt.Errorf("unsupported operator %s", s.Tok)
			}
		case *ast.IfStmt:
			id, ok := s.Cond.(*ast.Ident)
			if !ok || id.Name != bparam || s.Init != nil {
				return "", fmt.Errorf("unsupported condition")
			}
			th, err := setterStmts(p, s.Body.List, self, field, bparam)
			if err != nil {
				return "", err
			}
			el := ""
			if s.Else != nil {
				eb, ok := s.Else.(*ast.BlockStmt)
				if !ok {
					return "", fmt.Errorf("unsupported else")
				}
				el, err = setterStmts(p, eb.List, self, field, bparam)
				if err != nil {
					return "", err
				}
			}
			fmt.Fprintf(&b, "  let o := if f then (\n%s  o) else (\n%s  o) in\n", th, el)
		case *ast.ReturnStmt:
		default:
			return "", fmt.Errorf("unsupported statement %T", s)
		}
	}
	return b.String(), nil
}
