package main

// Gen/PoolUse.v: how every user of the two object pools that carry state between API calls treats the pooled object.
//
//   stack pool   internal/decoder/jitdec/pools.go  newStack / freeStack          (object: *_Stack, state field sp)
//   fsm pool     internal/native/types/types.go    NewStateMachine / FreeStateMachine (object: *StateMachine, field Sp)
//
// For every function that acquires an object, every control-flow path (if: both arms, conditions that are plain
// identifiers are kept consistent along a path; for: 0, 1 and 2 iterations) is emitted as the list of events on the object:
//
//   PGet    acquired from the pool (newStack() / types.NewStateMachine())
//   PReset  X.sp = 0 / X.Sp = 0, or the object is handed to a native routine whose C source initialises the machine
//           (fsm_init) before using it
//   PUse    the object is read, or handed to any other function
//   PPut    handed back (the bodies of freeStack / FreeStateMachine are inlined, so a reset placed there counts)
//
// Cache/PoolDiscipline.v proves over these lists that no call ever sees state left behind by another call.

import (
	"fmt"
	"go/ast"
	"go/token"
	"os"
	"path/filepath"
	"regexp"
	"sort"
	"strings"
)

func init() { emitters["PoolUse"] = emitPoolUse }

type pev = string

type puPath struct {
	evs  []pev
	env  map[string]bool
	done bool
}

func (p puPath) clone() puPath {
	q := puPath{evs: append([]pev{}, p.evs...), env: map[string]bool{}, done: p.done}
	for k, v := range p.env {
		q.env[k] = v
	}
	return q
}

type puWalker struct {
	pos       func(ast.Node) string
	obj       map[string]bool // names of the variables holding the pooled object
	getFuncs  map[string]bool
	putEvents map[string][]pev // put helper -> inlined events
	natInit   map[string]bool  // native entry -> initialises the machine itself
	field     string
}

func calleeName(c *ast.CallExpr) string {
	switch f := c.Fun.(type) {
	case *ast.Ident:
		return f.Name
	case *ast.SelectorExpr:
		if x, ok := f.X.(*ast.Ident); ok {
			return x.Name + "." + f.Sel.Name
		}
		return "." + f.Sel.Name
	}
	return ""
}

func (w *puWalker) mentions(e ast.Node) bool {
	found := false
	ast.Inspect(e, func(n ast.Node) bool {
		if id, ok := n.(*ast.Ident); ok && w.obj[id.Name] {
			found = true
		}
		return true
	})
	return found
}

// events of an expression, in evaluation order (arguments before the call)
func (w *puWalker) exprEvents(e ast.Expr) []pev {
	var out []pev
	if e == nil {
		return nil
	}
	switch x := e.(type) {
	case *ast.CallExpr:
		name := calleeName(x)
		if w.getFuncs[name] {
			return []pev{"PGet"}
		}
		if evs, ok := w.putEvents[name]; ok && len(x.Args) == 1 && w.mentions(x.Args[0]) {
			return append(out, evs...)
		}
		uses := false
		for _, a := range x.Args {
			if id, ok := a.(*ast.Ident); ok && w.obj[id.Name] {
				uses = true
				continue
			}
			if u, ok := a.(*ast.UnaryExpr); ok && u.Op == token.AND {
				if id, ok := u.X.(*ast.Ident); ok && w.obj[id.Name] {
					uses = true
					continue
				}
			}
			out = append(out, w.exprEvents(a)...)
		}
		if uses {
			if strings.HasPrefix(name, "native.") {
				init, known := w.natInit[strings.TrimPrefix(name, "native.")]
				if !known {
					panic(fmt.Sprintf("%s: native routine %s takes the pooled object but its C source was not classified", w.pos(x), name))
				}
				if init {
					out = append(out, "PReset")
				}
			}
			out = append(out, "PUse")
		}
		return out
	case *ast.SelectorExpr:
		if id, ok := x.X.(*ast.Ident); ok && w.obj[id.Name] {
			return []pev{"PUse"}
		}
		return w.exprEvents(x.X)
	case *ast.Ident:
		return nil // a bare mention (nil comparison, KeepAlive argument handled as call) does not read the state
	case *ast.BinaryExpr:
		return append(w.exprEvents(x.X), w.exprEvents(x.Y)...)
	case *ast.UnaryExpr:
		return w.exprEvents(x.X)
	case *ast.ParenExpr:
		return w.exprEvents(x.X)
	case *ast.StarExpr:
		return w.exprEvents(x.X)
	case *ast.IndexExpr:
		return append(w.exprEvents(x.X), w.exprEvents(x.Index)...)
	case *ast.SliceExpr:
		out = w.exprEvents(x.X)
		out = append(out, w.exprEvents(x.Low)...)
		out = append(out, w.exprEvents(x.High)...)
		return out
	case *ast.TypeAssertExpr:
		return w.exprEvents(x.X)
	case *ast.CompositeLit:
		for _, el := range x.Elts {
			if kv, ok := el.(*ast.KeyValueExpr); ok {
				out = append(out, w.exprEvents(kv.Value)...)
			} else {
				out = append(out, w.exprEvents(el)...)
			}
		}
		return out
	case *ast.BasicLit, *ast.FuncLit, *ast.ArrayType, *ast.MapType, *ast.InterfaceType, *ast.StructType, *ast.FuncType:
		if w.mentions(x) {
			panic(fmt.Sprintf("%s: the pooled object escapes into a closure", w.pos(x)))
		}
		return nil
	}
	panic(fmt.Sprintf("%s: unsupported expression %T", w.pos(e), e))
}

func (w *puWalker) stmts(list []ast.Stmt, paths []puPath) []puPath {
	for _, s := range list {
		paths = w.stmt(s, paths)
	}
	return paths
}

func appendAll(paths []puPath, evs []pev) []puPath {
	for i := range paths {
		if !paths[i].done {
			paths[i].evs = append(paths[i].evs, evs...)
		}
	}
	return paths
}

func (w *puWalker) stmt(s ast.Stmt, paths []puPath) []puPath {
	switch x := s.(type) {
	case nil, *ast.EmptyStmt, *ast.BranchStmt:
		return paths
	case *ast.ExprStmt:
		return appendAll(paths, w.exprEvents(x.X))
	case *ast.IncDecStmt:
		return appendAll(paths, w.exprEvents(x.X))
	case *ast.DeclStmt:
		if gd, ok := x.Decl.(*ast.GenDecl); ok {
			for _, sp := range gd.Specs {
				if vs, ok := sp.(*ast.ValueSpec); ok {
					for _, v := range vs.Values {
						paths = appendAll(paths, w.exprEvents(v))
					}
				}
			}
		}
		return paths
	case *ast.AssignStmt:
		var evs []pev
		for _, r := range x.Rhs {
			evs = append(evs, w.exprEvents(r)...)
		}
		for i, l := range x.Lhs {
			// X.sp = 0 : reset
			if sel, ok := l.(*ast.SelectorExpr); ok {
				if id, ok := sel.X.(*ast.Ident); ok && w.obj[id.Name] {
					if sel.Sel.Name == w.field && i < len(x.Rhs) {
						if bl, ok := x.Rhs[i].(*ast.BasicLit); ok && bl.Value == "0" && x.Tok == token.ASSIGN {
							evs = append(evs, "PReset")
							continue
						}
					}
					evs = append(evs, "PUse") // any other write into the object: the function manipulates it
					continue
				}
			}
			if _, ok := l.(*ast.Ident); !ok {
				evs = append(evs, w.exprEvents(l)...)
			}
		}
		return appendAll(paths, evs)
	case *ast.ReturnStmt:
		var evs []pev
		for _, r := range x.Results {
			evs = append(evs, w.exprEvents(r)...)
		}
		paths = appendAll(paths, evs)
		for i := range paths {
			paths[i].done = true
		}
		return paths
	case *ast.DeferStmt:
		panic(fmt.Sprintf("%s: defer in a pool user is not supported", w.pos(x)))
	case *ast.BlockStmt:
		return w.stmts(x.List, paths)
	case *ast.IfStmt:
		paths = w.stmt(x.Init, paths)
		cond := ""
		neg := false
		switch c := x.Cond.(type) {
		case *ast.Ident:
			cond = c.Name
		case *ast.UnaryExpr:
			if id, ok := c.X.(*ast.Ident); ok && c.Op == token.NOT {
				cond, neg = id.Name, true
			}
		}
		paths = appendAll(paths, w.exprEvents(x.Cond))
		var out []puPath
		for _, p := range paths {
			if p.done {
				out = append(out, p)
				continue
			}
			arms := []bool{true, false}
			if cond != "" {
				if v, ok := p.env[cond]; ok {
					arms = []bool{v != neg}
				}
			}
			for _, arm := range arms {
				q := p.clone()
				if cond != "" {
					q.env[cond] = arm != neg
				}
				if arm {
					out = append(out, w.stmts(x.Body.List, []puPath{q})...)
				} else if x.Else != nil {
					out = append(out, w.stmt(x.Else, []puPath{q})...)
				} else {
					out = append(out, q)
				}
			}
		}
		return out
	case *ast.ForStmt:
		paths = w.stmt(x.Init, paths)
		var out []puPath
		for iters := 0; iters <= 2; iters++ {
			var cur []puPath
			for _, p := range paths {
				cur = append(cur, p.clone())
			}
			for k := 0; k < iters; k++ {
				cur = appendAll(cur, w.exprEvents(x.Cond))
				cur = w.stmts(x.Body.List, cur)
				cur = w.stmt(x.Post, cur)
			}
			cur = appendAll(cur, w.exprEvents(x.Cond))
			out = append(out, cur...)
		}
		return out
	case *ast.RangeStmt:
		paths = appendAll(paths, w.exprEvents(x.X))
		var out []puPath
		for iters := 0; iters <= 2; iters++ {
			var cur []puPath
			for _, p := range paths {
				cur = append(cur, p.clone())
			}
			for k := 0; k < iters; k++ {
				cur = w.stmts(x.Body.List, cur)
			}
			out = append(out, cur...)
		}
		return out
	}
	panic(fmt.Sprintf("%s: unsupported statement %T in a pool user", w.pos(s), s))
}

func dedupePaths(paths []puPath) []string {
	seen := map[string]bool{}
	var out []string
	for _, p := range paths {
		var evs []pev
		for _, e := range p.evs {
			// consecutive uses are one use as far as the discipline is concerned
			if e == "PUse" && len(evs) > 0 && evs[len(evs)-1] == "PUse" {
				continue
			}
			evs = append(evs, e)
		}
		k := "[" + strings.Join(evs, "; ") + "]"
		if !seen[k] {
			seen[k] = true
			out = append(out, k)
		}
	}
	sort.Strings(out)
	return out
}

// the packages of the module whose (non-test, non-hook) Go files mention the given text
func usersOf(text string) []string {
	seen := map[string]bool{}
	filepath.Walk(*repo, func(path string, info os.FileInfo, err error) error {
		if err != nil {
			return nil
		}
		if info.IsDir() {
			n := info.Name()
			if n == ".git" || n == "testdata" || n == "native" && filepath.Dir(path) == *repo || strings.HasSuffix(n, "_test") || n == "fuzz" || n == "generic_test" || n == "loader" {
				return filepath.SkipDir
			}
			return nil
		}
		if !strings.HasSuffix(path, ".go") || strings.HasSuffix(path, "_test.go") || isVerifFile(path) {
			return nil
		}
		b, e := os.ReadFile(path)
		if e == nil && strings.Contains(string(b), text) {
			rel, _ := filepath.Rel(*repo, filepath.Dir(path))
			if rel == "." {
				seen[mod] = true
			} else {
				seen[mod+"/"+filepath.ToSlash(rel)] = true
			}
		}
		return nil
	})
	var out []string
	for k := range seen {
		if k != mod+"/internal/native/types" {
			out = append(out, k)
		}
	}
	sort.Strings(out)
	return out
}

func emitPoolUse(w *world) (out string, err error) {
	defer func() {
		if r := recover(); r != nil {
			err = fmt.Errorf("%v", r)
		}
	}()
	// ---- which native routines initialise the machine they are given (C source; the blobs are assembled from it)
	natInit := map[string]bool{}
	read := func(name string) string {
		b, e := os.ReadFile(filepath.Join(*repo, "native", name))
		if e != nil {
			panic(e)
		}
		return string(b)
	}
	scanning := read("scanning.h")
	initBeforeExec := func(body, m string) bool {
		i := strings.Index(body, "fsm_init("+m)
		j := strings.Index(body, "fsm_exec_1("+m)
		return i >= 0 && j > i && strings.Count(body, "fsm_exec_1(") == 1
	}
	fnBody := func(src, header string) string {
		i := strings.Index(src, header)
		if i < 0 {
			panic("C function not found: " + header)
		}
		j := strings.Index(src[i:], "\n}")
		return src[i : i+j]
	}
	skipOne1 := fnBody(scanning, "long skip_one_1(const GoString *src, long *p, StateMachine *m, uint64_t flags)")
	if !initBeforeExec(skipOne1, "m") {
		return "", fmt.Errorf("native/scanning.h: skip_one_1 no longer initialises the state machine before running it")
	}
	for goName, cfile := range map[string]string{"ValidateOne": "validate_one.c", "SkipArray": "skip_array.c", "SkipObject": "skip_object.c"} {
		natInit[goName] = initBeforeExec(read(cfile), "m")
	}
	natInit["SkipOne"] = strings.Contains(read("skip_one.c"), "return skip_one_1(src, p, m, flags);")
	gbp := read("get_by_path.c")
	okG := true
	for _, m := range regexp.MustCompile(`[A-Za-z_0-9]*\([^()]*\bsm\b[^()]*\)`).FindAllString(gbp, -1) {
		if !strings.HasPrefix(m, "skip_one_1(") && !strings.HasPrefix(m, "get_by_path(") && !strings.HasPrefix(m, "(") {
			okG = false
		}
	}
	natInit["GetByPath"] = okG
	natInit["ValidateUTF8"] = strings.Contains(read("validate_utf8.c"), "fsm_init(")
	natInit["ValidateUTF8Fast"] = false

	type pool struct {
		name, pkg, getFn, putFn, putPkg, field string
		users                                 []string // packages to scan
		getCall, putCall                      []string // how calls appear in user packages
	}
	pools := []pool{
		{name: "stack", pkg: mod + "/internal/decoder/jitdec", getFn: "newStack", putFn: "freeStack", field: "sp",
			users: []string{mod + "/internal/decoder/jitdec"}, getCall: []string{"newStack"}, putCall: []string{"freeStack"}},
		{name: "fsm", pkg: mod + "/internal/native/types", getFn: "NewStateMachine", putFn: "FreeStateMachine", field: "Sp",
			users:   usersOf("NewStateMachine("),
			getCall: []string{"types.NewStateMachine"}, putCall: []string{"types.FreeStateMachine"}},
	}
	var b strings.Builder
	b.WriteString("From Coq Require Import List String.\nImport ListNotations.\nOpen Scope string_scope.\n\n")
	b.WriteString("Inductive pev := PGet | PReset | PUse | PPut.\n")
	b.WriteString("Record pool_user := mkPU { pu_pool : string; pu_func : string; pu_paths : list (list pev) }.\n\n")
	b.WriteString("(* native routines that are handed a *StateMachine: does their C source call fsm_init before running the machine? *)\nDefinition native_inits : list (string * bool) := [\n")
	var nn []string
	for k := range natInit {
		nn = append(nn, k)
	}
	sort.Strings(nn)
	for i, k := range nn {
		sep := ";"
		if i == len(nn)-1 {
			sep = ""
		}
		fmt.Fprintf(&b, "  (%s, %v)%s\n", coqStr(k), natInit[k], sep)
	}
	b.WriteString("].\n\n")
	var users []string
	for _, pl := range pools {
		// the put helper, inlined
		pfd, pp, e := w.funcDecl(pl.pkg, "", pl.putFn)
		if e != nil {
			return "", e
		}
		if len(pfd.Type.Params.List) != 1 || len(pfd.Type.Params.List[0].Names) != 1 {
			return "", fmt.Errorf("%s has an unexpected signature", pl.putFn)
		}
		param := pfd.Type.Params.List[0].Names[0].Name
		hw := &puWalker{pos: func(n ast.Node) string { return pp.Fset.Position(n.Pos()).String() }, obj: map[string]bool{param: true},
			getFuncs: map[string]bool{}, putEvents: map[string][]pev{"stackPool.Put": {"PPut"}}, natInit: natInit, field: pl.field}
		hp := hw.stmts(pfd.Body.List, []puPath{{env: map[string]bool{}}})
		if len(hp) != 1 {
			return "", fmt.Errorf("%s: the put helper branches", pl.putFn)
		}
		fmt.Fprintf(&b, "(* %s.%s(x), inlined at every call *)\nDefinition put_%s : list pev := [%s].\n\n", pl.pkg[len(mod):], pl.putFn, pl.name, strings.Join(hp[0].evs, "; "))
		// the get helper must do nothing but take from the pool or allocate a zero object
		gfd, gp, e := w.funcDecl(pl.pkg, "", pl.getFn)
		if e != nil {
			return "", e
		}
		ast.Inspect(gfd.Body, func(n ast.Node) bool {
			if a, ok := n.(*ast.AssignStmt); ok {
				for _, l := range a.Lhs {
					if _, ok := l.(*ast.SelectorExpr); ok {
						panic(fmt.Sprintf("%s: the get helper writes into the object", gp.Fset.Position(a.Pos())))
					}
				}
			}
			return true
		})
		getSet := map[string]bool{}
		for _, g := range pl.getCall {
			getSet[g] = true
		}
		putSet := map[string][]pev{}
		for _, c := range pl.putCall {
			putSet[c] = hp[0].evs
		}
		for _, up := range pl.users {
			p, e := w.pkg(up)
			if e != nil {
				return "", e
			}
			for _, f := range p.Syntax {
				fname := p.Fset.Position(f.Pos()).Filename
				if isVerifFile(fname) {
					continue
				}
				for _, d := range f.Decls {
					fd, ok := d.(*ast.FuncDecl)
					if !ok || fd.Body == nil || (up == pl.pkg && (fd.Name.Name == pl.getFn || fd.Name.Name == pl.putFn)) {
						continue
					}
					// variables assigned from the get call
					obj := map[string]bool{}
					ast.Inspect(fd.Body, func(n ast.Node) bool {
						if a, ok := n.(*ast.AssignStmt); ok && len(a.Lhs) == 1 && len(a.Rhs) == 1 {
							if c, ok := a.Rhs[0].(*ast.CallExpr); ok && getSet[calleeName(c)] {
								if id, ok := a.Lhs[0].(*ast.Ident); ok {
									obj[id.Name] = true
								} else {
									panic(fmt.Sprintf("%s: pooled object stored outside a local variable", p.Fset.Position(a.Pos())))
								}
							}
						}
						return true
					})
					if len(obj) == 0 {
						continue
					}
					uw := &puWalker{pos: func(n ast.Node) string { return p.Fset.Position(n.Pos()).String() }, obj: obj,
						getFuncs: getSet, putEvents: putSet, natInit: natInit, field: pl.field}
					paths := uw.stmts(fd.Body.List, []puPath{{env: map[string]bool{}}})
					users = append(users, fmt.Sprintf("  mkPU %s %s [%s]", coqStr(pl.name), coqStr(up[len(mod):]+"."+funcName(fd)), strings.Join(dedupePaths(paths), ";\n      ")))
				}
			}
		}
	}
	b.WriteString("Definition pool_users : list pool_user := [\n" + strings.Join(users, ";\n") + "\n].\n")
	return b.String(), nil
}
