package main

// Gen/CheckSize.v: for every `_asm_OP_*` emitter of /repo/internal/encoder/x86/assembler_regabi_amd64.go the ordered
// buffer events of each path through the generator code: space checks (check_size / check_size_r) and the stores /
// advances of the output cursor RL that follow them.  Pools/CheckSizeOk.v proves that every store lies inside the space
// reserved by the last check, so lowering a constant or adding a store breaks the proof.
//
// Primitives (their bodies are checked for the expected shape): check_size, check_size_r, add_char, add_long, add_text,
// store_int.  `if` / `switch` in the generator split the path; other Assembler methods defined in the file are inlined.

import (
	"fmt"
	"go/ast"
	"go/constant"
	"go/token"
	"strconv"
	"strings"
)

func init() { emitters["CheckSize"] = emitCheckSize }

const csPkg = mod + "/internal/encoder/x86"

type csCtx struct {
	p       *pkgT
	methods map[string]*ast.FuncDecl
	f       *pfFn // only for src()/pos()
}

type csPath struct {
	evs  []string
	lb   map[string]int64 // known lower bounds of registers (from ORQ $k, REG)
	dead bool
}

func (p csPath) clone() csPath {
	q := csPath{evs: append([]string{}, p.evs...), lb: map[string]int64{}, dead: p.dead}
	for k, v := range p.lb {
		q.lb[k] = v
	}
	return q
}

func (c *csCtx) src(n ast.Node) string { return c.f.src(n) }
func (c *csCtx) pos(n ast.Node) string { return c.p.Fset.Position(n.Pos()).String() }

func (c *csCtx) constInt(e ast.Expr) (int64, bool) {
	tv, ok := c.p.TypesInfo.Types[e]
	if !ok || tv.Value == nil {
		return 0, false
	}
	v := constant.ToInt(tv.Value)
	if v.Kind() != constant.Int {
		return 0, false
	}
	i, ok := constant.Int64Val(v)
	return i, ok
}

func (c *csCtx) constString(e ast.Expr) (string, bool) {
	tv, ok := c.p.TypesInfo.Types[e]
	if !ok || tv.Value == nil || tv.Value.Kind() != constant.String {
		return "", false
	}
	return constant.StringVal(tv.Value), true
}

// jit.Sib(_RP, _RL, 1, off) -> off
func (c *csCtx) bufAddr(e ast.Expr) (ast.Expr, bool) {
	call, ok := e.(*ast.CallExpr)
	if !ok || c.src(call.Fun) != "jit.Sib" || len(call.Args) != 4 {
		return nil, false
	}
	if c.src(call.Args[0]) != "_RP" || c.src(call.Args[1]) != "_RL" || c.src(call.Args[2]) != "1" {
		return nil, false
	}
	return call.Args[3], true
}

var csWidth = map[string]int64{"MOVB": 1, "MOVW": 2, "MOVL": 4, "MOVQ": 8}

var csIntIns = map[string][2]int64{ // mnemonic -> bits, signed
	"MOVBQSX": {8, 1}, "MOVWQSX": {16, 1}, "MOVLQSX": {32, 1}, "MOVBQZX": {8, 0}, "MOVWQZX": {16, 0}, "MOVLQZX": {32, 0},
}

func csCoqStr(s string) string { return `"` + strings.ReplaceAll(s, `"`, `""`) + `"` }

// one statement applied to every live path
func (c *csCtx) stmt(s ast.Stmt, paths []csPath, depth int) ([]csPath, error) {
	switch s := s.(type) {
	case *ast.BlockStmt:
		return c.stmts(s.List, paths, depth)
	case *ast.IfStmt:
		var out []csPath
		a := make([]csPath, len(paths))
		b := make([]csPath, len(paths))
		for i := range paths {
			a[i], b[i] = paths[i].clone(), paths[i].clone()
		}
		ta, err := c.stmts(s.Body.List, a, depth)
		if err != nil {
			return nil, err
		}
		out = append(out, ta...)
		if s.Else != nil {
			tb, err := c.stmt(s.Else, b, depth)
			if err != nil {
				return nil, err
			}
			out = append(out, tb...)
		} else {
			out = append(out, b...)
		}
		return out, nil
	case *ast.SwitchStmt:
		var out []csPath
		hasDefault := false
		for _, cl := range s.Body.List {
			cc := cl.(*ast.CaseClause)
			if cc.List == nil {
				hasDefault = true
			}
			cp := make([]csPath, len(paths))
			for i := range paths {
				cp[i] = paths[i].clone()
			}
			t, err := c.stmts(cc.Body, cp, depth)
			if err != nil {
				return nil, err
			}
			out = append(out, t...)
		}
		if !hasDefault {
			out = append(out, paths...)
		}
		return out, nil
	case *ast.ForStmt, *ast.RangeStmt:
		return nil, fmt.Errorf("%s: loop in an emitter: the check_size accounting needs extending", c.pos(s))
	case *ast.ExprStmt:
		call, ok := s.X.(*ast.CallExpr)
		if !ok {
			return paths, nil
		}
		sel, ok := call.Fun.(*ast.SelectorExpr)
		if !ok || c.src(sel.X) != "self" {
			return paths, nil
		}
		return c.call(sel.Sel.Name, call, paths, depth)
	default:
		// assignments, declarations, panics of the generator itself: no buffer effect
		return paths, nil
	}
}

func (c *csCtx) stmts(list []ast.Stmt, paths []csPath, depth int) ([]csPath, error) {
	var err error
	for _, s := range list {
		if paths, err = c.stmt(s, paths, depth); err != nil {
			return nil, err
		}
		if len(paths) > 4096 {
			return nil, fmt.Errorf("%s: too many generator paths", c.pos(s))
		}
	}
	return paths, nil
}

func addEv(paths []csPath, ev ...string) []csPath {
	for i := range paths {
		paths[i].evs = append(paths[i].evs, ev...)
	}
	return paths
}

func (c *csCtx) call(name string, call *ast.CallExpr, paths []csPath, depth int) ([]csPath, error) {
	arg := func(i int) ast.Expr { return call.Args[i] }
	switch name {
	case "check_size":
		if k, ok := c.constInt(arg(0)); ok {
			return addEv(paths, fmt.Sprintf("Check %d", k)), nil
		}
		if l, ok := arg(0).(*ast.CallExpr); ok && c.src(l.Fun) == "len" && len(l.Args) == 1 {
			return addEv(paths, "CheckSym "+csCoqStr(c.src(l.Args[0]))), nil
		}
		return nil, fmt.Errorf("%s: check_size of a non-constant: %s", c.pos(call), c.src(arg(0)))
	case "check_size_r":
		d, ok := c.constInt(arg(1))
		if !ok {
			return nil, fmt.Errorf("%s: check_size_r with a non-constant displacement", c.pos(call))
		}
		reg := c.src(arg(0))
		for i := range paths {
			paths[i].evs = append(paths[i].evs, fmt.Sprintf("CheckR %d", d+paths[i].lb[reg]))
		}
		return paths, nil
	case "add_char":
		return addEv(paths, "Store 0 1", "Adv 1"), nil
	case "add_long":
		n, ok := c.constInt(arg(1))
		if !ok {
			return nil, fmt.Errorf("%s: add_long with a non-constant length", c.pos(call))
		}
		return addEv(paths, "Store 0 4", fmt.Sprintf("Adv %d", n)), nil
	case "add_text":
		if s, ok := c.constString(arg(0)); ok {
			return addEv(paths, fmt.Sprintf("Text %d", len(s))), nil
		}
		return addEv(paths, "TextSym "+csCoqStr(c.src(arg(0)))), nil
	case "store_int":
		nd, ok := c.constInt(arg(0))
		ins, ok2 := c.constString(arg(2))
		if !ok || !ok2 {
			return nil, fmt.Errorf("%s: store_int with non-constant arguments", c.pos(call))
		}
		fn := c.src(arg(1))
		signed := fn == "_F_i64toa"
		if !signed && fn != "_F_u64toa" {
			return nil, fmt.Errorf("%s: store_int with an unknown printer %s", c.pos(call), fn)
		}
		bits := int64(64)
		if bs, ok := csIntIns[ins]; ok {
			bits = bs[0]
			if (bs[1] == 1) != signed {
				return nil, fmt.Errorf("%s: store_int: %s does not match %s", c.pos(call), ins, fn)
			}
		} else if ins != "MOVQ" {
			return nil, fmt.Errorf("%s: store_int: unknown load %s", c.pos(call), ins)
		}
		b := "false"
		if signed {
			b = "true"
		}
		return addEv(paths, fmt.Sprintf("IntStore %d %d %s", nd, bits, b), "Reset"), nil
	case "Link":
		l, ok := c.constString(arg(0))
		if !ok {
			l = c.src(arg(0))
		}
		for i := range paths {
			paths[i].evs = append(paths[i].evs, "Label "+csCoqStr(l))
			paths[i].lb = map[string]int64{}
		}
		return paths, nil
	case "Sjmp", "Rjmp":
		l, ok := c.constString(arg(1))
		if !ok {
			l = c.src(arg(1))
		}
		if m, ok := c.constString(arg(0)); ok && m == "JMP" {
			return addEv(paths, "Jmp "+csCoqStr(l)), nil
		}
		return addEv(paths, "CJmp "+csCoqStr(l)), nil
	case "xsave", "xload", "save_c", "call", "prologue", "epilogue":
		return paths, nil // register spills / plain calls: no effect on the output cursor
	case "call_b64":
		return addEv(paths, "DynWrite"), nil
	case "call_go":
		if c.src(arg(0)) == "_F_memmove" {
			return addEv(paths, "DynWrite"), nil
		}
		return paths, nil
	case "call_c":
		switch c.src(arg(0)) {
		case "_F_f64toa":
			return addEv(paths, "FloatStore 64"), nil
		case "_F_f32toa":
			return addEv(paths, "FloatStore 32"), nil
		case "_F_quote":
			return addEv(paths, "NativeBounded"), nil
		}
		return nil, fmt.Errorf("%s: call_c of an unknown native routine %s", c.pos(call), c.src(arg(0)))
	case "Emit":
		m, ok := c.constString(arg(0))
		if !ok {
			return paths, nil // store_int's `ins`: handled as a primitive
		}
		last := call.Args[len(call.Args)-1]
		if off, ok := c.bufAddr(last); ok {
			w, okw := csWidth[m]
			o, oko := c.constInt(off)
			if !okw || !oko {
				return nil, fmt.Errorf("%s: store to the output buffer with unknown width/offset: %s", c.pos(call), c.src(call))
			}
			return addEv(paths, fmt.Sprintf("Store %d %d", o, w)), nil
		}
		dst := c.src(last)
		if dst == "_RL" {
			if m == "ADDQ" && len(call.Args) == 3 {
				if imm, ok := arg(1).(*ast.CallExpr); ok && c.src(imm.Fun) == "jit.Imm" {
					if n, ok := c.constInt(imm.Args[0]); ok {
						return addEv(paths, fmt.Sprintf("Adv %d", n)), nil
					}
					return nil, fmt.Errorf("%s: ADDQ of a non-constant immediate to RL", c.pos(call))
				}
			}
			return addEv(paths, "AdvDyn"), nil
		}
		if dst == "_RP" || dst == "_RC" {
			return paths, nil // reloaded together with RL (load_buffer_AX) / grown by more_space
		}
		// register lower bounds: ORQ $k, REG
		if m == "ORQ" && len(call.Args) == 3 {
			if imm, ok := arg(1).(*ast.CallExpr); ok && c.src(imm.Fun) == "jit.Imm" {
				if k, ok := c.constInt(imm.Args[0]); ok && k > 0 {
					for i := range paths {
						paths[i].lb[dst] = k
					}
					return paths, nil
				}
			}
		}
		if len(call.Args) >= 2 && m != "CMPQ" && m != "CMPB" && m != "TESTQ" && m != "BTQ" && m != "CMPL" && m != "TESTB" {
			for i := range paths {
				delete(paths[i].lb, dst)
			}
		}
		return paths, nil
	case "From":
		// MULQ etc. clobber AX:DX
		for i := range paths {
			delete(paths[i].lb, "_AX")
			delete(paths[i].lb, "_DX")
		}
		return paths, nil
	}
	// another Assembler method of this file: inline it
	if fd, ok := c.methods[name]; ok {
		if depth > 6 {
			return nil, fmt.Errorf("%s: inlining too deep at %s", c.pos(call), name)
		}
		if name == "check_size_rl" || name == "store_str" {
			return nil, fmt.Errorf("%s: direct use of %s outside the primitives", c.pos(call), name)
		}
		return c.stmts(fd.Body.List, paths, depth+1)
	}
	return paths, nil // methods of the embedded jit.BaseAssembler (xsave, xload, call, Byte, Sref, ...): no buffer effect
}

// the primitives must look as the accounting assumes
func (c *csCtx) checkPrimitives() error {
	want := map[string][]string{
		"add_char":     {`self.Emit("MOVB", jit.Imm(int64(ch)), jit.Sib(_RP, _RL, 1, 0))`, `self.Emit("ADDQ", jit.Imm(1), _RL)`},
		"add_long":     {`self.Emit("MOVL", jit.Imm(int64(ch)), jit.Sib(_RP, _RL, 1, 0))`, `self.Emit("ADDQ", jit.Imm(n), _RL)`},
		"add_text":     {`self.store_str(ss)`, `self.Emit("ADDQ", jit.Imm(int64(len(ss))), _RL)`},
		"check_size":   {`self.check_size_rl(jit.Ptr(_RL, int64(n)))`},
		"check_size_r": {`self.check_size_rl(jit.Sib(_RL, r, 1, int64(d)))`},
	}
	for name, body := range want {
		fd := c.methods[name]
		if fd == nil {
			return fmt.Errorf("primitive %s not found", name)
		}
		if len(fd.Body.List) != len(body) {
			return fmt.Errorf("%s: primitive %s no longer has the expected shape", c.pos(fd), name)
		}
		for i, s := range fd.Body.List {
			if c.src(s) != body[i] {
				return fmt.Errorf("%s: primitive %s, statement %d is %q, expected %q", c.pos(s), name, i, c.src(s), body[i])
			}
		}
	}
	// store_int: check_size(nd) first, the printer call, then ADDQ AX, RL
	si := c.methods["store_int"]
	if si == nil || len(si.Body.List) < 3 || c.src(si.Body.List[0]) != "self.check_size(nd)" ||
		c.src(si.Body.List[len(si.Body.List)-1]) != `self.Emit("ADDQ", _AX, _RL)` || !strings.Contains(c.src(si.Body), "self.call_c(fn)") {
		return fmt.Errorf("primitive store_int no longer has the expected shape")
	}
	// check_size_rl: LEAQ v, AX ; CMPQ AX, RC ; JBE ; grow
	rl := c.methods["check_size_rl"]
	if rl == nil || !strings.Contains(c.src(rl.Body), `self.Emit("LEAQ", v, _AX)`) || !strings.Contains(c.src(rl.Body), `self.Emit("CMPQ", _AX, _RC)`) ||
		!strings.Contains(c.src(rl.Body), `self.Sjmp("JBE", key)`) || !strings.Contains(c.src(rl.Body), "self.slice_grow_ax(key)") {
		return fmt.Errorf("primitive check_size_rl no longer compares RL+n with RC and grows")
	}
	// store_str writes exactly len(s) bytes at offsets [0, len): 8/4/2/1-byte stores at increasing i
	ss := c.methods["store_str"]
	if ss == nil || !strings.Contains(c.src(ss.Body), "for i <= len(m)-8") || !strings.Contains(c.src(ss.Body), "if i <= len(m)-4") ||
		!strings.Contains(c.src(ss.Body), "if i <= len(m)-2") || !strings.Contains(c.src(ss.Body), "if i < len(m)") {
		return fmt.Errorf("primitive store_str no longer has the 8/4/2/1 store shape")
	}
	return nil
}

func emitCheckSize(w *world) (string, error) {
	p, err := w.pkg(csPkg)
	if err != nil {
		return "", err
	}
	c := &csCtx{p: p, methods: map[string]*ast.FuncDecl{}, f: &pfFn{p: p}}
	var roots []string
	for _, file := range p.Syntax {
		if !strings.HasSuffix(p.Fset.Position(file.Pos()).Filename, "assembler_regabi_amd64.go") {
			continue
		}
		for _, d := range file.Decls {
			fd, ok := d.(*ast.FuncDecl)
			if !ok || fd.Recv == nil || fd.Body == nil {
				continue
			}
			t := fd.Recv.List[0].Type
			if st, ok := t.(*ast.StarExpr); ok {
				t = st.X
			}
			if id, ok := t.(*ast.Ident); !ok || id.Name != "Assembler" {
				continue
			}
			c.methods[fd.Name.Name] = fd
			if strings.HasPrefix(fd.Name.Name, "_asm_OP_") {
				roots = append(roots, fd.Name.Name)
			}
		}
	}
	if len(roots) < 40 {
		return "", fmt.Errorf("only %d _asm_OP_* emitters found", len(roots))
	}
	if err := c.checkPrimitives(); err != nil {
		return "", err
	}
	var b strings.Builder
	b.WriteString("From Coq Require Import ZArith String List.\nFrom SV.Pools Require Import Ev.\nImport ListNotations.\nOpen Scope Z_scope.\nOpen Scope string_scope.\n\n")
	b.WriteString("(* per emitter: the buffer events of every path through the generator code *)\n")
	b.WriteString("Definition emitters : list (string * list (list ev)) := [\n")
	total := 0
	for i, r := range roots {
		paths, err := c.stmts(c.methods[r].Body.List, []csPath{{lb: map[string]int64{}}}, 0)
		if err != nil {
			return "", fmt.Errorf("%s: %v", r, err)
		}
		// drop duplicate paths
		seen := map[string]bool{}
		var ps []string
		for _, pth := range paths {
			s := "[" + strings.Join(pth.evs, "; ") + "]"
			if !seen[s] {
				seen[s] = true
				ps = append(ps, s)
			}
		}
		total += len(ps)
		sep := ";"
		if i == len(roots)-1 {
			sep = ""
		}
		fmt.Fprintf(&b, "  (%s, [\n    %s])%s\n", csCoqStr(r), strings.Join(ps, ";\n    "), sep)
	}
	b.WriteString("].\n\n")
	fmt.Fprintf(&b, "Definition n_emitters : Z := %d.\nDefinition n_paths : Z := %d.\n", len(roots), total)
	_ = token.ADD
	_ = strconv.Itoa
	return b.String(), nil
}
