module verif/tx

go 1.22.0

toolchain go1.23.5

require (
	github.com/bytedance/sonic v0.0.0
	github.com/bytedance/sonic/loader v0.5.1
	golang.org/x/tools v0.29.0
)

require (
	golang.org/x/mod v0.22.0 // indirect
	golang.org/x/sync v0.10.0 // indirect
)

replace github.com/bytedance/sonic => /repo

replace github.com/bytedance/sonic/loader => /repo/loader
