package main

// Gen/ResolverUse.v: what the callers of resolver.ResolveStruct do with the field list it returns.  The list is the entry of the
// process-wide cache internal/resolver.fieldCache (one per struct type, shared by every compilation of every codec that
// contains the type), so it must never be written.  Emitted: every syntactic WRITE through the returned slice (directly, through
// a pointer taken into it, or through the Path slice of a copied entry) and every place where the slice or a pointer into it
// is handed to another function (listed by callee; Cache/ResolverCache.v pins the exact list).

import (
	"fmt"
	"go/ast"
	"go/printer"
	"go/token"
	"sort"
	"strings"
)

func init() { emitters["ResolverUse"] = emitResolverUse }

func emitResolverUse(w *world) (out string, err error) {
	defer func() {
		if r := recover(); r != nil {
			err = fmt.Errorf("%v", r)
		}
	}()
	var rows []string
	callers := 0
	for _, up := range usersOf("resolver.ResolveStruct(") {
		p, e := w.pkg(up)
		if e != nil {
			return "", e
		}
		for _, f := range p.Syntax {
			if isVerifFile(p.Fset.Position(f.Pos()).Filename) {
				continue
			}
			for _, d := range f.Decls {
				fd, ok := d.(*ast.FuncDecl)
				if !ok || fd.Body == nil {
					continue
				}
				shared, alias, copies := map[string]bool{}, map[string]bool{}, map[string]bool{}
				isResolve := func(e ast.Expr) bool {
					c, ok := e.(*ast.CallExpr)
					return ok && calleeName(c) == "resolver.ResolveStruct"
				}
				intoShared := func(e ast.Expr) bool { // &S[i]  or  &alias-free index into S
					u, ok := e.(*ast.UnaryExpr)
					if !ok || u.Op != token.AND {
						return false
					}
					r := rootIdent(u.X)
					return r != nil && shared[r.Name]
				}
				// pass 1: classify the local variables
				ast.Inspect(fd.Body, func(n ast.Node) bool {
					switch x := n.(type) {
					case *ast.AssignStmt:
						for i, r := range x.Rhs {
							if i >= len(x.Lhs) {
								break
							}
							id, ok := x.Lhs[i].(*ast.Ident)
							if !ok {
								continue
							}
							switch {
							case isResolve(r):
								shared[id.Name] = true
							case intoShared(r):
								alias[id.Name] = true
							default:
								if ix, ok := r.(*ast.IndexExpr); ok {
									if rt := rootIdent(ix.X); rt != nil && shared[rt.Name] {
										copies[id.Name] = true
									}
								}
							}
						}
					case *ast.RangeStmt:
						if rt := rootIdent(x.X); rt != nil && shared[rt.Name] {
							if v, ok := x.Value.(*ast.Ident); ok {
								copies[v.Name] = true
							}
						}
					}
					return true
				})
				if len(shared) == 0 {
					continue
				}
				callers++
				name := up[len(mod):] + "." + funcName(fd)
				add := func(kind, what string) {
					rows = append(rows, fmt.Sprintf("  (%s, %s, %s)", coqStr(name), kind, coqStr(what)))
				}
				lhsWrite := func(l ast.Expr) {
					if _, ok := l.(*ast.Ident); ok {
						return // rebinding a local variable
					}
					r := rootIdent(l)
					if r == nil {
						return
					}
					hasIndex := false
					ast.Inspect(l, func(n ast.Node) bool {
						if _, ok := n.(*ast.IndexExpr); ok {
							hasIndex = true
						}
						return true
					})
					if shared[r.Name] || alias[r.Name] || (copies[r.Name] && hasIndex) {
						add("RSharedWrite", strings.Join(strings.Fields(exprString(l)), " "))
					}
				}
				ast.Inspect(fd.Body, func(n ast.Node) bool {
					switch x := n.(type) {
					case *ast.AssignStmt:
						for _, l := range x.Lhs {
							lhsWrite(l)
						}
					case *ast.IncDecStmt:
						lhsWrite(x.X)
					case *ast.CallExpr:
						cn := calleeName(x)
						if cn == "len" || cn == "cap" || cn == "resolver.ResolveStruct" {
							return true
						}
						for _, a := range x.Args {
							if id, ok := a.(*ast.Ident); ok && shared[id.Name] {
								add("REscapeSlice", cn)
							} else if id, ok := a.(*ast.Ident); ok && alias[id.Name] {
								add("REscapePtr", cn)
							} else if intoShared(a) {
								add("REscapePtr", cn)
							}
						}
					}
					return true
				})
			}
		}
	}
	if callers == 0 {
		return "", fmt.Errorf("no caller of resolver.ResolveStruct found")
	}
	sort.Strings(rows)
	var b strings.Builder
	b.WriteString("From Coq Require Import List String.\nImport ListNotations.\nOpen Scope string_scope.\n\n")
	b.WriteString("Inductive ruse := RSharedWrite | REscapePtr | REscapeSlice.\n\n")
	fmt.Fprintf(&b, "Definition resolver_callers : nat := %d.\n\n", callers)
	b.WriteString("(* function, kind, written expression / callee *)\nDefinition resolver_uses : list (string * ruse * string) := [\n" + strings.Join(rows, ";\n") + "\n].\n")
	return b.String(), nil
}

func exprString(e ast.Expr) string {
	var b strings.Builder
	printer.Fprint(&b, token.NewFileSet(), e)
	return b.String()
}
