"""C11 - The alternative decoder implementation (SONIC_USE_OPTDEC, +SONIC_USE_FASTMAP) is observably equivalent."""
import os

from . import common as c
from . import C01_lib as lib

SUPPORT = ["Dec/Ty.v", "Dec/Val.v", "Dec/Parse.v", "Dec/Text.v", "Dec/Num.v", "Dec/Common.v", "Dec/FieldMap.v", "Dec/Range.v",
           "Dec/StdBind.v", "Dec/SonicBind.v", "Dec/FieldMapProofs.v", "Dec/FieldLookup.v", "Dec/DecProofs.v", "Dec/ParseMono.v", "Dec/Witness.v", "Dec/OptProofs.v"]

CLAIM = {
    "gens": [],
    "category": "proof",
    "text": ("The binder model takes the implementation as a parameter (Jit, Opt, OptFast): the places where the alternative decoder differs "
             "by construction (whole document read strictly before binding, numbers overflowing float64 rejected by the reader, []byte "
             "from arrays refused, slices grown by copy, null into **T handled) are explicit branches. "
             "Coq theorem: on the proved type fragment, for every strict document without float64-overflowing numbers the three "
             "implementations give the same result, and a structurally malformed input is rejected by all three; refutation witnesses for the "
             "modelled divergences. Tie / search: the C01 case stream runs in three worker processes (default, SONIC_USE_OPTDEC=1, "
             "+SONIC_USE_FASTMAP=1); results are compared pairwise on every valid document, and every structurally malformed input must be "
             "rejected by all (structural oracle: a plain Go reference parser). Every decoded destination is kept alive until the end of its "
             "process and dumped again after all other cases and two collections: the end-of-run dumps are compared, and a destination that changed "
             "after its Unmarshal returned (memory shared with pooled or later-reused buffers) is a violation."),
    "note": ("Trusted: as C01. native parse_with_padding is modelled by its contract (strict reader) only; optdec functors are hand-modelled "
             "for the listed branches, everything else about optdec is covered by the differential run only."),
    "technique": "Coq proof over a hand-written model with an implementation parameter + three-process differential run",
}

# (finding id, tags, predicate(kind, jit, opt, fast))  kind: "jo-err" "jo-val" "of" "malformed" "panic-jit" "panic-opt" "alias-jit" "alias-opt" "alias-fast"
FINDINGS = [
    ("KF-C11-utf8-panic", ("badutf8",), lambda k, a, b, f: k == "panic-opt"),
    ("KF-C11-jit-malformed-accepted", ("unterm32",), lambda k, a, b, f: k == "malformed" and a == "O" and b != "O" and f != "O"),
    ("KF-C11-float-inf", ("floatinf",), lambda k, a, b, f: k == "jo-err" and b == "E"),
    ("KF-C11-bytes-array", ("bytesarr",), lambda k, a, b, f: k == "jo-err" and a == "O" and b == "E"),
    ("KF-C11-number-in-string", ("intkey", "qnum", "numstr", "qbool"), lambda k, a, b, f: k == "jo-err" and a == "E" and b == "O"),
    ("KF-C11-jit-quoted-string-inner", ("qesc",), lambda k, a, b, f: k == "jo-err" and a == "O" and b == "E"),
    ("KF-C11-raw-number-trailing-space", ("rawnumws",), lambda k, a, b, f: k == "jo-val"),
    ("KF-C11-unsigned-minus-zero", ("uneg0",), lambda k, a, b, f: k == "jo-err" and a == "E" and b == "O"),
    ("KF-C11-usenumber-bad-number", ("badnum",), lambda k, a, b, f: k == "malformed" and a == "E"),
    ("KF-C11-embptr-null", ("embptrnull",), lambda k, a, b, f: k == "jo-val"),
    ("KF-C11-slice-grow", ("slicestale",), lambda k, a, b, f: k == "jo-val"),
    ("KF-C11-fastmap-dup-null", ("dupnull",), lambda k, a, b, f: k == "of"),
    ("KF-C11-quoted-unmarshaler", ("qunm",), lambda k, a, b, f: k in ("jo-err", "jo-val")),
    ("KF-C11-mapstr-null-merge", ("mapstrnull",), lambda k, a, b, f: k == "jo-val"),
]


def classify(kind, tags, a, b, f):
    tg = set(tags.split(",")) if tags != "-" else set()
    for fid, ftags, pred in FINDINGS:
        if tg & set(ftags) and pred(kind, a, b, f):
            return fid
    return None


def run(ctx):
    ctx.level = "proof"
    ctx.trusted = c.TRUSTED_COMMON + [c.TRUSTED_EXTRACT, "encoding/json.Valid and a plain Go reference parser as the validity / structure oracles",
                                     "the three back ends are selected by SONIC_USE_OPTDEC / SONIC_USE_FASTMAP at process start"]
    ctx.assumptions = [
        "the implementation-dependent branches of the model are hand transcriptions of internal/decoder/optdec (compiler, functors, node, slice, map); native parse_with_padding is represented by its contract (the strict reader)",
        "C11_equiv is proved on the type fragment of C01_bind_agree; elsewhere equivalence is checked by the differential run only",
        "what is left in the destination after an error is not compared",
    ]
    p_ok = c.standard_P(ctx, CLAIM["gens"], SUPPORT)
    problems = []
    if not p_ok:
        problems.append(("P", getattr(ctx, "p_fail", "proof half failed")))
    ok, hb = c.build_harness("c01")
    if not ok:
        ctx.violation("harness does not build against the repository: " + hb[-1500:], {"build": hb}, False)
        return
    mok, mexe = c.build_model("C01")
    if not mok:
        problems.append(("T", "model extraction / OCaml build failed: " + mexe[-800:]))
    rep = lib.backends(ctx, hb, classify, mexe if mok else None)
    problems += rep["problems"]
    lib.report11(ctx, rep, problems, c.known_findings("C11"))
