"""C14 - AST search and read-only views return exactly the addressed value."""
import collections
import glob
import hashlib
import json
import os
import subprocess

from . import common as c

SUPPORT = ["Ast/Tree.v", "Ast/Search.v", "Ast/SearchProofs.v", "Ast/Linked.v", "Ast/Node.v", "Ast/PathRefine.v", "Ast/PruneProofs.v"]

CLAIM = {
    "gens": ["AstConsts"],
    "category": "proof",
    "text": "Coq: token-level model of the native path search (get_by_path.c: advance_ns, match_key comparing the raw member name "
            "with the key escape by escape, skip_one_fast's own-kind bracket counter over skipped siblings, validating skip when "
            "ValidateJSON) and of the SAX traverser of ast/visitor.go; specification navigate (first occurrence; not-found vs wrong "
            "kind) and the preorder flattening of the tree. Theorems: match_key = comparison of the decoded name; the fast and the "
            "validating skippers consume exactly one value of any well-formed stream; search_spec (the search returns exactly the "
            "value navigate addresses, or its verdict, for every tree and path, with and without ValidateJSON); preorder_spec; "
            "preorder_skip_spec (a visitor answering VisitOPSkip: the skipped container contributes Begin+End only). "
            "Tie: (document, path) pairs on sonic.Get*/GetWithOptions under all 8 SearchOptions, ast.Searcher, Node.GetByPath on raw, "
            "concurrent-read and loaded roots, observables Raw/Interface/typed accessors/ForEach and recorded Preorder callbacks; "
            "oracle: encoding/json token-level walk.",
    "note": "Trusted: Coq kernel, extraction, OCaml driver, Go harness incl. its tokenizer, encoding/json as oracle. The byte level below "
            "tokens (whitespace skipping, the SIMD string scanner, number scanning) is tied by the runs only (C02/C13/C20 model it).",
    "technique": "Coq proof over a token-level model + differential runs with encoding/json as oracle",
}


def split_problems(p):
    return [] if p == "-" else p.split(" ;; ")


class Runner:
    def __init__(self, hb, mexe, work):
        self.hb, self.mexe, self.work, self.n = hb, mexe, work, 0

    def run(self, lines, full=False):
        self.n += 1
        cp = os.path.join(self.work, "b%d.cases" % self.n)
        ip = os.path.join(self.work, "b%d.impl" % self.n)
        open(cp, "w").write("\n".join(lines) + "\n")
        rc, out = c.sh([self.hb, "-mode", "run", "-cases", cp, "-impl", ip] + (["-full"] if full else []), env=c.GOENV, timeout=3000, check=False)
        if rc != 0:
            raise RuntimeError("harness failed: " + out[-1500:])
        return read_tsv(ip), self.model(cp, full)

    def model(self, cpath, full=False):
        rc, out = c.sh([self.mexe] + (["full"] if full else []), input=open(cpath).read(), timeout=3000, check=False)
        if rc != 0:
            raise RuntimeError("model driver failed: " + out[-1500:])
        return {l.split("\t")[0]: l.split("\t") for l in out.split("\n") if l}


def read_tsv(path):
    return {l.split("\t")[0]: l.rstrip("\n").split("\t") for l in open(path, errors="replace") if l.strip()}


def verdict(impl, model):
    """impl: id G N P problems ; model: id G0 G1 S N P F.  Returns (kind, detail) or None; plus known list"""
    known, bad = [], None
    if impl is None or model is None or len(impl) < 5 or len(model) < 7:
        return ("model", "missing log line"), known
    if not (model[1] == model[2] == model[3]):
        bad = ("spec", "model of get_by_path (no validation %s / validation %s) vs navigate %s" % (model[1], model[2], model[3]))
    elif model[5] != model[6]:
        bad = ("spec", "traverser model vs flattening of the tree differ")
    elif impl[1] != model[1]:
        bad = ("model", "search: implementation %s, model %s" % (impl[1], model[1]))
    elif impl[2] != model[4]:
        bad = ("model", "Node.GetByPath: implementation %s, model %s" % (impl[2], model[4]))
    elif impl[3] != model[5]:
        bad = ("model", "Preorder events: implementation and model differ")
    elif len(model) > 8 and model[7] != model[8]:
        bad = ("spec", "traverser model with a skipping visitor vs flattening with the skipped subtrees removed differ")
    elif len(impl) > 5 and len(model) > 7 and impl[5] != model[7]:
        bad = ("model", "Preorder events with a visitor answering VisitOPSkip: implementation and model differ")
    for p in split_problems(impl[4]):
        if p.startswith("KNOWN-dupidx"):
            known.append("KF-C14-dupkey-index")
        elif bad is None or bad[0] != "oracle":
            bad = ("oracle", p)
    return bad, known


def shrink_doc(runner, fields, kind):
    """greedy structural shrinking of the document: drop members / elements that are not needed for the failure"""
    import binascii
    text = binascii.unhexlify(fields[3]).decode("utf8", "surrogatepass")
    try:
        doc = json.loads(text, object_pairs_hook=lambda ps: ("o", ps), parse_int=lambda x: ("n", x), parse_float=lambda x: ("n", x))
    except Exception:
        return fields

    def norm(v):
        if isinstance(v, list):
            return ("a", [norm(x) for x in v])
        if isinstance(v, tuple) and v[0] == "o":
            return ("o", [(k, norm(x)) for k, x in v[1]])
        return v          # scalars; number literals stay ("n", text) so that -0, 1.0, 1e5 keep their spelling

    def dump(v):
        if isinstance(v, tuple) and v[0] == "a":
            return "[" + ",".join(dump(x) for x in v[1]) + "]"
        if isinstance(v, tuple) and v[0] == "o":
            return "{" + ",".join(json.dumps(k) + ":" + dump(x) for k, x in v[1]) + "}"
        if isinstance(v, tuple) and v[0] == "n":
            return v[1]
        return json.dumps(v)

    def tokens(text):
        rc, out = 0, None
        return None

    doc = norm(doc)
    path = [] if fields[2] == "." else fields[2].split("/")

    def candidates(v, p):
        """yield (path to container, index) deletions that keep the addressed positions stable"""
        if not isinstance(v, tuple) or v[0] == "n":
            return
        keep = None
        if p:
            s = p[0]
            if s[0] == "i" and v[0] == "a":
                keep = int(s[1:])
            elif s[0] == "k" and v[0] == "o":
                key = binascii.unhexlify(s[1:]).decode("utf8", "surrogatepass")
                hits = [i for i, (k, _) in enumerate(v[1]) if k == key]
                keep = hits[0] if hits else None
        for i in range(len(v[1]) - 1, -1, -1):
            if keep is not None and i <= keep and v[0] == "a":
                continue
            if keep is not None and i == keep:
                continue
            yield ([], i)
        if keep is not None and keep < len(v[1]):
            child = v[1][keep][1] if v[0] == "o" else v[1][keep]
            for (cp, i) in candidates(child, p[1:]):
                yield ([keep] + cp, i)

    def delete(v, cp, i):
        if not cp:
            return (v[0], v[1][:i] + v[1][i + 1:])
        j = cp[0]
        if v[0] == "o":
            k, x = v[1][j]
            return ("o", v[1][:j] + [(k, delete(x, cp[1:], i))] + v[1][j + 1:])
        return ("a", v[1][:j] + [delete(v[1][j], cp[1:], i)] + v[1][j + 1:])

    def still_fails(d):
        t = dump(d)
        line = "\t".join(["shr", "", fields[2], binascii.hexlify(t.encode("utf8", "surrogatepass")).decode()] + list(fields[4:5]))
        # the harness recomputes the tokens from the text when the token field is empty
        impl, model = runner.run([line])
        v, _ = verdict(impl.get("shr"), model.get("shr"))
        return v is not None and v[0] == kind

    changed, rounds, budget = True, 0, 80
    while changed and rounds < 40 and budget > 0:
        changed, rounds = False, rounds + 1
        for (cp, i) in list(candidates(doc, path)):
            if budget <= 0:
                break
            try:
                nd = delete(doc, cp, i)
            except Exception:
                continue
            budget -= 1
            if still_fails(nd):
                doc, changed = nd, True
                break
    t = dump(doc)
    if not still_fails(doc):      # the re-rendering lost the failure (spelling-dependent): keep the original text
        return fields
    return [fields[0], "", fields[2], binascii.hexlify(t.encode("utf8", "surrogatepass")).decode()] + list(fields[4:5])


def run(ctx):
    ctx.level = "proof"
    ctx.trusted = c.TRUSTED_COMMON + [c.TRUSTED_EXTRACT, c.TRUSTED_TX,
                                     "the Go harness' tokenizer (cuts the document into tokens with raw string bodies for the model) and "
                                     "encoding/json's Decoder as the oracle of paths, values and the event stream",
                                     "the read-only hook /repo/ast/verif_hooks.go"]
    ctx.assumptions = [
        "documents are valid JSON; the byte level under the tokens (whitespace skipping, vectorised string scanning, number scanning) is "
        "covered by the differential runs and by C02/C13/C20, not by the C14 theorems",
        "Node.Index addresses the i-th member of an object (documented API); the searcher treats an index on an object as a syntax error",
        "float conversion of Interface()/Float64() is compared with encoding/json/strconv in the runs only (C19)",
        "documents nest less than 4096 levels (the traverser's ERR_RECURSE_EXCEED_MAX path added by fix 62dcdd9 is C07's subject)",
    ]
    p_ok = c.standard_P(ctx, CLAIM["gens"], SUPPORT)
    problems = []
    if not p_ok:
        problems.append(("P", getattr(ctx, "p_fail", "proof half failed")))
        if ctx.violations:
            return
    ok, hb = c.build_harness("c14")
    if not ok:
        ctx.violation("harness does not build against /repo: " + hb[-1500:], {"build": hb}, False)
        return
    mok, mexe = c.build_model("C14")
    if not mok:
        ctx.violation("model extraction failed: " + mexe[-1500:], {"build": mexe, "proof": problems}, False)
        return
    work = os.path.join(c.BUILD, "work", "C14")
    os.makedirs(work, exist_ok=True)
    runner = Runner(hb, mexe, work)
    known_listed = {k["id"]: k for k in c.known_findings("C14")}

    lines = []
    if ctx.replay:
        lines = [json.load(open(ctx.replay))["replay"]["case_line"]]
        impl, model = runner.run(lines)
    else:
        for p in sorted(glob.glob(os.path.join(c.ROOT, "corpus", "C14", "*.case"))):
            lines += [l for l in open(p).read().split("\n") if l and not l.startswith("#")]
        impl, model = runner.run(lines) if lines else ({}, {})
        n = 6000 if ctx.tier == "quick" else 120000
        gpath, gimpl = os.path.join(work, "gen.cases"), os.path.join(work, "gen.impl")
        rc, out = c.sh([hb, "-mode", "gen", "-n", str(n), "-seed", str(ctx.seed), "-cases", gpath, "-impl", gimpl],
                       env=c.GOENV, timeout=3000, check=False)
        if rc != 0:
            ctx.violation("harness crashed while searching: " + out[-2000:], {"output": out[-6000:]}, True)
            return
        glines = [l for l in open(gpath).read().split("\n") if l]
        lines += glines
        impl.update(read_tsv(gimpl))
        # model in parallel chunks
        k = max(1, (len(glines) + 7) // 8)
        procs = []
        for i in range(0, len(glines), k):
            p = subprocess.Popen([mexe], stdin=subprocess.PIPE, stdout=subprocess.PIPE, text=True)
            procs.append((p, "\n".join(glines[i:i + k]) + "\n"))
        import threading
        outs = [None] * len(procs)

        def feed(i, p, d):
            outs[i] = p.communicate(d)[0]
        ths = [threading.Thread(target=feed, args=(i, p, d)) for i, (p, d) in enumerate(procs)]
        [t.start() for t in ths]
        [t.join() for t in ths]
        for (p, _), o in zip(procs, outs):
            if p.returncode != 0:
                raise RuntimeError("model driver failed")
            for l in o.split("\n"):
                if l:
                    model[l.split("\t")[0]] = l.split("\t")

    dist = collections.Counter()
    distinct = set()
    known_hit = collections.Counter()
    known_example = {}
    viols = []
    for line in lines:
        f = line.split("\t")
        v, known = verdict(impl.get(f[0]), model.get(f[0]))
        for kf in set(known):
            known_hit[kf] += 1
            known_example.setdefault(kf, (line, impl.get(f[0])))
        im = impl.get(f[0], ["", "?", "", "", ""])
        dist["result:" + im[1].split(":")[0]] += 1
        dist["pathlen:%d" % (0 if f[2] == "." else f[2].count("/") + 1)] += 1
        if "5c" in f[1]:
            dist["documents_with_escapes"] += 1
        if f[2] != "." and len(f) > 3:
            distinct.add(hashlib.sha1((f[2] + f[3]).encode()).hexdigest())
        if v:
            viols.append((f, v))
        elif len(ctx.cov["samples"]) < 4 and f[2] != "." and len(f[1]) < 300:
            ctx.sample({"tokens": f[1], "path": f[2], "search": im[1], "node": im[2]})
    variants = 13 + 4 + 3     # searcher entry points and options, node roots, views / preorder
    ctx.cov["evaluations"] = len(lines) * variants
    ctx.cov["distinct_nontrivial"] = len(distinct)
    ctx.cov["traces_validated_against_impl"] = len(lines) - len(viols)
    ctx.cov["rule"] = ("a case = document (nested objects/arrays up to 33 children, duplicate keys in a third of the cases, escaped and \\u-escaped "
                       "keys and strings incl. surrogate pairs, keys equal up to 15/16/17/31/32/33/64 bytes, whitespace styles) x path (existing, "
                       "missing, out of range, wrong kind, up to 4 steps); each evaluated through 13 searcher entry points/option sets, 4 node "
                       "roots, the views of the located node and Preorder; non-trivial = non-empty path, distinct by (document text, path)")
    ctx.cov["distribution"] = {"cases": len(lines), "kinds": dict(sorted(dist.items())), "known_findings_cases": dict(known_hit)}
    for k in sorted(known_hit):
        if k in known_listed:
            ctx.known(k, known_listed[k]["signature"])
        else:
            ex_line, ex_impl = known_example.get(k, ("", None))
            ex_doc = None
            try:
                import binascii
                ex_doc = binascii.unhexlify(ex_line.split("\t")[3]).decode("utf8", "replace")
            except Exception:
                pass
            ctx.violation("defect %s reappeared: it is not (or no longer) listed as known - %s" % (k, (ex_impl or ["", "", "", "", ""])[4][:300]),
                          {"id": k, "case_line": ex_line, "path": ex_line.split("\t")[2] if ex_line else None, "document": ex_doc, "impl": ex_impl}, True)
    viols.sort(key=lambda fv: {"oracle": 0, "model": 1, "spec": 2}[fv[1][0]])
    for f, v in viols[:3]:
        kind, detail = v
        mf = f
        try:
            if len(f) > 3:
                mf = shrink_doc(runner, f, kind)
            im, mo = runner.run(["\t".join(["min"] + mf[1:])], full=True)
            info = {"case_line": "\t".join(["min"] + mf[1:]), "path": f[2], "visitor_skips_containers": (mf[4] if len(mf) > 4 else "-"),
                    "impl": im.get("min"), "model": mo.get("min")}
            try:
                import binascii
                info["document"] = binascii.unhexlify(mf[3]).decode("utf8", "replace")
            except Exception:
                pass
        except Exception as e:
            info = {"case_line": line, "shrink_error": repr(e)}
        info["detail"] = detail
        if kind == "oracle":
            ctx.violation("search / view disagrees with the encoding/json walk: " + detail[:300], info, True)
        elif kind == "model":
            ctx.violation("the Coq model of the search no longer reproduces the implementation (the encoding/json oracle did not object): " + detail[:300], info, False)
        else:
            ctx.violation("model and specification disagree (a C14 theorem would be false on this input): " + detail[:300], info, False)
    if len(viols) > 3:
        c.log("(%d further violating cases not reported individually)" % (len(viols) - 3))
    if problems and not ctx.violations:
        ctx.violation("; ".join("%s: %s" % p for p in problems)[:3000],
                      {"broken": [p[1] for p in problems], "theorem_file": "coq/theories/Props/C14.v",
                       "searched": "%d (document, path) pairs agree with encoding/json" % len(lines)}, False)
