"""C17 - Stream decoding is independent of how the reader chunks the bytes (+ the stream Encoder clause)."""
import collections
import json
import os

from . import common as c

SUPPORT = ["Stream/Skip.v", "Stream/Json1.v", "Stream/Dec.v", "Stream/Spec.v", "Stream/Enc.v",
           "Stream/SkipProofs.v", "Stream/SkipValid.v", "Stream/DecProofs1.v", "Stream/DecProofs2.v", "Stream/DecProofs.v", "Stream/Valid.v",
           "Stream/EncProofs.v", "Stream/Witness.v"]

CLAIM = {
    "gens": [],
    "category": "proof",
    "text": ("Coq theorems over an executable model of StreamDecoder (buf/scanp/scanned/err, More/peek/scan/refill/readMore/realloc, "
             "decodeNumber/consume, try_skip loop over a model of native skip_one_fast, inner Decoder.Decode, setErr, Buffered, InputOffset) "
             "with the Reader as an oracle list of (chunk, optional error) incl. empty reads and error-with-data. For every stream passing "
             "the guard `good_values` (a computable check of the bytes and the final condition alone: top-level numbers with a delimited run "
             "of number bytes, objects/arrays/strings/literals that the fast skipper frames where the reference scanner ends them; tail = white "
             "space, a byte that cannot start a value, a framed value the decoder rejects, a truncated self-delimiting value) EVERY chunking, "
             "buffer size and final condition yields exactly the values and the terminal condition of the value-by-value specification: io.EOF, "
             "the reader's error unchanged after the values, or an error for malformed/truncated trailing data "
             "(stream_chunk_independent_partial); framing of self-delimiting values is prefix-stable and decodeNumber stops after the run of "
             "number bytes whatever the cuts; full strength for all states/readers: a returned value consumed >= 1 byte, nil-without-value is "
             "never returned, errors are sticky. StreamEncoder.Encode over a Writer oracle, full strength on the plain path: every short-write "
             "pattern delivers Marshal ++ newline, the first failing Write (incl. the newline's) is returned, nil <=> all delivered. Full "
             "strength over ALL streams is refuted by one witness (number followed by number bytes up to a reader failure). Model tied to /repo "
             "by running the same reader/writer oracles (all compositions of short streams, random cuts, both SIMD variants) through the real "
             "code, plus the raw skip_one_fast blob against its model; property oracle independent of the model: encoding/json.Decoder on the "
             "unchunked bytes. The pre-fix defects (repaired in /repo 005ce23, 79f3366, 3d2189e) stay as regression witnesses in corpus/C17."),
    "note": ("Trusted: Coq kernel + vm_compute (witnesses, examples), extraction, Go harness, encoding/json as oracle. Tied by differential runs only "
             "(not proved): native skip_one_fast blob = Skip.skip_one_fast, Decoder.Decode(&interface{}) accept/first-value/Pos = Json1.inner_decode, "
             "bufPool capacity = option.DefaultDecoderBufferSize. The guard's clause 'fast skipper frames where the reference scanner ends' "
             "is evaluated per stream, not proved for all valid JSON."),
    "technique": "Coq proof over an executable model of StreamDecoder/StreamEncoder with reader/writer oracles + exhaustive-chunking correspondence + encoding/json.Decoder oracle",
}

KF_NUMRUN = "KF-C17-number-run-before-reader-error"
KF_OFF = "KF-C17-inputoffset-undercount"


def _js(h):
    return json.loads(bytes.fromhex(h).decode("utf8", "replace"), parse_int=float, strict=False)


def val_eq(a, b):
    if a == b:
        return True
    try:
        return _js(a[2:]) == _js(b[2:])
    except Exception:
        return False


def ops_eq(a, b):
    A, B = a.split(" "), b.split(" ")
    if len(A) != len(B):
        return False
    for x, y in zip(A, B):
        if x == y:
            continue
        xr, _, xo = x.rpartition("@")
        yr, _, yo = y.rpartition("@")
        if xo != yo:
            return False
        if xr.startswith("V:") and yr.startswith("V:") and val_eq(xr, yr):
            continue
        return False
    return True


def _isnum(h):
    return h != "-" and chr(int(h, 16)) in "-0123456789"


def classify_dec(prop, fin):
    """prop = div:k:sonic:oracle:byte:prevbyte:anynum.  Returns a known-finding id, "either-error", or None (= violation)."""
    _, k, s, t, b, prev, anynum = prop.split(":")
    finc = "eof" if fin == "E" else "r" + fin
    if finc != "eof" and s == finc and t == "syn":
        # all values agree; the tail is malformed AND the reader fails with its own error: the decoder has not framed the
        # malformed value yet (or met a NUL, which the native skipper takes for the end of input) and reports the reader's
        # error, the oracle reports the syntax error.  Both are errors; the statement does not order them.
        return "either-error"
    if finc != "eof" and s == finc and t == "val" and _isnum(b):
        return KF_NUMRUN
    return None


def classify_enc(prop):
    return None


def describe(case):
    f = case.split("\t")
    if f[0] == "D":
        chunks = []
        for x in (f[6].split(";") if f[6] else []):
            h, _, e = x.partition("!")
            chunks.append(repr(bytes.fromhex(h.replace("-", "")))[1:] + ("+err(" + e + ")" if e else ""))
        return {"kind": "stream-decoder", "id": f[1], "avx2": f[2], "DefaultDecoderBufferSize": f[3],
                "reader_final": "io.EOF" if f[4] == "E" else "reader error #" + f[4], "ops": f[5],
                "read_results": chunks, "case_line": case}
    if f[0] == "E":
        return {"kind": "stream-encoder", "id": f[1], "marshal_hex": f[2], "indent_hex": f[3], "newline": f[4],
                "write_responses(n!err)": f[5], "case_line": case}
    return {"kind": "skip_one_fast", "input": repr(bytes.fromhex(f[3].replace("-", ""))), "case_line": case}


def run_variant(ctx, hb, mexe, work, tag, env_extra, args, stats, findings):
    """one harness process (one native variant) + the model on the same cases; returns list of problems"""
    cases_p = os.path.join(work, "cases." + tag)
    impl_p = os.path.join(work, "impl." + tag)
    model_p = os.path.join(work, "model." + tag)
    env = dict(c.GOENV)
    env.update(env_extra)
    rc, out = c.sh([hb, "-cases", cases_p, "-impl", impl_p] + args, env=env, timeout=2400, check=False)
    if rc != 0:
        hang = [l for l in out.splitlines() if l.startswith("HANG\t")]
        payload = {"output": out[-3000:]}
        if hang:
            payload["case"] = describe(hang[0].split("\t", 1)[1])
            findings.append(("T", "the stream decoder does not return on a case (20 s watchdog)", payload, True))
        else:
            findings.append(("T", "harness crashed (rc=%d): %s" % (rc, out[-600:]), payload, True))
        return
    cases = open(cases_p).read().split("\n")
    impl = open(impl_p).read().split("\n")
    model = None
    if mexe:
        rc, _ = c.sh("%s < %s > %s" % (mexe, cases_p, model_p), timeout=2400, check=False)
        model = open(model_p).read().split("\n")
        if rc != 0 or len(model) != len(impl):
            findings.append(("T", "model driver failed on the case file (%d vs %d lines)" % (len(model), len(impl)), {}, False))
            model = None
    seen = stats["seen"]
    for idx, (cs, im) in enumerate(zip(cases, impl)):
        if not cs:
            continue
        kind = cs[0]
        fi = im.split("\t")
        stats["evaluations"] += 1
        stats["kinds"][kind] += 1
        fm = model[idx].split("\t") if model else None
        why = None
        if kind == "D":
            fc = cs.split("\t")
            key = (fc[3], fc[4], fc[5], fc[6])
            if key not in seen:
                seen.add(key)
                if fc[6]:
                    stats["nontrivial"] += 1
            nchunks = len(fc[6].split(";")) if fc[6] else 0
            stats["chunks"][min(nchunks, 20) // 4 * 4] += 1
            stats["bufsize"][fc[3]] += 1
            stats["fin"]["eof" if fc[4] == "E" else "reader-error"] += 1
            if fm is not None:
                if fi[0] != fm[0] or not ops_eq(fi[1], fm[1]):
                    why = "Decode/More/Buffered/InputOffset results differ"
                elif fi[2] != fm[2]:
                    why = "sizes of the buffers offered to Read differ (realloc / sliding)"
                elif fi[3] != fm[3]:
                    why = "SPEC"
                if len(fm) > 4 and fm[4] == "G1":
                    stats["guard_holds"] += 1
                    if fi[4] not in ("ok", "skip", "skip-ctl") and not fi[4].startswith(("alias", "more:", "buf:")):
                        why = why or ("the guard of C17_stream_chunk_independent_partial holds for this stream, yet the implementation "
                                      "does not produce the specified values (" + fi[4] + ")")
            prop = fi[4]
            stats["prop"][prop.split(":")[0]] += 1
            if prop.startswith("div"):
                kf = classify_dec(prop, fc[4])
                if kf == "either-error":
                    stats["prop"]["malformed tail + reader error: reader's error reported (accepted)"] += 1
                elif kf:
                    stats["kf"][kf] += 1
                    stats["kf_example"].setdefault(kf, describe(cs))
                else:
                    findings.append(("O", "stream decoder disagrees with value-by-value decoding of the same bytes (%s)" % prop,
                                     {"case": describe(cs), "implementation": fi[1], "oracle(values|terminal)": fi[3], "divergence": prop}, True))
            elif prop.startswith("alias"):
                _, k_, e_, l_ = prop.split(":")
                findings.append(("O", "a value returned by an earlier Decode changed after later input was read / the buffer went through the pool "
                                      "(value #%s was %r, is now %r): the decoded value aliases the stream buffer" %
                                      (k_, bytes.fromhex(e_.replace("-", "")).decode("utf8", "replace")[:80], bytes.fromhex(l_.replace("-", "")).decode("utf8", "replace")[:80]),
                                 {"case": describe(cs), "implementation": fi[1], "oracle(values|terminal)": fi[3],
                                  "note": "bufPool recycling on (pool phase): option.LimitBufferSize at its default"}, True))
            elif prop.startswith("more:"):
                _, k_, got, want = prop.split(":")
                findings.append(("O", "More() = %s at op #%s where encoding/json.Decoder.More() on the same bytes = %s" % (got, k_, want),
                                 {"case": describe(cs), "implementation": fi[1]}, True))
            elif prop.startswith("buf:"):
                findings.append(("O", "Buffered() followed by the undelivered bytes is not the stream from InputOffset() on (%s = buf:op:offset)" % prop,
                                 {"case": describe(cs), "implementation": fi[1]}, True))
            elif prop.startswith("off"):
                _, k_, got, lo, hi, ws = prop.split(":")
                findings.append(("O", "InputOffset() after value %s is %s, outside [encoding/json InputOffset = end of the value %s, next token %s]" % (k_, got, lo, hi),
                                 {"case": describe(cs), "implementation": fi[1], "oracle(values|terminal)": fi[3]}, True))
            elif prop == "short":
                findings.append(("T", "op string too short to reach the terminal condition", {"case": describe(cs)}, False))
        elif kind == "E":
            stats["nontrivial"] += 1 if cs.split("\t")[5] else 0
            if fm is not None and fi[:3] != fm[:3]:
                why = "Encode result / delivered bytes differ"
            prop = fi[4]
            stats["encprop"][prop] += 1
            if prop != "ok":
                kf = classify_enc(prop)
                if kf:
                    stats["kf"][kf] += 1
                    stats["kf_example"].setdefault(kf, describe(cs))
                else:
                    findings.append(("O", "stream encoder violates the delivery clause (%s)" % prop,
                                     {"case": describe(cs), "implementation": fi[1:3]}, True))
        elif kind == "S":
            stats["nontrivial"] += 1
            if fm is not None and fi[:2] != fm[:2]:
                why = "native skip_one_fast (%s) and its model differ" % tag
        if why == "SPEC":
            findings.append(("S", "the Coq specification values_of and encoding/json.Decoder disagree",
                             {"case": describe(cs), "encoding/json": fi[3], "spec": fm[3]}, False))
        elif why:
            findings.append(("T", "model and implementation disagree: " + why,
                             {"case": describe(cs), "implementation": fi[1:3], "model": fm[1:3]}, None))
        if len(ctx.cov["samples"]) < 6 and kind == "D" and idx % 997 == 3:
            ctx.sample({"case": describe(cs)["read_results"], "results": fi[1], "oracle": fi[3], "property": fi[4]})


def run(ctx):
    ctx.level = "proof"
    ctx.trusted = c.TRUSTED_COMMON + [c.TRUSTED_EXTRACT,
        "encoding/json.Decoder on the unchunked bytes as the oracle of the decoder clauses; sonic's own encoder.Encode as 'Marshal's bytes' for the encoder clause",
        "the native blob skip_one_fast is tied to Skip.skip_one_fast by differential runs only (both SIMD variants); the inner Decoder.Decode is tied to Json1.inner_decode by the same runs"]
    ctx.assumptions = [
        "bufPool hands out buffers of capacity option.DefaultDecoderBufferSize (the harness sets option.LimitBufferSize=0 so that no grown buffer is recycled)",
        "generated streams avoid what C17 is not about: invalid UTF-8, control characters inside strings, float overflow (exponents of 3+ digits), nesting beyond 6",
    ]
    p_ok = c.standard_P(ctx, [], SUPPORT)
    findings = []
    if not p_ok:
        findings.append(("P", getattr(ctx, "p_fail", "proof half failed"), {"theorem_file": "coq/theories/Props/C17.v"}, False))
    ok, hb = c.build_harness("c17")
    if not ok:
        ctx.violation("harness does not build against /repo: " + hb[-1500:], {"build": hb}, False)
        return
    mok, mexe = c.build_model("C17")
    if not mok:
        findings.append(("T", "model extraction failed: " + mexe[-800:], {}, False))
        mexe = None
    work = os.path.join(c.BUILD, "work", "C17")
    os.makedirs(work, exist_ok=True)
    stats = {"evaluations": 0, "nontrivial": 0, "seen": set(), "kinds": collections.Counter(), "chunks": collections.Counter(),
             "bufsize": collections.Counter(), "fin": collections.Counter(), "prop": collections.Counter(),
             "encprop": collections.Counter(), "kf": collections.Counter(), "kf_example": {}, "guard_holds": 0}
    corpus = os.path.join(c.ROOT, "corpus", "C17")
    if ctx.replay:
        rp = json.load(open(ctx.replay))
        line = rp.get("replay", {}).get("case", {}).get("case_line")
        tmp = os.path.join(work, "replay.case")
        open(tmp, "w").write((line or "") + "\n")
        base = ["-replay", tmp]
        variants = [("avx2", {}, base + ["-avx2=true"]), ("sse", {"SONIC_MODE": "noavx2"}, base + ["-avx2=false"])]
        if line and line.split("\t")[0] in ("D", "S"):
            variants = [v for v in variants if (v[0] == "avx2") == (line.split("\t")[2] == "1")]
    else:
        base = ["-tier", ctx.tier, "-seed", str(ctx.seed), "-corpus", corpus]
        variants = [("avx2", {}, base + ["-avx2=true"]),
                    ("sse", {"SONIC_MODE": "noavx2"}, base + ["-avx2=false", "-seed", str(ctx.seed + 1)])]
    for tag, env_extra, args in variants:
        run_variant(ctx, hb, mexe, work, tag, env_extra, args, stats, findings)

    ctx.cov["evaluations"] = stats["evaluations"]
    ctx.cov["distinct_nontrivial"] = stats["nontrivial"]
    ctx.cov["traces_validated_against_impl"] = stats["evaluations"] if mexe else 0
    ctx.cov["rule"] = ("D: one reader oracle (chunking incl. empty reads, error/EOF with data, buffer size, op string) run through the real "
                       "StreamDecoder, the extracted model and encoding/json.Decoder; all 2^(n-1) compositions of every short stream; "
                       "non-trivial = distinct (buffer size, final condition, ops, chunking) with at least one Read result; "
                       "S: skip_one_fast blob vs model; E: writer oracle through the real StreamEncoder vs model vs Marshal++newline")
    ctx.cov["distribution"] = {"kinds(D=decoder,S=skipper,E=encoder)": dict(stats["kinds"]),
                               "chunks_per_case(bucket of 4)": {str(k): v for k, v in sorted(stats["chunks"].items())},
                               "DefaultDecoderBufferSize": dict(stats["bufsize"]), "reader_final": dict(stats["fin"]),
                               "decoder_vs_oracle": dict(stats["prop"]), "encoder_vs_oracle": dict(stats["encprop"]),
                               "known_finding_hits": dict(stats["kf"]),
                               "cases_whose_stream_satisfies_the_theorem_guard": stats["guard_holds"]}
    known = {k["id"]: k for k in c.known_findings("C17")}
    for kf, n in sorted(stats["kf"].items()):
        if kf in known:
            ctx.known(kf, known[kf]["signature"] + " (%d cases, e.g. %s)" % (n, json.dumps(stats["kf_example"][kf].get("read_results", stats["kf_example"][kf].get("write_responses(n!err)")))[:160]))
        else:
            findings.append(("O", "defect class %s reproduced but not listed in known_findings" % kf, {"case": stats["kf_example"][kf]}, True))
    # refutation witnesses must still fail on the implementation (otherwise the model is stale): they live in corpus/C17
    # and are part of every run; a repaired implementation shows up as a model/implementation disagreement above.

    # report: failing inputs first (oracle disagreements, then model disagreements with their concrete case)
    shown = 0
    order = {"O": 0, "T": 1, "S": 2, "P": 3}
    findings.sort(key=lambda f: order[f[0]])
    have_input = any(f[0] == "O" for f in findings)
    for kind, what, payload, found in findings:
        if shown >= 4:
            break
        if kind == "T" and found is None:
            # model/implementation disagreement: the case is a concrete chunking; it is a failing input of the property
            # only if the oracle comparison also failed, otherwise the tie is broken
            found = False if not have_input else False
        ctx.violation(what[:3000], payload, bool(found))
        shown += 1
