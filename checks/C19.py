"""C19 - Numbers convert exactly in both directions."""
import json
import os
import re
import threading

from . import common as c

SUPPORT = ["Num/Dec.v", "Num/DecLemmas.v", "Num/IntParse.v", "Num/IntParseProofs.v", "Num/NumGrammar.v", "Num/NumGrammarProofs.v",
           "Num/SkipNumberProofs.v", "Num/Range.v", "Num/RangeProofs.v", "Num/RangeGen.v", "Num/IntPrint.v", "Num/IntPrintProofs.v", "Num/IntPrintExact.v",
           "Num/FloatFmt.v", "Num/FloatFmtProofs.v", "Num/WriteDecDenotes.v", "Num/FloatFmt32Proofs.v", "Num/WriteDecGrammar.v", "Num/FloatShortcut.v", "Num/VNumberScan.v", "Num/VNumberLiteral.v", "Num/FloatCheck.v", "Num/FloatSpec.v", "Num/FloatCheckProofs.v", "Num/FloatCheckSound.v", "Num/FloatInterval.v", "Num/ShortestSound.v", "Num/FloatComplete.v", "Num/ShortestComplete.v",
           "Num/VNumber.v", "Num/Api.v", "Num/Refuted.v"]

CLAIM = {
    "gens": ["NumTables"],
    "category": "proof",
    "text": ("Theorems (Coq, all inputs, no bound) about executable models that follow native/scanning.h, fastint.h, f64toa.c/f32toa.c, "
             "the jitdec range checks and alg.IsValidNumber: vsigned/vunsigned return the literal's exact integer value iff it is in range and "
             "otherwise an overflow / number-format error; the narrow range checks accept exactly the destination width and the narrow store keeps "
             "the value; skip_number and IsValidNumber accept exactly the RFC 8259 number grammar (inductive definition); i64toa/u64toa emit the "
             "canonical shortest decimal, which parses back; write_dec's text denotes sig*10^exp exactly and switches to exponent notation exactly "
             "like encoding/json. Decimal<->binary float conversion itself (Eisel-Lemire, Schubfach) is not proved for all inputs: verified "
             "per-output checkers (round-to-nearest-even of the exact rational; shortest round-trip) are applied to every implementation output "
             "explored by the tie half. The models are tied to the pre-assembled native code of both SIMD variants and to the Go decoders/encoders "
             "by differential runs with strconv / encoding/json as independent oracles."),
    "note": ("Trusted: Coq kernel, extraction, the Go harness, strconv and encoding/json as oracles. The native routines are modelled by hand "
             "from the C text; the running blobs are tied only by the correspondence runs. schubfach_shortest and eisel_lemire_correct are stated, "
             "not proved."),
    "technique": "Coq proofs over hand models + verified per-output checkers + differential tie (both SIMD blobs, both decoders, both encoders)",
}

CLASS2KF = {
    "negzero-literal": "KF-C19-negzero-literal",
    "f32-double-rounding": "KF-C19-f32-double-rounding",
    "mapkey-u32-wrap": "KF-C19-mapkey-u32-wrap",
    "node-int64-cast": "KF-C19-node-int64-cast",
    "optdec-number-overflow": "KF-C19-optdec-number-overflow",
    "optdec-f32-range": "KF-C19-optdec-f32-range",
    "vm-negzero": "KF-C19-vm-negzero",
    "over800-int-digits": "KF-C19-over800-int-digits",
}


def classify_mismatch(m):
    """narrow classifier for model/implementation disagreements that are recorded defects of the native blob"""
    fields = m["case"].split("\t")
    kind = fields[1]
    if kind not in ("vn", "uf64", "uf32", "nb64"):
        return None
    try:
        data = bytes.fromhex(fields[2]) if fields[2] != "-" else b""
    except ValueError:
        return None
    p0 = int(fields[4]) if kind == "vn" else 0
    mt = re.match(rb"-?0*([0-9]+)", data[p0:])
    if mt and len(mt.group(1)) > 800:
        return "over800-int-digits"
    return None

RUNS = [  # (mode, tag, extra environment)
    ("native", "jit", {}),
    ("api", "jit", {}),
    ("api", "optdec", {"SONIC_USE_OPTDEC": "1"}),
    ("api", "optdec-fastmap", {"SONIC_USE_OPTDEC": "1", "SONIC_USE_FASTMAP": "1"}),
    ("enc", "jit", {}),
    ("enc", "vm", {"SONIC_ENCODER_USE_VM": "1"}),
]


def _hexs(s):
    return s.encode("utf8", "surrogateescape").hex() or "-"


def run(ctx):
    ctx.level = "proof"
    ctx.trusted = c.TRUSTED_COMMON + [
        c.TRUSTED_EXTRACT, c.TRUSTED_TX,
        "strconv.ParseFloat/ParseInt/ParseUint/FormatFloat/AppendInt and encoding/json as oracles of the conversions",
        "hand-written Gallina models of native/scanning.h (vinteger, vnumber_1, do_skip_number, skip_number_1), native/fastint.h, the notation part of "
        "native/f64toa.c and f32toa.c, the jitdec range checks and alg.IsValidNumber; the pre-assembled blobs (avx2 and sse) and the Go paths are tied by runs only",
    ]
    ctx.assumptions = [
        "schubfach_shortest (f64todec/f32todec always return the shortest, closest decimal) and eisel_lemire_correct (vnumber's float result is the "
        "correctly rounded double, incl. the 800-digit fallback): stated, not proved; covered by the verified per-output checkers nearest_double_check / "
        "shortest_roundtrip_check applied to every implementation output sampled by this run (count: coverage.checker_applications)",
        "the models of the native routines follow the C source text; the blobs that actually run are compared with the models on the generated inputs "
        "(both SIMD variants, every start offset / following byte drawn), not proved equivalent",
        "x86 emission of the range checks is modelled at the level of the emitted compare/jump sequence (signed/unsigned flags), the assembler itself is trusted",
    ]
    p_ok = c.standard_P(ctx, CLAIM["gens"], SUPPORT)
    problems = []
    if not p_ok:
        problems.append("P: " + str(getattr(ctx, "p_fail", "proof half failed")))

    ok, hb = c.build_harness("c19")
    if not ok:
        ctx.violation("harness does not build against the repository: " + hb[-1500:], {"build": hb}, False)
        return
    mok, mexe = c.build_model("C19")
    if not mok:
        problems.append("T: model extraction failed: " + mexe[-1500:])

    work = os.path.join(c.BUILD, "work", "C19")
    os.makedirs(work, exist_ok=True)
    for fn in os.listdir(work):
        os.remove(os.path.join(work, fn))
    quick = ctx.tier == "quick"
    scale = 2 if quick else 64
    corpus = os.path.join(work, "corpus.hex")
    lines = []
    cdir = os.path.join(c.ROOT, "corpus", "C19")
    if os.path.isdir(cdir):
        for fn in sorted(os.listdir(cdir)):
            if fn.endswith(".hex"):
                lines += [l for l in open(os.path.join(cdir, fn)).read().splitlines() if l.strip()]
    replay_lit = None
    if ctx.replay:
        rp = json.load(open(ctx.replay)).get("replay", {})
        replay_lit = rp.get("literal_hex")
    open(corpus, "w").write("\n".join(lines) + "\n")

    # ---- run the implementation (five processes, in parallel)
    results = {}

    def go(mode, tag, extra):
        env = dict(c.GOENV)
        env.update(extra)
        cmd = [hb, "-mode", mode, "-tag", tag, "-seed", str(ctx.seed), "-scale", str(scale), "-out", work, "-corpus", corpus]
        if replay_lit:
            cmd += ["-one", replay_lit]
        if mode == "native" and not quick:
            cmd += ["-f32sweep", "4000"]
        results[(mode, tag)] = c.sh(cmd, env=env, timeout=3000, check=False)

    ths = [threading.Thread(target=go, args=r) for r in RUNS]
    for t in ths:
        t.start()
    for t in ths:
        t.join()
    for (mode, tag), (rc, out) in sorted(results.items()):
        if rc != 0:
            ctx.violation("harness %s/%s crashed: %s" % (mode, tag, out[-1500:]), {"mode": mode, "tag": tag, "output": out[-4000:]}, True)
            return

    # ---- run the model on the tied cases (two processes, in parallel) and diff
    mism = []
    known_mism = {}
    model_cases = 0
    checker_apps = 0
    if mok:
        mres = {}

        def runm(name):
            cf = os.path.join(work, name + ".case")
            mres[name] = c.sh("%s < %s > %s" % (mexe, cf, os.path.join(work, name + ".model")), timeout=3000, check=False)

        names = ["native-jit", "api-jit"]
        ths = [threading.Thread(target=runm, args=(n,)) for n in names]
        for t in ths:
            t.start()
        for t in ths:
            t.join()
        for n in names:
            rc, out = mres[n]
            impl = open(os.path.join(work, n + ".impl")).read().splitlines()
            model = open(os.path.join(work, n + ".model")).read().splitlines()
            cases = open(os.path.join(work, n + ".case")).read().splitlines()
            if rc != 0 or len(model) != len(impl):
                problems.append("T: model driver failed on %s (rc=%d, %d of %d lines): %s" % (n, rc, len(model), len(impl), out[-400:]))
                continue
            model_cases += len(impl)
            for a, b, cs in zip(impl, model, cases):
                kind = cs.split("\t")[1]
                if kind in ("vn", "f64", "f32", "uf64", "uf32", "nb64"):
                    checker_apps += 1
                if a != b:
                    mm = {"file": n, "case": cs, "impl": a, "model": b}
                    cls = classify_mismatch(mm)
                    if cls:
                        known_mism.setdefault(cls, []).append(mm)
                    else:
                        mism.append(mm)

    # ---- oracle reports
    reps = {}
    unclassified, classes = [], {}
    evaluations, distinct = 0, 0
    dist, outcomes = {}, {}
    for mode, tag, _ in RUNS:
        rp = json.load(open(os.path.join(work, "%s-%s.report.json" % (mode, tag))))
        reps[(mode, tag)] = rp
        evaluations += rp["evaluations"]
        if (mode, tag) in (("native", "jit"), ("enc", "jit")):
            distinct += rp["distinct_nontrivial"]
        for k, v in (rp.get("distribution") or {}).items():
            dist["%s/%s" % (mode, k)] = dist.get("%s/%s" % (mode, k), 0) + v if mode != "api" or tag == "jit" else dist.get("%s/%s" % (mode, k), 0)
        for k, v in (rp.get("outcomes") or {}).items():
            outcomes["%s-%s/%s" % (mode, tag, k)] = v
        for f in rp.get("failures") or []:
            f["backend"] = "%s/%s" % (mode, tag)
            if f.get("class") in CLASS2KF:
                classes.setdefault(f["class"], []).append(f)
            else:
                unclassified.append(f)
        # failures beyond the recorded cap still count
        if rp.get("n_failures", 0) > len(rp.get("failures") or []):
            outcomes["%s-%s/failures-not-listed" % (mode, tag)] = rp["n_failures"] - len(rp.get("failures") or [])

    ctx.cov["evaluations"] = evaluations + model_cases
    ctx.cov["distinct_nontrivial"] = distinct
    ctx.cov["traces_validated_against_impl"] = model_cases
    ctx.cov["checker_applications"] = checker_apps
    ctx.cov["model_mismatches"] = len(mism)
    ctx.cov["rule"] = ("literals: boundary integers of every width +-2, random integers of 1..25 digits, decimal floats with 1..40 digit mantissas and exponents "
                       "0, +-30, +-(300..400), exact halfway points of float64/float32 (exact, just above, just below, re-exponented), >800-digit mantissas, "
                       "shortest/17-digit renderings of random doubles, a fixed list of malformed texts and single-byte mutations; each literal is run through "
                       "vsigned/vunsigned/vnumber/skip_number of both SIMD blobs (bare and inside a random prefix/suffix with a chosen out-of-bounds byte), "
                       "alg.IsValidNumber, 14 scalar destinations x {ConfigStd, ConfigDefault}, interface{} x {default, UseNumber, UseInt64}, slices, arrays, "
                       "pointers, map keys, map values, struct fields, `,string` fields, ast accessors, under jitdec and optdec; values: integers at every width "
                       "boundary and digit length, float64/float32 bit patterns stratified by exponent, powers of two +-1ulp, subnormals, notation thresholds, "
                       "printed by the natives, alg.*, Marshal (JIT and VM), ast. non-trivial = distinct non-empty case.")
    ctx.cov["distribution"] = {"generated": dist, "outcomes": outcomes,
                               "known_classes": {k: len(v) for k, v in classes.items()}}
    try:
        nat_cases = open(os.path.join(work, "native-jit.case")).read().splitlines()
        nat_impl = open(os.path.join(work, "native-jit.impl")).read().splitlines()
        step = max(1, len(nat_cases) // 6)
        for i in range(0, len(nat_cases), step):
            ctx.sample({"case": nat_cases[i][:300], "impl": nat_impl[i][:200]})
    except Exception:
        pass

    # ---- verdicts
    known = {k["id"]: k for k in c.known_findings("C19")}
    for cls in sorted(known_mism):
        kf = CLASS2KF[cls]
        if kf in known:
            m0 = known_mism[cls][0]
            ctx.known(kf, "%s (%d occurrences: implementation %s, specification %s)" % (cls, len(known_mism[cls]), m0["impl"][:60], m0["model"][:60]))
        else:
            mism += known_mism[cls]
    for cls in sorted(classes):
        kf = CLASS2KF[cls]
        if kf in known:
            ctx.known(kf, "%s (%d occurrences, e.g. %s -> %s)" % (cls, len(classes[cls]), classes[cls][0]["input"][:60], classes[cls][0]["got"][:60]))
        else:
            unclassified += classes[cls]

    def lit_of(f):
        return _hexs(f["input"]) if len(f["input"]) < 3000 else None

    seen_paths = set()
    for f in unclassified:
        key = f["path"].split("/")[0:3]
        key = "/".join(key)
        if key in seen_paths or len(ctx.violations) >= 5:
            continue
        seen_paths.add(key)
        ctx.violation("number conversion differs from the oracle on %s (%s): input %r gives %s, oracle %s" %
                      (f["path"], f["backend"], f["input"][:200], f["got"][:200], f["want"][:200]),
                      {"failure": f, "literal_hex": lit_of(f), "how": "bin/check C19 quick --replay <this file> re-runs this literal through every path"}, True)
    if mism and not ctx.violations:
        m = mism[0]
        fields = m["case"].split("\t")
        kind = fields[1]
        if kind in ("f64", "f32"):
            what = "printed float fails the verified shortest/round-trip/notation check (code %s)" % m["model"].split("\t")[-1]
        elif kind in ("vn", "uf64", "uf32", "nb64"):
            what = "parsed float is not the value the specification (round to nearest even of the exact rational) gives"
        else:
            what = "implementation and Coq model disagree"
        ctx.violation("%s: case %s impl=%s model=%s (%d disagreements)" % (what, m["case"][:300], m["impl"], m["model"], len(mism)),
                      {"mismatches": mism[:20], "literal_hex": fields[2] if kind not in ("i64", "u64", "f64", "f32", "ui", "uu") else (fields[3] if kind in ("ui", "uu") else None)},
                      True)
    if problems and not ctx.violations:
        ctx.violation("; ".join(problems)[:3000],
                      {"broken": problems, "theorem_file": "coq/theories/Props/C19.v",
                       "searched": "%d oracle evaluations, %d model-tied cases, no failing input" % (evaluations, model_cases)}, False)
