"""C08 - Codecs are safe and deterministic under arbitrary concurrent use."""
import json
import os

from . import common as c

SUPPORT = ["Cache/PCache.v", "Cache/PCacheArr.v", "Cache/PCacheProbe.v", "Cache/PCacheInv.v", "Cache/PCacheProofs.v",
           "Cache/Rcu.v", "Cache/RcuProofs.v", "Cache/C08Thm.v", "Cache/C08Model.v", "Cache/AccessProofs.v", "Cache/PoolDiscipline.v", "Cache/C09Thm.v"]

CLAIM = {
    "gens": ["CacheConsts", "Access", "PoolUse"],
    "category": "proof",
    "text": ("Theorems (Coq): ProgramCache.Get/Compute of internal/caching/pcache.go modelled as small-step thread programs (atomic load; "
             "probe of the immutable snapshot; lock; re-check; compute; copy-on-write add; atomic store; unlock) over the proved "
             "open-addressing map model, run by an ARBITRARY scheduler: for every schedule, hash function and deterministic compile "
             "function each completed Compute returns exactly compute(vt), each Get nil or compute(vt), add never panics, the "
             "published map stays well-formed, no entry is ever lost, the compile callback succeeds at most once per type "
             "(rcu_linearizable, rcu_no_entry_lost). access_discipline over an access list REGENERATED from pcache.go and "
             "jitdec/pools.go on every run: every access to ProgramCache.p, _ProgramMap fields, valueCache, fieldCache is atomic / on a "
             "not yet published object / an immutable read / under its lock, except in functions no concurrent API call reaches "
             "(exact exception list is part of the theorem); the source text of Get/Compute/Reset/add the model was transcribed from is "
             "pinned. pool_discipline: for the two pools that carry state between calls (jitdec decoder stacks: clean-on-put; native "
             "state machines: init-on-get) the event lists (Get/Reset/Use/Put) of every control-flow path of every user are regenerated "
             "from the Go and C sources (Gen/PoolUse.v) and, for every interleaving, every pooled object handed out and every way a use "
             "can end (errors leave any state), no call reads state left behind by another call and the stack pool only holds clean stacks. "
             "Everything else of the property (pools, generated code, module registration, the real Go memory model, the "
             "public API under concurrency, sync.Pool recycling after failing calls) is covered only by -race / plain runs against a fresh-process oracle."),
    "note": ("Trusted: Coq kernel, translator (syntactic classification, static call graph), extraction, Go race detector and harness. "
             "sync.Pool recycling, registerModule and the JIT-generated code are outside the model."),
    "technique": "Coq proof over an interleaving model + translator-generated access discipline + -race differential runs",
}


def run(ctx):
    ctx.level = "proof"
    ctx.trusted = c.TRUSTED_COMMON + [c.TRUSTED_TX, c.TRUSTED_EXTRACT,
                                     "the Go race detector (go build -race) as the observer of data races in the real runs",
                                     "the add-only verif hook /repo/internal/caching/verif_hooks.go (+ verifx/caching_verif.go)",
                                     "oracles: the deterministic compile function of the harness (cache level), a sequential run of the same calls in a fresh process (public API)"]
    ctx.assumptions = [
        "atomic.LoadPointer/StorePointer and sync.Mutex are taken as sequentially consistent atomic steps / a lock (Go memory model below that abstraction is not modelled)",
        "a probe of a snapshot is one step: justified by C08_access_discipline (no write to a published _ProgramMap)",
        "each call is its own thread; schedules bounded only by len < 2^30 (no uint32 overflow of the capacity)",
        "the compile callback is a deterministic total function of the type returning a non-nil program or an error",
        "pool_discipline abstracts an object to Unknown/Clean/Dirty and a user function to per-path event lists (if: both arms with identifier conditions kept consistent, loops: 0-2 iterations, consecutive uses merged); that the native routines initialise the machine is read off the C sources (the blobs are assembled from them); the encoder stack pool (reset only on error, relies on balanced generated code), buffer pools and sync.Pool itself are not modelled",
        "other pools (sync.Pool), loader.registerModule, generated code and all other packages' shared state are NOT modelled: tested with -race only",
        "reachability in access_discipline = static call graph over the packages that import internal/caching or internal/encoder/vars; function values count as reachable; tests and verif hooks are excluded",
    ]
    p_ok = c.standard_P(ctx, CLAIM["gens"], SUPPORT)
    problems = []
    if not p_ok:
        problems.append(("P", getattr(ctx, "p_fail", "proof half failed")))
    ok, hb = c.build_harness("c08", race=True)
    if not ok:
        ctx.violation("harness does not build (-race) against the repository: " + hb[-1500:], {"build": hb}, False)
        return
    work = os.path.join(c.BUILD, "work", "C08")
    os.makedirs(work, exist_ok=True)
    quick = ctx.tier == "quick"
    env = dict(c.GOENV)
    env["GORACE"] = "exitcode=66 halt_on_error=1"
    seed = ctx.seed
    if ctx.replay:
        try:
            seed = int(json.load(open(ctx.replay))["replay"]["seed"])
        except Exception:
            pass
    dist = {}
    evals = 0
    real_fail = []

    # ---- T1: the real ProgramCache raced by 8-64 goroutines (chosen hashes, tiny capacities, failing compiles)
    cj, cc, cr = (os.path.join(work, x) for x in ("c.json", "c.cases", "c.real"))
    rounds, ties = (24, 8) if quick else (400, 60)
    cmd = [hb, "-mode", "cache", "-seed", str(seed), "-rounds", str(rounds), "-tie", str(ties), "-g", "64", "-keys", "200",
           "-calls", "50" if quick else "120", "-out", cj, "-cases", cc, "-real", cr]
    rc, out = c.sh(cmd, env=env, timeout=3000, check=False)
    if rc == 66 or "WARNING: DATA RACE" in out:
        real_fail.append(("data race on the program cache reported by the race detector", {"mode": "cache", "seed": seed, "cmd": " ".join(cmd[1:]), "race_report": out[-6000:]}))
    elif rc != 0:
        real_fail.append(("concurrent use of the program cache crashed (exit %d)" % rc, {"mode": "cache", "seed": seed, "cmd": " ".join(cmd[1:]), "output": out[-6000:]}))
    else:
        rep = json.load(open(cj))
        evals += rep["calls"]
        dist["cache"] = {k: rep[k] for k in rep if k not in ("failures",)}
        for k in ("hash_styles", "final_entry_counts", "final_capacities", "goroutines_per_round", "initial_capacities"):
            dist["cache"][k] = dist["cache"][k][:12]
        ctx.sample({"cache_round": {"goroutines": rep["goroutines_per_round"][0], "initial_capacity": rep["initial_capacities"][0],
                                    "hash_style": rep["hash_styles"][0], "final_n": rep["final_entry_counts"][0], "final_capacity": rep["final_capacities"][0]}})
        for f in rep.get("failures") or []:
            real_fail.append(("program cache under concurrency: " + f, {"mode": "cache", "seed": seed, "cmd": " ".join(cmd[1:]), "failure": f}))
        # model vs implementation on the schedule-independent observables of the small rounds
        mok, mexe = (False, "") if not p_ok else c.build_model("C08")
        if p_ok and not mok:
            problems.append(("T", "model extraction failed: " + mexe[-800:]))
        if mok:
            rc2, mo = c.sh([mexe], input=open(cc).read(), timeout=600, check=False)
            rl, ml = open(cr).read().splitlines(), mo.splitlines()
            if rc2 != 0 or len(rl) != len(ml):
                problems.append(("T", "model driver failed: " + mo[-300:]))
            else:
                bad = [(i, a, b) for i, (a, b) in enumerate(zip(rl, ml)) if a != b]
                ctx.cov["traces_validated_against_impl"] = len(rl)
                ctx.cov["model_mismatches"] = len(bad)
                if bad:
                    i, a, b = bad[0]
                    problems.append(("T", "Rcu model and implementation disagree on n/mask/compiles/keys of round %d: real %s model %s; case: %s"
                                     % (i, a, b, open(cc).read().splitlines()[i][:400])))

    # ---- T2: the public API: racing first-use compilation of fresh types vs a sequential fresh process
    ac, aseq = os.path.join(work, "a.conc"), os.path.join(work, "a.seq")
    runs = [(12, 30, 12)] if quick else [(8, 60, 40), (32, 120, 30), (64, 200, 25), (16, 30, 60)]
    api_calls = 0
    for i, (g, k, n) in enumerate(runs):
        s = seed + i
        args = ["-seed", str(s), "-g", str(g), "-keys", str(k), "-calls", str(n)]
        rc1, o1 = c.sh([hb, "-mode", "api", "-out", ac] + args, env=env, timeout=3000, check=False)
        if rc1 == 66 or "WARNING: DATA RACE" in o1:
            real_fail.append(("data race reported while %d goroutines race Marshal/Unmarshal/Pretouch/Valid/Get on fresh types" % g,
                              {"mode": "api", "seed": s, "args": " ".join(args), "race_report": o1[-6000:]}))
            continue
        if rc1 != 0:
            real_fail.append(("the process died while %d goroutines race first-use compilation (exit %d)" % (g, rc1),
                              {"mode": "api", "seed": s, "args": " ".join(args), "output": o1[-6000:]}))
            continue
        # the sequential oracle runs in the build without -race (same results, several times faster)
        okp, hplain0 = c.build_harness("c08")
        rc2, o2 = c.sh([hplain0 if okp else hb, "-mode", "apiseq", "-out", aseq] + args, env=env, timeout=3000, check=False)
        if rc2 != 0:
            problems.append(("T", "sequential oracle run failed: " + o2[-500:]))
            continue
        la, ls = open(ac).read().splitlines(), open(aseq).read().splitlines()
        api_calls += len(ls)
        diff = [(a, b) for a, b in zip(la, ls) if a != b]
        if len(la) != len(ls) or diff:
            a, b = diff[0] if diff else ("", "")
            real_fail.append(("a call returned something else under concurrency than when run alone: %s  vs sequential  %s" % (a, b),
                              {"mode": "api", "seed": s, "args": " ".join(args), "concurrent": a, "sequential": b, "differing_calls": len(diff)}))
        elif i == 0 and ls:
            ctx.sample({"api_call": ls[0]})
    # ---- T3: pool recycling: thousands of calls failing inside nested documents, then / meanwhile probes (fresh-process oracle)
    ok2, hplain = c.build_harness("c08")          # no -race: in race builds sync.Pool drops a quarter of the Puts
    pool_evals = 0
    if not ok2:
        problems.append(("T", "harness (no race) does not build: " + hplain[-800:]))
    else:
        po = os.path.join(work, "pool.oracle")
        nflood = 3000 if quick else 12000
        rc0, o0 = c.sh([hplain, "-mode", "pool", "-flood", "0", "-seed", str(seed), "-out", po], env=env, timeout=600, check=False)
        if rc0 != 0:
            problems.append(("T", "pool oracle run failed: " + o0[-500:]))
        else:
            oracle = [l.split("\t") for l in open(po).read().splitlines()]
            for name, exe, g in (("plain", hplain, 8), ("race", hb, 8)) + ((("plain-32", hplain, 32),) if not quick else ()):
                pf = os.path.join(work, "pool." + name)
                args = ["-mode", "pool", "-flood", str(nflood if name != "race" else nflood // 6), "-g", str(g), "-seed", str(seed), "-out", pf]
                rc1, o1 = c.sh([exe] + args, env=env, timeout=1200, check=False)
                if rc1 == 66 or "WARNING: DATA RACE" in o1:
                    real_fail.append(("data race reported while failing calls and probes share the pools", {"mode": "pool", "seed": seed, "args": " ".join(args), "race_report": o1[-6000:]}))
                    continue
                if rc1 != 0:
                    real_fail.append(("the process died in the pool-recycling run (exit %d): %s" % (rc1, o1[-300:]),
                                      {"mode": "pool", "seed": seed, "args": " ".join(args), "output": o1[-6000:]}))
                    continue
                got = [l.split("\t") for l in open(pf).read().splitlines()]
                for a, b in zip(oracle, got):
                    pool_evals += 1
                    want = a[2].split(" @ ")[0]
                    for r in b[2].split(" || "):
                        res, _, phase = r.partition(" @ ")
                        if res != want:
                            real_fail.append(("pooled state leaks between calls: '%s' returns %s %s, but %s in a fresh process"
                                              % (b[1], res[:160], phase, want[:160]),
                                              {"mode": "pool", "seed": seed, "build": name, "args": " ".join(args), "probe": b[1],
                                               "result": res, "when": phase, "fresh_process_result": want}))
                            break
            dist["pool"] = {"probes": len(oracle), "failing_calls_per_kind": nflood, "kinds": 8, "phases": "sequential per kind, then concurrent (8 flooders + 4 probers)",
                            "builds": "without -race and with -race"}
    evals += api_calls + pool_evals
    dist["api"] = {"runs": [{"goroutines": g, "fresh_types": k, "calls_per_goroutine": n} for g, k, n in runs], "calls_compared": api_calls,
                   "ops": "Marshal, Unmarshal, Pretouch, Valid, Get (uniform), types: generated StructOf (5/6) + safe catalogue (1/6), wrappers T,*T,[]T,map[string]T"}
    ctx.cov["evaluations"] = evals
    ctx.cov["distinct_nontrivial"] = (dist.get("cache", {}).get("rounds", 0)) + api_calls
    ctx.cov["rule"] = ("cache: one evaluation = one Get-then-Compute call issued by one of 8-64 goroutines on the real ProgramCache; non-trivial unit = "
                       "a racing round (fresh cache, fresh hash table); api: one evaluation = one public API call compared with the sequential fresh-process run")
    ctx.cov["distribution"] = dist

    for what, payload in real_fail[:3]:
        ctx.violation(what[:700], payload, True)
    if problems and not ctx.violations:
        ctx.violation("; ".join("%s: %s" % p for p in problems)[:3000],
                      {"broken": [p[1] for p in problems], "theorem_file": "coq/theories/Props/C08.v", "seed": seed,
                       "searched": "%d racing calls with -race, no race report, no wrong result" % evals}, False)
