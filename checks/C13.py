"""C13 - SIMD level does not change any result (AVX2 vs SSE)."""
import json
import os
import re

from . import common as c

SUPPORT = ["Simd/Blocked.v", "Simd/QuoteCap.v", "Simd/DispatchSpec.v", "Simd/DispatchProofs.v"]

CLAIM = {
    "gens": ["Dispatch"],
    "category": "proof",
    "text": ("Theorems (Coq): (a) over the dispatch table regenerated from internal/native/dispatch_amd64.go and avx2|sse/native_export.go on "
             "every run: useAVX2 and useSSE assign exactly the same set of variables, once each, each from its own package, each to the symbol "
             "belonging to the variable's name and the same symbol in both; no declared variable is forgotten; every exported wrapper X calls "
             "the variable __X; init() picks useAVX2 / useSSE by cpu.HasAVX2 / cpu.HasSSE; both packages register the same symbols consistently. "
             "(b) for every byte predicate, every block width W>0 and every cascade of vector loops / single rounds of positive widths followed by "
             "the scalar tail, the block-structured finder equals the scalar specification on every input (hence the 32-byte and the 16-byte "
             "compilation of lspace, memcchr_p32, memcchr_quote_unsafe agree), and a 64-bit position mask assembled from lanes of any width is "
             "the mask of the whole block (advance_string_*, get_maskx64); memcchr_quote / memcchr_html_quote WITH a destination capacity "
             "(loop 32, test 32, loop 16, test 16, scalar vs loop 16, test 16, scalar) agree for every input and capacity. The two pre-assembled blobs themselves are NOT proved equal: they are "
             "compared by running every native entry point of both variants in one process on the same memory (all lengths 0..200 x content "
             "classes x alignments 0..63, random and mutated JSON, number formatting), and the whole public API in two processes "
             "(default / SONIC_MODE=noavx2)."),
    "note": ("Trusted: Coq kernel + vm_compute, the translator tools/tx, extraction, the Go harness. The scan model is tied to the blobs only "
             "through lspace and the first-backslash position of vstring; everything else about the blobs is differential testing."),
    "technique": "Coq proof over a dispatch table regenerated from source + width-parametric scan lemmas; in-process AVX2-vs-SSE differential runs",
}

ENTRY_POINTS = ["SkipOne", "ValidateOne", "SkipOneFast", "GetByPath", "Value", "Vstring", "Vnumber", "Vsigned", "Vunsigned", "Quote", "Unquote",
                "HTMLEscape", "ValidateUTF8", "ValidateUTF8Fast", "I64toa", "U64toa", "F64toa", "F32toa", "Lspace", "SkipArray", "SkipObject",
                "SkipNumber"]


def gen_lhs():
    """variables assigned by useAVX2 according to the generated Coq table"""
    src = open(os.path.join(c.GEN, "Dispatch.v")).read()
    m = re.search(r"Definition useAVX2_assigns.*?:=\s*\[(.*?)\]\.", src, re.S)
    return re.findall(r'\("([A-Za-z0-9_]+)", \("', m.group(1)) if m else []


DIAG = """From Coq Require Import String List Bool.
From SV.Gen Require Import Dispatch.
From SV.Simd Require Import DispatchSpec.
Open Scope string_scope.
Eval vm_compute in ("tables_ok", tables_ok, "wrappers_ok", wrappers_ok, "calls_ok", calls_ok, "init_ok", init_ok, "use_tables_ok", use_tables_ok).
Eval vm_compute in ("rows of useSSE breaking the rule", filter (fun r => negb (row_ok "sse" r)) useSSE_assigns,
                    "rows of useAVX2 breaking the rule", filter (fun r => negb (row_ok "avx2" r)) useAVX2_assigns).
Eval vm_compute in ("assigned by useAVX2 only", filter (fun v => negb (mem v (lhs useSSE_assigns))) (lhs useAVX2_assigns),
                    "assigned by useSSE only", filter (fun v => negb (mem v (lhs useAVX2_assigns))) (lhs useSSE_assigns),
                    "declared, never assigned", filter (fun v => negb (mem v never_assigned || mem v (lhs useAVX2_assigns))) declared).
Eval vm_compute in ("wrappers not calling their own variable", filter (fun w => negb (wrapper_ok w)) wrappers).
"""


def dispatch_diag():
    """which part of the boolean dispatch check fails on the regenerated table (the counter-model Coq exposes)"""
    rc, out = c.coq_eval("C13diag", DIAG, timeout=300)
    return re.sub(r"\s+", " ", out)[-2500:]


def run_replay(ctx, hb, work):
    rp = json.load(open(ctx.replay))
    payload = rp.get("replay", {})
    if "case" in payload:
        cf = os.path.join(work, "replay-case.json")
        json.dump(payload["case"], open(cf, "w"))
        rc, out = c.sh([hb, "-mode", "replay", "-case", cf], env=c.GOENV, timeout=300, check=False)
        c.log(out.strip())
        ctx.cov["evaluations"] = 1
        if rc != 0:
            ctx.violation("replayed case: AVX2 and SSE results differ (or the run crashed): " + out[-800:], {"case": payload["case"], "output": out[-2000:]}, True)
    elif "api_index" in payload:
        a, b = api_full(hb, work, payload["api_seed"], payload["api_tier"], payload["api_index"])
        ctx.cov["evaluations"] = 1
        if a != b:
            ctx.violation("replayed API case: default and SONIC_MODE=noavx2 outputs differ", dict(payload, default=a[-3000:], noavx2=b[-3000:]), True)
    else:
        c.log("replay file holds no runnable case: " + rp.get("what", ""))


def api_full(hb, work, seed, tier, idx):
    outs = []
    for tag, env in (("auto", {}), ("noavx2", {"SONIC_MODE": "noavx2"})):
        f = os.path.join(work, "api-only-%s.txt" % tag)
        c.sh([hb, "-mode", "api", "-tier", tier, "-seed", str(seed), "-only", str(idx), "-out", f], env=dict(c.GOENV, **env), timeout=900, check=False)
        outs.append(open(f, errors="replace").read() if os.path.exists(f) else "")
    return outs


def run(ctx):
    ctx.level = "proof"
    ctx.trusted = c.TRUSTED_COMMON + [c.TRUSTED_TX, c.TRUSTED_EXTRACT,
                                     "the hook verifx.AVX2 / verifx.SSE / verifx.Dispatch (tag verif) hands out the raw entry points of both packages"]
    ctx.assumptions = [
        "the two blobs (internal/native/{avx2,sse}/*_text_amd64.go) are two compilations of native/*.c that are not modelled instruction by instruction: "
        "their equality is established by differential runs only; the theorems explain why block width and lane width cannot matter at the level of the C source",
        "the scan model (Simd/Blocked.v, Simd/QuoteCap.v) is tied to the implementation through lspace, the first-backslash position reported by vstring, and the (ret, dn) pair of Quote when the destination fills up; "
        "the string scanner's escaped-quote bit trick (m0_mask) and the number scanner are not part of this model (C02/C19/C20)",
        "S_skip_one_fast is declared in dispatch_amd64.go but assigned by neither useAVX2 nor useSSE and read nowhere in the amd64 build (never_assigned in Simd/DispatchSpec.v)",
        "F64toa/F32toa are not called on NaN/Inf (excluded by every caller before the native call)",
    ]
    p_ok = c.standard_P(ctx, CLAIM["gens"], SUPPORT)
    problems = []
    if not p_ok:
        problems.append(("P", getattr(ctx, "p_fail", "proof half failed")))
        if not getattr(ctx, "p_fail", "").startswith("translator"):
            problems.append(("P-diagnosis", dispatch_diag()))

    ok, hb = c.build_harness("c13")
    if not ok:
        ctx.violation("harness does not build against /repo: " + hb[-1500:], {"build": hb}, False)
        return
    work = os.path.join(c.BUILD, "work", "C13")
    os.makedirs(work, exist_ok=True)
    if ctx.replay:
        run_replay(ctx, hb, work)
        return

    # ---- T0: run-time state of the dispatch table in both modes
    disp = {}
    for tag, env in (("avx2", {}), ("sse", {"SONIC_MODE": "noavx2"})):
        f = os.path.join(work, "dispatch-%s.json" % tag)
        rc, out = c.sh([hb, "-mode", "dispatch", "-out", f], env=dict(c.GOENV, **env), timeout=120, check=False)
        if rc != 0:
            problems.append(("T", "dispatch probe crashed (%s): %s" % (tag, out[-600:])))
            continue
        d = json.load(open(f))
        disp[tag] = d
        if tag == "avx2" and not d["has_avx2"]:
            ctx.assumptions.append("this CPU has no AVX2: the default process already runs the SSE variant; only the in-process comparison is meaningful")
            continue
        wrong = [r for r in d["rows"] if r["cur"] != tag]
        if wrong:
            problems.append(("T", "dispatch (%s process): variables not pointing at their own package: %s" % (tag, json.dumps(wrong[:6]))))
    if p_ok and "avx2" in disp:
        lhs = set(gen_lhs())
        rows = {r["name"] for r in disp["avx2"]["rows"]}
        if lhs != rows:
            problems.append(("T", "dispatch table of the source (%d variables) and the hook's probe (%d) name different variables: %s"
                             % (len(lhs), len(rows), sorted(lhs ^ rows)[:8])))
    ctx.cov["dispatch_rows_probed"] = {k: len(v["rows"]) for k, v in disp.items()}

    # ---- T1 + search: every native entry point, AVX2 vs SSE in one process
    rep_f = os.path.join(work, "native.json")
    tie_f = os.path.join(work, "tie.txt")
    rc, out = c.sh([hb, "-mode", "native", "-tier", ctx.tier, "-seed", str(ctx.seed), "-out", rep_f, "-tie", tie_f],
                   env=c.GOENV, timeout=3000, check=False)
    if rc != 0:
        ctx.violation("native comparison harness crashed: " + out[-1500:], {"output": out[-4000:]}, True)
        return
    rep = json.load(open(rep_f))
    missing = [e for e in ENTRY_POINTS if rep["per_entry"].get(e, 0) == 0]
    if missing:
        problems.append(("T", "entry points never exercised: %s" % missing))

    # ---- T2: model tie (extracted OCaml) on lspace and first backslash
    tie_n, tie_bad = 0, []
    mok, mexe = (False, "") if not p_ok else c.build_model("C13")
    if p_ok and not mok:
        problems.append(("T", "model extraction failed: " + mexe[-800:]))
    if mok:
        lines = open(tie_f).read().splitlines()
        extra = []
        # the extracted finders on a sweep of block-boundary inputs (model self-run: every variant equals the others)
        for L in range(0, 140):
            body = "61" * L
            extra.append("quote\t%s" % (body + "22" if True else body))
            extra.append("lanes\t%s" % ((body + "5c" + "61" * (L % 5)) or "-"))
        inp = []
        for l in lines:
            f = l.split("\t")
            inp.append("\t".join(f[:3]) if f[0] in ("lspace", "qcap") else "\t".join(f[:2]))
        rc, mout = c.sh([mexe], input="\n".join(inp + extra) + "\n", timeout=900, check=False)
        ml = mout.splitlines()
        if rc != 0 or len(ml) != len(inp) + len(extra):
            problems.append(("T", "model driver failed: " + mout[-500:]))
        else:
            for l, m in zip(lines, ml):
                f, g = l.split("\t"), m.split("\t")
                tie_n += 1
                if f[0] == "lspace":
                    good = g[1:4] == [f[3], f[4], f[3]] and f[3] == f[4]
                elif f[0] == "qcap":
                    # model: F k / U k for both variants; implementation: ret, dn of Quote for both variants
                    n = len(f[1]) // 2
                    good = g[1:3] == g[3:5]
                    for (kind, k), (ret, dn) in (((g[1], int(g[2])), (int(f[3]), int(f[4]))), ((g[3], int(g[4])), (int(f[5]), int(f[6])))):
                        if kind == "U":
                            good = good and ret == -k - 1 and dn == k
                        elif k == n:
                            good = good and ret == n and dn == n
                        # F k with k < n: quote() goes on to write the escape, nothing to compare at this level
                else:
                    good = g[1:3] == [f[2], f[3]]
                if not good and len(tie_bad) < 10:
                    tie_bad.append({"impl": l, "model": m})
            for m in ml[len(inp):]:
                g = m.split("\t")
                tie_n += 1
                if len(set(g[1:])) != 1 and len(tie_bad) < 10:
                    tie_bad.append({"model_variants_disagree": m})
        if tie_bad:
            problems.append(("T", "scan model and implementation disagree: " + json.dumps(tie_bad[0])))
    ctx.cov["traces_validated_against_impl"] = tie_n

    # ---- T3: whole API, default vs SONIC_MODE=noavx2, same case stream
    api = {}
    for tag, env in (("auto", {}), ("noavx2", {"SONIC_MODE": "noavx2"})):
        f = os.path.join(work, "api-%s.txt" % tag)
        rc, out = c.sh([hb, "-mode", "api", "-tier", ctx.tier, "-seed", str(ctx.seed), "-out", f], env=dict(c.GOENV, **env), timeout=3000, check=False)
        if rc != 0:
            ctx.violation("whole-API run crashed under %s: %s" % (tag, out[-1500:]), {"mode": tag, "output": out[-4000:], "seed": ctx.seed}, True)
            return
        api[tag] = open(f).read().splitlines()
    api_diff = []
    if len(api["auto"]) != len(api["noavx2"]):
        problems.append(("T", "API case streams differ in length"))
    kinds = {}
    for a, b in zip(api["auto"], api["noavx2"]):
        k = a.split("\t")[1]
        kinds[k.split(" ")[0]] = kinds.get(k.split(" ")[0], 0) + 1
        if a != b:
            api_diff.append(int(a.split("\t")[0]))

    # ---- coverage
    ctx.cov["evaluations"] = rep["evaluations"] + len(api["auto"]) + tie_n
    ctx.cov["distinct_nontrivial"] = rep["distinct_nontrivial"] + len(set(l.split("\t")[2] for l in api["auto"]))
    ctx.cov["rule"] = ("native: one evaluation = one entry point called in BOTH variants on the same bytes at the same address (input in its own region, 64 identical "
                       "sentinel bytes before and after), all outputs compared; distinct = distinct (entry, input, arguments), non-trivial = non-empty input "
                       "(or a number to format). API: one evaluation = one case (about 15-40 public calls) run in two processes; distinct = distinct output hash.")
    ctx.cov["distribution"] = {"per_entry_point": rep["per_entry"], "per_content_class": rep["per_class"], "input_length": rep["lengths"],
                               "outcome_avx2": rep["outcome"], "api_cases_by_kind": kinds}
    ctx.cov["native_mismatches"] = rep["n_mismatch"]
    ctx.cov["api_mismatches"] = len(api_diff)
    ctx.cov["entry_points"] = len([e for e in ENTRY_POINTS if rep["per_entry"].get(e, 0) > 0])
    for s in rep.get("samples", [])[:5]:
        ctx.sample({"entry": s["case"]["entry"], "in": s["case"]["in"][:80], "align": s["case"]["align"], "avx2": s["avx2"][:120], "sse": s["sse"][:120]})

    # ---- violations with a concrete failing input
    for m in rep["mismatches"][:3]:
        ctx.violation("native %s: AVX2 and SSE results differ on the same input (%s)" % (m["case"]["entry"], m["kind"]),
                      {"case": m["case"], "avx2": m["avx2"][:2000], "sse": m["sse"][:2000]}, True)
    for idx in api_diff[:3]:
        a, b = api_full(hb, work, ctx.seed, ctx.tier, idx)
        ctx.violation("public API: outputs differ between default and SONIC_MODE=noavx2 (case %d)" % idx,
                      {"api_index": idx, "api_seed": ctx.seed, "api_tier": ctx.tier, "default": a[-3000:], "noavx2": b[-3000:]}, True)
    if problems and not ctx.violations:
        ctx.violation("; ".join("%s: %s" % p for p in problems)[:3000],
                      {"broken": [p[1][:2000] for p in problems], "theorem_file": "coq/theories/Props/C13.v",
                       "searched": "%d native evaluations (AVX2 vs SSE, %d mismatches), %d API cases in two processes (%d mismatches)"
                                   % (rep["evaluations"], rep["n_mismatch"], len(api["auto"]), len(api_diff))}, False)
