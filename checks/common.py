"""Shared machinery for /verif/bin/check.

Every property check is a python module checks/<ID>.py exposing run(ctx) -> None.
The protocol (DESIGN.md section 5.1):
  P  regenerate Gen/*.v from /repo (tools/tx), build the Coq targets of the property,
     re-compile Props/<ID>.v capturing Print Assumptions
  T  correspondence: model (extracted OCaml or vm_compute) vs implementation built from /repo
  search for a failing input when P or T breaks, VIOLATION line, evidence file.
"""
import fcntl
import hashlib
import json
import os
import re
import shutil
import subprocess
import sys
import time

# VERIF_ROOT / VERIF_REPO are only used by bin/mutcheck (private copies for mutation testing);
# the registered checks always run with the defaults.
ROOT = os.environ.get("VERIF_ROOT", "/verif")
REPO = os.environ.get("VERIF_REPO", "/repo")
BUILD = os.path.join(ROOT, ".build")
COQ = os.path.join(ROOT, "coq")
TH = os.path.join(COQ, "theories")
GEN = os.path.join(TH, "Gen")
EVID = os.path.join(ROOT, "evidence")
REPLAY = os.path.join(EVID, "replay")
NCPU = os.cpu_count() or 4

GOENV = dict(os.environ)
GOENV.update({
    "GOFLAGS": "-mod=mod", "GOPROXY": "off", "GOSUMDB": "off",
    "GOTOOLCHAIN": "local", "GOWORK": "off", "CGO_ENABLED": "0",
})
# back-end selecting variables must not leak from the caller's environment
for _k in ("SONIC_USE_OPTDEC", "SONIC_USE_FASTMAP", "SONIC_ENCODER_USE_VM", "SONIC_MODE", "SONIC_SYNC_GC"):
    GOENV.pop(_k, None)

FORBIDDEN = re.compile(
    r"\b(Admitted|admit|Axiom|Axioms|Parameter|Parameters|Conjecture|Conjectures|Admit Obligations)\b"
    r"|Unset\s+Guard|bypass_check|type-in-type|impredicative-set|Unset\s+Universe\s+Checking|Unset\s+Positivity")


class Violation(Exception):
    pass


def log(*a):
    print(*a, flush=True)


def sh(cmd, cwd=None, env=None, timeout=1200, check=True, input=None, quiet=True):
    """Run a command, return (rc, stdout+stderr)."""
    try:
        p = subprocess.run(cmd, cwd=cwd, env=env, timeout=timeout, input=input,
                           stdout=subprocess.PIPE, stderr=subprocess.STDOUT,
                           shell=isinstance(cmd, str), text=True, errors="replace")
        rc, out = p.returncode, p.stdout
    except subprocess.TimeoutExpired as e:
        rc, out = 124, (e.stdout or "") if isinstance(e.stdout, str) else (e.stdout or b"").decode("utf8", "replace")
        out += "\n[timeout after %ss]" % timeout
    if check and rc != 0:
        raise RuntimeError("command failed rc=%d: %s\n%s" % (rc, cmd, out[-4000:]))
    return rc, out


class Lock:
    """Serialises build steps when several checks run at once."""

    def __init__(self, name="build"):
        os.makedirs(BUILD, exist_ok=True)
        self.path = os.path.join(BUILD, name + ".lock")

    def __enter__(self):
        self.f = open(self.path, "w")
        fcntl.flock(self.f, fcntl.LOCK_EX)
        return self

    def __exit__(self, *a):
        fcntl.flock(self.f, fcntl.LOCK_UN)
        self.f.close()


def write_if_changed(path, text):
    try:
        with open(path) as f:
            if f.read() == text:
                return False
    except FileNotFoundError:
        pass
    os.makedirs(os.path.dirname(path), exist_ok=True)
    with open(path, "w") as f:
        f.write(text)
    return True


# --------------------------------------------------------------------------- gate

def gate():
    """No Admitted/admit/Axiom/... anywhere in the development (comments are stripped first)."""
    bad = []
    for d, _, fs in os.walk(TH):
        for fn in fs:
            if not fn.endswith(".v"):
                continue
            p = os.path.join(d, fn)
            src = open(p, errors="replace").read()
            src = strip_coq_comments(src)
            for m in FORBIDDEN.finditer(src):
                line = src.count("\n", 0, m.start()) + 1
                bad.append("%s:%d: %s" % (p, line, m.group(0)))
            depth = 0
            for ln, text in enumerate(src.split("\n"), 1):
                t = text.strip()
                if re.match(r"^(Section|Module\s+Type)\s", t):
                    depth += 1
                elif re.match(r"^End\s", t) and depth > 0:
                    depth -= 1
                elif depth == 0 and re.match(r"^(Variable|Variables|Hypothesis|Hypotheses|Context)\b", t):
                    bad.append("%s:%d: %s outside a Section" % (p, ln, t.split()[0]))
    return bad


def strip_coq_comments(s):
    out, i, depth, n = [], 0, 0, len(s)
    instr = False
    while i < n:
        if depth == 0 and s[i] == '"':
            instr = not instr
            out.append(s[i]); i += 1; continue
        if not instr and s.startswith("(*", i):
            depth += 1; i += 2; continue
        if not instr and depth > 0 and s.startswith("*)", i):
            depth -= 1; i += 2; continue
        if depth == 0:
            out.append(s[i])
        elif s[i] == "\n":
            out.append("\n")
        i += 1
    return "".join(out)


# --------------------------------------------------------------------------- translator

def build_go(moddir, pkg, out, tags=None, race=False, timeout=900):
    os.makedirs(os.path.dirname(out), exist_ok=True)
    gosum = os.path.join(moddir, "go.sum")
    if os.path.exists(os.path.join(REPO, "go.sum")) and not os.path.exists(gosum):
        shutil.copy(os.path.join(REPO, "go.sum"), gosum)
    cmd = ["go", "build"]
    if tags:
        cmd += ["-tags", tags]
    env = dict(GOENV)
    if race:
        cmd += ["-race"]
        env["CGO_ENABLED"] = "1"
    cmd += ["-o", out, pkg]
    return sh(cmd, cwd=moddir, env=env, timeout=timeout, check=False)


def run_tx(which):
    """Regenerate Gen/<which>.v from /repo's working tree. Returns (ok, message)."""
    with Lock("tx"):
        out = os.path.join(BUILD, "bin", "tx")
        rc, o = build_go(os.path.join(ROOT, "tools", "tx"), ".", out)
        if rc != 0:
            return False, "translator does not build:\n" + o
        tmp = os.path.join(BUILD, "gen-tmp")
        os.makedirs(tmp, exist_ok=True)
        rc, o = sh([out, "-repo", REPO, "-out", tmp, "-only", ",".join(which)], cwd=os.path.join(ROOT, "tools", "tx"),
                   env=GOENV, check=False, timeout=600)
        if rc != 0:
            return False, "translator rejected the source (the tie to /repo is broken):\n" + o
        os.makedirs(GEN, exist_ok=True)
        for w in which:
            src = os.path.join(tmp, w + ".v")
            if not os.path.exists(src):
                return False, "translator produced no %s.v" % w
            write_if_changed(os.path.join(GEN, w + ".v"), open(src).read())
        return True, o


# --------------------------------------------------------------------------- coq

def mkproject():
    files = []
    for d, _, fs in os.walk(TH):
        for fn in sorted(fs):
            if fn.endswith(".v"):
                files.append(os.path.relpath(os.path.join(d, fn), COQ))
    files.sort()
    txt = "-Q theories SV\n-arg -w -arg -notation-overridden,-deprecated-hint-without-locality,-deprecated-instance-without-locality\n" + "\n".join(files) + "\n"
    if write_if_changed(os.path.join(COQ, "_CoqProject"), txt) or not os.path.exists(os.path.join(COQ, "Makefile")):
        sh(["coq_makefile", "-f", "_CoqProject", "-o", "Makefile"], cwd=COQ)


def coq_make(targets, timeout=1500):
    """Full .vo build of the given targets (relative to coq/), never -vos."""
    with Lock("coq"):
        mkproject()
        rc, out = sh(["make", "-j%d" % NCPU, "-k"] + targets, cwd=COQ, timeout=timeout, check=False)
    return rc, out


THM_RE = re.compile(r"^\s*(?:Theorem|Lemma|Corollary|Example|Proposition|Fact|Remark)\s+([A-Za-z0-9_']+)", re.M)


def coq_props(pid, timeout=900):
    """Build Props/<pid>.vo and everything it needs, then re-compile Props/<pid>.v on its own to
    capture Print Assumptions.  Returns dict(ok, obligations, discharged, theorems, assumptions, log)."""
    rel = "theories/Props/%s.vo" % pid
    rc, out = coq_make([rel], timeout=timeout)
    src = strip_coq_comments(open(os.path.join(TH, "Props", pid + ".v")).read())
    thms = THM_RE.findall(src)
    res = {"ok": rc == 0, "theorems": thms, "obligations": len(thms), "discharged": 0,
           "assumptions": {}, "log": out[-6000:]}
    # supporting obligations: every lemma in files Props/<pid>.v depends on
    if rc != 0:
        # which theorem statements still check?  compile dependencies that do build, count conservatively 0
        return res
    with Lock("coq"):
        rc2, out2 = sh(["coqc", "-Q", "theories", "SV", "-w", "-notation-overridden",
                        "theories/Props/%s.v" % pid], cwd=COQ, timeout=timeout, check=False)
    if rc2 != 0:
        res["ok"] = False
        res["log"] = out2[-6000:]
        return res
    res["discharged"] = len(thms)
    res["assumptions"] = parse_assumptions(out2)
    res["log"] = out2[-3000:]
    return res


def parse_assumptions(out):
    """Print Assumptions output -> {"closed": n, "axioms": [names]}"""
    closed = out.count("Closed under the global context")
    axioms = []
    for m in re.finditer(r"Axioms:\n((?:.+\n?)+?)(?:\n|$)", out):
        for line in m.group(1).splitlines():
            mm = re.match(r"^([A-Za-z0-9_.']+)\s*:", line)
            if mm:
                axioms.append(mm.group(1))
    return {"closed": closed, "axioms": sorted(set(axioms))}


def count_supporting(files):
    """Number of Lemma/Theorem statements in the given theory files (all Qed'ed if the .vo exists)."""
    n = 0
    for f in files:
        p = os.path.join(TH, f)
        if os.path.exists(p) and os.path.exists(p[:-2] + ".vo"):
            n += len(THM_RE.findall(strip_coq_comments(open(p).read())))
    return n


def coq_eval(name, body, timeout=600):
    """Compile a scratch file (vm_compute correspondence for small tables).  Returns (rc, out)."""
    d = os.path.join(BUILD, "scratch")
    os.makedirs(d, exist_ok=True)
    p = os.path.join(d, name + ".v")
    open(p, "w").write(body)
    return sh(["coqc", "-Q", os.path.join(COQ, "theories"), "SV", "-w", "-notation-overridden", p],
              cwd=d, timeout=timeout, check=False)


# --------------------------------------------------------------------------- extraction / ocaml

def build_model(pid, timeout=900):
    """Extract/<pid>.v is compiled inside .build/ocaml/<pid>/ (so the .ml land there), then linked with
    ocaml/<pid>/driver.ml.  Returns (ok, path-or-log)."""
    d = os.path.join(BUILD, "ocaml", pid)
    os.makedirs(d, exist_ok=True)
    exe = os.path.join(d, "model")
    xv = os.path.join(TH, "Extract", pid + ".v")
    drv = os.path.join(ROOT, "ocaml", pid, "driver.ml")
    rc, out = coq_make(["theories/Extract/%s.vo" % pid], timeout=timeout)
    if rc != 0:
        return False, out[-4000:]
    stamp = os.path.join(d, "stamp")
    vo = xv[:-2] + ".vo"
    h = hashlib.sha1(open(drv, "rb").read())
    for extra in (os.path.join(ROOT, "ocaml", "lib"), os.path.join(ROOT, "ocaml", pid)):
        for fn in sorted(os.listdir(extra)):
            h.update(open(os.path.join(extra, fn), "rb").read())
    key = "%s %s" % (os.path.getmtime(vo), h.hexdigest())
    if os.path.exists(exe) and os.path.exists(stamp) and open(stamp).read() == key:
        return True, exe
    with Lock("ocaml-" + pid):
        for fn in os.listdir(d):
            if fn.endswith((".ml", ".mli", ".cmi", ".cmx", ".o", ".cmo")):
                os.remove(os.path.join(d, fn))
        # re-run the extraction with cwd = d so that files are written here
        rc, out = sh(["coqc", "-Q", os.path.join(COQ, "theories"), "SV", "-w", "-notation-overridden,-extraction",
                      "-o", os.path.join(d, pid + ".vo"), xv], cwd=d, timeout=timeout, check=False)
        if rc != 0:
            return False, out[-4000:]
        shutil.copy(drv, os.path.join(d, "driver.ml"))
        for extra in (os.path.join(ROOT, "ocaml", "lib"), os.path.join(ROOT, "ocaml", pid)):
            for fn in os.listdir(extra):
                if fn.endswith(".ml") and fn != "driver.ml":
                    if fn == "convz.ml" and "coq_Z" not in open(os.path.join(d, "BinNums.ml")).read():
                        continue
                    shutil.copy(os.path.join(extra, fn), os.path.join(d, fn))
        mls = [f for f in os.listdir(d) if f.endswith(".ml") and f != "driver.ml"]
        rc, out = sh("ocamlfind ocamldep -sort %s" % " ".join(sorted(f for f in os.listdir(d) if f.endswith((".ml", ".mli")))),
                     cwd=d, check=False)
        order = out.split() if rc == 0 else sorted(mls) + ["driver.ml"]
        rc, out = sh(["ocamlfind", "ocamlopt", "-O3" if False else "-inline", "200", "-w", "-a", "-package", "str", "-linkpkg",
                      "-o", exe] + order, cwd=d, timeout=timeout, check=False)
        if rc != 0:
            return False, out[-4000:]
        open(stamp, "w").write(key)
    return True, exe


def build_harness(name, tags="verif", race=False):
    out = os.path.join(BUILD, "bin", "h_" + name + ("_race" if race else ""))
    with Lock("go-" + name):
        rc, o = build_go(os.path.join(ROOT, "harness"), "./cmd/" + name, out, tags=tags, race=race)
    return rc == 0, (out if rc == 0 else o[-6000:])


# --------------------------------------------------------------------------- findings / evidence

def known_findings(pid):
    """entries of known_findings.json (and known_findings.d/*.json) for this property with status "known"."""
    items = []
    p = os.path.join(ROOT, "known_findings.json")
    if os.path.exists(p):
        items += json.load(open(p)).get("findings", [])
    d = os.path.join(ROOT, "known_findings.d")
    if os.path.isdir(d):
        for fn in sorted(os.listdir(d)):
            if fn.endswith(".json"):
                data = json.load(open(os.path.join(d, fn)))
                items += data.get("findings", []) if isinstance(data, dict) else data
    return [f for f in items if f.get("property") == pid and f.get("status") == "known"]


class Ctx:
    def __init__(self, pid, tier, seed, replay=None):
        self.pid, self.tier, self.seed, self.replay = pid, tier, seed, replay
        self.t0 = time.time()
        self.violations = []          # list of (what, replay_path, found_input)
        self.known_hit = []
        self.cov = {"samples": []}
        self.assumptions = []
        self.level = "proof"
        self.trusted = []
        self.proof = None
        self.n_replay = 0

    # ---- reporting
    def violation(self, what, payload, found_input=True):
        os.makedirs(REPLAY, exist_ok=True)
        self.n_replay += 1
        path = os.path.join(REPLAY, "%s-%d.json" % (self.pid, self.n_replay))
        json.dump({"property": self.pid, "what": what, "found_failing_input": found_input,
                   "seed": self.seed, "tier": self.tier, "replay": payload}, open(path, "w"), indent=1, default=str)
        line = "VIOLATION property=%s replay=%s" % (self.pid, path)
        if not found_input:
            line += " no-failing-input-found"
        log(line)
        self.violations.append((what, path, found_input))

    def known(self, fid, what):
        log("KNOWN-FINDING: property=%s %s [%s]" % (self.pid, what, fid))
        self.known_hit.append(fid)

    def sample(self, s):
        if len(self.cov["samples"]) < 8:
            self.cov["samples"].append(s)

    def finish(self):
        os.makedirs(EVID, exist_ok=True)
        cov = self.cov
        if self.proof is not None:
            cov.setdefault("obligations", self.proof.get("obligations", 0) + self.proof.get("supporting", 0))
            cov.setdefault("discharged", self.proof.get("discharged", 0) + (self.proof.get("supporting", 0) if self.proof.get("ok") else 0))
            cov.setdefault("theorems", self.proof.get("theorems", []))
            cov.setdefault("print_assumptions", self.proof.get("assumptions", {}))
        cov.setdefault("checker_cmd", "make -C /verif/coq theories/Props/%s.vo (coqc 8.16.1, full .vo build) ; /verif/bin/check %s %s" % (self.pid, self.pid, self.tier))
        cov.setdefault("trusted_base", self.trusted)
        cov.setdefault("evaluations", 0)
        cov.setdefault("distinct_nontrivial", 0)
        cov["known_findings_reproduced"] = self.known_hit
        ev = {"property_id": self.pid, "tier": self.tier, "seed": self.seed, "level": self.level,
              "coverage": cov, "assumptions": self.assumptions,
              "wall_s": round(time.time() - self.t0, 2), "violations": len(self.violations)}
        json.dump(ev, open(os.path.join(EVID, self.pid + ".json"), "w"), indent=1, default=str)
        return 1 if self.violations else 0


TRUSTED_COMMON = [
    "Coq 8.16.1 kernel (coqc full .vo build; vm_compute used for finite sweeps and witnesses; no native_compute)",
    "no axioms declared by the development (grep gate); Print Assumptions output recorded under coverage.print_assumptions",
    "Go toolchain go1.23.5, the harness in /verif/harness, python driver /verif/bin/check",
]
TRUSTED_EXTRACT = "Coq extraction (ExtrOcamlBasic only: bool, option, unit, list, prod, sumbool, sumor mapped to OCaml; no Extract Constant; N/Z/positive kept as Coq datatypes), OCaml 4.13.1 and the per-property driver under /verif/ocaml"
TRUSTED_TX = "the translator /verif/tools/tx (Go, go/parser + go/types) that regenerates coq/theories/Gen/*.v from /repo on every run"


def standard_P(ctx, gens, supporting=()):
    """gate + translator + Coq build of Props/<pid>.vo.  Returns True when the proof half holds."""
    bad = gate()
    if bad:
        ctx.violation("forbidden construct in the Coq development: " + "; ".join(bad[:5]), {"gate": bad}, False)
        return False
    if gens:
        ok, msg = run_tx(gens)
        if not ok:
            ctx.proof = {"ok": False, "obligations": 1, "discharged": 0, "theorems": [], "assumptions": {}}
            ctx.p_fail = "translator: " + msg[-1500:]
            return False
    pr = coq_props(ctx.pid)
    pr["supporting"] = count_supporting(supporting) if pr["ok"] else sum(
        len(THM_RE.findall(strip_coq_comments(open(os.path.join(TH, f)).read()))) for f in supporting if os.path.exists(os.path.join(TH, f)))
    ctx.proof = pr
    if not pr["ok"]:
        ctx.p_fail = "Coq: " + pr["log"][-2500:]
        return False
    ax = pr["assumptions"].get("axioms", [])
    if ax:
        ctx.assumptions.append("axioms reported by Print Assumptions: " + ", ".join(ax))
    return True


def hexs(b):
    return b.hex() if isinstance(b, (bytes, bytearray)) else bytes(b).hex()
