"""C20 - Quote, unquote, HTML-escape and UTF-8 routines match their definitions."""
import json
import os
import time

from . import common as c

SUPPORT = ["Str/TablesOk.v", "Str/FinderProofs.v", "Str/QuoteProofs.v", "Str/GoQuoteProofs.v", "Str/RoundTrip.v",
           "Str/HtmlProofs.v", "Str/Utf8Proofs.v", "Str/UnquoteProofs.v", "Str/DoubleProofs.v", "Str/Swar.v", "Str/JitString.v", "Str/HtmlLink.v",
           "Str/Utf8SimdProofs.v", "Str/AstQuoteProofs.v", "Str/DoubleStrict.v"]

CLAIM = {
    "gens": ["Tables"],
    "category": "proof",
    "text": "Coq theorems, for all byte strings (induction over the byte list, no length bound), about Gallina models of native/quote.c, "
            "unquote.c, html_escape.c, utf8.h and of the Go loops alg.Quote / alg.HtmlEscape / unquote.intoBytesUnsafe / utf8.CorrectWith / "
            "ast.quoteString, with the escape tables regenerated from native/parsing.h and internal/rt on every run: quote = table-driven escape "
            "of every byte for every destination-capacity schedule and every block width; unquote(quote s) = s in single and double mode; "
            "unquote = reference unquoting with encoding/json's escape semantics; html_escape and alg.HtmlEscape = the json.HTMLEscape reference with the prefix kept for every destination; "
            "UTF-8 validation = Unicode table 3-7 well-formedness; CorrectWith = byte-wise replacement; the SWAR hex test = four hex digits; double-mode unquote = unquoting twice on "
            "canonical input and refuted (with witnesses replayed on sonic.Unmarshal of `,string` fields) otherwise. The models are tied to the running code "
            "(both SIMD blobs, public Go API, Marshal/Unmarshal in four back-end processes) by a differential run whose expected lines come from the real "
            "code, and the real code is compared to encoding/json, unicode/utf8 and plain Go references on every generated input.",
    "note": "Trusted: Coq kernel + vm_compute, tools/tx (tables), extraction, the Go harness, encoding/json + unicode/utf8 as oracles. The native blobs are "
            "modelled from the C source (tie by differential run only). Props/C20.v imports Enc/Finish.v + Json/Grammar.v of C04 (b-c03) for the strict-JSON link.",
    "technique": "Coq proof over executable models (induction on byte lists, width-parametric blocked finders) + extraction-based differential tie + oracle search",
}

BACKENDS = [("vm-encoder", {"SONIC_ENCODER_USE_VM": "1"}), ("noavx2", {"SONIC_MODE": "noavx2"}), ("optdec", {"SONIC_USE_OPTDEC": "1"})]


def classify_known(f, js_mismatch):
    """narrow signatures of the recorded findings.  A divergence from the oracle is excused only when the OBSERVED
    behaviour is the one the recorded defect predicts:
    - KF-double-unquote-fusion: the implementation's result for that very document equals the extracted Coq model of the
      jitdec `,string` path (JitString.jit_unquote_twice: literal \\" tests + native fused F_DBLUNQ pass with the flags
      jitdec passes for the UseUnicodeErrors setting in force); the document is a tied JS case, a JS mismatch is a violation;
    - KF-optdec-stringtag-illformed-utf8 (optdec run only): class "optdec-json-semantics" = UseUnicodeErrors on, no error and
      the value encoding/json returns; class "illformed-utf8-replaced" is computed by the harness from the observed value
      (no error, input ill-formed, result == the input with every ill-formed byte replaced by U+FFFD, i.e. exactly what
      encoding/json.Unmarshal - which optdec calls - returns)."""
    d = f["detail"]
    if f.get("kind") == "through-roundtrip-double":
        if f.get("run") == "optdec" and d.get("class") == "illformed-utf8-replaced":
            return "KF-optdec-stringtag-illformed-utf8"
        return None
    if f.get("kind") == "through-double-vs-std" and f.get("run") == "optdec":
        if d.get("class") == "optdec-json-semantics" and d.get("unicode_errors") == "1":
            return "KF-optdec-stringtag-illformed-utf8"
        return None
    if f.get("kind") == "through-double-vs-std":
        key = "JS\t%s\t%s" % (d.get("unicode_errors"), d.get("body"))
        if (f.get("run") != "optdec" and d.get("class") in ("outer-noncanonical-escape", "inner-surrogate-escape")
                and js_mismatch is not None and key not in js_mismatch):
            return "KF-double-unquote-fusion"
        return None
    # KF-htmlescape-long-prefix-panic is fixed (e1e5e27): an HTMLEscape-panic is a violation again
    return None


def run_model(mexe, work, sub):
    """model on <sub>/cases.txt; returns (first mismatches as dicts, number of lines, set of ALL mismatching JS case lines)"""
    d = os.path.join(work, sub)
    cases = open(os.path.join(d, "cases.txt")).read()
    impl = open(os.path.join(d, "impl.txt")).read().splitlines()
    rc, out = c.sh([mexe], input=cases, timeout=1500, check=False)
    model = out.splitlines()
    cl = cases.splitlines()
    if rc != 0 or len(model) != len(impl):
        return [{"case": "(driver)", "impl": "%d lines" % len(impl), "model": "rc=%d, %d lines: %s" % (rc, len(model), out[-300:])}], len(cl), None
    bad, js = [], set()
    for a, b, m in zip(cl, impl, model):
        if b != m:
            if a.startswith("JS\t"):
                js.add(a)
            if len(bad) < 50 or (a.startswith("JS\t") and len(bad) < 60):
                bad.append({"case": a, "impl": b, "model": m})
    return bad, len(cl), js


def run(ctx):
    ctx.level = "proof"
    ctx.trusted = c.TRUSTED_COMMON + [c.TRUSTED_TX, c.TRUSTED_EXTRACT,
                                     "encoding/json (Unmarshal, HTMLEscape), unicode/utf8 (Valid, DecodeRune) and the plain Go references of harness/cmd/c20/oracle.go as oracles",
                                     "the native blobs internal/native/{avx2,sse} are modelled from native/*.c / parsing.h / utf8.h by hand; only the differential run speaks for the blobs"]
    ctx.assumptions = [
        "nothing of the routines' source text is modelled by its meaning any more: the AVX2 lookup pre-check of validate_utf8_fast (Str/Utf8Simd.v, lane-wise model "
        "of validate_utf8_avx2 incl. the ASCII shortcuts with a stale previous vector) is proved to accept exactly the well-formed strings (C20_avx2_precheck_exact), and the "
        "SWAR hex test unhex16_is, modelled by its meaning in Str/Unquote.v, is proved equal to the literal word-level code on bytes (C20_unhex16_is_swar, _swar64)",
        "double mode (F_DBLUNQ): fused = unquoting twice (encoding/json's `,string` semantics) is proved for canonical outer escaping of any inner body the strict reference "
        "accepts and that does not end in a raw quote/tab/LF/CR (C20_unquote_double_strict, _eq_twice_strict, _strict_iff); outside that class it is refuted "
        "(C20_unquote_double_refuted, KF-double-unquote-fusion)",
        "runtime.growslice is a section variable `grow` with the hypothesis requested <= grow old requested; append's growth is any capacity >= length",
        "memcpy_p8 copies at most 7 bytes: exact for the actual tables (C20_tables_ok proves n = length s <= 7 for every entry)",
        "destination bytes past the reported length and reads of the input are not modelled (C05/C06); the harness only checks canaries past the capacity",
    ]
    work = os.path.join(c.BUILD, "work", "C20")
    os.makedirs(work, exist_ok=True)
    t0 = time.time()
    timing = {}
    p_ok = c.standard_P(ctx, CLAIM["gens"], SUPPORT)
    timing["P"] = round(time.time() - t0, 1)
    problems = []
    if not p_ok:
        problems.append(("P", getattr(ctx, "p_fail", "proof half failed")))

    ok, hb = c.build_harness("c20")
    if not ok:
        ctx.violation("harness does not build against /repo: " + hb[-1500:], {"build": hb}, False)
        return
    mok, mexe = c.build_model("C20")
    timing["build"] = round(time.time() - t0 - timing["P"], 1)
    if not mok:
        problems.append(("T", "model extraction failed: " + mexe[-800:]))

    # ---- replay of a stored case
    if ctx.replay:
        rp = json.load(open(ctx.replay)).get("replay", {})
        line = rp.get("case")
        if line:
            rc, o = c.sh([hb, "-mode", "one", "-case", line], env=c.GOENV, timeout=120, check=False)
            impl = o.strip().splitlines()[-1] if o.strip() else "(no output, rc=%d)" % rc
            model = ""
            if mok:
                _, mo = c.sh([mexe], input=line + "\n", timeout=120, check=False)
                model = mo.strip()
            c.log("replay: case=%r impl=%r model=%r" % (line, impl, model))
            if impl != model:
                ctx.violation("replayed case still disagrees", {"case": line, "impl": impl, "model": model}, True)
            ctx.cov.update({"evaluations": 1, "distinct_nontrivial": 1, "rule": "replay of one stored case", "distribution": {"replay": 1}})
            return

    # ---- T + oracle search: main process, then the Marshal/Unmarshal level once per back end
    runs = [("main", "gen", {})] + [(lbl, "through", env) for lbl, env in BACKENDS]
    reports, failures, mism, tied = {}, [], [], 0
    js_mismatch = {}          # run label -> set of JS cases where implementation != model (None: model did not run)
    for lbl, mode, extra in runs:
        env = dict(c.GOENV)
        env.update(extra)
        rc, o = c.sh([hb, "-mode", mode, "-tier", ctx.tier, "-seed", str(ctx.seed), "-label", lbl, "-corpus", os.path.join(c.ROOT, "corpus", "C20"), "-out", os.path.join(work, lbl)],
                     env=env, timeout=3000, check=False)
        timing["run:" + lbl] = round(time.time() - t0, 1)
        rp = os.path.join(work, lbl, "report.json")
        if rc not in (0, 3) or not os.path.exists(rp):
            ctx.violation("harness crashed in run %s (rc=%d): %s" % (lbl, rc, o[-1500:]), {"run": lbl, "output": o[-4000:]}, True)
            return
        rep = json.load(open(rp))
        reports[lbl] = rep
        for f in (rep["failures"] or []):
            f["run"] = lbl
            failures.append(f)
        js_mismatch[lbl] = None
        if mok and rc == 0:
            bad, n, js_mismatch[lbl] = run_model(mexe, work, lbl)
            tied += n
            for b in bad:
                b["run"] = lbl
            mism += bad
    if mism:
        problems.append(("T", "model and implementation disagree on %d tied cases, first: %s" % (len(mism), json.dumps(mism[0]))))

    main = reports["main"]
    timing["total"] = round(time.time() - t0, 1)
    ctx.cov["timing_s"] = timing
    ctx.cov["evaluations"] = sum(r["evaluations"] for r in reports.values())
    ctx.cov["distinct_nontrivial"] = sum(r["distinct_nontrivial"] for r in reports.values())
    ctx.cov["traces_validated_against_impl"] = tied if mok else 0
    ctx.cov["model_mismatches"] = len(mism)
    ctx.cov["rule"] = ("every byte string over a 17-byte alphabet up to length 4 (quick) / 5 (thorough) through every routine, both SIMD variants, both quoting modes, "
                       "unbounded / exact-fit / every smaller destination capacity; token sequences and all 16^4 boundary quadruples after \\u for unquote; each special byte "
                       "sequence at every offset of lengths 0..130; random strings; >4096 ill-formed bytes; Go API with prefixes and capacities; Marshal/Unmarshal/ast in 4 back-end processes. "
                       "evaluation = one call of the real code compared with an oracle; non-trivial = distinct (routine, non-empty input)")
    dist = {}
    for lbl, r in reports.items():
        for k, v in r["distribution"].items():
            dist[(k if lbl == "main" else lbl + ":" + k)] = v
    ctx.cov["distribution"] = {"by_routine": dist, "tied_by_op": main["tied_by_op"], "oracle_failures": sum(r["n_failures"] for r in reports.values())}
    for s in (main["samples"] or []):
        ctx.sample(s)

    known = {k["id"]: k for k in c.known_findings("C20")}
    seen, real = set(), []
    for f in failures:
        k = classify_known(f, js_mismatch.get(f.get("run")))
        if k and k in known:
            seen.add(k)
        else:
            real.append(f)
    for k in sorted(seen):
        ctx.known(k, known[k]["signature"])
    # a recorded finding that no longer reproduces while the model still predicts it shows up as a GH mismatch (model says panic)
    by_kind = {}
    for f in real:
        by_kind.setdefault(f["kind"], f)
    for kind, f in list(by_kind.items())[:4]:
        ctx.violation("%s: the implementation disagrees with the property's oracle" % kind, f, True)
    js_first = sorted([m for m in mism if m["case"].startswith("JS\t")], key=lambda m: len(m["case"]))[:1]
    for m in (mism[:2] if not real else js_first):
            # model/implementation disagreement with the oracle silent on it: the input is concrete, the model is what the theorems are about
            ctx.violation("implementation departs from the verified model", {"case": m["case"], "impl": m["impl"], "model": m["model"], "run": m["run"]}, True)
    if problems and not ctx.violations:
        ctx.violation("; ".join("%s: %s" % p for p in problems)[:3000],
                      {"broken": [p[1] for p in problems], "theorem_file": "coq/theories/Props/C20.v",
                       "searched": "%d evaluations against the oracles, %d tied cases" % (ctx.cov["evaluations"], tied)}, False)
