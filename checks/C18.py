"""C18 - Each option has exactly its documented effect; entry points are equivalent."""
import json
import os

from . import common as c

SUPPORT = ["Opts/Spec.v", "Opts/Proofs.v", "Opts/Entry.v"]

CLAIM = {
    "gens": ["OptBits", "EntryPoints"],
    "text": "Theorems (Coq, all 2^16 Config values, finite sweep by vm_compute lifted with forallb_forall): Config.Froze - regenerated from sonic.go on every run - sets exactly the documented option bits; the bits agree across public/internal/JIT/VM/native layers and are pairwise distinct; Encoder/Decoder setters flip the same bit. The documented *effect* of every switch and the entry-point equivalences are decided on the real code by metamorphic runs with encoding/json as oracle (tie/search half, not a theorem).",
    "note": "Trusted: Coq kernel + vm_compute, the translator tools/tx, extraction (ExtrOcamlBasic), Go harness, encoding/json as oracle. Option effects are tested, not proved.",
    "technique": "Coq proof over a model regenerated from source (translator) + exhaustive froze tie + metamorphic differential search",
}


def classify_known(f):
    """narrow signature of the recorded defect KF-short-literal-oob"""
    if f["switch"] not in ("entry/Valid", "entry/Unmarshal"):
        return None
    try:
        doc = json.loads(f["input"]) if f["input"].startswith('"') else f["input"]
    except Exception:
        doc = f["input"]
    if f["switch"] == "entry/Unmarshal":
        # only a proper prefix of a literal (with blanks around it): the 4-byte load past the end decides it
        t = doc.strip(" \t\r\n")
        if not (t and any(lit.startswith(t) and lit != t for lit in ("true", "false", "null"))):
            return None
    if len(doc.encode("utf8", "surrogatepass")) < 4 and any(ch in doc for ch in "tnf"):
        return "KF-short-literal-oob"
    return None


def run(ctx):
    ctx.level = "proof"
    ctx.trusted = c.TRUSTED_COMMON + [c.TRUSTED_TX, c.TRUSTED_EXTRACT,
                                     "encoding/json (HTMLEscape, Compact, Indent, Decoder) as the oracle of the documented option effects"]
    ctx.assumptions = [
        "the option *effects* (EscapeHTML = json.HTMLEscape of the output, SortMapKeys only reorders, ...) are decided on the real code by metamorphic runs with encoding/json as oracle; the Coq theorems cover the Config -> option-word translation, the agreement of bit positions across layers and the setter methods, for all 2^16 configurations",
        "Config{UseInt64,UseNumber both true} is excluded from the runs: Decoder.SetOptions documents a panic for it",
    ]
    p_ok = c.standard_P(ctx, CLAIM["gens"], SUPPORT)
    problems = []
    if not p_ok:
        problems.append(("P", getattr(ctx, "p_fail", "proof half failed")))

    # ---- T1: froze(model, extracted) vs the implementation on all configurations
    ok, hb = c.build_harness("c18")
    if not ok:
        ctx.violation("harness does not build against /repo: " + hb[-1500:], {"build": hb}, False)
        return
    work = os.path.join(c.BUILD, "work", "C18")
    os.makedirs(work, exist_ok=True)
    impl = os.path.join(work, "froze.impl")
    c.sh([hb, "-mode", "froze", "-out", impl], env=c.GOENV, timeout=300)
    lines = open(impl).read().splitlines()
    ncfg = len(lines)
    mismatch = []
    mok, mexe = (False, "") if not p_ok else c.build_model("C18")
    if p_ok and not mok:
        problems.append(("T", "model extraction failed: " + mexe[-800:]))
    if mok:
        rc, out = c.sh([mexe], input="\n".join(l.split("\t")[0] for l in lines) + "\n", timeout=300, check=False)
        mlines = out.splitlines()
        if rc != 0 or len(mlines) != len(lines):
            problems.append(("T", "model driver failed: " + out[-500:]))
        else:
            for a, b in zip(lines, mlines):
                if a != b:
                    mismatch.append({"impl": a, "model": b})
        if mismatch:
            problems.append(("T", "froze: model and implementation disagree on %d of %d configurations" % (len(mismatch), ncfg)))
    ctx.cov["exhaustive_froze_configs"] = ncfg
    ctx.cov["froze_mismatches"] = len(mismatch)
    ctx.cov["traces_validated_against_impl"] = ncfg if mok else 0

    # ---- T2 / search: documented effects on the real code (oracle: encoding/json, independent of the model)
    n = 1500 if ctx.tier == "quick" else 20000
    eff = os.path.join(work, "effects.json")
    rc, out = c.sh([hb, "-mode", "effects", "-n", str(n), "-seed", str(ctx.seed), "-out", eff], env=c.GOENV, timeout=3000, check=False)
    if rc != 0:
        ctx.violation("effects harness crashed: " + out[-1500:], {"output": out[-4000:]}, True)
        return
    rep = json.load(open(eff))
    ctx.cov["evaluations"] = rep["evaluations"] + ncfg
    ctx.cov["distinct_nontrivial"] = sum(rep["nontrivial"].values())
    ctx.cov["rule"] = ("froze: all 2^n Config values; effects: per switch, on/off against random settings of the others on generated values/documents; "
                       "non-trivial = the generated case contains the feature the switch acts on (a map for SortMapKeys, NaN for EncodeNullForInfOrNan, ...)")
    ctx.cov["distribution"] = {"per_switch": rep["per_switch"], "nontrivial": rep["nontrivial"]}
    ctx.sample({"froze": lines[0x0421] if len(lines) > 0x421 else lines[-1]})
    known = {k["id"]: k for k in c.known_findings("C18")}
    seen_known = set()
    real = []
    for f in (rep["failures"] or []):   # a run without a single failure: Go writes the nil slice as null
        k = classify_known(f)
        if k and k in known:
            seen_known.add(k)
        else:
            real.append(f)
    for k in sorted(seen_known):
        ctx.known(k, known[k]["signature"])
    # violations with a concrete failing input first
    if mismatch:
        ctx.violation("Config.Froze sets different option bits than the documented table: " + json.dumps(mismatch[0]),
                      {"mismatches": mismatch[:20], "field_order": "see Gen/OptBits.v config_fields"}, True)
    for f in real[:3]:
        ctx.violation("option %s does not have its documented effect" % f["switch"], f, True)
    if problems and not ctx.violations:
        # proof or tie broken, and the search found no failing input
        ctx.violation("; ".join("%s: %s" % p for p in problems)[:3000],
                      {"broken": [p[1] for p in problems], "theorem_file": "coq/theories/Props/C18.v",
                       "searched": "%d metamorphic evaluations, %d configurations" % (rep["evaluations"], ncfg)}, False)
