"""What is claimed, per property.  bin/mkmanifest turns this into MANIFEST.json."""

HOOK_COMMITS = ["fd1c1ef"]

NOTES = ("Technique family: machine-checked proof in Coq 8.16.1. Every check = P (translator + full .vo build of Props/<id>.v, "
         "Print Assumptions recorded) + T (model vs implementation built from /repo's working tree) + search with an independent oracle. "
         "Files that do not build on linux/amd64 go1.23 (*_compat.go, arm64, neon) are out of scope. Genuine defects: known_findings.json.")

NOT_CLAIMED = {}

CLAIMED = {
    "C18": {
        "text": "Theorems (Coq, all 2^16 Config values, finite sweep by vm_compute lifted with forallb_forall): Config.Froze - regenerated from sonic.go on every run - sets exactly the documented option bits; the bits agree across public/internal/JIT/VM/native layers and are pairwise distinct; Encoder/Decoder setters flip the same bit. The documented *effect* of every switch and the entry-point equivalences are decided on the real code by metamorphic runs with encoding/json as oracle (tie/search half, not a theorem).",
        "note": "Trusted: Coq kernel + vm_compute, the translator tools/tx, extraction (ExtrOcamlBasic), Go harness, encoding/json as oracle. Option effects are tested, not proved.",
        "technique": "Coq proof over a model regenerated from source (translator) + exhaustive froze tie + metamorphic differential search",
    },
}
