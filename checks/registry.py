"""What is claimed, per property: collected from the CLAIM dict of every checks/<ID>.py.
bin/mkmanifest turns this into MANIFEST.json."""
import importlib
import os
import re
import subprocess

NOTES = ("Technique family: machine-checked proof in Coq 8.16.1. Every check = P (translator + full .vo build of Props/<id>.v, "
         "Print Assumptions recorded) + T (model vs implementation built from /repo's working tree) + search with an independent oracle. "
         "Files that do not build on linux/amd64 go1.23 (*_compat.go, arm64, neon) are out of scope. Genuine defects: known_findings.json.")

# properties deliberately not claimed, with the reason (empty: every property is meant to be claimed)
NOT_CLAIMED = {}


# properties whose check the lead has verified quiet on the unchanged tree; the others are listed
# under not_applicable ("being built") until then
READY = ["C01", "C02", "C03", "C04", "C05", "C06", "C07", "C08", "C09", "C10", "C11", "C12", "C13", "C14", "C15", "C16", "C17", "C18", "C19", "C20"]


def _claims():
    out = {}
    d = os.path.dirname(__file__)
    for fn in sorted(os.listdir(d)):
        m = re.match(r"^(C[0-9]{2,3})\.py$", fn)
        if not m:
            continue
        try:
            mod = importlib.import_module("checks." + m.group(1))
        except Exception:
            continue
        if getattr(mod, "CLAIM", None) and m.group(1) in READY:
            out[m.group(1)] = mod.CLAIM
    return out


def _hook_commits():
    try:
        o = subprocess.run(["git", "-C", "/repo", "log", "--format=%h %s"], stdout=subprocess.PIPE, text=True).stdout
        return [l.split()[0] for l in o.splitlines() if "verif hook" in l]
    except Exception:
        return []


CLAIMED = _claims()
HOOK_COMMITS = _hook_commits()
