"""C05 - Results depend only on the input bytes; nothing outside the input is ever read."""
import json
import os
import subprocess
import time

from . import common as c

SUPPORT = ["Mem/Mem.v", "Mem/Scan.v", "Mem/Routines.v", "Mem/Blocked.v", "Mem/PadTie.v"]

CLAIM = {
    "gens": ["Tables", "OptPad"],
    "category": "proof",
    "text": "Theorems (Coq) over a read monad with an access log (memory = input ++ tail, page model): the generic theorem "
            "'a run that only touches indices < len(input) returns the same result and touches the same indices for every tail', and per routine of "
            "native/scanning.h / lspace.h / value.c written in that monad (lspace_1 with its 32-byte block loop, advance_ns, advance_dword WITH its size_t "
            "guard, the literal dispatch of value(), the vnumber/vinteger prefix with check_leading_zero, digit runs, the string body scan, optdec's padded "
            "copy) and the W-blocked finders (a monadic twin of b-c10's Simd/Blocked.cascade: lspace_1, memcchr_p32, memcchr_quote_unsafe in both SIMD builds, proved equal to "
            "the pure cascade; a monadic twin of b-c20's memcchr_ws for quote/html_escape; the page-guarded over-reading vector load with the page argument): "
            "R_reads_in_bounds and R_tail_independent. Two clauses are REFUTED on the pinned source with concrete witnesses: advance_dword reads 4 "
            "bytes across the end of inputs shorter than 4 bytes (and the verdict then depends on the tail), check_leading_zero reads the byte behind an "
            "input ending after a leading zero; the partial theorems carry the exact guards (len + dec >= 4; at most one byte beyond). The models are hand "
            "transcriptions of the C text - the blobs that run are tied by placing inputs flush against a PROT_NONE page: fault <=> the model predicts an "
            "index >= len (exhaustive up to 3 bytes over a 21-letter alphabet, both SIMD variants), and by result equality under 7 adversarial continuations "
            "for 38 native and public entry points at every length 0..300.",
    "note": "Trusted: Coq kernel, extraction, the Go harness, mmap/mprotect + debug.SetPanicOnFault as the fault observable. SIMD string/number/quote/unquote/"
            "html_escape/utf8 kernels and parse_with_padding.c are covered by the placement runs only, not modelled.",
    "technique": "Coq proof over a logged read monad + guard-page placement differential on the real native code",
}


def outside_strings(b):
    """the input with string bodies removed (an unterminated string swallows the rest)"""
    res, i, n = bytearray(), 0, len(b)
    instr = False
    while i < n:
        ch = b[i]
        if instr:
            if ch == 0x5C:
                i += 2
                continue
            if ch == 0x22:
                instr = False
        elif ch == 0x22:
            instr = True
            res.append(ch)
        else:
            res.append(ch)
        i += 1
    return bytes(res), instr


def classify(f):
    b = bytes.fromhex(f["input_hex"])
    out, instr = outside_strings(b)
    if len(b) < 4 and any(ch in out for ch in b"tnf"):
        return "KF-C05-short-literal-oob"
    if not instr and out.endswith(b"0"):
        head = out[:-1]
        if head.endswith(b"-"):
            head = head[:-1]
        if head == b"" or head[-1:] in (b" ", b"\t", b"\n", b"\r", b"[", b",", b":", b"{"):
            # only entries that go through vnumber/value see it; the fault is 1 byte behind the end
            if f["kind"] != "fault" or "input end + 0" in f["detail"]:
                return "KF-C05-leading-zero-oob"
    return None


ENVS_QUICK = [({}, 1.0), ({"SONIC_USE_OPTDEC": "1", "SONIC_USE_FASTMAP": "1"}, 0.3)]
ENVS_THOROUGH = [({}, 1.0), ({"SONIC_USE_OPTDEC": "1"}, 0.5), ({"SONIC_USE_OPTDEC": "1", "SONIC_USE_FASTMAP": "1"}, 0.3), ({"SONIC_MODE": "noavx2"}, 0.5)]


def run(ctx):
    ctx.level = "proof"
    ctx.trusted = c.TRUSTED_COMMON + [c.TRUSTED_EXTRACT,
                                     "mmap/mprotect and runtime/debug.SetPanicOnFault: a read behind an input placed flush against a PROT_NONE page is observed as a fault"]
    ctx.assumptions = [
        "the scanners are hand-written Gallina transcriptions of native/scanning.h, lspace.h, value.c (scalar semantics; the 32-byte block loops as vector loads); "
        "the pre-assembled blobs are tied to them by the guard-page runs, not by proof",
        "sizes are below 2^62 (size_ok) in the advance_dword theorems",
        "SIMD kernels of quote/unquote/html_escape/utf8/skip_* and optdec's parse_with_padding.c are only explored (placements at every length 0..300), not modelled",
    ]
    known = {k["id"]: k for k in c.known_findings("C05")}
    p_ok = c.standard_P(ctx, CLAIM["gens"], SUPPORT)
    problems = []
    if not p_ok:
        problems.append(("P", getattr(ctx, "p_fail", "proof half failed")))
    c.log("C05: P half %.1fs" % (time.time() - ctx.t0))
    ok, hb = c.build_harness("c05")
    if not ok:
        ctx.violation("harness does not build against the repository: " + hb[-1500:], {"build": hb}, False)
        return
    work = os.path.join(c.BUILD, "work", "C05")
    os.makedirs(work, exist_ok=True)

    if ctx.replay:
        rp = json.load(open(ctx.replay)).get("replay", {})
        if rp.get("input_hex") is not None:
            outp = os.path.join(work, "replay.json")
            e = dict(c.GOENV)
            e.update(rp.get("env") or {})
            cmd = [hb, "-mode", "place", "-input", rp["input_hex"] or "", "-out", outp]
            if rp.get("entry"):
                cmd += ["-entry", rp["entry"]]
            rc, out = c.sh(cmd, env=e, timeout=300, check=False)
            fs = (json.load(open(outp))["failures"] or []) if rc == 0 and os.path.exists(outp) else []
            real = [f for f in fs if classify(f) not in known]
            c.log("replay: exit=%d failures=%d (not known: %d)" % (rc, len(fs), len(real)))
            if rc != 0 or real:
                ctx.violation("replayed case still fails", {"exit": rc, "failures": real[:3], "output": out[-1500:]}, True)
            return

    mok, mexe = (False, "") if not p_ok else c.build_model("C05")
    if p_ok and not mok:
        problems.append(("T", "model extraction failed: " + mexe[-800:]))

    seen_known = {}
    real = []

    # ---- T1: fault <=> the read-monad model of native value() touches an index >= len
    impl = os.path.join(work, "model.impl")
    nm = 3000 if ctx.tier == "quick" else 60000
    rc, out = c.sh([hb, "-mode", "model", "-n", str(nm), "-seed", str(ctx.seed), "-out", impl], env=c.GOENV, timeout=600, check=False)
    n_model, mism = 0, []
    if rc != 0:
        problems.append(("T", "model-tie harness failed: " + out[-800:]))
    else:
        lines = open(impl).read().splitlines()
        n_model = len(lines)
        faults = [l for l in lines if l.endswith("\t1")]
        if mok:
            rc, out = c.sh([mexe], input="\n".join("\t".join(l.split("\t")[:3]) for l in lines) + "\n", timeout=600, check=False)
            ml = out.splitlines()
            if rc != 0 or len(ml) != len(lines):
                problems.append(("T", "model driver failed: " + out[-300:]))
            else:
                mism = [(a, b) for a, b in zip(lines, ml) if a != b]
        if mism:
            a, b = mism[0]
            problems.append(("T", "native Value and Mem/Scan.value_model disagree on %d of %d placements, e.g. %s input %r: fault=%s, model predicts %s" % (
                len(mism), n_model, a.split("\t")[1], bytes.fromhex(a.split("\t")[2].replace("-", "")), a.split("\t")[3], b.split("\t")[3])))
        # independent of the model: every fault is a violation of the statement; only the two recorded classes are known
        for l in faults:
            _, simd, hx, _ = l.split("\t")
            f = {"entry": "native.%s.Value" % simd, "kind": "fault", "input_hex": hx.replace("-", ""), "detail": "input end + 0"}
            kf = classify(f)
            if kf and kf in known:
                seen_known.setdefault(kf, "native.%s.Value on %r placed flush against an unmapped page: fault" % (simd, bytes.fromhex(f["input_hex"])))
            else:
                real.append(("native.%s.Value reads behind the input %r (fault at an unmapped page)" % (simd, bytes.fromhex(f["input_hex"])), dict(f, mode="model")))
        ctx.cov["model_tie_cases"] = n_model
        ctx.cov["model_tie_faults"] = len(faults)
        ctx.cov["model_tie_mismatches"] = len(mism)
        ctx.cov["traces_validated_against_impl"] = n_model if mok and not mism else 0

    # ---- T2 / search: all entry points, flush placement + adversarial continuations
    n = 150 if ctx.tier == "quick" else 6000
    envs = ENVS_QUICK if ctx.tier == "quick" else ENVS_THOROUGH
    corpus_dir = os.path.join(c.ROOT, "corpus", "C05")
    procs = []
    t_start = time.time()
    for i, (env, share) in enumerate(envs):
        e = dict(c.GOENV)
        e.update(env)
        outp = os.path.join(work, "place%d.json" % i)
        prog = os.path.join(work, "place%d.progress" % i)
        for fn in (outp, prog):
            if os.path.exists(fn):
                os.remove(fn)
        log = open(os.path.join(work, "place%d.log" % i), "w")
        cmd = [hb, "-mode", "place", "-tier", ctx.tier, "-n", str(int(n * share)), "-seed", str(ctx.seed + i), "-out", outp, "-progress", prog, "-corpus", corpus_dir]
        if env.get("SONIC_USE_OPTDEC"):
            cmd += ["-entry", "sonic.Unmarshal"]      # the alternative decoder only changes the decoding entry points
        procs.append((env, outp, prog, log, subprocess.Popen(cmd, env=e, stdout=log, stderr=subprocess.STDOUT)))
    # value-by-value decoding of multi-value inputs with a truncated last value, after earlier longer parses (pooled parser buffers),
    # default back end and the alternative decoder (which works on a padded private copy of input[pos:])
    for j, env in enumerate(({}, {"SONIC_USE_OPTDEC": "1"}, {"SONIC_USE_OPTDEC": "1", "SONIC_USE_FASTMAP": "1"})):
        e = dict(c.GOENV)
        e.update(env)
        e["GOMAXPROCS"] = "1"
        outp = os.path.join(work, "resume%d.json" % j)
        prog = os.path.join(work, "resume%d.progress" % j)
        for fn in (outp, prog):
            if os.path.exists(fn):
                os.remove(fn)
        log = open(os.path.join(work, "resume%d.log" % j), "w")
        cmd = [hb, "-mode", "resume", "-n", str(400 if ctx.tier == "quick" else 6000), "-seed", str(ctx.seed + 17 + j), "-out", outp, "-progress", prog]
        procs.append((env, outp, prog, log, subprocess.Popen(cmd, env=e, stdout=log, stderr=subprocess.STDOUT)))
    limit = 400 if ctx.tier == "quick" else 3000
    tot = {"evaluations": 0, "placements": 0, "nontrivial": 0, "faults": 0, "taildep": 0}
    per_entry, per_gen, lengths, fail_counts = {}, {}, {}, {}
    samples = []
    for env, outp, prog, log, pr in procs:
        try:
            rc = pr.wait(timeout=max(1, limit - (time.time() - t_start)))
        except subprocess.TimeoutExpired:
            pr.kill()
            rc = 124
        log.close()
        out = open(log.name, errors="replace").read()
        if rc != 0 or not os.path.exists(outp):
            last = open(prog).read().strip().split("\t") if os.path.exists(prog) else []
            last = (last + ["?", ""])[:2]
            head = "\n".join(out.splitlines()[:25])
            f = {"entry": last[0], "kind": "crash", "input_hex": last[1], "detail": head[:300]}
            kf = classify(f) if rc != 124 else None
            if kf and kf in known:
                seen_known.setdefault(kf, "process died in %s on %r" % (last[0], bytes.fromhex(last[1])))
            real.append(("process %s in entry %s on input %r [env %s]: %s" % ("hung" if rc == 124 else "died (exit %d)" % rc, last[0],
                                                                            bytes.fromhex(last[1]) if last[1] else b"", env, head[:300]),
                         {"mode": "place", "entry": last[0], "input_hex": last[1], "env": env, "exit": rc, "stderr_head": head[:3000]}))
            continue
        rep = json.load(open(outp))
        tot["evaluations"] += rep["evaluations"]
        tot["placements"] += rep["placements"] or rep["evaluations"]
        tot["nontrivial"] += rep["distinct_nontrivial"]
        tot["faults"] += rep["faults"]
        tot["taildep"] += rep["tail_dependent"]
        for dst, src in ((per_entry, rep["per_entry"]), (per_gen, rep["per_generator"]), (lengths, rep["lengths"]), (fail_counts, rep["failure_counts"])):
            for k, v in src.items():
                dst[k] = dst.get(k, 0) + v
        samples += rep.get("samples") or []
        for f in (rep["failures"] or []):
            f["env"] = env
            kf = classify(f)
            optdec_entry = env.get("SONIC_USE_OPTDEC") and f["entry"].startswith(("sonic.UnmarshalString", "ConfigStd.Unmarshal", "decoder.Decode"))
            if kf and kf in known and not optdec_entry:   # the alternative decoder parses a padded private copy: no fault is excused there
                seen_known.setdefault(kf, "%s on %r: %s %s" % (f["entry"], bytes.fromhex(f["input_hex"]), f["kind"], f["detail"][:120]))
            else:
                real.append(("%s on input %r: %s - %s" % (f["entry"], bytes.fromhex(f["input_hex"])[:60], f["kind"], f["detail"][:200]), dict(f, mode="place")))
    c.log("C05: placement phase %.1fs" % (time.time() - t_start))

    ctx.cov["evaluations"] = tot["evaluations"] + n_model
    ctx.cov["placements"] = tot["placements"] + n_model
    ctx.cov["distinct_nontrivial"] = tot["nontrivial"]
    ctx.cov["rule"] = ("an evaluation = one entry point on one input: placed flush against a PROT_NONE page (fault observable) and at 7 other alignments "
                       "followed by adversarial continuations (results must all be equal); non-trivial = distinct non-empty input")
    ctx.cov["distribution"] = {"per_entry": per_entry, "per_generator": per_gen, "input_lengths": lengths,
                               "faults_incl_known": tot["faults"], "tail_dependent_incl_known": tot["taildep"],
                               "failure_counts_incl_known": fail_counts, "backends": [e for e, _ in envs]}
    for s in samples[:5]:
        ctx.sample(s)
    ctx.sample({"model_tie": "V avx2 74 -> fault=1 model=1 (input 't')"})

    for k in sorted(seen_known):
        ctx.known(k, known[k]["signature"][:160] + " :: " + seen_known[k][:200])
    gone = [k for k in known if k not in seen_known]
    if gone and not real and not problems:
        problems.append(("T", "recorded finding(s) no longer reproduce on the implementation although the model still predicts them: " + ", ".join(gone)))

    shown = set()
    for what, payload in real:
        key = "".join(ch for ch in what[:50] if not ch.isdigit())
        if key in shown or len(shown) >= 4:
            continue
        shown.add(key)
        ctx.violation(what, payload, True)
    if problems and not ctx.violations:
        ctx.violation("; ".join("%s: %s" % p for p in problems)[:3000],
                      {"broken": [p[1] for p in problems], "theorem_file": "coq/theories/Props/C05.v",
                       "searched": "%d placements of the real code found no read outside the input other than the recorded findings" % ctx.cov["placements"]}, False)
