"""C12 - The interpreter (VM) encoder is observably equivalent to the JIT encoder."""
import json
import os
import time

from . import common as c
from . import C03_lib as L

CLAIM = {
    "gens": ["EncFlags"],
    "category": "proof",
    "text": "Both executors run the same IR (pinned by C03's exact IR tie). The Coq machine Enc/VM.v is parameterised by everything in which "
            "vm.go and the x86 code differ: number/quote primitives, the option bit tested per op (column generated from vm.go `has_opts` and "
            "the assembler's `BTQ $bit` by tools/tx -> Gen/EncFlags.v), the state-stack bound. Theorems: equal parameters => equal Marshal "
            "result for all types, values, option words (C12_exec_agree); the bit columns agree and are the documented bits; integer "
            "primitives agree on all 2^64 values (native fastint.h model = strconv, via C19's u64toa_exact); floats agree except +-0. "
            "-0.0 (interpreter printed 0) was refuted, repaired by fix b09723f and is now the theorem C12_f64_negzero_agree. The state-stack bound (JIT 4095 vs interpreter 4096 frames) was refuted, repaired by fix a4d60f7 and is now C12_stack_bound_agree (both bounds generated from the sources). "
            "C12_exec_agree_partial: interpreter = JIT up to the digit oracle of zeros. Tie: identical "
            "(type, value, option word) cases in a JIT process and a SONIC_ENCODER_USE_VM process, both against the model and against each other.",
    "note": "Trusted: Coq kernel, extraction, translator (flag-bit columns, stack bounds), Go harness. The generated x86 code itself is "
            "reached only by running it; float digits are strconv's (C19).",
    "technique": "Coq proof (parametric machine + generated per-op flag table) + two-process differential tie",
}

FLAGBITS = ["SortMapKeys", "EscapeHTML", "CompactMarshaler", "NoQuoteTextMarshaler", "NoNullSliceOrMap", "ValidateString",
            "NoValidateJSONMarshaler", "NoEncoderNewline", "EncodeNullForInfOrNan"]


def run(ctx):
    ctx.level = "proof"
    ctx.trusted = c.TRUSTED_COMMON + [c.TRUSTED_TX, c.TRUSTED_EXTRACT,
                                     "harness/internal/tygen (descriptor and value serialisation); strconv for the digits of floats"]
    ctx.assumptions = [
        "the executors are modelled as one machine with executor-specific parameters; that the x86 code implements each op like vm.go is tied by running both, not proved",
        "float digits other than the sign of zero are an oracle shared by both primitive sets (C19)",
    ]
    t0 = time.time()
    ctx.cov["phase_s"] = {}
    p_ok = c.standard_P(ctx, CLAIM["gens"], L.SUPPORT + ["Enc/C12Proofs.v"])
    ctx.cov["phase_s"]["P"] = round(time.time() - t0, 1)
    problems = []
    if not p_ok:
        problems.append(("P", getattr(ctx, "p_fail", "proof half failed")))
    ok, hb = c.build_harness("c12")
    if not ok:
        ctx.violation("harness does not build against the repository: " + hb[-1500:], {"build": hb}, False)
        return
    t1 = time.time()
    mok, mexe = c.build_model("C03")
    ctx.cov["phase_s"]["model_build"] = round(time.time() - t1, 1)
    if not mok:
        problems.append(("T", "model extraction/driver build failed: " + mexe[-1200:]))
    d = L.work("C12")
    n = 6000 if ctx.tier == "quick" else 50000
    extra = ["-flags", "rand:2" if ctx.tier == "quick" else "rand:4"]
    only = None
    if ctx.replay:
        try:
            rp = json.load(open(ctx.replay))
            only = rp["replay"].get("case")
            ctx.seed = rp.get("seed", ctx.seed)
        except Exception:
            pass
    ok, msg = L.run_harness(hb, d, ctx.seed, n, only, extra)
    if not ok:
        ctx.violation("encoder harness crashed: " + msg, {"output": msg}, True)
        return
    model = {}
    if mok:
        ok, msg = L.run_model(mexe, d)
        if not ok:
            problems.append(("T", msg))
        else:
            model, bad = L.load_model(os.path.join(d, "model.out"))
            if bad:
                problems.append(("T", "model driver rejected %d request lines, e.g. %s" % (len(bad), bad[0])))
    jb, stdflags, jit, feat, skipped = L.load_impl(os.path.join(d, "impl.jit"))
    vb, _, vm, _, _ = L.load_impl(os.path.join(d, "impl.vm"))
    if (jb, vb) != ("jit", "vm"):
        problems.append(("T", "back-end selection failed: processes report %s/%s" % (jb, vb)))
    known = {k["id"]: k for k in c.known_findings("C12")}
    st = dict(pairs=0, differ=0, known=0, tie=0, tie_bad=0, cache_sensitive=0, pretouch_pairs=0)
    dist = {"regime": {}, "flag_bit_set": {b: 0 for b in FLAGBITS}, "result": {}}
    seen_known = {}
    viol = []
    pending_q = []
    distinct = set()
    for cid, (regime, feats, tsz, vsz) in feat.items():
        dist["regime"][regime] = dist["regime"].get(regime, 0) + 1
        jr, vr, m = jit.get(cid, {}), vm.get(cid, {}), model.get(cid, {})
        for key, rj in jr.items():
            if key.startswith("Q:"):
                # after Pretouch with compile options (omit-null / inline depth / recursive depth) both back ends must still agree
                st["pretouch_pairs"] += 1
                rv = vr.get(key)
                if rv is None or not ((rj[0] != "ok" and rv[0] != "ok") or rj == rv):
                    # Pretouch itself is not deterministic (it keeps one of two (type, pointer-value) requests per level, by Go map
                    # iteration order): a single run per process compares two draws.  Like for like = the SETS of outcomes the two
                    # back ends can produce for this scenario (48 repetitions each); they must coincide.
                    pending_q.append((cid, key, rj, rv, feats))
                continue
            if not key.startswith("R:"):
                continue
            fl = int(key[2:])
            rv = vr.get(key)
            sortk = bool(fl & 1)
            mm = bool(feats & {'map>=2', 'map>=12', 'map>=41'})
            for i, b in enumerate(FLAGBITS):
                if fl >> i & 1:
                    dist["flag_bit_set"][b] += 1
            res = "ok" if rj[0] == "ok" else "err:" + rj[1]
            dist["result"][res] = dist["result"].get(res, 0) + 1
            if tsz > 8 or vsz > 8:
                distinct.add((tsz, vsz, fl, rj[1][:48]))
            ej, ev = m.get("E:jit:%d" % fl), m.get("E:vm:%d" % fl)
            cs = (ej is not None and ej[-1] == "1") or (ev is not None and ev[-1] == "1")
            # the property: both back ends byte-identical, or both fail
            st["pairs"] += 1
            same = rv is not None and ((rj[0] != "ok" and rv[0] != "ok") or L.same_result(rj, rv, sortk))
            if not same:
                st["differ"] += 1
                kf = None      # no open finding: -0.0 (b09723f) and the stack bound (a4d60f7) were repaired
                explained = model and ej is not None and ev is not None and L.same_result(ej[:-1], rj, sortk, mm) and L.same_result(ev[:-1], rv, sortk, mm)
                if kf and kf in known and explained:
                    st["known"] += 1
                    seen_known.setdefault(kf, cid)
                else:
                    viol.append(("pair", cid, "JIT and interpreter differ under option word %d: jit %s / vm %s" % (fl, L.show(rj), L.show(rv)),
                                 dict(L.case_lines(d, cid), flags=fl, jit=rj[:2], vm=(rv or ["missing"])[:2], features=sorted(feats))))
            # tie of both executors to the model
            if cs:
                st["cache_sensitive"] += 1      # tied too since fix ea86c56 (one cache per pv)
            for who, e, r in (("jit", ej, rj), ("vm", ev, rv)):
                if e is None or r is None:
                    continue
                st["tie"] += 1
                if not L.same_result(e[:-1], r, sortk, mm):
                    st["tie_bad"] += 1
                    viol.append(("tie", cid, "Marshal (%s, option word %d) differs from the model: impl %s / model %s" % (who, fl, L.show(r), L.show(e)),
                                 dict(L.case_lines(d, cid), flags=fl, backend=who, impl=r[:2], model=e[:2], features=sorted(feats))))
    st["pretouch_rechecked"] = 0
    for cid, key, rj, rv, feats in pending_q[:12]:
        st["pretouch_rechecked"] += 1
        sj, sv = L.pretouch_outcome_sets(hb, d, ctx.seed, n, cid, extra)
        aj, av = sj.get(key, set()), sv.get(key, set())
        norm = lambda a: set(("err",) if x[0] != "ok" else tuple(x) for x in a)
        # (a set with more than one outcome was the finding repaired by dbc1720: now a violation like any other difference)
        viol.append(("pretouch", cid, "after Pretouch with compile options (EncOnlyOmitNull/MaxInlineDepth/RecursiveDepth = %s) JIT and interpreter differ: jit %s / vm %s "
                     "(distinct outcomes over 48 repetitions: jit %d, vm %d, common %d)"
                     % (key[2:], L.show(rj), L.show(rv), len(aj), len(av), len(norm(aj) & norm(av))),
                     dict(L.case_lines(d, cid), pretouch=key[2:], jit=rj[:2], vm=(rv or ["missing"])[:2], features=sorted(feats),
                          jit_outcomes=len(aj), vm_outcomes=len(av))))
    # regression cases of dbc1720: exactly one outcome per Pretouch scenario, the same in both back ends, over 48 repetitions
    st["pretouch_regression"] = 0
    for cid in [x for x in feat if x.startswith("w-pretouch-")]:
        sj, sv = L.pretouch_outcome_sets(hb, d, ctx.seed, n, cid, extra)
        for key in sorted(set(sj) | set(sv)):
            st["pretouch_regression"] += 1
            aj, av = sj.get(key, set()), sv.get(key, set())
            if len(aj) != 1 or aj != av:
                viol.append(("pretouch", cid, "Pretouch scenario %s of %s: the outcome must be unique and the same in both back ends over 48 repetitions; distinct outcomes: jit %d %s / vm %d %s"
                             % (key[2:], cid, len(aj), [L.show(list(x))[:160] for x in sorted(aj)][:3], len(av), [L.show(list(x))[:160] for x in sorted(av)][:3]),
                             dict(L.case_lines(d, cid), pretouch=key[2:], jit_outcomes=len(aj), vm_outcomes=len(av), features=sorted(feat[cid][1]))))
        if not sj and not sv and not only:
            problems.append(("T", "regression case %s produced no Pretouch outcome sets" % cid))
    for cid, key, rj, rv, feats in pending_q[12:]:
        viol.append(("pretouch", cid, "after Pretouch with compile options (%s) JIT and interpreter differ (not re-examined: more than 12 such cases): jit %s / vm %s"
                     % (key[2:], L.show(rj), L.show(rv)),
                     dict(L.case_lines(d, cid), pretouch=key[2:], jit=rj[:2], vm=(rv or ["missing"])[:2], features=sorted(feats))))
    for kf, cid in sorted(seen_known.items()):
        ctx.known(kf, "%s (e.g. case %s)" % (known[kf]["signature"], cid))
    ctx.cov["evaluations"] = st["pairs"] + st["tie"] + st["pretouch_pairs"]
    ctx.cov["distinct_nontrivial"] = len(distinct)
    ctx.cov["rule"] = ("witness corpus then seeded random (type, value) cases, each under the std word and random 9-bit option words, run in a JIT and an "
                       "interpreter process; distinct = distinct (type size, value size, option word, output prefix) with a non-scalar type or value")
    ctx.cov["distribution"] = dist
    ctx.cov["counts"] = st
    ctx.cov["phase_s"].update(L.TIMES)
    ctx.cov["skipped_too_large"] = len(skipped)
    ctx.cov["traces_validated_against_impl"] = st["tie"] - st["tie_bad"]
    for cid in list(feat)[:2] + list(feat)[-2:]:
        ctx.sample({"case": cid, "features": sorted(feat[cid][1]), "jit": L.show(jit.get(cid, {}).get("R:" + stdflags))[:120],
                    "vm": L.show(vm.get(cid, {}).get("R:" + stdflags))[:120]})
    shown = {}
    for kind, cid, what, payload in viol:
        if shown.get(kind, 0) >= 3:
            continue
        shown[kind] = shown.get(kind, 0) + 1
        payload["seed"] = ctx.seed
        ctx.violation(what[:1500], payload, True)
    if problems and not ctx.violations:
        ctx.violation("; ".join("%s: %s" % p for p in problems)[:3000],
                      {"broken": [p[1] for p in problems], "theorem_file": "coq/theories/Props/C12.v",
                       "searched": "%d (case, option word) pairs in two processes" % st["pairs"]}, False)
