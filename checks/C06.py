"""C06 - Returned data is caller-owned; buffers and inputs are never aliased or overrun."""
import json
import os
import subprocess
import time

from . import common as c

SUPPORT = ["Pools/Pool.v", "Pools/Api.v", "Pools/ApiGen.v", "Pools/Buf.v", "Pools/Ev.v", "Pools/CheckSizeOk.v", "Safe/GoInt.v", "Safe/SizeArith.v"]

CLAIM = {
    "gens": ["CheckSize", "PureFns", "Tables", "PoolApi"],
    "category": "proof",
    "text": "Theorems (Coq): (1) owned_forever - a machine of array references MOVED between pools, call registers, callers, fresh allocations and the garbage, "
            "with goroutines interleaved at instruction granularity: for every set of alias-free programs, every schedule and every choice of the pools, no write "
            "ever targets an array a caller owns or a pool holds, and every array is referenced from exactly one place; instantiated with Encode, EncodeInto, "
            "EncodeIndented, StreamEncoder.Encode, ast Node.MarshalJSON EXTRACTED from the Go source on every run (tools/tx/poolapi.go -> Gen/PoolApi.v: "
            "every control-flow path x growth x poolable, 92 programs; an edit that returns a pooled buffer or uses a buffer after freeing it makes the extracted "
            "program non-linear or is rejected, so P breaks) and with hand transcriptions of StreamDecoder.Decode and Unmarshal([]byte); shown discriminating: 'return the pooled buffer without copying' and 'freeBuffer before the copy' are expressible and refuted. "
            "(2) output_cap_independent - the bytes produced do not depend on capacity, garbage behind len, or growslice leftovers. (3) quote / html-escape "
            "loops (with rt.GuardSlice2 translated from source) never let the native routine write beyond cap or read outside the source, for any capacity "
            "sequence and any native behaviour within its contract. (4) check_size_covers over Gen/CheckSize.v (regenerated from the x86 assembler on every run): "
            "in all 52 _asm_OP_* emitters / 77 generator paths every constant store and cursor advance lies inside the space reserved by the last check_size, "
            "integer printers get at least the longest rendering of their type. (5) unquote output <= input (C20's model of unquote.c). "
            "The APIs in the ownership machine are hand transcriptions; the running code is tied by deterministic pool histories with snapshot re-comparison, "
            "EncodeInto with the capacity ending at a PROT_NONE page for every capacity, both sides of LimitBufferSize, and overwriting inputs after decoding.",
    "note": "Trusted: Coq kernel, the translator tools/tx (CheckSize event extraction treats check_size/add_char/add_long/add_text/store_int/store_str as primitives whose bodies "
            "are shape-checked), the Go harness, sync.Pool being deterministic under GOMAXPROCS=1 with the GC off. Generated x86 stores other than the constant ones "
            "(native i64toa/f64toa/quote/memmove/b64 through their contracts) are covered by the guard-page runs only.",
    "technique": "Coq proof of a linear ownership machine + source-regenerated check_size accounting + deterministic pool-history and guard-page differential",
}


def run(ctx):
    ctx.level = "proof"
    ctx.trusted = c.TRUSTED_COMMON + [c.TRUSTED_TX, "sync.Pool reuse is deterministic with GOMAXPROCS=1 and the garbage collector switched off during a history",
                                     "mmap/mprotect + debug.SetPanicOnFault: a store behind a buffer whose capacity ends at a PROT_NONE page is observed as a fault"]
    ctx.assumptions = [
        "Gen/PoolApi.v is extracted by pattern rules over the statements that mention a buffer (pool get/put helpers are shape-checked primitives; callee writes are a table: "
        "encodeIntoCheckRace, EncodeInto, Node.encode, json.Indent, HTMLEscape/CorrectWith swap); the StreamDecoder / Unmarshal([]byte) programs of Pools/Api.v remain hand transcriptions, "
        "tied to the running code by the history / aliasing runs",
        "native routines are represented by their contract (writes <= dn, consumed <= nb) in the loop theorems; C20 ties the contract for quote/html_escape",
        "C06_unquote_len_le reuses Str/UnquoteProofs.v (C20)",
    ]
    known = {k["id"]: k for k in c.known_findings("C06")}
    p_ok = c.standard_P(ctx, CLAIM["gens"], SUPPORT)
    problems = []
    if not p_ok:
        problems.append(("P", getattr(ctx, "p_fail", "proof half failed")))
    c.log("C06: P half %.1fs" % (time.time() - ctx.t0))
    ok, hb = c.build_harness("c06")
    if not ok:
        ctx.violation("harness does not build against the repository: " + hb[-1500:], {"build": hb}, False)
        return
    work = os.path.join(c.BUILD, "work", "C06")
    os.makedirs(work, exist_ok=True)
    env = dict(c.GOENV)
    env["GOMAXPROCS"] = "1"

    quick = ctx.tier == "quick"
    runs = []
    if ctx.replay:
        rp = json.load(open(ctx.replay)).get("replay", {})
        runs = [(rp.get("mode", "history"), rp.get("args", []), rp.get("env", {}))]
    else:
        nh = 1500 if quick else 20000
        for lim in (0, 8192, 4096):        # the shipped limit (1 MiB; outputs up to 2 MiB, so fewer histories) and lowered ones: both sides are reached cheaply
            runs.append(("history", ["-n", str(nh if lim else nh // 20), "-seed", str(ctx.seed + lim), "-limit", str(lim)] + ([] if lim else ["-maxlen", "25"]), {}))
        runs.append(("history", ["-n", str(nh // 2), "-seed", str(ctx.seed + 7), "-limit", "8192"], {"SONIC_ENCODER_USE_VM": "1"}))
        runs.append(("into", ["-n", str(600 if quick else 2000)], {}))
        runs.append(("into", ["-n", str(150 if quick else 600)], {"SONIC_ENCODER_USE_VM": "1"}))
        runs.append(("alias", ["-n", str(300 if quick else 5000), "-seed", str(ctx.seed)], {}))
        runs.append(("race", ["-n", str(3000 if quick else 60000), "-seed", str(ctx.seed), "-limit", "8192"], {"GOMAXPROCS": "4"}))
        runs.append(("alias", ["-n", str(100 if quick else 2000), "-seed", str(ctx.seed + 1)], {"SONIC_USE_OPTDEC": "1"}))

    tot = {"evaluations": 0, "nontrivial": 0, "calls": 0, "rechecks": 0}
    per_op, sizes, hist_lens, per_mode = {}, {}, {}, {}
    real = []
    seen_known = {}
    t0 = time.time()
    procs = []
    for i, (mode, args, e) in enumerate(runs):
        outp = os.path.join(work, "run%d.json" % i)
        if os.path.exists(outp):
            os.remove(outp)
        en = dict(env)
        en.update(e)
        log = open(os.path.join(work, "run%d.log" % i), "w")
        procs.append((mode, args, e, outp, log, subprocess.Popen([hb, "-mode", mode, "-tier", ctx.tier, "-out", outp] + args, env=en, stdout=log, stderr=subprocess.STDOUT)))
    for mode, args, e, outp, log, pr in procs:
        try:
            rc = pr.wait(timeout=max(1, (400 if quick else 3000) - (time.time() - t0)))
        except subprocess.TimeoutExpired:
            pr.kill()
            rc = 124
        log.close()
        out = open(log.name, errors="replace").read()
        if rc != 0 or not os.path.exists(outp):
            real.append(("%s run %s (exit %d) [env %s]: %s" % (mode, "hung" if rc == 124 else "died", rc, e, "\n".join(out.splitlines()[:12])[:400]),
                         {"mode": mode, "args": args, "env": e, "exit": rc, "stderr_head": out[:3000]}))
            continue
        rep = json.load(open(outp))
        per_mode[mode] = per_mode.get(mode, 0) + rep["evaluations"]
        tot["evaluations"] += rep["evaluations"]
        tot["nontrivial"] += rep["distinct_nontrivial"]
        tot["calls"] += rep["calls"]
        tot["rechecks"] += rep["snapshot_rechecks"]
        for dst, src in ((per_op, rep["per_op"]), (sizes, rep["output_sizes"]), (hist_lens, rep["history_lengths"])):
            for k, v in (src or {}).items():
                dst[k] = dst.get(k, 0) + v
        for f in (rep["failures"] or []):
            if f["kind"] == "harness":
                problems.append(("T", "harness: " + f["detail"]))
                continue
            kf = "KF-C06-optdec-number-aliases-input"
            if (kf in known and e.get("SONIC_USE_OPTDEC") and f["kind"] == "input-aliased" and "Decoder with CopyString: fields [N] changed" in f["detail"]):
                seen_known[kf] = f["detail"]
                continue
            real.append(("%s: %s" % (f["kind"], f["detail"][:300]),
                         {"mode": mode, "args": args + ["-seed", str(f["seed"])] if mode == "history" else args, "env": e, "failure": f}))
    c.log("C06: run phase %.1fs" % (time.time() - t0))

    ctx.cov["evaluations"] = tot["evaluations"]
    ctx.cov["distinct_nontrivial"] = tot["nontrivial"]
    ctx.cov["api_calls_in_histories"] = tot["calls"]
    ctx.cov["snapshot_rechecks"] = tot["rechecks"]
    ctx.cov["traces_validated_against_impl"] = per_mode.get("history", 0)
    ctx.cov["rule"] = ("an evaluation = one history of 1..200 API calls (every returned slice/string snapshotted and re-compared after each later call), or one "
                       "EncodeInto call with (value, options, capacity, prefix) and the capacity ending at a PROT_NONE page, or one document decoded through "
                       "5 []byte/CopyString/stream paths whose input is then overwritten; non-trivial = distinct history seed / capacity / document")
    ctx.cov["distribution"] = {"per_mode": per_mode, "per_op": per_op, "output_sizes_vs_limit": sizes, "history_lengths": hist_lens,
                               "runs": [[m, a, e] for m, a, e in runs]}
    ctx.sample({"history": "seed-derived sequence such as: encoder.Encode[0x4] Rec(4096,'<'); sonic.Marshal string(8190,'a'); ast.Node.MarshalJSON(loaded) map(100,'é'); ..."})
    ctx.sample({"into": "value #28 (*main.Rec) opts 0x1 cap 37 len 3: no fault, output == reference, prefix kept"})

    for k in sorted(seen_known):
        ctx.known(k, known[k]["signature"][:200] + " :: " + seen_known[k][:160])
    if problems and real:
        # a failing input was found AND the proof half is broken: say so in the report of the input
        note = " [the proof half is broken as well: " + "; ".join(p[1][:300] for p in problems if p[0] == "P")[:600] + "]"
        real = [(w + note if i == 0 else w, pl) for i, (w, pl) in enumerate(real)]
    shown = set()
    for what, payload in real:
        key = "".join(ch for ch in what[:40] if not ch.isdigit())
        if key in shown or len(shown) >= 4:
            continue
        shown.add(key)
        ctx.violation(what, payload, True)
    if problems and not ctx.violations:
        ctx.violation("; ".join("%s: %s" % p for p in problems)[:3000],
                      {"broken": [p[1] for p in problems], "theorem_file": "coq/theories/Props/C06.v",
                       "searched": "%d histories/placements (%d API calls, %d snapshot re-checks) of the real code found no aliasing or overrun" % (
                           tot["evaluations"], tot["calls"], tot["rechecks"])}, False)
