"""C16 - Nodes declared concurrently readable really are."""
import json
import os
import re

from . import common as c

SUPPORT = ["Conc/NodeLock.v", "Conc/NodeTree.v", "Conc/Lockset.v"]

CLAIM = {
    "gens": ["NodeAccess"],
    "category": "proof",
    "text": ("Theorems (Coq): (1) a small-step model of the ast.Node locking protocol (atomic t, per-node RWMutex, parseRaw re-check under the "
             "lock, assign writing l, p and then storing t atomically, readers of the raw text under rlock) with an arbitrary scheduler and any "
             "number of threads: for every schedule of Raw / encodeRaw-shaped and checkRaw-based reads (Get, Index, GetByPath, typed accessors, "
             "Interface, Map, Array) on one shared node starting raw, every read returns its sequential result and the final node is the "
             "sequential one (invariant proof, all interleavings of single field accesses); lifted to two levels (root + children that are "
             "raw nodes with their own mutex, Get/Index/GetByPath chains = OpGet on the root then any read on the child) by a projection "
             "argument: every read at every node is sequentially correct and a child is only reached while the root is parsed. The model also contains the two defective variants "
             "repaired by fca300b / 30f25f0 (MarshalJSON fast path without the read lock: witness schedule with a torn text; parse error "
             "overwriting the node and its mutex under the lock: waiting readers hang) with their refutations, as regression statements. "
             "(2) over the access table regenerated from /repo/ast on every run: every access to t / l / p / *self reachable from the "
             "documented read operations obeys the lockset discipline in every calling context or is in the listed, categorised exceptions; "
             "none is left unjustified; MarshalJSON / assign / parseRaw / Raw / encodeRaw / checkRaw have the shape the model assumes. The Go memory model below "
             "locks and atomics is not modelled; real interleavings are sampled by -race runs whose reports are evidence, not proof."),
    "note": ("Trusted: Coq kernel + vm_compute, the translator tools/tx (syntactic lock/guard tagging), the Go race detector, the harness. "
             "Two levels are modelled (root + children with their own locks)."),
    "technique": "Coq invariant proof over an interleaving model + lockset check over a table regenerated from source; -race differential runs",
}

KF_MARSHAL = "KF-C16-marshal-fastpath"
KF_PARSE = "KF-C16-parse-error-deadlock"
KF_LAZY = "KF-C16-load-after-lazy"

DEADLOCK_CASE = {
    "id": 0, "doc": "\"ab\\x\"", "scenario": "rawcr", "seed": 1,
    "threads": [[{"path": [], "nav": "", "kind": "String"}, {"path": [], "nav": "", "kind": "Raw"}],
                [{"path": [], "nav": "", "kind": "String"}, {"path": [], "nav": "", "kind": "Raw"}],
                [{"path": [], "nav": "", "kind": "Interface"}, {"path": [], "nav": "", "kind": "Raw"}],
                [{"path": [], "nav": "", "kind": "Raw"}, {"path": [], "nav": "", "kind": "String"}]],
}


def frames(block):
    out = []
    for l in block.splitlines():
        l = l.strip()
        m = re.match(r"^(?:github\.com/bytedance/sonic/)?([A-Za-z0-9_./]+\.\(?\*?[A-Za-z0-9_]*\)?\.?[A-Za-z0-9_.]*)\(\)$", l)
        if m and not l.startswith("/"):
            out.append(m.group(1))
    return out


def parse_races(text):
    """-> list of dicts(case, a=[frames of the reporting access], b=[frames of the previous access], raw)"""
    res = []
    pos = 0
    for m in re.finditer(r"WARNING: DATA RACE\n(.*?)\n==================", text, re.S):
        body = m.group(1)
        before = text[:m.start()]
        cm = None
        for cm in re.finditer(r"CASE (\d+) BEGIN", before):
            pass
        case = int(cm.group(1)) if cm else -1
        parts = re.split(r"\n\n", body)
        a = frames(parts[0]) if parts else []
        b = frames(parts[1]) if len(parts) > 1 else []
        res.append({"case": case, "a": a[:14], "b": b[:14], "raw": body[:2500]})
    return res


def classify_race(r):
    """narrow signatures of the recorded defects; None = not a known one"""
    def has(fr, *names):
        s = [f.split(".")[-1] for f in fr]
        return all(n in s for n in names)
    for x, y in ((r["a"], r["b"]), (r["b"], r["a"])):
        # reader: MarshalJSON fast path -> toString ; writer: parseRaw -> assign
        if len(x) >= 2 and x[0].endswith("toString") and x[1].endswith("MarshalJSON") and has(y, "parseRaw") and y and y[0].endswith(("assign", "parseRaw")):
            return KF_MARSHAL
        # the same defect seen one step later: the bytes the unlocked fast path returned alias the freshly built children
        # (stale isRaw() decision, new p / l), and the harness reading them races with the parser that filled them
        if has(x, "canonOfMarshalJSON") and has(y, "parseRaw"):
            return KF_MARSHAL
    return None


def run_harness(hb, args, timeout):
    env = dict(c.GOENV)
    env["GORACE"] = "halt_on_error=0"
    return c.sh([hb] + args, env=env, timeout=timeout, check=False)


def run(ctx):
    ctx.level = "proof"
    ctx.trusted = c.TRUSTED_COMMON + [c.TRUSTED_TX, "the Go race detector (-race) as the oracle for unsynchronised access pairs in the sampled runs",
                                     "sequential execution of the same operations on a fresh node as the oracle for results"]
    ctx.assumptions = [
        "sequentially consistent interleaving of single field accesses; the Go memory model beneath sync.RWMutex and sync/atomic is not modelled",
        "a root and its container children are modelled (Conc/NodeTree.v): children created by the load-once parse are raw nodes with their own mutex, all existing raw from the start and reachable only through the parsed root; deeper levels repeat the same step; scalars are immutable",
        "the lock/guard tags of Gen/NodeAccess.v are syntactic (statement-tree walk of tools/tx/nodeaccess.go); loops are entered with the state at loop entry",
        "LazyOnly / LazyCallee categories rely on: a node that starts raw and is parsed through parseRaw with a mutex never becomes lazy (Parser.Parse with loadOnce returns no lazy node)",
        "Raw and MarshalJSON results are compared as JSON values (a parsed node is re-encoded, the raw text keeps its spelling)",
        "repaired (fca300b, 30f25f0) and kept as regression witnesses: MarshalJSON fast path (" + KF_MARSHAL + "), parse error under the lock (" + KF_PARSE + ") - a race report or hang of these signatures is a violation again; Load() after a partial lazy traversal (" + KF_LAZY + ") is a known finding outside the model (the node does not start raw)",
    ]
    p_ok = c.standard_P(ctx, CLAIM["gens"], SUPPORT)
    problems = []
    if not p_ok:
        problems.append(("P", getattr(ctx, "p_fail", "proof half failed")))
        if not getattr(ctx, "p_fail", "").startswith("translator"):
            rc, out = c.coq_eval("C16diag", """From Coq Require Import String List.
From SV.Conc Require Import Lockset.
Eval vm_compute in ("closed", closed, "side_conditions", side_conditions, "shapes", assign_shape, parseRaw_shape,
  rlock_shape "Node.Raw" "Node.MarshalJSON", rlock_shape "Node.encodeRaw" "Node.encode", accessors_shape).
Eval vm_compute in ("accesses outside the discipline without a justification", filter (fun v => negb (justified v)) violations).
""", timeout=300)
            problems.append(("P-diagnosis", re.sub(r"\s+", " ", out)[-2500:]))

    ok, hb = c.build_harness("c16", race=True)
    if not ok:
        ctx.violation("race harness does not build against /repo: " + hb[-1500:], {"build": hb}, False)
        return
    work = os.path.join(c.BUILD, "work", "C16")
    os.makedirs(work, exist_ok=True)
    known = {k["id"]: k for k in c.known_findings("C16")}

    if ctx.replay:
        rp = json.load(open(ctx.replay)).get("replay", {})
        if "case" in rp:
            cf = os.path.join(work, "replay-case.json")
            json.dump(rp["case"], open(cf, "w"))
            rc, out = run_harness(hb, ["-mode", "replay", "-case", cf, "-reps", "200", "-out", os.path.join(work, "replay.json"), "-casetimeout", "20"], 300)
            races = parse_races(out)
            rep = json.load(open(os.path.join(work, "replay.json"))) if rc != 124 and os.path.exists(os.path.join(work, "replay.json")) else {"n_fail": -1, "failures": []}
            ctx.cov["evaluations"] = 200
            if rc in (124, 5) or races or rep["n_fail"]:
                ctx.violation("replayed case: hang=%s races=%d wrong results=%s" % (rc in (124, 5), len(races), rep["n_fail"]),
                              {"case": rp["case"], "races": races[:3], "failures": rep["failures"][:3]}, True)
        else:
            c.log("replay file holds no runnable case")
        return

    # ---- T: concurrent reads on shared nodes that start raw, under the race detector.  The harness has a per-case watchdog
    #      (exit status 5 + the case in the report); the whole run has a deadline as well: a harness that is killed or
    #      does not come back is a violation, replayable through the last case it announced.
    n = 700 if ctx.tier == "quick" else 12000
    rep_f = os.path.join(work, "run.json")
    cases_f = os.path.join(work, "cases.jsonl")
    for f in (rep_f, cases_f):
        if os.path.exists(f):
            os.remove(f)
    rc, out = run_harness(hb, ["-mode", "run", "-n", str(n), "-seed", str(ctx.seed), "-out", rep_f, "-cases", cases_f, "-casetimeout", "20"],
                          300 if ctx.tier == "quick" else 2400)
    if rc not in (0, 66) or not os.path.exists(rep_f):
        case = None
        what = "crashed"
        if rc == 5 and os.path.exists(rep_f):
            h = json.load(open(rep_f)).get("hang")
            if h:
                case, what = h["case"], h["got"]
        if case is None:
            last = None
            for last in re.finditer(r"CASE (\d+) BEGIN", out):
                pass
            if last is not None and os.path.exists(cases_f):
                for l in open(cases_f):
                    cj = json.loads(l)
                    if cj["id"] == int(last.group(1)):
                        case = cj
            what = "did not finish before the deadline (killed)" if rc == 124 else "crashed (rc=%d)" % rc
        lines = [l for l in out.splitlines() if not l.startswith("CASE ")]
        fatal = [l for l in lines if l.startswith(("fatal error:", "panic:", "runtime:", "sync:"))][:3]
        tail = "\n".join(lines[:40])[:2500] + "\n...\n" + "\n".join(lines)[-1500:]
        if fatal:
            what += ": " + " | ".join(fatal)
        ctx.violation("concurrent-read harness: %s%s" % (what, "" if case is None else " - case %d (%s, %s)" % (case["id"], case["scenario"], case.get("shape", ""))),
                      {"case": case, "output": tail, "seed": ctx.seed}, case is not None)
        return
    rep = json.load(open(rep_f))
    cases = {}
    for l in open(cases_f):
        cj = json.loads(l)
        cases[cj["id"]] = cj
    races = parse_races(out)
    seen_known = set()
    bad_races = []
    for r in races:
        k = classify_race(r)
        if k and k in known:
            seen_known.add(k)
        else:
            bad_races.append(r)
    bad_fail = []
    for f in (rep["failures"] or []):
        if f["thread"] >= 0 and f["op"]["kind"] == "MarshalJSON" and KF_MARSHAL in known and (KF_MARSHAL in seen_known):
            continue  # a torn text from the unlocked fast path (the known defect), only when its race was reported in this run
        bad_fail.append(f)

    # ---- corpus first: minimized earlier failures (*.case.json), each replayed 30 times
    cdir = os.path.join(c.ROOT, "corpus", "C16")
    for fn in sorted(os.listdir(cdir)) if os.path.isdir(cdir) else []:
        if not fn.endswith(".case.json"):
            continue
        rcc, outc = run_harness(hb, ["-mode", "replay", "-case", os.path.join(cdir, fn), "-reps", "30", "-out", os.path.join(work, "corpus.json")], 120)
        cr = parse_races(outc)
        crep = json.load(open(os.path.join(work, "corpus.json"))) if rcc in (0, 66) and os.path.exists(os.path.join(work, "corpus.json")) else {"failures": [{"thread": -1, "op": None, "got": "crash/hang rc=%d" % rcc, "want": "", "case": json.load(open(os.path.join(cdir, fn)))}]}
        for r in cr:
            k = classify_race(r)
            if k and k in known:
                seen_known.add(k)
            else:
                r["case"] = -2
                cases[-2] = json.load(open(os.path.join(cdir, fn)))
                bad_races.append(r)
        for f in (crep["failures"] or []):
            if f["thread"] >= 0 and f["op"] and f["op"]["kind"] == "MarshalJSON" and KF_MARSHAL in seen_known:
                continue
            bad_fail.append(f)

    # ---- the recorded witnesses, replayed on the implementation
    dl_f = os.path.join(work, "deadlock-case.json")
    json.dump(DEADLOCK_CASE, open(dl_f, "w"))
    rc2, out2 = run_harness(hb, ["-mode", "replay", "-case", dl_f, "-reps", "5", "-out", os.path.join(work, "deadlock.json"), "-casetimeout", "8"], 60)
    dl_races = parse_races(out2)
    dl_hang = rc2 in (124, 5)
    dl_reproduced = dl_hang or any("parseRaw" in " ".join(r["a"] + r["b"]) for r in dl_races)
    if dl_reproduced:
        if KF_PARSE in known:
            seen_known.add(KF_PARSE)
        else:
            ctx.violation("ConcurrentRead node whose raw text fails to parse: readers hang / race (hang=%s, races=%d)" % (dl_hang, len(dl_races)),
                          {"case": DEADLOCK_CASE, "races": dl_races[:2]}, True)
    rc3, out3 = run_harness(hb, ["-mode", "run", "-n", "60", "-seed", str(ctx.seed), "-scenarios", "lazyload", "-out", os.path.join(work, "lazy.json"),
                                 "-cases", os.path.join(work, "lazy-cases.jsonl"), "-casetimeout", "10"], 120)
    lazy_races = parse_races(out3)
    lazy_rep = json.load(open(os.path.join(work, "lazy.json"))) if os.path.exists(os.path.join(work, "lazy.json")) and rc3 in (0, 66) else {"n_fail": -1, "failures": []}
    lazy_other = [r for r in lazy_races if classify_race(r) != KF_MARSHAL]
    if lazy_other or lazy_rep["n_fail"]:
        if KF_LAZY in known:
            seen_known.add(KF_LAZY)
        else:
            first = lazy_rep["failures"][0]["case"] if lazy_rep["failures"] else None
            ctx.violation("Load() after a partial lazy traversal does not make the node concurrently readable (races=%d, wrong results=%s)"
                          % (len(lazy_other), lazy_rep["n_fail"]), {"case": first, "races": lazy_other[:2]}, True)

    # ---- coverage
    ctx.cov["evaluations"] = rep["ops"] + lazy_rep.get("ops", 0) + 5
    ctx.cov["distinct_nontrivial"] = rep["distinct_nontrivial"]
    ctx.cov["rule"] = ("one evaluation = one read operation executed by one goroutine on a shared node that started raw, concurrently with the other "
                       "goroutines of its case (1-8 goroutines, 1-9 operations each; shapes: mixed, sequential prefix on one goroutine, first lookups on "
                       "objects with more than 16 members, big documents with text readers arriving during the raw->parsed conversion), result compared with the same operation on a fresh node; "
                       "distinct = distinct (document, scenario) with a document longer than 2 bytes")
    ctx.cov["distribution"] = {"per_operation": rep["per_kind"], "per_scenario": rep["per_scenario"], "goroutines_per_case": rep["goroutines"],
                               "document_size": rep["doc_size"], "reference_outcome": rep["outcome"], "case_shapes": rep.get("case_shapes", {})}
    ctx.cov["cases"] = rep["cases"]
    ctx.cov["race_reports"] = len(races)
    ctx.cov["race_reports_known"] = len(races) - len(bad_races)
    ctx.cov["wrong_results"] = rep["n_fail"]
    ctx.cov["witness_replays"] = {"parse_error_hang": dl_hang, "parse_error_races": len(dl_races), "lazy_load_races": len(lazy_other),
                                  "lazy_load_wrong_results": lazy_rep["n_fail"]}
    for s in rep.get("samples", [])[:4]:
        ctx.sample({"scenario": s["case"]["scenario"], "doc": s["case"]["doc"][:80], "op": s["op"], "result": s["got"][:100]})
    for k in sorted(seen_known):
        ctx.known(k, known[k]["signature"])

    # ---- violations with a concrete failing input
    for r in bad_races[:3]:
        ctx.violation("data race between concurrent reads of a shared node: %s  <->  %s" % (" < ".join(r["a"][:3]), " < ".join(r["b"][:3])),
                      {"case": cases.get(r["case"]), "race": r["raw"]}, True)
    for f in bad_fail[:3]:
        ctx.violation("concurrent read returned a result different from the sequential one (%s): got %s want %s"
                      % (f["op"].get("kind") if f["op"] else "final node", f["got"][:200], f["want"][:200]),
                      {"case": f["case"], "thread": f["thread"], "op": f["op"], "got": f["got"][:2000], "want": f["want"][:2000]}, True)
    if problems and not ctx.violations:
        ctx.violation("; ".join("%s: %s" % p for p in problems)[:3500],
                      {"broken": [p[1][:2500] for p in problems], "theorem_file": "coq/theories/Props/C16.v",
                       "searched": "%d cases / %d concurrent read operations under -race: %d race reports (%d of a known signature), %d wrong results"
                                   % (rep["cases"], rep["ops"], len(races), len(races) - len(bad_races), rep["n_fail"])}, False)
