"""Shared machinery of the decoder checks (C01, C11): case generation, the three-way differential run,
the direct ties (IL listing, FieldMap, ResolveStruct) and the reporting protocol."""
import collections
import hashlib
import json
import os
import re

from . import common as c


def _lines(path):
    with open(path, errors="replace") as f:
        for l in f:
            yield l.rstrip("\n").split("\t")


def _show_input(hx):
    b = bytes.fromhex(hx) if hx != "-" else b""
    return repr(b)[2:-1][:600]


def sizes(tier):
    # (ntypes, ninputs)
    return (220, 30) if tier == "quick" else (2500, 50)


def differential(ctx, hb, mexe, pid, classify):
    work = os.path.join(c.BUILD, "work", pid)
    os.makedirs(work, exist_ok=True)
    cases, model = os.path.join(work, "cases.tsv"), os.path.join(work, "model.tsv")
    res, mres = os.path.join(work, "res.tsv"), os.path.join(work, "mres.tsv")
    rep = {"problems": [], "oracle_bad": [], "known": collections.Counter(), "tie_bad": {"S": [], "J": [], "I": []},
           "cases": cases, "model": model, "work": work, "res": res}
    corpus = os.path.join(c.ROOT, "corpus", "C01")
    if ctx.replay:
        payload = json.load(open(ctx.replay)).get("replay", {})
        cl = payload.get("case_line")
        if not cl:
            rep["problems"].append(("T", "replay file has no case_line"))
            open(cases, "w").close()
            open(model, "w").close()
        else:
            open(cases, "w").write(cl + "\n")
            open(model, "w").write((payload.get("model_line") or "") + ("\n" if payload.get("model_line") else ""))
    else:
        nt, ni = sizes(ctx.tier)
        rc, out = c.sh([hb, "-mode", "gen", "-seed", str(ctx.seed), "-ntypes", str(nt), "-ninputs", str(ni),
                        "-corpus", corpus, "-cases", cases, "-model", model], env=c.GOENV, timeout=600, check=False)
        if rc != 0:
            rep["problems"].append(("T", "case generation failed: " + out[-800:]))
            return rep
    rc, out = c.sh([hb, "-mode", "run", "-cases", cases, "-out", res], env=c.GOENV, timeout=3000, check=False)
    if rc != 0:
        # a crash of the whole process (fatal error / SIGSEGV inside generated code) is itself an observable
        rep["problems"].append(("T", "the harness process died while decoding (exit %d): %s" % (rc, out[-1500:])))
        rep["crash_output"] = out[-4000:]
        return rep
    case_by_id = {f[0]: f for f in _lines(cases)}
    model_line = {f[0]: "\t".join(f) for f in _lines(model)}
    mod = {}
    if mexe:
        rc, out = c.sh("%s c01 < %s > %s" % (mexe, model, mres), timeout=3000, check=False)
        if rc != 0:
            rep["problems"].append(("T", "model driver failed: " + out[-800:]))
        else:
            mod = {f[0]: f for f in _lines(mres)}
    dist = collections.Counter()
    tags = collections.Counter()
    kinds = collections.Counter()
    szs = collections.Counter()
    mstat = collections.Counter()
    seen = set()
    n = 0
    nontrivial = 0
    tied = {"S": 0, "J": 0, "I": 0}
    for r in _lines(res):
        if len(r) < 9:
            continue
        n += 1
        cs = case_by_id[r[0]]
        key = hashlib.sha1(("\t".join(cs[1:])).encode()).hexdigest()
        if key not in seen:
            seen.add(key)
            if cs[5] != "-" and bytes.fromhex(cs[5]).strip():
                nontrivial += 1
        dist["%s sonic=%s std=%s" % (r[5], r[1], r[3])] += 1
        for t in (r[6].split(",") if r[6] != "-" else []):
            tags[t] += 1
        m = re.match(r"\(?(\w+)", cs[3])
        kinds[m.group(1) if m else "?"] += 1
        ln = 0 if cs[5] == "-" else len(cs[5]) // 2
        szs["<16" if ln < 16 else "<64" if ln < 64 else "<256" if ln < 256 else "<1024" if ln < 1024 else ">=1024"] += 1
        payload = {"case_line": "\t".join(cs), "model_line": model_line.get(r[0]), "config": cs[1], "type": cs[3], "initial": cs[4],
                   "input": _show_input(cs[5]), "input_hex": cs[5], "sonic": r[1] + " " + r[7][:400], "encoding_json": r[3] + " " + r[8][:400],
                   "tags": r[6]}
        # ---- the property's oracle: sonic vs encoding/json
        mr = mod.get(r[0])
        if r[5] in ("errdiff", "valdiff", "crash"):
            fid = classify(r)
            # a listed finding excuses a divergence only when the real decoder did what the faithful model of that finding
            # says it does: an input of a finding's class on which sonic behaves differently from the model is a new defect
            if fid and mr and len(mr) >= 11 and mr[1] in ("O", "E") and "unterm32" not in r[6].split(","):
                if mr[1] != r[1] or (mr[1] == "O" and mr[2] != r[2]):
                    payload["classified_as"] = fid
                    payload["model_sonic_bind"] = mr[1] + " " + mr[2][:400]
                    payload["why_not_excused"] = "the input is in the class of a listed finding, but the real decoder's outcome differs from the model of that finding"
                    fid = None
            if fid:
                rep["known"][fid] += 1
            else:
                payload["verdict"] = r[5]
                rep["oracle_bad"].append(payload)
        # ---- model ties
        if mr and len(mr) >= 11:
            for side, mi, ri in (("S", 1, 1), ("J", 3, 3), ("I", 9, 1)):
                mstat[side + ":" + mr[mi]] += 1
                if mr[mi] == "U":
                    continue
                tied[side] += 1
                real_st, real_v = r[ri], r[ri + 1]
                if mr[mi] == "X" or mr[mi] != real_st or (mr[mi] == "O" and mr[mi + 1] != real_v):
                    # cases of the finding classes the tree model cannot express are not part of the tie
                    tg = set(r[6].split(","))
                    if side == "S" and "unterm32" in tg:
                        continue
                    if side == "I" and "unterm32" in tg:
                        continue  # the native scanner defect is below the IL
                    p2 = dict(payload)
                    p2["model"] = mr[mi] + " " + mr[mi + 1][:400]
                    p2["real"] = real_st + " " + real_v[:400]
                    p2["side"] = {"S": "sonic vs sonic_bind", "J": "encoding/json vs std_bind", "I": "sonic vs exec (compile ty)"}[side]
                    rep["tie_bad"][side].append(p2)
    rep.update({"n": n, "nontrivial": nontrivial, "dist": dist, "tags": tags, "kinds": kinds, "sizes": szs, "mstat": mstat,
                "tied": tied, "distinct": len(seen)})
    if mexe and not mod and n:
        rep["problems"].append(("T", "the model produced no result lines"))
    return rep


def ties(ctx, hb, mexe, rep, problems):
    """IL listing, FieldMap, ResolveStruct driven directly."""
    work = rep["work"]
    extra = {}
    # ---- resolver: sonic's ResolveStruct vs the harness's independent field resolution (catalogue + generated structs)
    rpath = os.path.join(work, "resolve.tsv")
    rc, out = c.sh([hb, "-mode", "resolve", "-cases", rep["cases"], "-out", rpath], env=c.GOENV, timeout=900, check=False)
    if rc != 0:
        problems.append(("T", "resolve tie crashed: " + out[-600:]))
    else:
        bad = [f for f in _lines(rpath) if f and f[0] == "DIFF"]
        extra["resolve_structs"] = sum(1 for _ in _lines(rpath))
        if bad:
            rep.setdefault("tie_struct", []).append({"what": "resolver.ResolveStruct differs from encoding/json's field selection (independent re-implementation)",
                                                     "type": bad[0][1], "sonic": bad[0][2], "expected": bad[0][3]})
    # ---- FieldMap: real Set/Get/GetCaseInsensitive vs the model (any hash)
    fpath = os.path.join(work, "fmap.tsv")
    nf = 300 if ctx.tier == "quick" else 5000
    rc, out = c.sh([hb, "-mode", "fmap", "-seed", str(ctx.seed), "-ntypes", str(nf), "-out", fpath], env=c.GOENV, timeout=900, check=False)
    if rc != 0:
        problems.append(("T", "FieldMap tie crashed: " + out[-600:]))
    elif mexe:
        fin = os.path.join(work, "fmap.in")
        with open(fin, "w") as f:
            for r in _lines(fpath):
                if len(r) >= 3:
                    f.write("FM\t%s\t%s\n" % (r[0], r[1]))
        rc, out = c.sh("%s < %s" % (mexe, fin), timeout=900, check=False)
        got = out.splitlines()
        want = [r[2] for r in _lines(fpath) if len(r) >= 3]
        extra["fieldmap_tables"] = len(want)
        if rc != 0 or len(got) != len(want):
            problems.append(("T", "FieldMap model run failed: " + out[-400:]))
        else:
            rows = list(_lines(fpath))
            for i, (a, b) in enumerate(zip(got, want)):
                if a != b:
                    rep.setdefault("tie_struct", []).append({"what": "caching.FieldMap Get/GetCaseInsensitive differ from the model",
                                                             "names_hex": rows[i][0], "queries_hex": rows[i][1], "real": b, "model": a})
                    break
    # ---- IL listing of every generated model-universe type
    ipath = os.path.join(work, "il.tsv")
    rc, out = c.sh([hb, "-mode", "il", "-cases", rep["cases"], "-out", ipath], env=c.GOENV, timeout=900, check=False)
    if rc != 0:
        problems.append(("T", "IL listing crashed: " + out[-600:]))
    elif mexe:
        iin = os.path.join(work, "il.in")
        rows = [r for r in _lines(ipath) if len(r) >= 2]
        with open(iin, "w") as f:
            for r in rows:
                f.write("IL\t%s\n" % r[0])
        rc, out = c.sh("%s < %s" % (mexe, iin), timeout=1800, check=False)
        got = out.splitlines()
        extra["il_types"] = len(rows)
        if rc != 0 or len(got) != len(rows):
            problems.append(("T", "IL model run failed: " + out[-400:]))
        else:
            nbad = 0
            for r, g in zip(rows, got):
                if g == "SKIP":
                    extra["il_skipped"] = extra.get("il_skipped", 0) + 1
                    continue
                if r[1] != g:
                    nbad += 1
                    if nbad == 1:
                        a, b = r[1].split(";"), g.split(";")
                        k = next((i for i in range(min(len(a), len(b))) if a[i] != b[i]), min(len(a), len(b)))
                        rep.setdefault("tie_struct", []).append({"what": "the compiler's IL listing differs from the model's compile",
                                                                 "type": r[0], "first_difference_at": k,
                                                                 "real": ";".join(a[max(0, k - 3):k + 4]), "model": ";".join(b[max(0, k - 3):k + 4])})
            extra["il_mismatches"] = nbad
    rep["extra"] = extra


def report(ctx, pid, rep, problems, known):
    known = {k["id"]: k for k in known}
    n = rep.get("n", 0)
    ctx.cov["evaluations"] = 2 * n + sum(rep.get("tied", {}).values()) + sum(v for k, v in rep.get("extra", {}).items() if isinstance(v, int))
    ctx.cov["distinct_nontrivial"] = rep.get("nontrivial", 0)
    ctx.cov["traces_validated_against_impl"] = sum(rep.get("tied", {}).values())
    ctx.cov["rule"] = ("case = (config, destination type, initial value, input); every case runs the real sonic and the real encoding/json "
                       "(oracle) and, for types of the model universe, both Coq models (three-way). distinct = distinct case hash; non-trivial = "
                       "the input is not empty / whitespace only")
    ctx.cov["distribution"] = {"verdict_by_outcome": dict(rep.get("dist", {})), "classifier_tags": dict(rep.get("tags", {})),
                               "top_level_kind": dict(rep.get("kinds", {})), "input_bytes": dict(rep.get("sizes", {})),
                               "model_status": dict(rep.get("mstat", {})), "cases": n, "distinct_cases": rep.get("distinct", 0),
                               "model_tied": rep.get("tied", {}), "direct_ties": rep.get("extra", {}),
                               "known_finding_cases": dict(rep.get("known", {}))}
    try:
        k = 0
        for f in _lines(rep["cases"]):
            if k >= 4:
                break
            if len(f) >= 6 and f[2] == "1" and 10 < len(f[5]) < 160:
                ctx.sample({"config": f[1], "type": f[3][:200], "initial": f[4][:80], "input": _show_input(f[5])[:120]})
                k += 1
    except Exception:
        pass
    for fid, cnt in sorted(rep.get("known", {}).items()):
        if fid in known:
            ctx.known(fid, known[fid]["signature"] + " (%d cases)" % cnt)
        else:
            rep["oracle_bad"].append({"verdict": "classified as %s, which is not a listed finding" % fid})
    # violations with a concrete failing input first (oracle: encoding/json, independent of the model)
    for p in rep.get("oracle_bad", [])[:3]:
        ctx.violation("sonic and encoding/json disagree (%s) on a case that is not a listed finding" % p.get("verdict"), p, True)
    if rep.get("crash_output"):
        ctx.violation("the decoding process crashed", {"output": rep["crash_output"]}, True)
    tie_bad = rep.get("tie_bad", {"S": [], "J": [], "I": []})
    struct_bad = rep.get("tie_struct", [])
    if not ctx.violations:
        if tie_bad["S"] or tie_bad.get("I"):
            which = "S" if tie_bad["S"] else "I"
            p = tie_bad[which][0]
            ctx.violation("correspondence broken: the real decoder and the model %s differ (%d cases); no disagreement with encoding/json "
                          "outside the listed findings was found" % ("sonic_bind" if which == "S" else "exec (compile ty)", len(tie_bad[which])), p, False)
        elif struct_bad:
            ctx.violation("correspondence broken: " + struct_bad[0]["what"], struct_bad[0], False)
        elif tie_bad["J"]:
            p = tie_bad["J"][0]
            ctx.violation("correspondence broken: encoding/json and the model std_bind differ (%d cases)" % len(tie_bad["J"]), p, False)
        elif problems:
            ctx.violation("; ".join("%s: %s" % p for p in problems)[:3000],
                          {"broken": [p[1] for p in problems], "theorem_file": "coq/theories/Props/%s.v" % pid,
                           "searched": "%d cases against encoding/json" % n}, False)
    ctx.cov["tie_mismatches"] = {"sonic_vs_model": len(tie_bad["S"]), "sonic_vs_il_interpreter": len(tie_bad.get("I", [])),
                                 "std_vs_model": len(tie_bad["J"]), "structural": len(struct_bad)}


# ------------------------------------------------------------------------------------------------ C11

BACKENDS = [("jit", {}), ("opt", {"SONIC_USE_OPTDEC": "1"}), ("fast", {"SONIC_USE_OPTDEC": "1", "SONIC_USE_FASTMAP": "1"})]


def backends(ctx, hb, classify, mexe=None):
    work = os.path.join(c.BUILD, "work", "C11")
    os.makedirs(work, exist_ok=True)
    cases, model = os.path.join(work, "cases.tsv"), os.path.join(work, "model.tsv")
    rep = {"problems": [], "bad": [], "known": collections.Counter(), "work": work, "cases": cases}
    corpus = os.path.join(c.ROOT, "corpus", "C01")
    if ctx.replay:
        payload = json.load(open(ctx.replay)).get("replay", {})
        # an aliasing violation needs the decodes that follow the offending one in the same process
        open(cases, "w").write("\n".join(payload.get("case_lines") or [payload.get("case_line") or ""]) + "\n")
    else:
        nt, ni = sizes(ctx.tier)
        rc, out = c.sh([hb, "-mode", "gen", "-seed", str(ctx.seed + 11), "-ntypes", str(nt), "-ninputs", str(ni),
                        "-corpus", corpus, "-cases", cases, "-model", model], env=c.GOENV, timeout=600, check=False)
        if rc != 0:
            rep["problems"].append(("T", "case generation failed: " + out[-800:]))
            return rep
    outs = {}
    for name, env in BACKENDS:
        e = dict(c.GOENV)
        e.update(env)
        path = os.path.join(work, "w_%s.tsv" % name)
        rc, out = c.sh([hb, "-mode", "worker", "-cases", cases, "-out", path], env=e, timeout=3000, check=False)
        if rc != 0:
            rep["problems"].append(("T", "worker %s died (exit %d): %s" % (name, rc, out[-1200:])))
            rep["crash_output"] = "%s: %s" % (name, out[-3000:])
            return rep
        outs[name] = list(_lines(path))
    case_by_id = {f[0]: f for f in _lines(cases)}
    order = list(case_by_id)
    pos = {cid: i for i, cid in enumerate(order)}
    dist = collections.Counter()
    n = 0
    seen = set()
    nontrivial = 0
    # ---- the model (sonic_bind Jit / Opt / OptFast) on the same cases
    mod = {}
    if mexe and os.path.exists(model) and not ctx.replay:
        mres = os.path.join(work, "mres.tsv")
        rc, out = c.sh("%s c11 < %s > %s" % (mexe, model, mres), timeout=3000, check=False)
        if rc != 0:
            rep["problems"].append(("T", "model driver failed: " + out[-800:]))
        else:
            mod = {f[0]: f for f in _lines(mres)}
    skip_tags = {"jit": {"unterm32"}, "opt": {"badutf8"}, "fast": {"badutf8"}}
    cols = {"jit": 1, "opt": 5, "fast": 7}

    def tie(name, r):
        """None: the case is not part of the tie for this back end; else whether the process did what the model says."""
        m = mod.get(r[0])
        col = cols[name]
        if not m or len(m) < 9 or len(r) < 8 or m[col] == "U":
            return None
        tg = set(r[4].split(","))
        if r[1] == "P" and tg & skip_tags[name]:
            return None
        if name == "jit" and tg & skip_tags["jit"]:
            return None
        if name != "jit" and "badutf8" in tg:
            return None  # optdec re-parses the rewritten buffer: panics, and raw text taken after in-place unescaping
        return not (m[col] != r[1] or (m[col] == "O" and m[col + 1] != r[7]))

    def late(r):
        """the dump taken at the end of the run (all destinations are kept alive until then)"""
        return r[2] if len(r) < 9 or r[8] == "=" else r[8]

    aliased = collections.Counter()
    for a, b, f in zip(outs["jit"], outs["opt"], outs["fast"]):
        if len(a) < 7 or len(b) < 7 or len(f) < 7:
            continue
        n += 1
        cs = case_by_id[a[0]]
        key = hashlib.sha1(("\t".join(cs[1:])).encode()).hexdigest()
        if key not in seen:
            seen.add(key)
            if cs[5] != "-" and bytes.fromhex(cs[5]).strip():
                nontrivial += 1
        tags, valid, structural = a[4], a[5], a[6]
        dist["%s%s jit=%s opt=%s fast=%s" % (valid, structural, a[1], b[1], f[1])] += 1
        kinds = []
        if a[1] == "P":
            kinds.append("panic-jit")
        if b[1] == "P" or f[1] == "P":
            kinds.append("panic-opt")
        if structural == "M" and "O" in (a[1], b[1], f[1]):
            kinds.append("malformed")
        # a destination that changed after its Unmarshal returned (seen at the end of the run, after every other case
        # was decoded in the same process and two collections): memory shared with something the decoder reused
        for nm, rr in (("jit", a), ("opt", b), ("fast", f)):
            if len(rr) >= 10 and rr[1] == "O" and (rr[8] != "=" or rr[9] != "="):
                kinds.append("alias-" + nm)
                aliased[nm] += 1
        if kinds and kinds[-1].startswith("alias-"):
            pass  # reported as such; the value comparisons below would only repeat it
        elif valid == "V":
            if a[1] != "P" and b[1] != "P":
                if a[1] != b[1]:
                    kinds.append("jo-err")
                elif a[1] == "O" and late(a) != late(b):
                    kinds.append("jo-val")
            if b[1] != "P" and f[1] != "P" and (b[1] != f[1] or (b[1] == "O" and late(b) != late(f))):
                kinds.append("of")
        for k in kinds:
            fid = classify(k, tags, a[1], b[1], f[1])
            off = [nm for nm, rr in (("jit", a), ("opt", b), ("fast", f)) if tie(nm, rr) is False] if fid else []
            if fid and not off:
                rep["known"][fid] += 1
            else:
                # a listed finding excuses a divergence only when every process did what the model of that finding says
                extra = {}
                if k.startswith("alias-"):
                    i0 = pos[a[0]]
                    extra = {"case_lines": ["\t".join(case_by_id[c2]) for c2 in order[i0:i0 + 80]],
                             "what_changed": "the destination of this case was dumped right after Unmarshal returned and again at the end of the "
                                             "process (after the following cases were decoded and two collections): the two dumps differ"}
                rep["bad"].append({"kind": k, "classified_as": fid, "processes_off_model": off, **extra, "case_line": "\t".join(cs), "config": cs[1], "type": cs[3], "initial": cs[4],
                                   "input": _show_input(cs[5]), "input_hex": cs[5], "tags": tags, "valid_json": valid, "structure": structural,
                                   "jit": a[1] + " " + a[2][:300] + " " + a[3][:160], "optdec": b[1] + " " + b[2][:300] + " " + b[3][:160],
                                   "optdec_fastmap": f[1] + " " + f[2][:300] + " " + f[3][:160],
                                   "at_end_of_run": {nm: late(rr)[:300] for nm, rr in (("jit", a), ("opt", b), ("fast", f)) if len(rr) >= 9 and rr[8] != "="}})
    rep.update({"n": n, "dist": dist, "nontrivial": nontrivial, "distinct": len(seen), "aliased": dict(aliased)})
    # ---- model ties: sonic_bind Jit / Opt / OptFast against the three processes
    rep["tie_bad"] = []
    rep["tied"] = collections.Counter()
    for name in ("jit", "opt", "fast"):
        col = cols[name]
        for r in outs[name]:
            t = tie(name, r)
            if t is None:
                continue
            rep["tied"][name] += 1
            if not t:
                m = mod[r[0]]
                cs = case_by_id[r[0]]
                rep["tie_bad"].append({"backend": name, "case_line": "\t".join(cs), "config": cs[1], "type": cs[3], "initial": cs[4],
                                       "input": _show_input(cs[5]), "tags": r[4], "model": m[col] + " " + m[col + 1][:300],
                                       "real": r[1] + " " + r[7][:300] + " " + r[3][:120]})
    return rep


def report11(ctx, rep, problems, known):
    known = {k["id"]: k for k in known}
    n = rep.get("n", 0)
    ctx.cov["evaluations"] = 3 * n
    ctx.cov["distinct_nontrivial"] = rep.get("nontrivial", 0)
    ctx.cov["rule"] = ("case = (config, destination type, initial value, input) from the C01 generators; each case is decoded in three processes "
                       "(default, SONIC_USE_OPTDEC=1, +SONIC_USE_FASTMAP=1); valid documents (encoding/json.Valid) are compared pairwise on "
                       "error-or-not and value, structurally malformed inputs must be rejected by all; every decoded destination is kept until "
                       "the end of the process and dumped again after all other cases and two collections: the end-of-run dumps are what is "
                       "compared, and a destination that changed after its Unmarshal returned is a violation; non-trivial = input not empty")
    ctx.cov["distribution"] = {"validity_structure_outcomes": dict(rep.get("dist", {})), "cases": n, "distinct_cases": rep.get("distinct", 0),
                               "known_finding_cases": dict(rep.get("known", {}))}
    for p in rep.get("bad", [])[:2]:
        ctx.sample({k: p[k] for k in ("kind", "type", "input")})
    for fid, cnt in sorted(rep.get("known", {}).items()):
        if fid in known:
            ctx.known(fid, known[fid]["signature"] + " (%d cases)" % cnt)
        else:
            rep["bad"].append({"kind": "classified as %s, which is not a listed finding" % fid})
    for p in rep.get("bad", [])[:3]:
        ctx.violation("the decoder implementations disagree (%s) on a case that is not a listed finding" % p.get("kind"), p, True)
    if rep.get("crash_output"):
        ctx.violation("a worker process crashed", {"output": rep["crash_output"]}, True)
    ctx.cov["traces_validated_against_impl"] = sum(rep.get("tied", {}).values())
    ctx.cov["distribution"]["model_tied"] = dict(rep.get("tied", {}))
    ctx.cov["distribution"]["destinations_changed_after_return"] = rep.get("aliased", {})
    ctx.cov["tie_mismatches"] = len(rep.get("tie_bad", []))
    if not ctx.violations and rep.get("tie_bad"):
        p = rep["tie_bad"][0]
        ctx.violation("correspondence broken: the %s process and the model sonic_bind differ (%d cases); the three processes agree with each other "
                      "outside the listed findings" % (p["backend"], len(rep["tie_bad"])), p, False)
    if not ctx.violations and problems:
        ctx.violation("; ".join("%s: %s" % p for p in problems)[:3000],
                      {"broken": [p[1] for p in problems], "theorem_file": "coq/theories/Props/C11.v",
                       "searched": "%d cases in three processes" % n}, False)
