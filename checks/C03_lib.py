"""Shared machinery of the encoder checks C03 / C12 / C04 (builder b-c03).

One Go harness (cmd/c03) regenerates the case stream of the seed in a JIT process and in a SONIC_ENCODER_USE_VM
process; one extracted model (Extract/C03.v + ocaml/C03/driver.ml) answers the request file written by the JIT run.
"""
import collections
import os

from . import common as c

SUPPORT = ["Enc/Prims.v", "Enc/Ty.v", "Enc/Val.v", "Enc/IR.v", "Enc/Compile.v", "Enc/JsonLite.v", "Enc/MapSort.v",
           "Enc/VM.v", "Enc/Exec.v", "Enc/StdEnc.v", "Enc/CompileWf.v", "Enc/IntBridge.v",
           "Enc/TyLemmas.v", "Enc/Sim.v", "Enc/Frag.v", "Enc/Steps.v", "Enc/EncProofs.v", "Enc/Total.v"]
GENS = ["EncFlags"]

VM_ENV = dict(c.GOENV)
VM_ENV["SONIC_ENCODER_USE_VM"] = "1"


def work(pid):
    d = os.path.join(c.BUILD, "work", pid)
    os.makedirs(d, exist_ok=True)
    return d


TIMES = {}


def run_harness(hb, d, seed, n, only=None, extra=()):
    """JIT process (also writes the model request file) and VM process. Returns (ok, message)."""
    import time
    t0 = time.time()
    r = _run_harness(hb, d, seed, n, only, extra)
    TIMES["harness"] = TIMES.get("harness", 0) + round(time.time() - t0, 1)
    return r


def _run_harness(hb, d, seed, n, only=None, extra=()):
    """the case indices are split into shards (index modulo m) run as parallel processes, JIT and VM processes side by
    side; the shard outputs are concatenated (every case is independent: the program cache is reset per case)"""
    import subprocess
    base = [hb, "-seed", str(seed), "-n", str(n)] + list(extra)
    if only:
        base += ["-only", only]
    work = (n + 300) * (20 if "all" in extra else 1)          # ~300 corpus cases; "-flags all" runs 512 option words per case
    m = 1 if only else max(1, min(6, (c.NCPU or 2) // 3, work // 400 + 1))
    jobs = []
    for k in range(m):
        sh = ["-shard", "%d/%d" % (k, m)]
        jobs.append(("JIT", base + sh + ["-out", os.path.join(d, "shard%d.impl.jit" % k), "-model", os.path.join(d, "shard%d.model.in" % k)], c.GOENV))
        jobs.append(("VM", base + sh + ["-out", os.path.join(d, "shard%d.impl.vm" % k)], VM_ENV))
    procs = []
    for who, cmd, env in jobs:
        procs.append((who, subprocess.Popen(cmd, env=dict(env), stdout=subprocess.PIPE, stderr=subprocess.STDOUT)))
    fail = None
    for who, pr in procs:
        try:
            o, _ = pr.communicate(timeout=2400)
        except subprocess.TimeoutExpired:
            pr.kill()
            o, _ = pr.communicate()
            fail = fail or (who, -9, o)
            continue
        if pr.returncode != 0 and not fail:
            fail = (who, pr.returncode, o)
    if fail:
        return False, "%s harness process failed (rc=%d): %s" % (fail[0], fail[1], fail[2].decode("utf-8", "replace")[-1500:])
    for name, first_only in (("impl.jit", b"B\t"), ("impl.vm", b"B\t"), ("model.in", b"D\t")):
        with open(os.path.join(d, name), "wb") as w:
            for k in range(m):
                with open(os.path.join(d, "shard%d.%s" % (k, name)), "rb") as f:
                    for line in f:
                        if k > 0 and line.startswith(first_only):
                            continue
                        w.write(line)
                os.remove(os.path.join(d, "shard%d.%s" % (k, name)))
    return True, ""


def pretouch_outcome_sets(hb, d, seed, n, cid, extra, reps=48):
    """Pretouch keeps one of two (type, pointer-value) requests per level, chosen by Go map iteration order (KF-C12-pretouch-pv-order):
    the bytes after Pretouch are then not a function of the input.  Returns the set of distinct outcomes of every Pretouch scenario of
    one case over `reps` repetitions, per back end: ({key: set(fields)}, {key: set(fields)}) for (JIT, interpreter)."""
    import subprocess
    res = []
    for who, env in (("jit", c.GOENV), ("vm", VM_ENV)):
        outp = os.path.join(d, "qs.%s.%s" % (who, cid))
        cmd = [hb, "-seed", str(seed), "-n", str(n), "-only", cid, "-qrep", str(reps), "-out", outp] + list(extra)
        sets = {}
        try:
            pr = subprocess.run(cmd, env=dict(env), stdout=subprocess.PIPE, stderr=subprocess.STDOUT, timeout=600)
            if pr.returncode == 0:
                for line in open(outp, errors="replace"):
                    f = line.rstrip("\n").split("\t")
                    if f[0] == "QS" and f[1] == cid:
                        sets.setdefault("Q:" + f[2], set()).add(tuple(f[3:]))
        except (subprocess.TimeoutExpired, OSError):
            sets = {}          # no sets: the caller reports the difference of the first run as it is
        try:
            os.remove(outp)
        except OSError:
            pass
        res.append(sets)
    return res[0], res[1]


def run_model(mexe, d, timeout=2400):
    import time
    t0 = time.time()
    r = _run_model(mexe, d, timeout)
    TIMES["model_run"] = TIMES.get("model_run", 0) + round(time.time() - t0, 1)
    return r


def _run_model(mexe, d, timeout=2400):
    """the request file is split into chunks (definition lines repeated) answered by parallel model processes"""
    import subprocess
    inp = os.path.join(d, "model.in")
    outp = os.path.join(d, "model.out")
    defs, reqs = [], []
    with open(inp, errors="replace") as f:
        for line in f:
            (defs if line.startswith("D\t") else reqs).append(line)
    k = max(1, min(8, (c.NCPU or 2) // 2, len(reqs) // 200 + 1))
    size = (len(reqs) + k - 1) // k
    procs = []
    for i in range(k):
        part = reqs[i * size:(i + 1) * size]
        pi, po = "%s.%d" % (inp, i), "%s.%d" % (outp, i)
        with open(pi, "w") as f:
            f.writelines(defs)
            f.writelines(part)
        procs.append((subprocess.Popen("ulimit -s unlimited 2>/dev/null; %s < %s > %s" % (mexe, pi, po), shell=True,
                                       stdout=subprocess.PIPE, stderr=subprocess.STDOUT), pi, po))
    ok, msg = True, ""
    with open(outp, "w") as out:
        for pr, pi, po in procs:
            try:
                o, _ = pr.communicate(timeout=timeout)
            except subprocess.TimeoutExpired:
                pr.kill()
                ok, msg = False, "model driver timed out"
                continue
            if pr.returncode != 0:
                ok, msg = False, "model driver failed (rc=%d): %s" % (pr.returncode, (o or b"")[-800:].decode("utf8", "replace"))
            if os.path.exists(po):
                out.write(open(po, errors="replace").read())
                os.remove(po)
            os.remove(pi)
    return ok, msg


def load_impl(path):
    """-> (backend, stdflags, {case: {"P0":[..],"P1":[..],"R:<flags>":[..],"O":[..]}}, {case: (regime, features, tsize, vsize)}, skipped)"""
    res = collections.OrderedDict()
    feat = {}
    backend, flags, skipped = "?", "0", []
    for line in open(path, errors="replace"):
        f = line.rstrip("\n").split("\t")
        k = f[0]
        if k == "B":
            backend, flags = f[1], f[2]
        elif k == "F":
            feat[f[1]] = (f[2], set(x for x in f[3].split(",") if x != "-"), int(f[4]), int(f[5]))
            res.setdefault(f[1], {})
        elif k == "P":
            res.setdefault(f[1], {})["P" + f[2]] = f[3:]
        elif k == "R":
            res.setdefault(f[1], {})["R:" + f[2]] = f[3:]
        elif k == "O":
            res.setdefault(f[1], {})["O"] = f[2:]
        elif k == "T":
            res.setdefault(f[1], {})["T:" + f[2]] = f[3:]
        elif k == "Q":
            res.setdefault(f[1], {})["Q:" + f[2]] = f[3:]
        elif k == "X":
            skipped.append(f[1])
    return backend, flags, res, feat, skipped


def load_model(path):
    """-> {case: {"P0":[..], "E:<prims>:<flags>": [status, payload, cs], "S:std": [..], "S:sonic": [..]}}"""
    res = collections.defaultdict(dict)
    bad = []
    for line in open(path, errors="replace"):
        f = line.rstrip("\n").split("\t")
        k = f[0]
        if k == "P":
            res[f[1]]["P" + f[2]] = f[3:]
        elif k == "E":
            res[f[1]]["E:%s:%s" % (f[2], f[3])] = f[4:]
        elif k == "S":
            res[f[1]]["S:" + f[2]] = f[3:]
        else:
            bad.append(line[:200])
    return res, bad


def first_diff_instr(a, b):
    """two program fields ['ok', 'i;i;i'] -> description of the first differing instruction"""
    if not a or not b or a[0] != "ok" or b[0] != "ok":
        return {"model": (a or ["-"])[:2], "impl": [x[:300] for x in (b or ["-"])[:2]]}
    x, y = a[1].split(";"), b[1].split(";")
    for i, (p, q) in enumerate(zip(x, y)):
        if p != q:
            return {"pc": i, "model": p[:300], "impl": q[:300], "context_model": x[max(0, i - 3):i + 2], "context_impl": y[max(0, i - 3):i + 2]}
    return {"pc": min(len(x), len(y)), "model_len": len(x), "impl_len": len(y)}


def case_lines(d, cid):
    """the request lines of one case (type and value descriptors) for the replay file"""
    out = []
    try:
        for line in open(os.path.join(d, "model.in"), errors="replace"):
            f = line.split("\t", 3)
            if len(f) > 2 and f[1] == cid and f[0] == "E":
                g = line.rstrip("\n").split("\t")
                return {"case": cid, "type": g[4][:4000], "value": g[5][:6000]}
    except OSError:
        pass
    return {"case": cid}


def unhex(h):
    if h == "-":
        return b""
    try:
        return bytes.fromhex(h)
    except ValueError:
        return b"?"


def show(fields):
    """result fields -> readable"""
    if not fields:
        return "<missing>"
    if fields[0] == "ok":
        return "ok " + unhex(fields[1])[:300].decode("utf8", "replace")
    return " ".join(fields[:2])


# ---------------------------------------------------------------- canonical form of a JSON text with unsorted objects

def canon(b):
    """members of every object sorted by their raw key literal; everything else verbatim.
    Text that is not (nearly) JSON - e.g. under NoQuoteTextMarshaler - is returned as the sorted multiset of its bytes."""
    try:
        out, i = _cv(b, 0, 0)
        if i != len(b):
            raise ValueError
        return out
    except (ValueError, IndexError, RecursionError):
        return b"!" + bytes(sorted(b))


def _cv(b, i, depth):
    if depth > 900:
        raise ValueError
    ch = b[i:i + 1]
    if ch == b"{":
        i += 1
        mem = []
        if b[i:i + 1] == b"}":
            return b"{}", i + 1
        while True:
            k, i = _cv(b, i, depth + 1)
            if b[i:i + 1] != b":":
                raise ValueError
            v, i = _cv(b, i + 1, depth + 1)
            mem.append((k, v))
            if b[i:i + 1] == b",":
                i += 1
                continue
            if b[i:i + 1] == b"}":
                break
            raise ValueError
        mem.sort()
        return b"{" + b",".join(k + b":" + v for k, v in mem) + b"}", i + 1
    if ch == b"[":
        i += 1
        items = []
        if b[i:i + 1] == b"]":
            return b"[]", i + 1
        while True:
            v, i = _cv(b, i, depth + 1)
            items.append(v)
            if b[i:i + 1] == b",":
                i += 1
                continue
            if b[i:i + 1] == b"]":
                break
            raise ValueError
        return b"[" + b",".join(items) + b"]", i + 1
    if ch == b'"':
        j = i + 1
        while b[j:j + 1] != b'"':
            if j >= len(b):
                raise ValueError
            j += 2 if b[j:j + 1] == b"\\" else 1
        return b[i:j + 1], j + 1
    j = i
    while j < len(b) and b[j:j + 1] not in (b",", b"}", b"]", b":"):
        j += 1
    if j == i:
        raise ValueError
    return b[i:j], j


def same_result(a, b, sorted_keys, multi_map=False):
    """two result field lists [status, payload]; unsorted map iteration is compared in canonical form
    (and which of several errors is met first is then unspecified)"""
    if a is None or b is None:
        return False
    if a[0] != b[0]:
        return False
    if a[0] != "ok":
        return a[1] == b[1] or (not sorted_keys and multi_map)
    if a[1] == b[1]:
        return True
    if sorted_keys:
        return False
    return canon(unhex(a[1])) == canon(unhex(b[1]))
