"""C04 - Marshal output is well-formed JSON and round-trips, under every option set."""
import json
import os
import time

from . import common as c
from . import C03_lib as L

CLAIM = {
    "gens": ["EncFlags"],
    "category": "proof",
    "text": "Theorems (Coq, on the encoder machine of C03/C12, for every executor parameter set, program and option word): reaching a NaN/Inf "
            "float without EncodeNullForInfOrNan, a json.Number outside the JSON number grammar, an unsupported kind, or a save on a full "
            "state stack ends the run with the corresponding error and no bytes (C04_errors_*); compiled programs send chan/func/complex/"
            "unsafe.Pointer to that error; output of a user MarshalJSON is rejected unless it is one well-formed JSON value or validation "
            "was explicitly disabled (C04_marshaler_output_*). C04_wellformed_partial_jit/_vm: for every typed value of the proved fragment "
            "(bool/int/float/string scalars, pointers, slices, arrays, []byte, structs whose fields carry no option, omitempty (bool, ints, string, "
            "pointer, slice) or `,string` (scalars); state-stack need <= 4096) and EVERY option word, Marshal (compile, execute, encodeFinish incl. "
            "the HTML-escape and UTF-8 correction passes) stops with one strict RFC 8259 value, which property C02's model of sonic's own validator "
            "accepts; no hypothesis on the reference. Switches (for C18): C04_switch_irrelevant_* (no option bit other than NoNullSliceOrMap changes "
            "the executed bytes on the fragment: EncodeNullForInfOrNan, SortMapKeys, ...), C04_switch_nonull_* (execution = the reference run with "
            "that bit, which only prints nil slices/maps as []/{}), C04_switch_nan_null + C04_errors_nan_toplevel (the NaN bit turns exactly the "
            "failure into null). The reference encoder is total on the fragment (C04_reference_total). Decided on the real code every run (not theorems): well-formedness of every "
            "successful output (json.Valid as oracle) and the round trip sonic->sonic and sonic->encoding/json (floats bit for bit, ints "
            "exactly, valid-UTF-8 strings bytewise, containers element-wise) under random 9-bit option words (all 512 on the corpus in the "
            "thorough tier), in a JIT and an interpreter process, all tied to the model's prediction.",
    "note": "Trusted: Coq kernel, extraction, translator, Go harness (its DeepEqual-like comparison), encoding/json (Valid, Unmarshal) as oracle. "
            "C04_wellformed is a theorem for the fragment only (maps, interfaces, Marshaler/TextMarshaler types, omitzero / omitempty on floats / embedded pointers are "
            "outside it: tie-level there); C04_roundtrip is tie-level throughout (see notes/C04.md).",
    "technique": "Coq proof of the error paths + differential well-formedness / round-trip search over option words",
}

FLAGBITS = ["SortMapKeys", "EscapeHTML", "CompactMarshaler", "NoQuoteTextMarshaler", "NoNullSliceOrMap", "ValidateString",
            "NoValidateJSONMarshaler", "NoEncoderNewline", "EncodeNullForInfOrNan"]
B = {n: 1 << i for i, n in enumerate(FLAGBITS)}


def expect_witness(cid, fl):
    """what the property statement demands of the corpus cases whose outcome it fixes: 'err', 'ok' or None"""
    if cid in ("w-nan", "w-inf32"):
        return "ok" if fl & B["EncodeNullForInfOrNan"] else "err"
    if cid in ("w-unsupported", "w-unsupported-omitempty", "w-complex", "w-cycle-list", "w-cycle-rec", "w-floatkey"):
        if cid == "w-floatkey" and not fl & B["SortMapKeys"]:
            return None
        return "err"
    if cid in ("w-num5", "w-num6", "w-num7", "w-num8", "w-num9", "w-num10", "w-num11", "w-num12", "w-num13", "w-num14"):
        return "err"
    if cid.startswith("w-numexp"):          # json.Number ending in a bare exponent sign
        return "err"
    if cid.startswith("w-raw-junk"):        # a complete value followed by one junk byte
        if fl & B["NoValidateJSONMarshaler"] and not fl & B["CompactMarshaler"]:
            return None
        return "err"
    if cid in ("w-jv-2", "w-jv-5", "w-jv-6", "w-jvp-2", "w-jvp-5", "w-jvp-6", "w-raw-bad", "w-raw-dense0", "w-raw-dense1", "w-raw-dense2",
               "w-raw-dense3", "w-raw-dense4", "w-raw-dense5", "w-raw-dense7", "w-raw-dense8", "w-raw-dense9"):   # invalid Marshaler output
        if fl & B["NoValidateJSONMarshaler"] and not fl & B["CompactMarshaler"]:
            return None
        return "err"
    if cid in ("w-jv-1", "w-jvp-1", "w-jp-err", "w-tv-err"):   # the user method returns an error
        return "err"
    return None


def one_round(ctx, d, hb, mexe, n, extra, known, st, dist, viol, seen_known, distinct):
    ok, msg = L.run_harness(hb, d, ctx.seed, n, ctx.only, extra)
    if not ok:
        ctx.violation("encoder harness crashed: " + msg, {"output": msg}, True)
        return False
    model = {}
    if mexe:
        ok, msg = L.run_model(mexe, d)
        if not ok:
            ctx.problems.append(("T", msg))
        else:
            model, bad = L.load_model(os.path.join(d, "model.out"))
            if bad:
                ctx.problems.append(("T", "model driver rejected %d request lines, e.g. %s" % (len(bad), bad[0])))
    jb, stdflags, jit, feat, skipped = L.load_impl(os.path.join(d, "impl.jit"))
    vb, _, vm, _, _ = L.load_impl(os.path.join(d, "impl.vm"))
    if (jb, vb) != ("jit", "vm"):
        ctx.problems.append(("T", "back-end selection failed: processes report %s/%s" % (jb, vb)))
    st["skipped_too_large"] += len(skipped)
    for cid, (regime, feats, tsz, vsz) in feat.items():
        dist["regime"][regime] = dist["regime"].get(regime, 0) + 1
        m = model.get(cid, {})
        for backend, rr in (("jit", jit.get(cid, {})), ("vm", vm.get(cid, {}))):
            for key, r in rr.items():
                if not key.startswith("R:"):
                    continue
                fl = int(key[2:])
                sortk = bool(fl & 1)
                mm = bool(feats & {'map>=2', 'map>=12', 'map>=41'})
                st["runs"] += 1
                if backend == "jit":
                    for i, b in enumerate(FLAGBITS):
                        if fl >> i & 1:
                            dist["flag_bit_set"][b] += 1
                    res = "ok" if r[0] == "ok" else "err:" + r[1]
                    dist["result"][res] = dist["result"].get(res, 0) + 1
                    if tsz > 8 or vsz > 8:
                        distinct.add((tsz, vsz, fl, r[1][:48]))
                def mkpayload(cid=cid, fl=fl, backend=backend, r=r, feats=feats):
                    # the request lines are looked up only when something is reported (a scan of model.in)
                    return dict(L.case_lines(d, cid), flags=fl, backend=backend, result=r[:2], features=sorted(feats),
                                options=[b for i, b in enumerate(FLAGBITS) if fl >> i & 1])
                # errors the statement demands / forbids (corpus)
                want = expect_witness(cid, fl)
                if want:
                    st["error_cases"] += 1
                    if (r[0] == "ok") != (want == "ok"):
                        viol.append(("errors", cid, "%s under option word %d (%s): expected %s, got %s" % (cid, fl, backend, want, L.show(r)), mkpayload()))
                # tie to the model
                e = m.get("E:%s:%d" % (backend, fl))
                if e is not None:
                    st["tie"] += 1
                    if not L.same_result(e[:-1], r, sortk, mm):
                        st["tie_bad"] += 1
                        viol.append(("tie", cid, "Marshal (%s, option word %d) differs from the model: impl %s / model %s" % (backend, fl, L.show(r), L.show(e)),
                                     dict(mkpayload(), model=e[:2])))
                t = rr.get("T:%d" % fl)
                if r[0] != "ok" or not t:
                    continue
                valid, rts, rtstd = t[0], t[1], t[2]
                # well-formedness
                st["wellformed_checked"] += 1
                if valid != "1":
                    exempt = "methods" in feats and ((fl & B["NoQuoteTextMarshaler"]) or (fl & B["NoValidateJSONMarshaler"] and not fl & B["CompactMarshaler"]))
                    loose = ("marshaler-loose-string" in feats and not fl & B["CompactMarshaler"] and not fl & B["NoValidateJSONMarshaler"]
                             and "KF-C04-native-validator-strings" in known)
                    if exempt:
                        st["wellformed_exempt"] += 1
                    elif loose:
                        seen_known.setdefault("KF-C04-native-validator-strings", cid)
                    else:
                        viol.append(("wellformed", cid, "successful Marshal (%s, option word %d) returned text that is not one well-formed JSON value: %s" % (backend, fl, L.show(r)), mkpayload()))
                # round trip
                for which, v in (("sonic", rts), ("encoding/json", rtstd)):
                    if v == "-":
                        continue
                    st["roundtrip_checked"] += 1
                    if v == "1":
                        continue
                    if which == "sonic" and "negzero" in feats and "KF-C04-negzero-decode" in known:
                        seen_known.setdefault("KF-C04-negzero-decode", cid)
                        st["roundtrip_known"] += 1
                        continue
                    viol.append(("roundtrip", cid, "decoding the output of Marshal (%s, option word %d) with %s does not give back the value: %s" % (backend, fl, which, L.show(r)), mkpayload()))
        # the interpreter and the JIT must agree on error vs bytes too (stack bound finding)
    return True


def run(ctx):
    ctx.level = "proof"
    ctx.trusted = c.TRUSTED_COMMON + [c.TRUSTED_TX, c.TRUSTED_EXTRACT,
                                     "encoding/json (Valid, Unmarshal) and the harness's value comparison as the round-trip oracle; strconv for float digits"]
    ctx.assumptions = [
        "C04_wellformed is proved for the fragment of C03_code_ok_frag only (every option word); outside it, and C04_roundtrip everywhere, are decided on the real code per run (oracle json.Valid / decode-and-compare)",
        "C04_wellformed_partial_*: float digit strings are an oracle of the value (has_type ... fok_wf: finite, printed unchanged by the executor, inside the RFC 8259 number grammar)",
        "round trip is claimed for types without interfaces, user Marshal methods, embedded pointers, bool/float map keys; values without invalid UTF-8, NaN/Inf, cycles",
        "exempt from well-formedness by the statement itself: NoQuoteTextMarshaler with a TextMarshaler value; NoValidateJSONMarshaler without CompactMarshaler with a Marshaler value",
    ]
    t0 = time.time()
    ctx.cov["phase_s"] = {}
    p_ok = c.standard_P(ctx, CLAIM["gens"], L.SUPPORT + ["Enc/C04Proofs.v", "Enc/WellFormed.v", "Enc/Finish.v", "Enc/WfMarshal.v", "Enc/Switches.v"])
    ctx.cov["phase_s"]["P"] = round(time.time() - t0, 1)
    ctx.problems = []
    if not p_ok:
        ctx.problems.append(("P", getattr(ctx, "p_fail", "proof half failed")))
    ok, hb = c.build_harness("c04")
    if not ok:
        ctx.violation("harness does not build against the repository: " + hb[-1500:], {"build": hb}, False)
        return
    t1 = time.time()
    mok, mexe = c.build_model("C03")
    ctx.cov["phase_s"]["model_build"] = round(time.time() - t1, 1)
    if not mok:
        ctx.problems.append(("T", "model extraction/driver build failed: " + mexe[-1200:]))
        mexe = None
    ctx.only = None
    if ctx.replay:
        try:
            rp = json.load(open(ctx.replay))
            ctx.only = rp["replay"].get("case")
            ctx.seed = rp.get("seed", ctx.seed)
        except Exception:
            pass
    known = {k["id"]: k for k in c.known_findings("C04")}
    st = dict(runs=0, tie=0, tie_bad=0, wellformed_checked=0, wellformed_exempt=0, roundtrip_checked=0, roundtrip_known=0,
              error_cases=0, skipped_too_large=0)
    dist = {"regime": {}, "flag_bit_set": {b: 0 for b in FLAGBITS}, "result": {}}
    viol, seen_known, distinct = [], {}, set()
    if ctx.tier == "quick":
        rounds = [("C04", 5000, ["-flags", "rand:2"])]
    else:
        rounds = [("C04", 8000, ["-flags", "rand:4"]), ("C04all", 0, ["-flags", "all", "-maxval", "2500"])]
    for name, n, extra in rounds:
        if not one_round(ctx, L.work(name), hb, mexe, n, extra, known, st, dist, viol, seen_known, distinct):
            return
    for kf, cid in sorted(seen_known.items()):
        ctx.known(kf, "%s (e.g. case %s)" % (known[kf]["signature"], cid))
    ctx.cov["evaluations"] = st["runs"] + st["tie"] + st["wellformed_checked"] + st["roundtrip_checked"]
    ctx.cov["distinct_nontrivial"] = len(distinct)
    ctx.cov["rule"] = ("corpus then seeded random (type, value) cases, each under the std word and random 9-bit option words (thorough: all 512 words on the "
                       "corpus), JIT and interpreter process; per successful run json.Valid and decode-and-compare with sonic and encoding/json")
    ctx.cov["distribution"] = dist
    ctx.cov["counts"] = st
    ctx.cov["phase_s"].update(L.TIMES)
    ctx.cov["traces_validated_against_impl"] = st["tie"] - st["tie_bad"]
    ctx.sample({"option_words_covered": len(set(k[2] for k in distinct))})
    shown = {}
    for kind, cid, what, payload in viol:
        if shown.get(kind, 0) >= 3:
            continue
        shown[kind] = shown.get(kind, 0) + 1
        payload["seed"] = ctx.seed
        ctx.violation(what[:1500], payload, True)
    if ctx.problems and not ctx.violations:
        ctx.violation("; ".join("%s: %s" % p for p in ctx.problems)[:3000],
                      {"broken": [p[1] for p in ctx.problems], "theorem_file": "coq/theories/Props/C04.v",
                       "searched": "%d runs" % st["runs"]}, False)
