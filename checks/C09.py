"""C09 - Codec results never depend on history: cache state, compile order, Pretouch."""
import json
import os

from . import common as c

SUPPORT = ["Cache/PCache.v", "Cache/PCacheArr.v", "Cache/PCacheProbe.v", "Cache/PCacheInv.v", "Cache/PCacheProofs.v",
           "Cache/LoadMap.v", "Cache/LoadMapProofs.v", "Cache/Served.v", "Cache/ResolverCache.v", "Cache/C09Model.v", "Cache/C09Thm.v"]

CLAIM = {
    "gens": ["CacheConsts", "LoaderMap", "EncCacheKey", "ResolverUse"],
    "category": "proof",
    "text": ("Theorems (Coq, over an executable transcription of internal/caching/pcache.go and of loader.LoadMany/Load): for EVERY hash "
             "function of the type descriptors (collisions adversarial), every initial power-of-two capacity and every sequence of "
             "Get/Compute calls, the open-addressing program cache returns exactly what a finite map with first-write-wins returns, across any "
             "number of rehashes; the load invariant n <= cap/2 (constants regenerated from the source), no probe loop exits by exhausting "
             "its bound and insert never panics. loader.LoadMany serves EVERY item of every batch by its own machine code whatever the "
             "function names are (loadmany_own_code; the model follows the flag load_maps_by_name that the translator regenerates from "
             "loader_latest.go - the pinned tree mapped results back by name, repaired by /repo cc3de94; a return to that shape breaks the proof). "
             "served_history_free: the encoder program caches are keyed by (type, pointer-value flag) - key shape regenerated from "
             "internal/encoder/vars/cache.go - so after EVERY history of FindOrCompile / pretouchType / pretouchRec calls the program that "
             "serves (type, pv) is compile(type, pv) (false for the type-only key of the pinned tree, repaired by /repo ea86c56). "
             "resolver_stable: the shared field-resolution cache (internal/resolver) is never written by its three callers (write / escape list "
             "regenerated from the sources), so every lookup after any history of compilations returns resolveFields(type). The model is tied to the real code by running the same op sequences through a verif hook (chosen hashes, "
             "slot-layout digests) and LoadMany on stub functions. History independence of the public API (Marshal/Unmarshal after "
             "arbitrary preludes incl. Pretouch with compile options and thousands of types) is decided by differential runs in fresh "
             "child processes - tie/search half, not a theorem; the encoder/decoder compilers are not modelled here."),
    "note": ("Trusted: Coq kernel, extraction, the translator (constants only), the Go harness and the verif hook in internal/caching. "
             "Both genuine defects found here were repaired in /repo (cc3de94 loader maps by name, ea86c56 encoder cache ignores the pointer-value flag) and are regression cases."),
    "technique": "Coq proof over a hand-transcribed executable model + op-sequence correspondence + fresh-process differential search",
}

KF_LOAD = "KF-loadmany-same-name"


def _show(res):
    """readable form of a probe result: 'err:<type>=<hex of Error()>:<hex of the destination dump>' -> type + decoded text"""
    try:
        if res.startswith("err:") and "=" in res:
            t, rest = res[4:].split("=", 1)
            h = rest.split(":", 1)[0].rstrip(".")
            h = h[:len(h) // 2 * 2]
            return "error %s %r" % (t, bytes.fromhex(h).decode("utf8", "replace")[:110])
    except Exception:
        pass
    return res[:60]


def _run_model(mexe, cases, real, what, problems, mism):
    rc, out = c.sh([mexe], input=open(cases).read(), timeout=1200, check=False)
    rl = open(real).read().splitlines()
    ml = out.splitlines()
    cl = open(cases).read().splitlines()
    if rc != 0 or len(ml) != len(rl):
        problems.append(("T", "%s: model driver failed (rc=%d, %d vs %d lines): %s" % (what, rc, len(ml), len(rl), out[-300:])))
        return 0
    for cs, a, b in zip(cl, rl, ml):
        if a != b:
            # first differing op: truncate the op sequence to the shortest disagreeing prefix
            ra, rb = a.split(";"), b.split(";")
            k = next((i for i, (x, y) in enumerate(zip(ra, rb)) if x != y), min(len(ra), len(rb)))
            f = cs.split("\t")
            if f[0] == "P":
                f[3] = ";".join(f[3].split(";")[:k + 1])
            if f[0] == "S":
                k = 0
            mism.append({"kind": what, "case": "\t".join(f), "first_differing_op": k,
                         "real": ra[k] if k < len(ra) else None, "model": rb[k] if k < len(rb) else None})
    return len(rl)


def run(ctx):
    ctx.level = "proof"
    ctx.trusted = c.TRUSTED_COMMON + [c.TRUSTED_TX, c.TRUSTED_EXTRACT,
                                     "the add-only verif hook /repo/internal/caching/verif_hooks.go (+ verifx/caching_verif.go) that exposes the real _ProgramMap/ProgramCache to the harness",
                                     "oracles independent of the model: a plain Go map (cache contents), the arithmetic expectation 'entry i = sum of earlier text sizes' (loader), a fresh child process without history (public API)"]
    ctx.assumptions = [
        "hand-transcribed model (Cache/PCache.v, Cache/LoadMap.v); only _LoadFactor/_InitCapacity are regenerated from the source; the transcription is tied by the op-sequence correspondence run, not by the translator",
        "theorem bound: number of Compute calls n with lf_den*(n+1) <= lf_num*2^31 (no uint32 overflow of the capacity), keys and computed values non-nil",
        "float64 load-factor comparison modelled as exact rational comparison (exact below 2^53)",
        "served_history_free abstracts the compiler as a function compile(type, pv): that compile options (inline / recursion depth) do not change what a program computes is NOT proved",
        "history independence of the compiled encoders/decoders themselves (inline depth, recursion depth, Pretouch) is NOT a theorem: it is searched for with fresh child processes; option.WithCompileEncOnlyOmitNull is a documented semantic compile option and is excluded from preludes",
        "sort.Slice in makeModuledata is modelled by a stable insertion sort (items with empty text, i.e. equal entry offsets, are excluded)",
    ]
    p_ok = c.standard_P(ctx, CLAIM["gens"], SUPPORT)
    problems = []
    if not p_ok:
        problems.append(("P", getattr(ctx, "p_fail", "proof half failed")))

    ok, hb = c.build_harness("c09")
    if not ok:
        ctx.violation("harness does not build against the repository: " + hb[-1500:], {"build": hb}, False)
        return
    work = os.path.join(c.BUILD, "work", "C09")
    os.makedirs(work, exist_ok=True)
    corpus = os.path.join(c.ROOT, "corpus", "C09")
    quick = ctx.tier == "quick"
    known = {k["id"]: k for k in c.known_findings("C09")}
    mok, mexe = c.build_model("C09")
    if not mok:
        problems.append(("T", "model extraction failed: " + mexe[-800:]))

    replay_kind = None
    if ctx.replay:
        try:
            rp = json.load(open(ctx.replay)).get("replay", {})
            replay_kind = rp.get("kind") or ("hist" if "probes" in rp else None)
        except Exception:
            replay_kind = None

    mism = []
    real_fail = []     # oracle failures on the real code (concrete inputs)
    evals = 0
    distinct = 0
    dist = {}

    # ------------------------------------------------------------------ T1: program map / cache op sequences
    if replay_kind in (None, "pcache"):
        pc, pr, pj = (os.path.join(work, x) for x in ("p.cases", "p.real", "p.json"))
        cmd = [hb, "-mode", "pcache", "-seed", str(ctx.seed), "-cases", pc, "-real", pr, "-out", pj, "-corpus", corpus,
               "-n", "400" if quick else "6000", "-big", "2" if quick else "8", "-bigmodel", "1" if quick else "3",
               "-bigkeys", "5000" if quick else "9000"]
        if replay_kind:
            cmd += ["-replay", ctx.replay]
        rc, out = c.sh(cmd, env=c.GOENV, timeout=3000, check=False)
        if rc != 0:
            ctx.violation("pcache harness crashed: " + out[-1500:], {"output": out[-4000:]}, True)
            return
        rep = json.load(open(pj))
        evals += rep["ops"]
        distinct += rep["distinct_nontrivial"]
        dist["pcache"] = {"cases": rep["cases"], "ops": rep["ops"], "styles": rep["styles"], "op_kinds": rep["op_kinds"],
                          "rehashes_observed": rep["rehashes_observed"], "max_keys_in_one_cache": rep["max_keys"],
                          "cases_also_run_on_the_model": rep["cases_also_run_on_the_model"]}
        for s in rep.get("samples") or []:
            ctx.sample({"pcache": s[:400]})
        for f in rep.get("failures") or []:
            f["kind"] = "pcache"
            real_fail.append(("program cache: " + f["what"] + " (got %s, want %s, op %d)" % (f["got"], f["want"], f["op_index"]), f))
        if mok:
            ctx.cov["traces_validated_against_impl"] = _run_model(mexe, pc, pr, "pcache", problems, mism)

    # ------------------------------------------------------------------ T2: loader.LoadMany with stub functions
    seen_known = {}
    if replay_kind in (None, "loader"):
        lc, lr, lj = (os.path.join(work, x) for x in ("l.cases", "l.real", "l.json"))
        cmd = [hb, "-mode", "loader", "-seed", str(ctx.seed), "-cases", lc, "-real", lr, "-out", lj, "-corpus", corpus,
               "-n", "150" if quick else "1500"]
        if replay_kind:
            cmd += ["-replay", ctx.replay]
        rc, out = c.sh(cmd, env=c.GOENV, timeout=3000, check=False)
        if rc != 0:
            ctx.violation("loader harness crashed: " + out[-1500:], {"output": out[-4000:]}, True)
            return
        rep = json.load(open(lj))
        evals += rep["items"]
        distinct += rep["cases"]
        dist["loader"] = {"batches": rep["cases"], "items": rep["items"], "styles": rep["styles"]}
        for s in rep.get("samples") or []:
            ctx.sample({"loader": s[:300]})
        for f in rep.get("failures") or []:
            f["kind"] = "loader"
            # narrow classifier: the batch holds two items with the same FuncName
            if f["dup_names"] and KF_LOAD in known:
                seen_known.setdefault(KF_LOAD, f)
            else:
                real_fail.append(("loader.LoadMany: " + f["what"], f))
        if mok:
            ctx.cov["loader_batches_validated_against_impl"] = _run_model(mexe, lc, lr, "loader", problems, mism)

    # ------------------------------------------------------------------ T2b: which program serves (type, pv): real vars.FindOrCompile & co
    if replay_kind in (None, "served"):
        sc, sr, sj = (os.path.join(work, x) for x in ("s.cases", "s.real", "s.json"))
        cmd = [hb, "-mode", "served", "-seed", str(ctx.seed), "-cases", sc, "-real", sr, "-out", sj, "-corpus", corpus,
               "-n", "400" if quick else "8000"]
        if replay_kind:
            cmd += ["-replay", ctx.replay]
        rc, out = c.sh(cmd, env=c.GOENV, timeout=3000, check=False)
        if rc != 0:
            ctx.violation("served harness crashed: " + out[-1500:], {"output": out[-4000:]}, True)
            return
        rep = json.load(open(sj))
        evals += rep["ops"]
        distinct += rep["cases_touching_a_type_with_both_flags"]
        dist["served"] = {k: rep[k] for k in ("cases", "ops", "op_kinds", "cases_touching_a_type_with_both_flags")}
        for s in rep.get("samples") or []:
            ctx.sample({"served": s[:300]})
        for f in rep.get("failures") or []:
            f["kind"] = "served"
            real_fail.append(("encoder program cache: " + f["what"] + " (got %s, want %s, op %d)" % (f["got"], f["want"], f["op_index"]), f))
        if mok:
            ctx.cov["served_histories_validated_against_impl"] = _run_model(mexe, sc, sr, "served", problems, mism)

    # ------------------------------------------------------------------ T3 / search: public API in fresh processes
    if replay_kind in (None, "hist"):
        hj = os.path.join(work, "h.json")
        cmd = [hb, "-mode", "hist", "-seed", str(ctx.seed), "-out", hj, "-corpus", corpus, "-j", "8",
               "-n", "14" if quick else "220", "-heavy", "1" if quick else "6", "-pool", "2" if quick else "12", "-copts", "1" if quick else "8"]
        if quick:
            cmd += ["-heavytiny"]
        else:
            cmd += ["-envs", "SONIC_USE_OPTDEC=1,SONIC_ENCODER_USE_VM=1,SONIC_USE_FASTMAP=1"]
        if replay_kind:
            cmd += ["-replay", ctx.replay]
        rc, out = c.sh(cmd, env=c.GOENV, timeout=3000, check=False)
        if rc != 0:
            ctx.violation("history harness crashed: " + out[-1500:], {"output": out[-4000:]}, True)
            return
        rep = json.load(open(hj))
        evals += rep["probe_evaluations"]
        distinct += rep["distinct_nontrivial"]
        dist["history"] = {k: rep[k] for k in ("scenarios", "children", "probe_evaluations", "prelude_ops", "probe_ops",
                                               "child_statuses", "envs", "heavy_scenarios", "hazard_scenarios")}
        for s in rep.get("samples") or []:
            ctx.sample({"history": s[:400]})
        for o in rep.get("oracle_child_failures") or []:
            dist["history"].setdefault("oracle_children_that_crashed", []).append(o)
        for d in rep.get("divergences") or []:
            d["kind"] = "hist"
            k = d.get("class") or ""
            if k and k in known:
                seen_known.setdefault(k, d)
            else:
                real_fail.append(("the result of %s depends on what the process did before (%s vs %s after: %s)" % (
                    d["history_readable"][-1], _show(d["result_without_history"]), _show(d["result_after_history"]),
                    "; ".join(d["history_readable"][:-1])[:300]), d))

    ctx.cov["evaluations"] = evals
    ctx.cov["distinct_nontrivial"] = distinct
    ctx.cov["rule"] = ("pcache: op sequences (Get/Compute/raw add/layout dump) with adversarial hash tables, non-trivial = at least two insertions; "
                       "loader: LoadMany batches of stub functions; served: histories of FindOrCompile/pretouch calls on the real encoder caches, "
                       "non-trivial = some type is requested with both flag values; history: (prelude, probe set) pairs run in fresh child processes, "
                       "non-trivial = non-empty prelude or permuted probe order")
    ctx.cov["distribution"] = dist
    ctx.cov["model_mismatches"] = len(mism)
    try:
        ctx.cov["loader_maps_results_by_name"] = "load_maps_by_name : bool := true" in open(os.path.join(c.GEN, "LoaderMap.v")).read()
    except Exception:
        pass

    for k in sorted(seen_known):
        ctx.known(k, known[k]["signature"])
    for what, f in real_fail[:3]:
        ctx.violation(what[:600], f, True)
    if mism and not ctx.violations:
        m = mism[0]
        # model and code disagree, but the independent oracle saw nothing wrong on the explored inputs
        ctx.violation("model and implementation disagree (%s): op %s real=%s model=%s; the theorems no longer speak about this code"
                      % (m["kind"], m["first_differing_op"], m["real"], m["model"]), m, False)
    if problems and not ctx.violations:
        ctx.violation("; ".join("%s: %s" % p for p in problems)[:3000],
                      {"broken": [p[1] for p in problems], "theorem_file": "coq/theories/Props/C09.v",
                       "searched": "%d evaluations" % evals}, False)
