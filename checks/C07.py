"""C07 - No input can crash, hang or panic the process, and every error value is usable."""
import json
import os

from . import common as c

SUPPORT = ["Safe/GoInt.v", "Safe/ErrBounds.v", "Safe/ErrEcho.v", "Safe/CompileSize.v", "Safe/ConstsOk.v", "Safe/SizeArith.v", "Safe/Depth.v"]

CLAIM = {
    "gens": ["PureFns", "Consts"],
    "category": "proof",
    "text": "Theorems (Coq) over Gallina functions regenerated from the Go source on every run (tools/tx -> Gen/PureFns.v, Gen/Consts.v): "
            "errors.calcBounds / SyntaxError.description cannot make Src[p:q] or strings.Repeat panic for ANY source length and ANY int position "
            "(negative, beyond the end), and the excerpt is at most 32 bytes for EVERY position (after fix e5f5c29; before it every EOF error echoed "
            "the whole source); positions inside put the caret under the byte. ast.SyntaxError.description is safe exactly for "
            "0 <= Pos <= len+16 and panics / grows without bound outside (refutations with witnesses). ParsingError.Message is total for codes < 2^63 and "
            "refuted above. MAX_RECURSE / _MaxStack / MaxStack / array lengths agree between native/*.h, the Go mirror structs, the generated decoder and the "
            "encoder, and the guarded pushes stay inside their arrays. Stream realloc always leaves room for Read (progress), GuardSlice2 never shrinks. "
            "The Go traversals of package ast are modelled with an explicit recursion-depth counter: the counter never exceeds MAX_RECURSE for any input, "
            "equals the nesting depth up to the limit, and deeper input is refused with an error value (the unbounded recursion found earlier was repaired, "
            "fix 62dcdd9; the former refutations are regression cases now). Everything about the *running* code (no crash / hang / panic on any input at every public entry point, every "
            "returned error formats, is bounded and points into the input) is decided by the tie/search half on the real implementation, in child "
            "processes, with exit status / time-out / recover() as observables - it is explored, not proved.",
    "note": "Trusted: Coq kernel, the translator tools/tx (Go -> Gallina for the whitelisted integer functions; rejects anything it does not understand), "
            "extraction, the Go harness. The runtime consequence of unbounded recursion (fatal stack overflow at 1 GB) is not expressible in the model; T demonstrates it.",
    "technique": "Coq proof over source-regenerated integer functions and constants + depth-counting model + child-process fuzzing of all entry points",
}

AST_RECURSIVE = ("ast-preorder", "ast-loads")   # (historic: both are depth-limited since 62dcdd9)


# ------------------------------------------------------------------ bounds tie

TABLE = ["ok", "eof", "invalid char", "invalid escape char", "invalid unicode escape", "integer overflow", "invalid number format",
         "recursion exceeded max depth", "float number is infinity", "mismatched type with value", "invalid UTF8"]


def src_of(n):
    return bytes(33 + i % 90 for i in range(n))


def expected_description(kind, size, pos, p, q, x, y):
    """the string description() must produce when it evaluates Src[p:q], Repeat('.', x), Repeat('.', y); None = panic"""
    if size == 0:
        return "empty"
    if p < 0 or q > size or p > q or x < 0 or y < 0:
        return None
    s = src_of(size)
    return b"Syntax error at index %d: invalid char\n\n\t%s\n\t%s^%s\n" % (pos, s[p:q], b"." * x, b"." * y)


def check_bounds(ctx, hb, mexe, work, problems):
    """T1: real Description()/Message() on the (size,pos)/code grid vs the extracted model.  Returns (n, mismatches, direct)"""
    impl = os.path.join(work, "bounds.impl")
    rc, out = c.sh([hb, "-mode", "bounds", "-out", impl], env=c.GOENV, timeout=300, check=False)
    if rc != 0:
        problems.append(("T", "bounds harness failed: " + out[-800:]))
        return 0, [], []
    lines = [l.split("\t") for l in open(impl).read().splitlines()]
    direct = []      # violations of the property statement that need no model
    for k, a, b, res in lines:
        a_, b_ = int(a), int(b)
        if k == "D" and res == "panic":
            direct.append({"what": "decoder.SyntaxError.Description() panics", "size": a_, "pos": b_})
        if k == "D" and res not in ("panic", "-") and 0 <= b_ < a_ and len(bytes.fromhex(res)) > 60 + 20 + 65:
            direct.append({"what": "decoder.SyntaxError.Description() longer than the constant bound for a position inside the source",
                           "size": a_, "pos": b_, "len": len(bytes.fromhex(res))})
        if k == "A" and res == "panic" and 0 <= b_ <= a_ + 16 and a_ > 0:
            direct.append({"what": "ast.SyntaxError.Description() panics for a position within len+16", "size": a_, "pos": b_})
        if k == "M" and res == "panic" and a_ < (1 << 63):
            direct.append({"what": "types.ParsingError.Message() panics for a code below 2^63", "code": a_})
    mism = []
    kf_constructed = 0
    if mexe:
        rc, out = c.sh([mexe], input="\n".join("\t".join(l[:3]) for l in lines) + "\n", timeout=300, check=False)
        ml = [l.split("\t") for l in out.splitlines()]
        if rc != 0 or len(ml) != len(lines):
            problems.append(("T", "model driver failed: " + out[-500:]))
            return len(lines), [], direct
        for (k, a, b, res), m in zip(lines, ml):
            a_, b_ = int(a), int(b)
            if k in "DA":
                p, q, x, y = (int(v) for v in m[3:7])
                exp = expected_description(k, a_, b_, p, q, x, y)
                if exp == "empty":
                    ok = res != "panic" and b"no sources available" in bytes.fromhex(res)
                elif exp is None:
                    ok = res == "panic"
                    kf_constructed += ok
                else:
                    ok = res != "panic" and bytes.fromhex(res) == exp
                if not ok:
                    mism.append({"kind": k, "size": a_, "pos": b_, "model_pqxy": [p, q, x, y], "impl": res[:200]})
            elif k == "M":
                inb = m[2] == "1"
                if inb and a_ < len(TABLE):
                    exp = TABLE[a_].encode().hex()
                elif inb:
                    exp = "panic"
                    kf_constructed += res == "panic"
                else:
                    exp = ("unknown error %d" % a_).encode().hex()
                if res != exp:
                    mism.append({"kind": "M", "code": a_, "model_inbounds": inb, "impl": res[:100]})
    return len(lines), mism, direct, kf_constructed


# ------------------------------------------------------------------ classification of fuzz failures

def classify(f):
    k, e, d = f["kind"], f["entry"], f["detail"]
    if k == "corrupt-error" and f["nest_depth"] >= 1024 and ("nmarshal" in e or "ecode" in e) and "json.UnsupportedValueError" in d:
        return "KF-C07-stackoverflow-error-header"
    if k == "pos-outside" and e == "decoder.CheckTrailings" and f["len"] < f["pos"] <= f["len"] + 16 and d.startswith("position "):
        return "KF-C07-eof-position-beyond-end-optdec"   # the cursor left beyond the end by the Decode that hit EOF just before
    if k == "pos-outside" and f["truncated"] and f["len"] < f["pos"] <= f["len"] + 16 and d.startswith("position "):
        if f["code"] == 0 and f.get("env", {}).get("SONIC_USE_OPTDEC") and not e.startswith(("sonic.Get", "ast.")):
            return "KF-C07-eof-position-beyond-end-optdec"
        return "KF-C07-eof-position-beyond-end"
    if k == "pos-outside" and e.startswith("ast.Parser") and d.startswith("Parser.Pos()") and f["truncated"] and f["pos"] <= f["len"] + 16:
        return "KF-C07-eof-position-beyond-end"
    if (k == "pos-outside" and f["pos"] == -1 and e.startswith(("sonic.Get", "ast.Searcher")) and f["len"] >= 5
            and bytes.fromhex(f["input_hex"]).strip(b" \t\r\n") == b""):
        return "KF-C07-blank-input-position-minus-one"
    if k == "msg-unbounded":
        outside = not (0 <= f["pos"] < f["len"])
        if ("Syntax error at index" in f["msg"] or "Mismatch" in f["msg"]) and outside:
            return "KF-C07-eof-error-echoes-source"
        if f["msg"].startswith(("invalid Marshaler output json syntax", "json: unsupported value: invalid number literal",
                                "json: error calling MarshalJSON", "json: invalid number literal")) or "invalid Marshaler output" in f["msg"]:
            return "KF-C07-encoder-error-echoes-value"
    if k == "no-progress" and e == "stream.Decode" and (d.startswith('next="]"') or d.startswith('next="}"')):
        return "KF-C07-stream-stray-closer-no-progress"
    if (k == "panic" and e.startswith("decoder.Decode") and f.get("env", {}).get("SONIC_USE_OPTDEC") and "should always be valid json here" in d
            and "optdec.Node.AsRaw" in d and "unmarshalJSONDecoder" in d):
        return "KF-C07-optdec-decoder-offset-panic"
    if k == "panic" and e == "ast.NewRaw" and f["len"] == 0 and "ast.(*Node).UnmarshalJSON" in d and "index out of range [0] with length 0" in d:
        return "KF-C07-node-unmarshaljson-empty-panic"
    return None


def classify_deep(r):
    entry, shape, depth = r["case"].split(":")
    depth = int(depth)
    if entry in AST_RECURSIVE:
        if r["exit"] != 0 and r["stack_overflow"] and "github.com/bytedance/sonic/ast." in r["top_frames"] and depth >= 100000:
            return "KF-C07-ast-unbounded-recursion"
        if r["timed_out"] and entry == "ast-loads" and depth >= 1000000:
            return "KF-C07-ast-unbounded-recursion"
    if r["exit"] == 0 and r["stdout"].startswith("corrupt-error:*json.UnsupportedValueError") and entry.startswith("unmarshal-"):
        return "KF-C07-stackoverflow-error-header"
    return None


ENVS_QUICK = [({}, 1.0), ({"SONIC_USE_OPTDEC": "1", "SONIC_ENCODER_USE_VM": "1", "SONIC_USE_FASTMAP": "1"}, 0.4)]
ENVS_THOROUGH = [({}, 1.0), ({"SONIC_USE_OPTDEC": "1"}, 0.5), ({"SONIC_ENCODER_USE_VM": "1"}, 0.5), ({"SONIC_USE_FASTMAP": "1"}, 0.3),
                 ({"SONIC_MODE": "noavx2"}, 0.5), ({"SONIC_USE_OPTDEC": "1", "SONIC_ENCODER_USE_VM": "1", "SONIC_MODE": "noavx2"}, 0.3)]


def run(ctx):
    ctx.level = "proof"
    ctx.trusted = c.TRUSTED_COMMON + [c.TRUSTED_TX, c.TRUSTED_EXTRACT,
                                     "the Go runtime's reporting of fatal errors (exit status 2, 'goroutine stack exceeds') and recover() as observables"]
    ctx.assumptions = [
        "theorems are about Gen/PureFns.v / Gen/Consts.v (regenerated from /repo by tools/tx) and the hand-written depth model Safe/Depth.v; "
        "absence of crashes in the running code (generated x86, native blobs, Go runtime) is explored by fuzzing in child processes, not proved",
        "calcBounds / description theorems assume len(Src) <= max_int - 16 (a Go string cannot be longer)",
        "encoder side: the state-stack bound itself is b-c03's model (C04 / C12); here the emitted IR of pointer types is checked for the save/deref/drop bracket and "
        "cyclic values (incl. pointer-to-interface and self-pointer-type cycles) are marshalled in the child process with both encoder back ends",
        "Config{UseInt64,UseNumber both true} (Decoder.SetOptions documents a panic) and PretouchMany of same-named types (C09) are excluded",
        "regression of the repaired unbounded ast recursion: quick tier runs 4e5 levels with the goroutine stack limit lowered to 16 MiB (debug.SetMaxStack), thorough 1e7 levels under the 1 GB default",
    ]
    known = {k["id"]: k for k in c.known_findings("C07")}
    p_ok = c.standard_P(ctx, CLAIM["gens"], SUPPORT)
    problems = []
    if not p_ok:
        problems.append(("P", getattr(ctx, "p_fail", "proof half failed")))

    ok, hb = c.build_harness("c07")
    if not ok:
        ctx.violation("harness does not build against the repository: " + hb[-1500:], {"build": hb}, False)
        return
    work = os.path.join(c.BUILD, "work", "C07")
    os.makedirs(work, exist_ok=True)

    # ---- replay of a stored case
    if ctx.replay:
        rp = json.load(open(ctx.replay)).get("replay", {})
        if rp.get("deep_case"):
            cmd = [hb, "-mode", "one", "-case", rp["deep_case"]] + (["-maxstack", str(rp["maxstack"])] if rp.get("maxstack") else [])
            rc, out = c.sh(cmd, env=c.GOENV, timeout=400, check=False)
            c.log("replay %s: exit=%d %s" % (rp["deep_case"], rc, out[-300:]))
            if rc != 0:
                ctx.violation("replayed deep case still crashes: " + rp["deep_case"], rp, True)
            return
        if rp.get("mode") == "bounds":
            res = check_bounds(ctx, hb, None, work, problems)
            hits = [d for d in res[2] if str(d.get("size")) == str(rp.get("size")) and str(d.get("pos")) == str(rp.get("pos"))] or res[2]
            c.log("replay bounds: %d direct failures" % len(res[2]))
            if hits:
                ctx.violation("replayed case still fails: " + hits[0]["what"], hits[0], True)
            return
        if rp.get("input_hex") is not None and rp.get("entry"):
            outp = os.path.join(work, "replay.json")
            rc, out = c.sh([hb, "-mode", "fuzz", "-entry", rp["entry"].split("/")[0].split("[")[0], "-input", rp["input_hex"], "-out", outp,
                            "-seed", str(ctx.seed)], env=c.GOENV, timeout=400, check=False)
            fs = (json.load(open(outp))["failures"] or []) if rc == 0 and os.path.exists(outp) else []
            real = [f for f in fs if classify(f) not in known]
            c.log("replay: exit=%d failures=%d (not known: %d)" % (rc, len(fs), len(real)))
            if rc != 0 or real:
                ctx.violation("replayed case still fails", {"exit": rc, "failures": real[:3], "output": out[-1500:]}, True)
            return

    c.log("C07: P half %.1fs" % (__import__("time").time() - ctx.t0))
    mok, mexe = (False, "") if not p_ok else c.build_model("C07")
    if p_ok and not mok:
        problems.append(("T", "model extraction failed: " + mexe[-800:]))

    seen_known = {}
    real = []        # (what, payload)

    # ---- T1: translated arithmetic vs the real formatting code
    res = check_bounds(ctx, hb, mexe if mok else None, work, problems)
    nb, mism, direct = res[0], res[1], res[2]
    kf_constructed = res[3] if len(res) > 3 else 0
    ctx.cov["bounds_grid_cases"] = nb
    ctx.cov["bounds_mismatches"] = len(mism)
    ctx.cov["traces_validated_against_impl"] = nb if mok and not mism else 0
    if mism:
        problems.append(("T", "Gen/PureFns.v and the real error formatting disagree on %d of %d grid points, e.g. %s" % (len(mism), nb, json.dumps(mism[0]))))
    for d in direct[:3]:
        real.append((d["what"] + " (size=%s pos=%s)" % (d.get("size", d.get("code")), d.get("pos")), dict(d, mode="bounds")))
    if kf_constructed:
        seen_known["KF-C07-constructed-error-values-panic"] = "%d grid points where a caller-constructed SyntaxError panics exactly as the model predicts" % kf_constructed

    # ---- T1b: the depth-counting traversal model vs the real ast.Preorder (result class and deepest nesting of Begin callbacks)
    pre = os.path.join(work, "preorder.impl")
    npre = 20000 if ctx.tier == "quick" else 400000
    rc, out = c.sh([hb, "-mode", "preorder", "-n", str(npre), "-seed", str(ctx.seed), "-out", pre], env=c.GOENV, timeout=900, check=False)
    pre_dist = {}
    if rc != 0:
        problems.append(("T", "preorder harness failed: " + out[-800:]))
    elif mok:
        plines = open(pre).read().splitlines()
        rc, out = c.sh([mexe], input="\n".join("\t".join(l.split("\t")[:2]) for l in plines) + "\n", timeout=900, check=False)
        mlines = out.splitlines()
        bad = [(a, b) for a, b in zip(plines, mlines) if a != b]
        if rc != 0 or len(mlines) != len(plines):
            problems.append(("T", "model driver failed on the preorder cases: " + out[-300:]))
        elif bad:
            a, b = bad[0]
            problems.append(("T", "Safe/Depth.preorder and ast.Preorder disagree on %d of %d documents, e.g. %r: impl %s, model %s" % (
                len(bad), len(plines), bytes.fromhex(a.split("\t")[1].replace("-", ""))[:80], a.split("\t")[2:], b.split("\t")[2:])))
        for l in plines:
            f = l.split("\t")
            pre_dist[f[2]] = pre_dist.get(f[2], 0) + 1
            dk = "depth " + (f[3] if int(f[3]) < 6 else "6-99" if int(f[3]) < 100 else ">=100")
            pre_dist[dk] = pre_dist.get(dk, 0) + 1
        ctx.cov["preorder_model_cases"] = len(plines)
        ctx.cov["preorder_model_mismatches"] = len(bad)
        tot_pre = len(plines)
    ctx.cov["preorder_distribution"] = pre_dist

    # ---- T1c: program length of nested container types on the real compilers vs the recurrence of Safe/CompileSize.v
    pl = os.path.join(work, "proglen.txt")
    rc, out = c.sh([hb, "-mode", "proglen", "-tier", ctx.tier, "-out", pl], env=c.GOENV, timeout=900, check=False)
    if rc != 0:
        problems.append(("T", "proglen harness failed: " + out[-600:]))
    else:
        lens, times = {}, []
        for l in open(pl).read().splitlines():
            f = l.split("\t")
            if f[0] == "L":
                lens.setdefault(f[1], {})[int(f[2])] = (int(f[3]), int(f[4]))
            elif f[0] == "T":
                times.append(f[1:])
            elif f[0] == "D":
                ctx.cov["encoder_ir_types_checked"] = ctx.cov.get("encoder_ir_types_checked", 0) + 1
                if f[3] != "ok":
                    # the tie on the emitted IR: a dereference without a state-stack frame lets a pointer cycle recurse without limit
                    real.append(("encoder IR of %s (pv=%s): %s - a cycle through this pointer is not stopped by the depth limit" % (f[1], f[2], f[4][:200]),
                                 {"mode": "proglen", "type": f[1], "pv": f[2], "detail": f[4]}))
        expo, detail = [], []
        for kind, tab in sorted(lens.items()):
            for side, ix in (("decoder", 0), ("encoder", 1)):
                seq = [tab[d][ix] for d in sorted(tab)]
                if min(seq) <= 0:
                    problems.append(("T", "program dump failed for nested %s (%s)" % (kind, side)))
                    continue
                ratios = [seq[d] / seq[d - 1] for d in (6, 7, 8)]          # len(7)/len(6), len(8)/len(7), len(9)/len(8)
                k = seq[1] - 2 * seq[0]
                exact = all(seq[i + 1] == 2 * seq[i] + k for i in range(len(seq) - 1))
                if kind == "ptr":
                    if max(ratios) > 1.3:
                        real.append(("nested pointer types no longer compile to linear-size %s programs: %s" % (side, seq), {"mode": "proglen", "kind": kind, "side": side, "lengths": seq}))
                    continue
                if min(ratios) >= 1.9:
                    expo.append("%s/%s" % (side, kind))
                    detail.append("%s %s: %s%s" % (side, kind, seq[5:9], " = 2*len+%d exactly" % k if exact else ""))
                    if kind in ("slice", "array", "map") and not exact:
                        problems.append(("T", "nested %s %s program lengths %s do not follow len(d+1) = 2*len(d) + k (Safe/CompileSize.v)" % (kind, side, seq)))
        ctx.cov["nested_container_program_lengths"] = {k: {str(d): list(v) for d, v in t.items()} for k, t in lens.items()}
        if times:
            ctx.cov["nested_slice_first_use_ms"] = times
        kf = "KF-C07-nested-container-compile-exponential"
        if expo:
            if kf in known:
                seen_known[kf] = "program length doubles per level for " + ", ".join(expo) + "; " + "; ".join(detail[:3])
            else:
                real.append(("compile-time blow-up: program length doubles per nesting level for " + ", ".join(expo),
                             {"mode": "proglen", "lengths": ctx.cov["nested_container_program_lengths"]}))
        elif kf in known:
            problems.append(("T", "recorded finding %s no longer reproduces (no nested container kind doubles its program per level)" % kf))

    # ---- T2 / search: every entry point in a child process
    n = 1600 if ctx.tier == "quick" else 40000
    envs = ENVS_QUICK if ctx.tier == "quick" else ENVS_THOROUGH
    tot = {"evaluations": 0, "nontrivial": 0, "errors_formatted": 0, "accepted": 0, "rejected": 0}
    per_entry, per_gen, err_types, sizes, fail_kinds = {}, {}, {}, {}, {}
    max_over, max_errlen = 0, 0
    samples = []
    import subprocess
    import time
    t_start = time.time()
    corpus_dir = os.path.join(c.ROOT, "corpus", "C07")
    procs = []
    for i, (env, share) in enumerate(envs):
        e = dict(c.GOENV)
        e.update(env)
        outp = os.path.join(work, "fuzz%d.json" % i)
        prog = os.path.join(work, "fuzz%d.progress" % i)
        for fn in (outp, prog):
            if os.path.exists(fn):
                os.remove(fn)
        log = open(os.path.join(work, "fuzz%d.log" % i), "w")
        procs.append((env, outp, prog, log, subprocess.Popen(
            [hb, "-mode", "fuzz", "-n", str(int(n * share)), "-seed", str(ctx.seed + i), "-out", outp, "-progress", prog, "-corpus", corpus_dir,
             "-maxstack", str(256 << 20)],      # a runaway recursion dies after 256 MiB instead of 1 GB: same observable, sooner
            env=e, stdout=log, stderr=subprocess.STDOUT)))
    # T3 (hostile depths, each case in its own child process) runs concurrently with the fuzz workers
    deep_out = os.path.join(work, "deep.json")
    if os.path.exists(deep_out):
        os.remove(deep_out)
    deep_log = open(os.path.join(work, "deep.log"), "w")
    deep_proc = subprocess.Popen([hb, "-mode", "deep", "-tier", ctx.tier, "-out", deep_out], env=c.GOENV, stdout=deep_log, stderr=subprocess.STDOUT)
    limit = 300 if ctx.tier == "quick" else 6000
    for env, outp, prog, log, pr in procs:
        try:
            rc = pr.wait(timeout=max(1, limit - (time.time() - t_start)))
        except subprocess.TimeoutExpired:
            pr.kill()
            rc = 124
        log.close()
        out = open(log.name, errors="replace").read()
        if rc != 0 or not os.path.exists(outp):
            last = open(prog).read().strip().split("\t") if os.path.exists(prog) else []
            last = (last + ["?", "?", ""])[:3] if len(last) < 3 else last
            head = "\n".join(out.splitlines()[:25])
            real.append(("process %s in entry %s on a %s input [env %s]: %s" % ("hung (time-out)" if rc == 124 else "died (exit %d)" % rc, last[0], last[1], env, head[:300]),
                         {"mode": "fuzz", "entry": last[0], "generator": last[1], "input_hex": last[2] if len(last) > 2 else "", "env": env,
                          "exit": rc, "stderr_head": head[:3000]}))
            continue
        rep = json.load(open(outp))
        tot["evaluations"] += rep["evaluations"]
        tot["nontrivial"] += rep["distinct_nontrivial"]
        tot["errors_formatted"] += rep["errors_formatted"]
        tot["accepted"] += rep["accepted"]
        tot["rejected"] += rep["rejected"]
        for dst, src in ((per_entry, rep["per_entry"]), (per_gen, rep["per_generator"]), (err_types, rep["error_types"]),
                         (sizes, rep["input_sizes"]), (fail_kinds, rep["failure_kinds"])):
            for k, v in src.items():
                dst[k] = dst.get(k, 0) + v
        max_over = max(max_over, rep["max_pos_beyond_len"])
        max_errlen = max(max_errlen, rep["max_error_len"])
        samples += rep.get("samples") or []
        for f in (rep["failures"] or []):
            f["env"] = env
            kf = classify(f)
            if kf and kf in known:
                seen_known.setdefault(kf, "%s: %s" % (f["entry"], f["detail"][:160].replace("\n", " ")))
            else:
                real.append(("%s: %s - %s" % (f["entry"], f["kind"], f["detail"][:300].replace("\n", " ")), dict(f, mode="fuzz", env=env)))

    try:
        rc = deep_proc.wait(timeout=max(1, limit - (time.time() - t_start)))
    except subprocess.TimeoutExpired:
        deep_proc.kill()
        rc = 124
    deep_log.close()
    out = open(deep_log.name, errors="replace").read()
    c.log("C07: fuzz + deep phases %.1fs" % (time.time() - t_start))
    deep = json.load(open(deep_out)) if rc == 0 and os.path.exists(deep_out) else []
    if not deep:
        problems.append(("T", "deep-nesting driver failed: " + out[-800:]))
    dist_deep = {"ok": 0, "error-value": 0, "crash": 0, "timeout": 0}
    for r in deep:
        kf = classify_deep(r)
        crashed = r["exit"] != 0 or r["timed_out"]
        dist_deep["timeout" if r["timed_out"] else "crash" if crashed else "error-value" if r["stdout"].startswith(("err:", "invalid", "false", "corrupt")) else "ok"] += 1
        if kf and kf in known:
            seen_known.setdefault(kf, "%s (maxstack %s): %s" % (r["case"], r["maxstack"] or "default 1e9",
                                                               "fatal stack overflow in " + r["top_frames"][:120] if crashed else r["stdout"][:100]))
        elif crashed:
            real.append(("child process %s on %s: %s" % ("timed out" if r["timed_out"] else "died (exit %d)" % r["exit"], r["case"], r["stderr_head"][:200]),
                         {"mode": "deep", "deep_case": r["case"], "maxstack": r["maxstack"], "result": r}))
        elif r["secs"] > 120:
            real.append(("%s needed %.0f s" % (r["case"], r["secs"]), {"mode": "deep", "deep_case": r["case"], "result": r}))
    ctx.cov["deep_cases"] = len(deep)
    tot["evaluations"] += len(deep) + nb + ctx.cov.get("preorder_model_cases", 0)

    ctx.cov["evaluations"] = tot["evaluations"]
    ctx.cov["distinct_nontrivial"] = tot["nontrivial"] + len(deep) + nb
    ctx.cov["rule"] = ("an evaluation = one entry point run on one input (all public decode/validate/get/ast/visitor/stream/encode entry points; every returned error is "
                       "formatted with Error() and Description() and its position/length checked) or one deep-nesting child process or one (size,pos)/code grid "
                       "point of the formatting arithmetic; non-trivial = distinct non-empty input")
    ctx.cov["distribution"] = {"per_entry": per_entry, "per_generator": per_gen, "input_sizes": sizes, "error_types": err_types,
                               "accepted_vs_rejected_by_Valid": [tot["accepted"], tot["rejected"]], "deep_outcomes": dist_deep,
                               "failure_kinds_incl_known": fail_kinds, "backends": [e for e, _ in envs]}
    ctx.cov["errors_formatted"] = tot["errors_formatted"]
    ctx.cov["max_position_beyond_input_end"] = max_over
    ctx.cov["max_error_message_len"] = max_errlen
    for s in samples[:6]:
        ctx.sample(s)

    for k in sorted(seen_known):
        ctx.known(k, known[k]["signature"][:200] + " :: " + seen_known[k][:200])
    # a listed finding that no longer reproduces means code and record (or model) drifted apart
    must = ["KF-C07-constructed-error-values-panic"]
    gone = [k for k in must if k in known and k not in seen_known]
    if gone and not real and not problems and deep:
        problems.append(("T", "recorded finding(s) no longer reproduce on the implementation although the model still predicts them: " + ", ".join(gone)))

    # a dead process first (the strongest observable), then everything else
    real.sort(key=lambda wp: 0 if wp[0].startswith(("process ", "child process ")) else 1)
    shown = set()
    for what, payload in real:
        key = "".join(ch for ch in what[:60] if not ch.isdigit())
        if key in shown or len(shown) >= 4:
            continue
        shown.add(key)
        ctx.violation(what, payload, True)
    if problems and not ctx.violations:
        ctx.violation("; ".join("%s: %s" % p for p in problems)[:3000],
                      {"broken": [p[1] for p in problems], "theorem_file": "coq/theories/Props/C07.v",
                       "searched": "%d evaluations of the real code found no failing input" % tot["evaluations"]}, False)
