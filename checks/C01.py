"""C01 - Unmarshal agrees with encoding/json on accept/reject and on the decoded value."""
import json
import os
import re

from . import common as c
from . import C01_lib as lib

SUPPORT = ["Dec/Ty.v", "Dec/Val.v", "Dec/Parse.v", "Dec/Text.v", "Dec/Num.v", "Dec/Common.v", "Dec/FieldMap.v",
           "Dec/Range.v", "Dec/Trailing.v", "Dec/StdBind.v", "Dec/SonicBind.v", "Dec/Compile.v", "Dec/FieldMapProofs.v",
           "Dec/FieldLookup.v", "Dec/DecProofs.v", "Dec/Witness.v", "Dec/ParseMono.v", "Dec/OptProofs.v", "Dec/DecProofs2.v",
           "Dec/Witness2.v", "Dec/Exec.v", "Dec/ExecProofs.v", "Dec/ExecWitness.v", "Dec/Code.v", "Dec/ParseFuel.v", "Dec/Path.v",
           "Dec/SimBase.v", "Dec/Sim.v", "Dec/SimTop.v", "Dec/CodeStruct.v", "Dec/SimStruct.v"]

CLAIM = {
    "gens": [],
    "category": "proof",
    "text": ("Coq theorems over executable models of both binders on a destination-type universe (scalars of every width, "
             "string, json.Number, []byte, slices, arrays, maps with string/int/uint/TextUnmarshaler keys, pointers, structs as resolved "
             "field lists with `,string`, interface{}, RawMessage and abstract Unmarshaler/TextUnmarshaler leaves): the FieldMap probe finds "
             "exactly the stored id for every hash function; exact-then-ToLower equals encoding/json's exact-then-fold on ASCII names "
             "(refuted beyond ASCII by a witness); the assembler's range checks accept exactly the representable integers at every width "
             "(the uint32 map-key variant was repaired by fix afd5482); CheckTrailings accepts exactly whitespace; and sonic_bind agrees with std_bind "
             "on error-or-not and on the value for the proved fragment (maps and `,string` fields under the no-collision discipline), with each known divergence as an explicit guard plus a refutation "
             "witness. Both models are tied to the real sonic and the real encoding/json on generated (type, initial value, input, config) "
             "cases; the compiler's IL listing is tied to the model's compile for every generated type, and an interpreter of that IL (exec) is tied to the real decoder on the same cases; for bool, integers, floats, string, "
             "interface{} and pointers / slices / fixed arrays of those (nested arbitrarily, well-shaped destinations), and for top-level structs with unquoted fields of those types, a simulation theorem links the compiled program, run by that interpreter, "
             "to the tree-level binder on every input (C01_compile_code, C01_il_sim); FieldMap and ResolveStruct are "
             "driven directly. The property's own oracle (sonic vs encoding/json, all generated and catalogue types) runs on every case."),
    "note": ("Trusted: Coq kernel, extraction, the OCaml driver, the Go harness, reflect-built types. The models are hand transcriptions of "
             "jitdec/compiler.go + assembler semantics and of encoding/json/decode.go, tied by differential runs, not generated from source. "
             "x86 emission, the native scanners and number parsers are only executed. Recursive / method-carrying catalogue types and embedded "
             "pointers are covered by the oracle comparison only."),
    "technique": "Coq proof over hand-written models + extraction-based correspondence (three-way) + IL tie + differential oracle",
}

# finding id -> (tags, predicate on (sonic_outcome, std_outcome, verdict, std_error_text))
FINDINGS = [
    ("KF-C01-unterminated-string-32", ("unterm32",), lambda s, j, v, je, se: v == "errdiff" and s == "O"),
    ("KF-C01-base64-padding", ("b64pad",), lambda s, j, v, je, se: v == "errdiff" and s == "O" and "base64" in je),
    ("KF-C01-quoted-string-inner", ("qesc",), lambda s, j, v, je, se: v == "errdiff" and s == "O" and "invalid use of ,string" in je),
    ("KF-C01-raw-lenient", ("rawlenient",), lambda s, j, v, je, se: v == "errdiff" and s == "O" and ("SyntaxError" in je or "errorString:invalid" in je)),
    ("KF-C01-quoted-number-syntax", ("intkey", "qnum"), lambda s, j, v, je, se: v == "errdiff" and s == "E"),
    ("KF-C01-f32-double-rounding", ("f32dr",), lambda s, j, v, je, se: v == "valdiff" or (v == "errdiff" and s == "E")),
    ("KF-C01-utf8-raw", ("utf8raw",), lambda s, j, v, je, se: v == "valdiff"),
    ("KF-C01-quoted-unmarshaler", ("qunm",), lambda s, j, v, je, se: v == "valdiff" or (v == "errdiff" and s == "O" and "invalid use of ,string" in je)),
    ("KF-C01-mapmerge", ("mapmerge",), lambda s, j, v, je, se: v == "valdiff"),
    ("KF-C01-fold", ("fold",), lambda s, j, v, je, se: v in ("valdiff", "errdiff")),
]


def classify(r):
    """r: result line fields. Returns the finding id explaining a non-ok oracle verdict, or None."""
    tags = set(r[6].split(",")) if r[6] != "-" else set()
    for fid, ftags, pred in FINDINGS:
        if tags & set(ftags) and pred(r[1], r[3], r[5], r[8], r[7]):
            return fid
    return None


def run(ctx):
    ctx.level = "proof"
    ctx.trusted = c.TRUSTED_COMMON + [c.TRUSTED_EXTRACT,
                                     "encoding/json (Unmarshal, Decoder.UseNumber), strconv, encoding/base64, unicode as oracles",
                                     "reflect.StructOf/SliceOf/MapOf/ArrayOf/PtrTo build the real destination types from the descriptors the model consumes"]
    ctx.assumptions = [
        "the binder models are hand transcriptions (jitdec compiler + _asm_OP_* semantics at document-tree level; encoding/json decode.go); they are tied to the implementations by the three-way differential run, the IL tie and the direct FieldMap/ResolveStruct ties, not derived from source",
        "errors are sticky in both implementations (d.savedError / _VAR_et are never cleared), so both models abort at the first error; what is left in the destination after an error is not compared (the property does not constrain it)",
        "+0 and -0 are identified when values are compared (reflect.DeepEqual does); the text -0 gives +0 in sonic and -0 in encoding/json",
        "the abstract hash of the FieldMap theorem is arbitrary; the zero-hash corner of the JIT probe (raw strhash = 0, probability 2^-64) is outside the model",
        "model outcome `Unk` marks inputs outside the modelled fragment (strconv-only number spellings inside strings, base64 padding variants, second pass of the native double unquote, escape validation that depends on the distance to the end of the input under ValidateString); those cases are compared by the oracle only",
        "C01_bind_agree is proved for the fragment stated in Props/C01.v (see notes/C01.md for what is `_partial`)",
    ]
    p_ok = c.standard_P(ctx, CLAIM["gens"], SUPPORT)
    problems = []
    if not p_ok:
        problems.append(("P", getattr(ctx, "p_fail", "proof half failed")))
    ok, hb = c.build_harness("c01")
    if not ok:
        ctx.violation("harness does not build against the repository: " + hb[-1500:], {"build": hb}, False)
        return
    mok, mexe = c.build_model("C01")
    if not mok:
        problems.append(("T", "model extraction / OCaml build failed: " + mexe[-800:]))
    rep = lib.differential(ctx, hb, mexe if mok else None, "C01", classify)
    problems += rep["problems"]
    lib.ties(ctx, hb, mexe if mok else None, rep, problems)
    lib.report(ctx, "C01", rep, problems, c.known_findings("C01"))
