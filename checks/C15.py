"""C15 - ast.Node behaves like a plain ordered tree; lazy loading is unobservable."""
import collections
import glob
import hashlib
import json
import os
import subprocess

from . import common as c

SUPPORT = ["Ast/Linked.v", "Ast/Tree.v", "Ast/Node.v", "Ast/Refute.v", "Ast/LinkedProofs.v", "Ast/IndexProofs.v",
           "Ast/NodeRefine.v", "Ast/ArrayRefine.v", "Ast/RootRefine.v", "Ast/ObjectRefine.v", "Ast/ObjectOps.v",
           "Ast/ObjectSet.v", "Ast/RootRefine2.v", "Ast/ArrayOps.v", "Ast/ArraySet.v", "Ast/RootRefine3.v", "Ast/ObjectIdx.v", "Ast/ObjectPop.v", "Ast/ObjectIdxOps.v",
           "Ast/RootRefine4.v", "Ast/PathRefine.v", "Ast/MoveProofs.v", "Ast/MoveOps.v"]

CLAIM = {
    "gens": ["AstConsts"],
    "category": "proof",
    "text": "Coq: an executable model of ast.Node (raw/lazy/loaded representations, chunked child storage of 16-cell chunks, "
            "soft-deleted cells with logical indexing, the key index with its linear fallback) and a plain ordered tree with "
            "the obvious operations. Theorems: the chunked storage refines a plain list for every size and operation sequence; "
            "the key index answers Get exactly like a first-occurrence search when keys are not duplicated; SortKeys is a stable "
            "sorted permutation; one clause of the property is REFUTED by a concrete history (Len on a lazy node); four former refutations (duplicate key + "
            "index, stale index entry -> nil dereference, key \"\" vs a soft-deleted pair, out-of-range Move with holes) were repaired "
            "in /repo and are regression theorems. "
            "Tie: random operation histories on the real ast.Node, the extracted model must reproduce every return value and the "
            "complete internal representation (through a read-only hook) after every step; the extracted plain tree is the oracle.",
    "note": "Trusted: Coq kernel + vm_compute (witnesses), extraction, the OCaml driver and the Go harness, the read-only hook "
            "/repo/ast/verif_hooks.go (dump / abstraction / canonical JSON), sort.Stable of the Go library (modelled as a stable "
            "insertion sort through Less/Swap), caching.StrHash modelled as an arbitrary function (collision-free in the runs).",
    "technique": "Coq refinement proof + model/implementation/spec three-way replay of operation histories",
}

WITNESS = {  # corpus witnesses of Refute.v -> the finding they demonstrate (None: must agree with the tree)
    "dupkeys_index": None, "popdup_index": None, "dupkeys_lazy": None,          # repaired in /repo (ffe8bf0): regression cases
    "len_lazy": "KF-C15-len-lazy", "emptykey_unset": None,                        # repaired (6c9aabd): regression case
    "stale_index_panic": None,                                                   # repaired in /repo (ecd1239): regression case
    "move_oor_holes": None,                                                      # repaired (d346b1d): regression case
}


def op_kind(op):
    return op.split(" ")[1]


def mentions_empty_key(op):
    f = op.split(" ")
    if any(e == "k" for e in f[0].split("/")):
        return True
    return op_kind(op) in ("SET", "UNSET") and f[2] == "k"


def evaluate(case, impl, model, spec):
    """case: fields of the case line; impl/model/spec: step lists.
    Returns dict(model=first step where the model's observation or representation dump differs from the implementation,
                 spec=first step where the implementation differs from the plain tree and no listed finding explains it,
                 viol=('spec'|'model', step) or None, known=set(ids), steps=int)."""
    ops = case[4].split(";") if case[4] else []
    res = {"viol": None, "model": None, "spec": None, "known": set(), "steps": 0}
    if not (len(impl) == len(model) == len(spec) == len(ops) + 1):
        res["model"] = 0
        res["viol"] = ("model", 0)
        res["detail"] = "log lengths differ: impl %d model %d spec %d ops %d" % (len(impl), len(model), len(spec), len(ops))
        return res
    flags = []
    sticky_d = False
    sorted_seen = False
    for i in range(len(impl)):
        try:
            io, idump, iabs = impl[i].split("~")
        except ValueError:
            io, idump, iabs = impl[i], "?", "?"
        mo, mdump, mfl = model[i].split("~")
        so, sabs = spec[i].split("~")
        flags.append(mfl)
        sticky_d = sticky_d or "D" in mfl
        op = ops[i - 1] if i else "init"
        kind = op_kind(op) if i else "init"
        sorted_seen = sorted_seen or kind == "SORT"
        res["steps"] += 1
        if res["model"] is None and (io, idump) != (mo, mdump):
            if sticky_d and sorted_seen:
                res["known"].add("KF-C15-dupkey-index")
                break                 # sort.Stable's swap order decides which duplicate the index keeps
            res["model"] = i
        if (io, iabs) != (so, sabs):
            pre = flags[i - 1] if i else ""
            # a listed finding explains the difference only when the model (which contains the defect) predicts
            # exactly this observation
            if io == mo and kind == "LEN" and "L" in mfl and iabs == sabs:
                res["known"].add("KF-C15-len-lazy")
            elif io == mo and sticky_d:
                res["known"].add("KF-C15-dupkey-index")
                break
            elif io == mo and ":pa" in io and "P" in pre:
                res["known"].add("KF-C15-stale-index-panic")
                if iabs != sabs:
                    break
            elif io == mo and i and mentions_empty_key(op) and ("U" in pre or "U" in mfl):
                res["known"].add("KF-C15-emptykey-unset")
                break
            elif io == mo and kind == "MOVE" and "H" in pre:
                res["known"].add("KF-C15-move-oor-holes")
                break
            else:
                res["spec"] = i
                break
    if res["spec"] is not None:
        res["viol"] = ("spec", res["spec"])
    elif res["model"] is not None:
        res["viol"] = ("model", res["model"])
    return res


def probes(fields, op):
    """read-only operations appended after a history on which only the model differs: look for a visible consequence"""
    pth = op.split(" ")[0] if op != "init" else "."
    paths = [pth]
    if pth != ".":
        paths.append("/".join(pth.split("/")[:-1]) or ".")
    if "." not in paths:
        paths.append(".")
    keys = fields[3].split(",") if fields[3] else []
    out = []
    for p in paths:
        sub = (lambda s, p=p: s if p == "." else p + "/" + s)
        out += [p + " LOOK", p + " LOAD 0", p + " LEN", p + " FOREACH 999"]
        out += [sub(k) + " LOOK" for k in keys]
        out += [sub("i%d" % j) + " LOOK" for j in range(0, 44)]
        out += [p + " MARSHAL", p + " SORT 1", p + " MARSHAL", p + " IFACE"]
    out.append(". MARSHAL")
    return out


class Runner:
    def __init__(self, hb, mexe, work):
        self.hb, self.mexe, self.work = hb, mexe, work
        self.n = 0

    def model(self, cases_path, full=False, par=1):
        lines = [l for l in open(cases_path).read().split("\n") if l and not l.startswith("#")]
        if par > 1 and len(lines) > 200:
            k = (len(lines) + par - 1) // par
            chunks = [lines[i:i + k] for i in range(0, len(lines), k)]
        else:
            chunks = [lines]
        procs = []
        for ch in chunks:
            p = subprocess.Popen([self.mexe] + (["full"] if full else []), stdin=subprocess.PIPE, stdout=subprocess.PIPE,
                                 stderr=subprocess.STDOUT, text=True)
            procs.append((p, "\n".join(ch) + "\n"))
        M, S = {}, {}
        import threading
        outs = [None] * len(procs)

        def feed(i, p, data):
            outs[i] = p.communicate(data, timeout=3000)[0]
        ths = [threading.Thread(target=feed, args=(i, p, d)) for i, (p, d) in enumerate(procs)]
        for t in ths:
            t.start()
        for t in ths:
            t.join()
        for (p, _), o in zip(procs, outs):
            if p.returncode != 0:
                raise RuntimeError("model driver failed: " + (o or "")[-1500:])
            for l in o.split("\n"):
                f = l.split("\t")
                if len(f) == 3:
                    (M if f[0] == "M" else S)[f[1]] = f[2].split("|")
        return M, S

    def impl(self, cases_path, full=False):
        self.n += 1
        outp = os.path.join(self.work, "run%d.impl" % self.n)
        rc, out = c.sh([self.hb, "-mode", "run", "-cases", cases_path, "-impl", outp] + (["-full"] if full else []),
                       env=c.GOENV, timeout=3000, check=False)
        if rc != 0:
            raise RuntimeError("harness run failed: " + out[-1500:])
        return read_impl(outp)

    def verdicts(self, lines, full=False):
        """evaluate a list of case lines; returns list of result dicts"""
        self.n += 1
        path = os.path.join(self.work, "batch%d.cases" % self.n)
        open(path, "w").write("\n".join(lines) + "\n")
        impl = self.impl(path, full)
        M, S = self.model(path, full)
        res = []
        for l in lines:
            f = l.split("\t")
            r = evaluate(f, impl.get(f[0], []), M.get(f[0], []), S.get(f[0], []))
            r["logs"] = (impl.get(f[0], []), M.get(f[0], []), S.get(f[0], []))
            res.append(r)
        return res


def read_impl(path):
    d = {}
    for l in open(path, errors="replace"):
        f = l.rstrip("\n").split("\t")
        if len(f) == 2:
            d[f[0]] = f[1].split("|")
    return d


def with_ops(fields, ops, cid=None):
    f = list(fields)
    f[4] = ";".join(ops)
    if cid:
        f[0] = cid
    return "\t".join(f)


def shrink(runner, fields, kind):
    """delta debugging on the op list: keep the case violating in the same way ('model' or 'spec')."""
    ops = fields[4].split(";")

    def failing(cands):
        lines = [with_ops(fields, o, "s%d" % i) for i, o in enumerate(cands)]
        vs = runner.verdicts(lines)
        return [v[kind] is not None for v in vs]

    n = 2
    rounds = 0
    while len(ops) >= 2 and rounds < 40:
        rounds += 1
        k = max(1, len(ops) // n)
        chunks = [ops[i:i + k] for i in range(0, len(ops), k)]
        cands = [sum(chunks[:i] + chunks[i + 1:], []) for i in range(len(chunks))]
        cands = [x for x in cands if x]
        if not cands:
            break
        ok = failing(cands)
        hit = [x for x, f in zip(cands, ok) if f]
        if hit:
            ops = min(hit, key=len)
            n = max(n - 1, 2)
        elif k == 1:
            break
        else:
            n = min(n * 2, len(ops))
    return ops


def describe(runner, fields, ops, kind):
    line = with_ops(fields, ops, "min")
    v = runner.verdicts([line], full=True)[0]
    impl, M, S = v["logs"]
    info = {"case_line": line, "root_representation": fields[1], "document": fields[2], "ops": ops,
            "verdict": kind, "first_model_difference": v["model"], "first_tree_difference": v["spec"]}
    i = v[kind]
    if i is not None:
        info["failing_step"] = i
        info["failing_op"] = ops[i - 1] if i else "init"
        if i < len(impl):
            info["impl"] = impl[i][:3000]
        if i < len(M):
            info["model"] = M[i][:3000]
        if i < len(S):
            info["spec"] = S[i][:3000]
    return info


def run(ctx):
    ctx.level = "proof"
    ctx.trusted = c.TRUSTED_COMMON + [
        c.TRUSTED_EXTRACT, c.TRUSTED_TX,
        "the read-only hook /repo/ast/verif_hooks.go (representation dump, abstraction, canonical JSON rendering)",
        "Go's sort.Stable (modelled as a stable insertion sort through Less/Swap; for n <= 20 that is its exact swap sequence)",
    ]
    ctx.assumptions = [
        "the JSON text level is abstracted: unparsed input is the tree it denotes (the native skipper/validator are C02/C14's subject); "
        "documents are valid JSON",
        "caching.StrHash is a parameter of the model; runs are collision-free, the theorems about the index assume the hash injective "
        "on the keys present",
        "node_refines_tree is proved at the ROOT (C15_node_refines_tree_root_move): every sequence of Look, Len on a non-lazy node, Load, Add, "
        "Set/Unset with non-empty keys, SetByIndex, UnsetByIndex, Pop, Move on an array without unset cells, on any document, for a "
        "collision-free hash that never returns 0; below the root only lookups are proved (C15_lookups_at_any_depth, any hash); "
        "Move over unset cells, SortKeys, ForEach, MarshalJSON, Interface and mutations below the root are covered by the three-way replay only",
        "V_ANY nodes, Cap(), IndexOrGet, the *UseNode / Map / Array converters and concurrent use are not modelled",
    ]
    p_ok = c.standard_P(ctx, CLAIM["gens"], SUPPORT)
    problems = []
    if not p_ok:
        problems.append(("P", getattr(ctx, "p_fail", "proof half failed")))
        if ctx.violations:
            return
    ok, hb = c.build_harness("c15")
    if not ok:
        ctx.violation("harness does not build against /repo: " + hb[-1500:], {"build": hb}, False)
        return
    mok, mexe = c.build_model("C15")
    if not mok:
        ctx.violation("model extraction failed: " + mexe[-1500:], {"build": mexe, "proof": problems}, False)
        return
    work = os.path.join(c.BUILD, "work", "C15")
    os.makedirs(work, exist_ok=True)
    runner = Runner(hb, mexe, work)
    known_listed = {k["id"]: k for k in c.known_findings("C15")}

    # ---- cases: replay | corpus + generated
    case_lines = []
    if ctx.replay:
        rp = json.load(open(ctx.replay))
        case_lines = [rp["replay"]["case_line"]]
        corpus_ids = set()
    else:
        for p in sorted(glob.glob(os.path.join(c.ROOT, "corpus", "C15", "*.case"))):
            case_lines += [l for l in open(p).read().split("\n") if l and not l.startswith("#")]
        corpus_ids = {l.split("\t")[0] for l in case_lines}
    cpath = os.path.join(work, "corpus.cases")
    open(cpath, "w").write("\n".join(case_lines) + "\n")
    impl = runner.impl(cpath) if case_lines else {}
    if not ctx.replay:
        ncases, maxlen = (2500, 60) if ctx.tier == "quick" else (36000, 400)
        gpath, gimpl = os.path.join(work, "gen.cases"), os.path.join(work, "gen.impl")
        rc, out = c.sh([hb, "-mode", "gen", "-n", str(ncases), "-len", str(maxlen), "-seed", str(ctx.seed),
                        "-cases", gpath, "-impl", gimpl], env=c.GOENV, timeout=3000, check=False)
        if rc != 0:
            ctx.violation("harness crashed while running histories on ast.Node: " + out[-2000:], {"output": out[-6000:]}, True)
            return
        glines = [l for l in open(gpath).read().split("\n") if l]
        case_lines += glines
        impl.update(read_impl(gimpl))
        allp = os.path.join(work, "all.cases")
        open(allp, "w").write("\n".join(case_lines) + "\n")
        cpath = allp
    M, S = runner.model(cpath, par=min(c.NCPU, 16))

    # ---- compare
    dist = collections.Counter()
    rootstate = collections.Counter()
    flagsteps = collections.Counter()
    errs = collections.Counter()
    known_hit = collections.Counter()
    known_example = {}
    viols = []
    distinct = set()
    steps = 0
    witness_ok = {}
    for line in case_lines:
        f = line.split("\t")
        cid = f[0]
        r = evaluate(f, impl.get(cid, []), M.get(cid, []), S.get(cid, []))
        steps += r["steps"]
        ops = f[4].split(";") if f[4] else []
        for o in ops:
            dist["op:" + op_kind(o)] += 1
            dist["depth:%d" % (0 if o.startswith(". ") else o.split(" ")[0].count("/") + 1)] += 1
        dist["root:" + f[1]] += 1
        nchild = f[2].count(",") + 1 if f[2][0] in "[{" and len(f[2]) > 2 else 0
        dist["doc:" + ("scalar" if f[2][0] not in "[{" else "empty" if len(f[2]) == 2 else "commas<=15" if nchild <= 15
                       else "commas<=40" if nchild <= 40 else "commas>40")] += 1
        for st in M.get(cid, []):
            fl = st.split("~")[2]
            rootstate[fl[-1]] += 1
            for ch in fl.split(".")[0]:
                flagsteps[ch] += 1
        for st in impl.get(cid, []):
            o = st.split("~")[0]
            if ":" in o:
                for e in ("ok", "nf", "un", "pa", "ot"):
                    if ":" + e in o:
                        errs[e] += 1
                        break
        if len(ops) >= 2 and f[2][0] in "[{Z":
            distinct.add(hashlib.sha1((f[1] + f[2] + f[4]).encode()).hexdigest())
        for k in (r["known"] or []):
            known_hit[k] += 1
            known_example.setdefault(k, {"case_line": line, "ops": ops[:80]})
        if cid in corpus_ids and cid in WITNESS:
            exp = WITNESS[cid]
            witness_ok[cid] = (r["viol"] is None) and ((exp is None and not r["known"]) or (exp in r["known"]))
            if r["viol"] is None and not witness_ok[cid]:
                r["viol"] = ("witness", 0)
        if r["viol"]:
            viols.append((f, r))
        elif len(ctx.cov["samples"]) < 4 and 3 <= len(ops) <= 8:
            ctx.sample({"root": f[1], "document": f[2][:300], "ops": ops, "impl_log": [s.split("~")[0] for s in impl.get(cid, [])]})

    ctx.cov["evaluations"] = steps
    ctx.cov["distinct_nontrivial"] = len(distinct)
    ctx.cov["traces_validated_against_impl"] = len(case_lines) - len(viols)
    ctx.cov["rule"] = ("a case = root representation (NewRaw / NewRawConcurrentRead / Parser.Parse lazy / built with NewArray+NewObject) x document "
                       "(0-40 children, nested 2-3 levels, duplicate keys in a third of the cases, styles of whitespace and escapes) x op sequence "
                       "generated against the live state of the real node (paths of depth 0-2, existing and missing children); "
                       "non-trivial = at least 2 operations on a container or null root, distinct by (representation, document, ops)")
    ctx.cov["distribution"] = {"cases": len(case_lines), "ops_and_roots": dict(sorted(dist.items())),
                               "root_representation_per_step(r raw,l lazy,a loaded,s scalar)": dict(rootstate),
                               "steps_with(D index!=pairs,P stale index,U unset pair,H unset cell,I index present,L len-on-lazy)": dict(flagsteps),
                               "error_classes_observed": dict(errs), "known_findings_cases": dict(known_hit),
                               "refutation_witnesses_replayed": witness_ok}

    for k in sorted(known_hit):
        if k in known_listed:
            ctx.known(k, known_listed[k]["signature"])
        else:
            ctx.violation("defect %s reappeared: it is not (or no longer) listed in known_findings" % k,
                          {"id": k, "example": known_example.get(k)}, True)

    # ---- violations: shrink, describe (those with a difference from the plain tree first)
    viols.sort(key=lambda fr: 0 if fr[1]["viol"][0] == "spec" else 1)
    for f, r in viols[:3]:
        kind, step = r["viol"]
        if kind == "witness":
            ctx.violation("refutation witness %s no longer behaves as proved in Coq (implementation changed: repaired or broken differently)" % f[0],
                          {"case_line": "\t".join(f), "expected": WITNESS.get(f[0]), "known_seen": sorted(r["known"])}, True)
            continue
        ops = f[4].split(";") if f[4] else []
        info = {}
        try:
            mops = shrink(runner, f, kind) if len(ops) > 1 else ops
            if kind == "model":
                # search: does the broken correspondence have a consequence visible against the plain tree?
                v0 = runner.verdicts([with_ops(f, mops, "m0")])[0]
                at = v0["model"] if v0["model"] is not None else len(mops)
                pops = mops[:at] + probes(f, mops[at - 1] if at else "init")
                v1 = runner.verdicts([with_ops(f, pops, "p0")])[0]
                if v1["spec"] is not None:
                    kind = "spec"
                    mops = shrink(runner, f[:4] + [";".join(pops)] + f[5:], "spec")
            info = describe(runner, f, mops, kind)
        except Exception as e:  # shrinking must never hide the violation
            info = {"case_line": "\t".join(f), "shrink_error": repr(e)}
            mops = ops
        info["original_ops"] = len(ops)
        info["detail"] = r.get("detail")
        if kind == "spec":
            ctx.violation("ast.Node and the plain ordered tree disagree after %d operation(s) (minimized from %d): %s"
                          % (len(mops), len(ops), info.get("failing_op")), info, True)
        else:
            ctx.violation("the Coq model of ast.Node no longer reproduces the implementation (step %s of a %d-op history, op %s); "
                          "no difference from the plain tree was found on this history or on read-only probes after it"
                          % (info.get("failing_step"), len(mops), info.get("failing_op")), info, False)
    if len(viols) > 3:
        c.log("(%d further violating cases not reported individually)" % (len(viols) - 3))
    if problems and not ctx.violations:
        ctx.violation("; ".join("%s: %s" % p for p in problems)[:3000],
                      {"broken": [p[1] for p in problems], "theorem_file": "coq/theories/Props/C15.v",
                       "searched": "%d histories, %d steps: implementation, model and plain tree agree" % (len(case_lines), steps)}, False)
