"""C02 comparison logic: model (extracted FSM) vs implementation, and the two-sided oracle of the property.

Kept separate from checks/C02.py so that it can be exercised on stored case/result files."""
import zlib

WS = b" \t\r\n"

# APIs whose accept set is decided by the validating FSM + the Go trailing rule (compared with the model exactly)
DOC_BOOL_MODEL = ["valid", "valids", "encv", "cfgstd", "marsh"]
# whole-document decoders: accept = no syntax error.  Compared with the two-sided oracle (and reported against the model)
DOC_DEC = ["uiface", "ubytes", "dec", "uraw", "unode", "ucap", "ustruct", "uraws", "umap", "uifstd", "urawstd", "stdnode"]
# the document embedded at a position the JIT decoder skips or captures (unknown field, RawMessage / Unmarshaler field,
# mismatching field, map values, slice elements); value = class:rlx:std:depth of the WRAPPED document
EMBED_APIS = ["eunk", "eraw", "enode", "emis", "emap", "eumap", "eslice"]
# decoders that run with ValidateString (ConfigStd): string *contents* are checked more strictly than encoding/json.Valid
# does (control characters, UTF-8), which the property does not speak about; only the structural side is compared
STRICT_STRINGS = {"uifstd", "urawstd"}
# prefix APIs exposing the position pair (ret, p)
POS_APIS = ["skip", "va", "vs", "sa", "ss"]
# the same natives called with flags = MASK_VALIDATE_STRING (advance_string_validate): model field v5
POS_APIS_VS = ["va5", "vs5", "sa5", "ss5"]
# whole-document APIs exposing the captured text (since fix 5faba38 NewRaw rejects bytes after the value)
NEWRAW_APIS = ["newraw", "newrawc"]
# prefix APIs exposing the captured text
RAW_APIS = ["get", "getfs"]
WRAPPED = {"getk": "wk", "geti": "wi"}


def lstrip_ws(b):
    i = 0
    while i < len(b) and b[i] in WS:
        i += 1
    return i


def kf_short_literal(b):
    """narrow signature of C02-short-literal-oob"""
    return len(b) < 4 and any(c in b for c in b"tnf")


def kf_unterminated32(b):
    """narrow signature of C02-unterminated-string-mod32: blank* '"' body, body without an unescaped quote up to the
    end of the input, and the scalar tail loop of advance_string_default is not entered:
    (len(body) % 32 == 0, len(body) > 0, no escape pending at the end) or (len(body) % 32 == 1 and an escape is pending
    at the last 32-byte boundary)."""
    i = lstrip_ws(b)
    if i >= len(b) or b[i] != 0x22:
        return False
    body = b[i + 1:]
    L = len(body)
    if L == 0:
        return False
    B = L - (L % 32)
    j = 0
    pend_at_B = False
    while j < L:
        c = body[j]
        if c == 0x22:
            return False  # terminated
        if c == 0x5C:
            if j + 1 == B:
                pend_at_B = True
            j += 2
        else:
            j += 1
    if L % 32 == 0:
        return not pend_at_B
    if L % 32 == 1:
        return pend_at_B
    return False


def parse_line(line):
    f = line.rstrip("\n").split("\t")
    return f[0], dict(x.split("=", 1) for x in f[1:])


class Finding:
    def __init__(self, sev, what, cid, kind, doc, api, detail):
        self.sev, self.what, self.cid, self.kind, self.doc, self.api, self.detail = sev, what, cid, kind, doc, api, detail

    def payload(self):
        return {"case_id": self.cid, "kind": self.kind, "api": self.api, "input_hex": self.doc.hex() or "-",
                "input_repr": repr(self.doc[:200]) + ("...(%d bytes)" % len(self.doc) if len(self.doc) > 200 else ""),
                "detail": self.detail}


def compare_case(cid, kind, doc, impl, model, limit=4096, backend=""):
    """returns list of Finding (sev in 'violation' | 'tie' | known-finding id).
    backend: suffix appended to the API name in reports ("" = default dispatch, "@sse" = SONIC_MODE=noavx2)."""
    out = []

    def add(sev, what, api, detail):
        out.append(Finding(sev, what, cid, kind, doc, api + backend, detail))

    n = len(doc)
    std = impl["std"] == "1"
    rlx = impl["rlx"] == "1"
    depth = int(impl["depth"])
    short = kf_short_literal(doc)
    unt32 = kf_unterminated32(doc)
    m_vo = model["vo"] if model else None
    m_valid = model["valid"] if model else None
    undef = model is not None and (m_vo == "undef" or m_valid == "U")
    if undef and not short:
        add("tie", "model reports an out-of-bounds literal read outside the recorded input class", "model", model)

    for k, v in impl.items():
        if v == "PANIC":
            add("violation", "API panicked", k, v)

    # ---------------- oracle, whole-document APIs
    def doc_api(api, acc, rej=None):
        if rej is None:
            rej = not acc
        if acc and not rlx:
            if unt32:
                add("C02-unterminated-string-mod32", "unterminated string accepted", api, impl[api])
            elif short:
                add("C02-short-literal-oob", "short literal: verdict depends on memory after the input", api, impl[api])
            else:
                add("violation", "structurally malformed document accepted", api, impl[api])
        if rej and std and depth < limit:
            if api in STRICT_STRINGS:
                return
            if short:
                add("C02-short-literal-oob", "short literal: verdict depends on memory after the input", api, impl[api])
            else:
                add("violation", "document accepted by encoding/json.Valid rejected (depth %d)" % depth, api, impl[api])

    for api in DOC_BOOL_MODEL:
        doc_api(api, impl[api] == "1")
    for api in NEWRAW_APIS:
        f = impl[api].split(":")
        doc_api(api, f[0] == "ok")
        if f[0] == "ok" and f[3] != "1" and not unt32 and not short:
            add("violation", "NewRaw captured a text that is not one structurally valid value", api, impl[api])
    for api in DOC_DEC:
        # ok = accepted; syn = rejected as malformed; mis / val (type mismatch, number out of range) = no verdict on syntax
        doc_api(api, impl[api] == "ok", impl[api] in ("syn", "oth"))

    # ---------------- oracle, the document embedded where the decoder skips / captures
    for api in EMBED_APIS + [k for k in impl if k.startswith("E_")]:
        if api not in impl:
            continue
        f = impl[api].split(":")
        if f[0] == "PANIC":
            continue
        cls, wrlx, wstd, wdepth = f[0], f[1] == "1", f[2] == "1", int(f[3])
        if cls == "ok" and not wrlx:
            if api.startswith("E_f_"):
                where = "as the value of field %r of a typed struct ({\"%s\":<doc>,\"zz\":1} or {\"zz\":1,\"%s\":<doc>} into tWide)" % ((api[4:],) * 3)
            elif api.startswith("E_k_"):
                where = "as a map key ({<doc>:1} into a map keyed by %s)" % api[4:]
            elif api.startswith("E_"):
                where = "inside a typed destination (%s, see harness/cmd/c02)" % api
            else:
                where = "at a skipped / captured position"
            add("violation", "structurally malformed value accepted " + where, api, impl[api])
        # typed fields / map keys (prefix E_) may reject well-formed values for reasons of value (a `,string` bool that is
        # not a bool, base64, key syntax): only the accept direction is a statement about structure there
        if api in EMBED_APIS and cls in ("syn", "oth") and wstd and wdepth < limit - 1:
            add("violation", "value accepted by encoding/json.Valid rejected at a skipped / captured position (depth %d)" % wdepth, api, impl[api])

    # ---------------- oracle, stream decoder: a cleanly ended stream must be a sequence of structurally valid values
    if "sdec" in impl:
        f = impl["sdec"].split(":")
        if f[0] == "ok" and f[1] != "1" and not unt32 and not short:
            add("violation", "stream decoder decoded a malformed stream to a clean end", "sdec", impl["sdec"])
        if f[0] == "loop":
            add("violation", "stream decoder does not terminate on this input", "sdec", impl["sdec"])

    # ---------------- oracle, prefix APIs
    def prefix_api(api, acc, okbit, raw_len=None, raw_crc=None):
        if acc and not okbit:
            if unt32:
                add("C02-unterminated-string-mod32", "unterminated string accepted", api, impl[api])
            elif short:
                add("C02-short-literal-oob", "short literal: verdict depends on memory after the input", api, impl[api])
            else:
                add("violation", "prefix API accepted a span that is not one structurally valid value", api, impl[api])
        if (not acc) and std and depth < limit:
            if short:
                add("C02-short-literal-oob", "short literal: verdict depends on memory after the input", api, impl[api])
            else:
                add("violation", "document accepted by encoding/json.Valid rejected (depth %d)" % depth, api, impl[api])
        if acc and okbit and raw_len is not None and not rlx:
            # NewRaw / Get with an empty path: the value is fine, bytes after it are not looked at
            i = lstrip_ws(doc)
            cand = doc[i:i + raw_len]
            if len(cand) == raw_len and zlib.crc32(cand) == raw_crc and doc[i + raw_len:].strip(WS) != b"":
                add("C02-get-trailing-bytes", "value followed by non-space bytes accepted", api, impl[api])
            else:
                add("violation", "malformed document accepted and the captured text is not its first value", api, impl[api])

    for api in POS_APIS + [a for a in POS_APIS_VS if a in impl]:
        f = impl[api].split(":")
        acc = not f[0].startswith("-") and f[0] != "PANIC"
        prefix_api(api, acc, acc and len(f) > 2 and f[2] == "1")
    for api in RAW_APIS:
        f = impl[api].split(":")
        acc = f[0] == "ok"
        if acc:
            prefix_api(api, True, f[3] == "1", int(f[1]), int(f[2], 16))
        else:
            prefix_api(api, False, False)
    # ast.Loads: prefix API of the Go-level parser
    lo = impl["loads"]
    if lo == "ok" and impl["rlxp"].startswith("-1") and not unt32 and not short:
        add("violation", "ast.Loads accepted a document that does not start with a structurally valid value", "loads", lo)
    if lo in ("syn", "oth") and std and depth < limit and not short:
        add("violation", "document accepted by encoding/json.Valid rejected by ast.Loads", "loads", lo)

    # ---------------- model (exact), skipped where the model itself says the verdict is not determined by the input
    if model is not None:
        if not undef:
            for api in DOC_BOOL_MODEL:
                if impl[api] != m_valid:
                    add("tie", "Valid wrapper: model says %s" % m_valid, api, impl[api])
            mv = m_vo.split(":")
            for api in POS_APIS:
                f = impl[api].split(":")
                if mv[0] == "ok":
                    good = f[0] == mv[1] and f[1] == mv[2]
                else:
                    good = f[0] == "-" + mv[1]
                if not good:
                    add("tie", "validate_one/skip_one: model says %s" % m_vo, api, impl[api])
            for api in RAW_APIS:
                f = impl[api].split(":")
                if mv[0] == "ok":
                    seg = doc[int(mv[1]):int(mv[2])]
                    good = f[0] == "ok" and int(f[1]) == len(seg) and int(f[2], 16) == zlib.crc32(seg)
                else:
                    good = f[0] == "err"
                if not good:
                    add("tie", "skip_one behind NewRaw/Get: model says %s" % m_vo, api, impl[api])
            # NewRaw = skip_one + skipBlank to the end: accept set of Valid, captured text = span of skip_one
            for api in NEWRAW_APIS:
                f = impl[api].split(":")
                if m_valid == "1" and mv[0] == "ok":
                    seg = doc[int(mv[1]):int(mv[2])]
                    good = f[0] == "ok" and int(f[1]) == len(seg) and int(f[2], 16) == zlib.crc32(seg)
                else:
                    good = f[0] == "err"
                if not good:
                    add("tie", "NewRaw = skip_one + trailing blanks only: model says valid=%s vo=%s" % (m_valid, m_vo), api, impl[api])
            # RawMessage / Node capture = skip_one + CheckTrailings: same accept set as Valid
            for api in ("uraw", "unode", "ucap"):
                acc = impl[api] == "ok"
                if acc != (m_valid == "1"):
                    add("tie", "skip_one + CheckTrailings: model says %s" % m_valid, api, impl[api])
        # flags = MASK_VALIDATE_STRING: natives exactly, ConfigStd RawMessage capture = skip_one(flags) + CheckTrailings
        if "v5" in model and model["v5"] != "undef" and "va5" in impl:
            mv = model["v5"].split(":")
            for api in POS_APIS_VS:
                f = impl[api].split(":")
                if mv[0] == "ok":
                    good = f[0] == mv[1] and f[1] == mv[2]
                else:
                    good = f[0] == "-" + mv[1]
                if not good:
                    add("tie", "validate_one/skip_one with MASK_VALIDATE_STRING: model says %s" % model["v5"], api, impl[api])
            want = mv[0] == "ok" and doc[int(mv[2]):].strip(WS) == b""
            # jitdec.Decode first replaces invalid UTF-8 by U+FFFD when ValidateString is set (the text the scanner sees is
            # then a different, longer one and the vector rounds fall elsewhere): exact comparison only on valid UTF-8
            try:
                doc.decode("utf-8")
                utf8_ok = True
            except UnicodeDecodeError:
                utf8_ok = False
            if utf8_ok and (impl["urawstd"] == "ok") != want:
                add("tie", "ConfigStd RawMessage capture = skip_one(MASK_VALIDATE_STRING) + CheckTrailings: model says %s" % model["v5"],
                    "urawstd", impl["urawstd"])
        # the non-validating skippers (skip_one_fast): exact model comparison on every input, both blobs
        if "fo" in model:
            mv = model["fo"].split(":")
            for api in ("fa", "fs"):
                f = impl[api].split(":")
                if mv[0] == "ok":
                    good = f[0] == mv[1] and f[1] == mv[2]
                else:
                    good = f[0] == "-" + mv[1]
                if not good:
                    add("tie", "skip_one_fast: model says %s" % model["fo"], api, impl[api])
        for api, mk in WRAPPED.items():
            mv = model[mk].split(":")
            f = impl[api].split(":")
            wdoc = doc + (b"}" if api == "getk" else b"]")
            if mv[0] == "ok":
                seg = wdoc[int(mv[1]):int(mv[2])]
                good = f[0] == "ok" and int(f[1]) == len(seg) and int(f[2], 16) == zlib.crc32(seg)
            else:
                good = f[0] == "err"
            if not good:
                add("tie", "skip_one behind GetByPath(path): model says %s" % model[mk], api, impl[api])
            if f[0] == "ok" and f[3] != "1":
                if kf_unterminated32(wdoc):
                    add("C02-unterminated-string-mod32", "unterminated string accepted", api, impl[api])
                else:
                    add("violation", "Get(path) returned a value that is not structurally valid", api, impl[api])
    return out
