"""C03 - Marshal agrees with encoding/json on errors and on the emitted JSON text."""
import json
import os
import time

from . import common as c
from . import C03_lib as L

CLAIM = {
    "gens": ["EncFlags"],
    "category": "proof",
    "text": "Coq model of the whole encoder pipeline: type universe + compiler (Enc/Compile.v, transcription of internal/encoder/compiler.go) "
            "+ interpreter (Enc/VM.v, transcription of vm/vm.go over an abstract memory of blocks and offsets) + sorted map iteration "
            "(Enc/MapSort.v, alg/sort.go) + reference encoder (Enc/StdEnc.v, encoding/json as documented). Theorems: see Props/C03.v "
            "(radix quicksort sorts every key list for every depth budget; branch targets of compiled programs are in range; "
            "agreement of the compiled program with the reference encoder on the proved fragment: scalars, strings, pointers, slices, arrays, "
            "[]byte and structs (fields without option, with omitempty on bool/int/string/pointer/slice, with `,string` on scalars) incl. the OP_recurse path, "
            "for every option word (the reference encoder takes the NoNullSliceOrMap bit) and with the reference proved total there). Tie, every run: (a) the model's "
            "program equals the real compiler's program instruction by instruction for generated types (both pv), (b) model execution "
            "equals sonic.ConfigStd.Marshal bytes/error class in a JIT process and in an interpreter process, (c) the reference encoder "
            "equals encoding/json.Marshal byte for byte. Property oracle (independent of the model): encoding/json on the same value.",
    "note": "Trusted: Coq kernel, extraction, the Go harness (reflect-based descriptor/value serialisation and its independent "
            "re-implementation of encoding/json's field resolution), reflect's layout data, encoding/json as oracle. Float digits "
            "come from strconv (property C19), user Marshal methods are oracles. The x86 emission is reached by the value tie only.",
    "technique": "Coq proof over a transcribed compiler+interpreter, exact IR tie + differential value tie + encoding/json oracle",
}

KF_NOTE = {
    "KF-C03-negzero-omitempty": "negzero-omitempty",
    "KF-C03-map-key-kind": "boolkey/floatkey",
    "KF-C03-depth-limit": "deep",
    "KF-C03-quoted-string-escape": "quoted-string-special",
    "KF-C03-eager-type-check": "badkey/badomit",
}


def classify(feats, backend, impl_r, std_o):
    """narrow input classifier of the recorded findings; None = not a known finding"""
    if "negzero-omitempty" in feats:
        return "KF-C03-negzero-omitempty"
    if ("boolkey" in feats or "floatkey" in feats) and std_o[:2] == ["err", "unsupported"]:
        return "KF-C03-map-key-kind"
    if "deep" in feats and "cyclic" not in feats and impl_r[:2] == ["err", "too_deep"] and std_o[0] == "ok":
        return "KF-C03-depth-limit"
    if "quoted-string-special" in feats:
        return "KF-C03-quoted-string-escape"
    if ("badkey" in feats or "badomit" in feats) and impl_r[:2] == ["err", "unsupported"] and std_o[0] == "ok":
        return "KF-C03-eager-type-check"
    return None


def run(ctx):
    ctx.level = "proof"
    ctx.trusted = c.TRUSTED_COMMON + [c.TRUSTED_EXTRACT,
                                     "encoding/json.Marshal (Go 1.23.5) as the oracle; strconv for the digits of floats; reflect for sizes/offsets",
                                     "harness/internal/tygen: descriptor and value serialisation, its own implementation of encoding/json's field resolution"]
    ctx.assumptions = [
        "C03_marshal_agree is proved for the fragment named in Props/C03.v; outside it agreement is tied on every run (value tie + oracle), not proved",
        "the x86 code generator is not modelled: the JIT is tied to the model by running it",
        "encoding/json of the toolchain (1.23) has no omitzero: omitzero cases are compared model<->implementation only",
    ]
    t0 = time.time()
    ctx.cov["phase_s"] = {}
    p_ok = c.standard_P(ctx, CLAIM["gens"], L.SUPPORT)
    ctx.cov["phase_s"]["P"] = round(time.time() - t0, 1)
    problems = []
    if not p_ok:
        problems.append(("P", getattr(ctx, "p_fail", "proof half failed")))
    ok, hb = c.build_harness("c03")
    if not ok:
        ctx.violation("harness does not build against the repository: " + hb[-1500:], {"build": hb}, False)
        return
    t1 = time.time()
    mok, mexe = c.build_model("C03")
    ctx.cov["phase_s"]["model_build"] = round(time.time() - t1, 1)
    if not mok:
        problems.append(("T", "model extraction/driver build failed: " + mexe[-1200:]))
    d = L.work("C03")
    n = 8000 if ctx.tier == "quick" else 150000
    only = None
    if ctx.replay:
        try:
            rp = json.load(open(ctx.replay))
            only = rp["replay"].get("case")
            ctx.seed = rp.get("seed", ctx.seed)
        except Exception:
            pass
    ok, msg = L.run_harness(hb, d, ctx.seed, n, only)
    if not ok:
        ctx.violation("encoder harness crashed: " + msg, {"output": msg}, True)
        return
    model = {}
    if mok:
        ok, msg = L.run_model(mexe, d)
        if not ok:
            problems.append(("T", msg))
        else:
            model, bad = L.load_model(os.path.join(d, "model.out"))
            if bad:
                problems.append(("T", "model driver rejected %d request lines, e.g. %s" % (len(bad), bad[0])))
    jb, flags, jit, feat, skipped = L.load_impl(os.path.join(d, "impl.jit"))
    vb, _, vm, _, _ = L.load_impl(os.path.join(d, "impl.vm"))
    if (jb, vb) != ("jit", "vm"):
        problems.append(("T", "back-end selection failed: processes report %s/%s" % (jb, vb)))
    known = {k["id"]: k for k in c.known_findings("C03")}

    st = dict(ir=0, ir_bad=0, val=0, val_bad=0, cache_sensitive=0, oracle=0, oracle_bad=0, oracle_na=0, spec=0, spec_bad=0,
              thm=0, thm_expl=0, thm_bad=0)
    seen_known = {}
    viol = []
    dist = {"regime": {}, "features": {}, "result": {}}
    distinct = set()
    for cid, (regime, feats, tsz, vsz) in feat.items():
        dist["regime"][regime] = dist["regime"].get(regime, 0) + 1
        for ft in feats:
            dist["features"][ft] = dist["features"].get(ft, 0) + 1
        jr = jit.get(cid, {})
        vr = vm.get(cid, {})
        m = model.get(cid, {})
        rj = jr.get("R:" + flags)
        rv = vr.get("R:" + flags)
        if rj:
            key = "ok" if rj[0] == "ok" else "err:" + rj[1]
            dist["result"][key] = dist["result"].get(key, 0) + 1
            if tsz > 8 or vsz > 8:
                distinct.add((tsz, vsz, rj[1][:64]))
        if not model:
            continue
        # (a) IR tie (both processes compile the same program)
        for k in ("P0", "P1"):
            if k in m or k in jr:
                st["ir"] += 1
                for who, rr in (("jit", jr), ("vm", vr)):
                    if m.get(k) != rr.get(k):
                        st["ir_bad"] += 1
                        viol.append(("ir", cid, "compiled program differs from the model (%s process, pv=%s)" % (who, k[1]),
                                     dict(L.case_lines(d, cid), diff=L.first_diff_instr(m.get(k), rr.get(k)))))
                        break
        # (b) value tie
        cs = False
        for prims, rr, r in (("jit", jr, rj), ("vm", vr, rv)):
            e = m.get("E:%s:%s" % (prims, flags))
            if e is None or r is None:
                continue
            st["val"] += 1
            if e[-1] == "1":
                st["cache_sensitive"] += 1      # both pv values of one type requested: tied too since fix ea86c56 (cache per pv)
            if e[:-1] != r:
                st["val_bad"] += 1
                viol.append(("val", cid, "Marshal (%s) differs from the model: impl %s / model %s" % (prims, L.show(r), L.show(e)),
                             dict(L.case_lines(d, cid), backend=prims, impl=r[:2], model=e[:2], features=sorted(feats))))
        # (c) property oracle: encoding/json vs the implementation, both back ends
        for backend, rr, r in (("jit", jr, rj), ("vm", vr, rv)):
            o = rr.get("O")
            if not o or r is None:
                continue
            if "omitzero" in feats:
                st["oracle_na"] += 1
                continue
            st["oracle"] += 1
            if o[-1] == "1":
                continue
            kf = classify(feats, backend, r, o)
            e = m.get("E:%s:%s" % (backend, flags))
            explained = e is not None and e[:-1] == r
            if kf and kf in known and explained:
                seen_known.setdefault(kf, cid)
                continue
            st["oracle_bad"] += 1
            viol.append(("oracle", cid, "Marshal (%s) disagrees with encoding/json: sonic %s / encoding/json %s" % (backend, L.show(r), L.show(o)),
                         dict(L.case_lines(d, cid), backend=backend, sonic=r[:2], std=o[:2], features=sorted(feats))))
        # (d) reference encoder vs encoding/json (exact), and the theorem statement sampled: exec = std_marshal
        s_std = m.get("S:std")
        o = jr.get("O")
        if s_std and o and "omitzero" not in feats:
            st["spec"] += 1
            if s_std[:2] != o[:2] and not (s_std[0] == "err" and o[0] == "err"):
                st["spec_bad"] += 1
                viol.append(("spec", cid, "reference encoder (Enc/StdEnc.v) differs from encoding/json: model %s / encoding/json %s" % (L.show(s_std), L.show(o)),
                             dict(L.case_lines(d, cid), model=s_std[:2], std=o[:2], features=sorted(feats))))
        s_son = m.get("S:sonic")
        e = m.get("E:jit:%s" % flags)
        if s_son and e and not cs:
            st["thm"] += 1
            same = (s_son[0] == e[0] == "ok" and s_son[1] == e[1]) or (s_son[0] == "err" and e[0] == "err")
            if not same:
                kf = classify(feats, "jit", e[:-1], s_son)
                if kf and kf in known:
                    st["thm_expl"] += 1
                elif "omitzero" in feats or "marshaler-invalid-utf8" in feats:
                    st["thm_expl"] += 1
                else:
                    st["thm_bad"] += 1
                    viol.append(("thm", cid, "model execution differs from the reference encoder outside the recorded findings: exec %s / std_marshal %s" % (L.show(e), L.show(s_son)),
                                 dict(L.case_lines(d, cid), exec=e[:2], std_marshal=s_son[:2], features=sorted(feats))))

    for kf, cid in sorted(seen_known.items()):
        ctx.known(kf, "%s (e.g. case %s)" % (known[kf]["signature"], cid))
    ctx.cov["evaluations"] = st["ir"] * 2 + st["val"] + st["oracle"] + st["spec"] + st["thm"]
    ctx.cov["distinct_nontrivial"] = len(distinct)
    ctx.cov["rule"] = ("witness corpus (refutation witnesses, limits, sort thresholds) then seeded random (type, value) cases in regimes "
                       "plain/rec/ptrrecv/odd/omitzero/bigmap; distinct = distinct (type size, value size, output prefix) with a non-scalar type or value; "
                       "every case: IR of both pv in both processes, ConfigStd.Marshal in a JIT and a VM process, encoding/json, reference encoder")
    ctx.cov["distribution"] = dist
    ctx.cov["counts"] = st
    ctx.cov["phase_s"].update(L.TIMES)
    ctx.cov["skipped_too_large"] = len(skipped)
    ctx.cov["traces_validated_against_impl"] = st["val"] - st["val_bad"] - st["cache_sensitive"]
    for cid in list(feat)[:3] + list(feat)[-3:]:
        ctx.sample({"case": cid, "features": sorted(feat[cid][1]), "jit": L.show(jit.get(cid, {}).get("R:" + flags))[:120]})
    shown = {}
    for kind, cid, what, payload in viol:
        if shown.get(kind, 0) >= 3:
            continue
        shown[kind] = shown.get(kind, 0) + 1
        payload["seed"] = ctx.seed
        ctx.violation(what[:1500], payload, True)
    if problems and not ctx.violations:
        ctx.violation("; ".join("%s: %s" % p for p in problems)[:3000],
                      {"broken": [p[1] for p in problems], "theorem_file": "coq/theories/Props/C03.v",
                       "searched": "%d cases against encoding/json in two back ends" % st["oracle"]}, False)
