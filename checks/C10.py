"""C10 - Generated code cooperates with the Go runtime: GC, stack growth, tracebacks.  (weakest claim of the manifest)"""
import json
import os
import re

from . import common as c

SUPPORT = ["Loader/Pcdata.v", "Loader/StackMap.v", "Loader/PtrMapsProofs.v", "Loader/WbSpec.v", "Loader/WbCoverage.v", "Loader/FrameProofs.v", "Loader/FuncName.v"]

CLAIM = {
    "gens": ["PtrMaps", "WbStores", "Frames"],
    "category": "proof",
    "text": ("WEAKEST CLAIM. Theorems (Coq) cover only the metadata handed to the Go runtime: (1) Pcdata.MarshalBinary (zig-zag varint value "
             "delta, uvarint pc delta, skip rule, terminator) followed by a transcription of runtime.readvarint/step/pcvalue returns at every "
             "covered pc the value of the enclosing range, for every table satisfying pcdata_wf (strictly increasing end-PCs, each value "
             "different from its predecessor and the first from -1, pc < 2^28, |value| < 2^26); REFUTED outside it: equal neighbouring values "
             "(the skipped range is swallowed by the next one) and a first value of -1 (bare terminator, the decoder runs past the table) - "
             "tables of really generated code satisfy pcdata_wf (checked on every run). (2) StackMapBuilder.AddField/Build against the bit "
             "lookup, all bit lists. (3) the declared argument pointer bitmaps of the JIT decoder / encoder equal the word-by-word pointer map "
             "of the Go function types _Decoder / vars.Encoder, and the argument-area and frame sizes add up (regenerated from source). "
             "(4) wb_coverage over the store table regenerated from the three x86 emitters (213 store sites): every store to a non-stack "
             "destination is inside a write-barrier helper, narrower than a pointer, an immediate, an output-buffer byte, or one of 59 listed "
             "exceptions with a category and an exact multiplicity - exhaustiveness is proved, the categories are reading-based arguments. "
             "(5) frame_pointer_discipline over the prologue / epilogue rows regenerated from the three emitters: BP saved at size-8(SP), BP := that slot, "
             "restored from it (what the frame-pointer unwinders of the block / mutex profilers and the tracer follow). (6) makeFuncnameTab: every "
             "name offset resolves, read NUL-terminated as the runtime does, to the (bracket-rewritten) name written for that function. "
             "NOT proved and not provable here: actual collection, stack copying, asynchronous preemption, write-barrier execution, the "
             "emptiness of the LOCAL pointer maps being harmless - these are sampled by child processes running real generated code with "
             "callbacks that collect, walk and grow the stack under GOGC=1 / gccheckmark / SONIC_SYNC_GC."),
    "note": ("Trusted: Coq kernel, translator, extraction, the Go transcription of the runtime decoder in the harness (cross-checked against the "
             "REAL runtime through runtime.FuncForPC(pc).FileLine on loaded stub functions), the Go runtime itself."),
    "technique": "Coq proofs about the runtime-facing tables + model/implementation/real-runtime three-way runs + GC stress sampling",
}

KF_SKIP = "KF-C10-pcdata-skip-rule"


def spec_lookup(pcs, vals, target):
    for p, v in zip(pcs, vals):
        if target < p:
            return str(v)
    return "none"


def is_wf(pcs, vals):
    sp, sv = 0, -1
    for p, v in zip(pcs, vals):
        if not (sp < p < 2 ** 28 and v != sv and -2 ** 26 < v < 2 ** 26):
            return False
        sp, sv = p, v
    return True


def parse_case(line):
    f = line.split("\t")
    pcs = [int(x) for x in f[1].split(",")] if f[1] else []
    vals = [int(x) for x in f[2].split(",")] if f[2] else []
    tg = [int(x) for x in f[3].split(",")] if f[3] != "-" else []
    return pcs, vals, tg


def compare_tables(ctx, label, cases, impl, model, problems, found, real=None):
    """three-way: model line = pc hex pcvalues wf lookups ; impl line = pc hex pcvalues ; real = rt values (or None)"""
    stats = {"tables": 0, "wf": 0, "probes": 0, "outside_wf_divergent": 0, "real_runtime_tables": 0}
    for i, cl in enumerate(cases):
        pcs, vals, tg = parse_case(cl)
        stats["tables"] += 1
        wf = is_wf(pcs, vals)
        stats["wf"] += wf
        stats["probes"] += len(tg)
        il = impl[i].split("\t")
        spec = [spec_lookup(pcs, vals, t) for t in tg]
        if il[1] == "panic":
            found.append({"kind": label, "what": "MarshalBinary panicked on an ascending table", "table": list(zip(pcs, vals))})
            continue
        ivals = il[2].split(",") if len(il) > 2 and il[2] else []
        if wf and ivals != spec and len(found) < 5:
            # independent of the model: real MarshalBinary + runtime decoder disagree with the meaning of the table
            found.append({"kind": label, "what": "well-formed table: the runtime decoder applied to MarshalBinary's bytes does not return the enclosing range's value",
                          "table": list(zip(pcs, vals)), "targets": tg, "decoded": ivals, "expected": spec, "bytes": il[1]})
        if not wf and ivals != spec:
            stats["outside_wf_divergent"] += 1
        if model is not None:
            ml = model[i].split("\t")
            if ml[1] != il[1] and len(problems) < 6:
                problems.append(("T", "%s: MarshalBinary bytes differ, model %s implementation %s on table %s" % (label, ml[1], il[1], list(zip(pcs, vals)))))
            elif (ml[2].split(",") if ml[2] else []) != ivals and len(problems) < 6:
                problems.append(("T", "%s: Coq and Go transcriptions of runtime.pcvalue differ on bytes %s: %s vs %s" % (label, il[1], ml[2], il[2])))
            if (ml[3] == "1") != wf and len(problems) < 6:
                problems.append(("T", "%s: wf_check differs from the checker's pcdata_wf on %s" % (label, list(zip(pcs, vals)))))
        if real is not None and real[i] != "rt\tskip":
            stats["real_runtime_tables"] += 1
            rv = real[i].split("\t")[1].split(",")
            if rv != ivals and len(problems) < 6:
                problems.append(("T", "%s: the REAL runtime (FuncForPC.FileLine) decodes %s as %s, the transcription as %s" % (label, il[1], rv, ivals)))
            if wf and rv != spec and len(found) < 5:
                found.append({"kind": label, "what": "well-formed line table loaded through loader.Load: runtime.FuncForPC(pc).FileLine returns a value other than the enclosing range's",
                              "table": list(zip(pcs, vals)), "targets": tg, "runtime": rv, "expected": spec})
    return stats


def run(ctx):
    ctx.level = "proof"
    ctx.trusted = c.TRUSTED_COMMON + [c.TRUSTED_TX, c.TRUSTED_EXTRACT,
                                     "the Go transcription of runtime.readvarint/step/pcvalue in harness/cmd/c10 (cross-checked against the real runtime on loaded stubs)",
                                     "the Go runtime (collector, stack copier, preemption) as the system under which generated code is sampled"]
    ctx.assumptions = [
        "OUTSIDE ANY PROOF: actual garbage collection, stack copying, asynchronous preemption and write-barrier execution while generated code is on the stack - only sampled (GOGC=1, GODEBUG=gccheckmark=1, SONIC_SYNC_GC=1, callbacks that call runtime.GC / runtime.Callers / debug.Stack and recurse deeply; a map key type with UnmarshalText that collects and churns the heap after its last use of the receiver; callbacks blocking on a channel / mutex / timer under the block profiler, the mutex profiler, the execution tracer and the CPU profiler; PretouchMany batches followed by tracebacks that resolve function names)",
        "SONIC_SYNC_GC=1 run: generated encoder and decoder both run under the debug switch (collection forced between decoder opcodes, a Go call after every encoder opcode); it is the regression run of fix f95f464 (FIX-C10-syncgc-encoder-hook)",
        "the local pointer maps of all generated functions are EMPTY (theorem C10_local_maps_empty): the local frame area is never scanned; that this is harmless (no pointer lives only in a local slot across a call) is not proved",
        "wb_coverage proves only that the list of un-barriered non-stack stores is exhaustive and exact; that each listed category (Scalar, Zero, TypeWord, StaticPointer, PointsIntoInput, FreshObject, SelfInterior, ParamNotHeap, ParamStack, BufferWriteback) really makes a barrier unnecessary is an argument made by reading the emitter (notes/C10.md), weakest for BufferWriteback (encoder save_buffer writes RP into *rb without a barrier)",
        "runtime.readvarint's uint32 accumulation and `shift & 31` are modelled without wrap; pcdata_wf bounds (pc < 2^28, |value| < 2^26) keep every encoding within 4 bytes where both agree",
        "word layout of the stubs: pointer-shaped = 1 pointer word, integer = 1 scalar word, string = pointer+scalar, slice = pointer+2 scalars, interface = 2 pointer words; results are not part of the argument map",
    ]
    p_ok = c.standard_P(ctx, CLAIM["gens"], SUPPORT)
    problems, found = [], []
    if not p_ok:
        problems.append(("P", getattr(ctx, "p_fail", "proof half failed")))
        if not getattr(ctx, "p_fail", "").startswith("translator"):
            rc, out = c.coq_eval("C10diag", """From Coq Require Import String List.
From SV.Loader Require Import WbSpec.
From SV.Gen Require Import Frames.
Eval vm_compute in ("exceptions_exact", exceptions_exact, "param_sites_ok", param_sites_ok, "helpers_ok", helpers_ok).
Eval vm_compute in ("frames", jitdec_prologue, jitdec_epilogue, encoder_prologue, encoder_epilogue, generic_compile).
Eval vm_compute in ("stores outside the helpers that are not listed", map key_of (filter (fun r => negb (existsb (fun e => key_eqb (key_of r) (fst (fst e))) exceptions)) leftovers),
                    "listed exceptions whose multiplicity changed", map (fun e => (fst (fst e), count_key (fst (fst e)))) (filter (fun e => negb (Nat.eqb (count_key (fst (fst e))) (snd (fst e)))) exceptions)).
""", timeout=300)
            problems.append(("P-diagnosis", re.sub(r"\s+", " ", out)[-2500:]))
    ok, hb = c.build_harness("c10")
    if not ok:
        ctx.violation("harness does not build against /repo: " + hb[-1500:], {"build": hb}, False)
        return
    work = os.path.join(c.BUILD, "work", "C10")
    os.makedirs(work, exist_ok=True)
    mok, mexe = (False, "") if not p_ok else c.build_model("C10")
    if p_ok and not mok:
        problems.append(("T", "model extraction failed: " + mexe[-800:]))
    known = {k["id"]: k for k in c.known_findings("C10")}
    thorough = ctx.tier == "thorough"

    def model_lines(cases_path):
        if not mok:
            return None
        rc, out = c.sh([mexe], input=open(cases_path).read(), timeout=900, check=False)
        ml = out.splitlines()
        if rc != 0 or len(ml) != len(open(cases_path).read().splitlines()):
            problems.append(("T", "model driver failed: " + out[-400:]))
            return None
        return ml

    def harness(args, timeout=900, env=None):
        return c.sh([hb] + args, env=dict(c.GOENV, **(env or {})), timeout=timeout, check=False)

    stats = {}
    # ---- T1: random tables, model vs MarshalBinary vs transcribed decoder
    ntab = 4000 if not thorough else 60000
    tc, ti = os.path.join(work, "tables.cases"), os.path.join(work, "tables.impl")
    rc, out = harness(["-mode", "tables", "-n", str(ntab), "-seed", str(ctx.seed), "-cases", tc, "-out", ti])
    if rc != 0:
        ctx.violation("tables harness crashed: " + out[-1500:], {"output": out[-3000:]}, True)
        return
    cases, impl = open(tc).read().splitlines(), open(ti).read().splitlines()
    stats["random_tables"] = compare_tables(ctx, "random table", cases, impl, model_lines(tc), problems, found)
    trep = json.load(open(ti + ".json"))

    # ---- T2: the REAL runtime on loaded stub functions (line tables)
    nrt = 250 if not thorough else 1500
    lc, li, lr = os.path.join(work, "lines.cases"), os.path.join(work, "lines.impl"), os.path.join(work, "lines.rt")
    rc, out = harness(["-mode", "tables", "-lines", "-n", str(nrt), "-seed", str(ctx.seed + 1), "-cases", lc, "-out", li])
    rc2, out2 = harness(["-mode", "runtime", "-cases", lc, "-out", lr], timeout=900)
    if rc != 0 or rc2 != 0:
        ctx.violation("loading stub functions with generated line tables crashed: " + (out + out2)[-1500:], {"output": (out + out2)[-3000:], "seed": ctx.seed + 1}, True)
        return
    lcases, limpl, lreal = open(lc).read().splitlines(), open(li).read().splitlines(), open(lr).read().splitlines()
    stats["line_tables_real_runtime"] = compare_tables(ctx, "line table", lcases, limpl, model_lines(lc), problems, found, real=lreal)
    # the skip-rule witness on the real runtime: case 0 of the fixed tables is [(10,v),(20,v),(30,v+8)]
    w_pcs, w_vals, w_tg = parse_case(lcases[0])
    w_real = lreal[0].split("\t")[1].split(",") if lreal[0] != "rt\tskip" else []
    w_spec = [spec_lookup(w_pcs, w_vals, t) for t in w_tg]
    skip_reproduced = bool(w_real) and w_real != w_spec
    stats["skip_rule_witness"] = {"table": list(zip(w_pcs, w_vals)), "targets": w_tg, "real_runtime": w_real, "meaning": w_spec, "reproduced": skip_reproduced}

    # ---- T3: stack maps
    sc, si = os.path.join(work, "sm.cases"), os.path.join(work, "sm.impl")
    rc, out = harness(["-mode", "stackmap", "-n", str(400 if not thorough else 5000), "-seed", str(ctx.seed), "-cases", sc, "-out", si])
    if rc != 0:
        ctx.violation("stack-map harness crashed: " + out[-1500:], {"output": out[-3000:]}, True)
        return
    scases, simpl = open(sc).read().splitlines(), open(si).read().splitlines()
    sm_bad = 0
    for cl, il in zip(scases, simpl):
        bits = cl.split("\t")[1]
        f = il.split("\t")
        nb = 0 if bits == "-" else len(bits)
        if f[1] != "1" or int(f[2]) != nb or f[4] != bits:
            sm_bad += 1
            if len(found) < 5:
                found.append({"kind": "stack map", "what": "StackMapBuilder: bits read back through BitVec.Bit differ from the fields added", "bits": bits, "result": il})
    sml = model_lines(sc)
    if sml is not None:
        for a, b in zip(sml, simpl):
            if a != b and len(problems) < 6:
                problems.append(("T", "stack map: model %s implementation %s" % (a, b)))
    stats["stack_maps"] = {"cases": len(scases), "mismatches": sm_bad}

    # ---- T3b: function-name tables (hook loader.VerifFuncnameTab) vs the model, and vs the meaning of the table
    fc, fi = os.path.join(work, "fn.cases"), os.path.join(work, "fn.impl")
    rc, out = harness(["-mode", "funcname", "-n", str(600 if not thorough else 8000), "-seed", str(ctx.seed), "-cases", fc, "-out", fi])
    if rc != 0:
        ctx.violation("function-name table harness crashed: " + out[-1500:], {"output": out[-3000:]}, True)
        return
    fcases, fimpl = open(fc).read().splitlines(), open(fi).read().splitlines()

    def rewritten(nm):
        i = nm.find(b"[")
        j = nm.rfind(b"]")
        return nm if i < 0 or j <= i else nm[:i] + b"[...]" + nm[j + 1:]
    fn_bad = 0
    for cl, il in zip(fcases, fimpl):
        f = cl.split("\t")
        names = [bytes.fromhex(x) if x != "-" else b"" for x in f[1].split(",")] if len(f) > 1 and f[1] else []
        g = il.split("\t")
        tab = bytes.fromhex(g[1])
        offs = [int(x) for x in g[2].split(",")] if len(g) > 2 and g[2] else []
        good = len(offs) == len(names)
        for nm, o in zip(names, offs):
            end = tab.find(b"\x00", o)
            good = good and 0 < o <= len(tab) and tab[o:end] == rewritten(nm)
        if not good:
            fn_bad += 1
            if len(found) < 5:
                found.append({"kind": "function-name table", "what": "makeFuncnameTab: a name offset does not resolve to the (bracket-rewritten) name of its function",
                              "names": [n.decode("utf8", "replace") for n in names], "table": g[1], "offsets": offs})
    fml = model_lines(fc)
    if fml is not None:
        for a, b in zip(fml, fimpl):
            if a.rstrip("\t") != b.rstrip("\t") and len(problems) < 6:
                problems.append(("T", "function-name table: model %s implementation %s" % (a[:300], b[:300])))
    stats["funcname_tables"] = {"cases": len(fcases), "mismatches": fn_bad}

    # ---- T4: tables of really generated code
    jc, ji = os.path.join(work, "jit.cases"), os.path.join(work, "jit.impl")
    rc, out = harness(["-mode", "jit", "-n", str(60 if not thorough else 600), "-seed", str(ctx.seed), "-cases", jc, "-out", ji], timeout=1500)
    if rc != 0:
        ctx.violation("assembling real encoders/decoders crashed: " + out[-1500:], {"output": out[-3000:]}, True)
        return
    jcases, jimpl = open(jc).read().splitlines(), open(ji).read().splitlines()
    jinfo = open(ji + ".info").read().splitlines()
    jstats = compare_tables(ctx, "generated function", jcases, jimpl, model_lines(jc), problems, found)
    not_wf = []
    for cl, info in zip(jcases, jinfo):
        pcs, vals, _ = parse_case(cl)
        f = info.split("\t")
        if not is_wf(pcs, vals) or f[3] != "true":
            not_wf.append({"kind": f[0], "table": list(zip(pcs, vals)), "text_size": f[1], "covers_text": f[3]})
    if not_wf:
        found.append({"kind": "generated function", "what": "the pcsp table of really generated code is outside pcdata_wf or does not end at the text size (the round-trip theorem does not apply to it)", "tables": not_wf[:3]})
    jstats["outside_wf_or_not_covering"] = len(not_wf)
    stats["generated_functions"] = jstats

    # ---- T5: real generated code under GC / stack growth / traceback stress (child processes)
    gc_runs = []
    envs = [({"GOGC": "1"}, 25), ({"GOGC": "1", "GODEBUG": "gccheckmark=1"}, 8), ({"GOGC": "1", "SONIC_SYNC_GC": "1"}, 2),
            ({"GOGC": "1", "GOMAXPROCS": "8", "GODEBUG": "clobberfree=1"}, 15)]
    if thorough:
        envs = [(envs[0][0], 300), (envs[1][0], 60), (envs[2][0], 6), (envs[3][0], 150)]
    if found:
        envs = []   # a concrete failing input already exists: the stress sampling would add nothing (and may hang on broken tables)
    # profilers / tracer / name-resolving tracebacks across generated frames (frame-pointer unwinding, funcnametab)
    extra_runs = []
    for mode_, k, env in ([] if found else [("prof", 12 if not thorough else 60, {}), ("prof", 8 if not thorough else 30, {"GOGC": "10", "GOMAXPROCS": "4"}),
                                            ("names", 6 if not thorough else 60, {}), ("names", 3 if not thorough else 20, {"GOGC": "1"})]):
        rc, out = harness(["-mode", mode_, "-n", str(k), "-seed", str(ctx.seed)], timeout=(300 if not thorough else 1200), env=env)
        m = re.search(r"^OK (.*)$", out, re.M)
        extra_runs.append({"mode": mode_, "env": env, "n": k, "rc": rc, "ok": bool(m) and rc == 0, "summary": m.group(1) if m else ""})
        if not (m and rc == 0):
            fatal = [l for l in out.splitlines() if l.startswith(("fatal error:", "panic:", "MISMATCH", "runtime:", "SIGSEGV", "unexpected fault"))][:3]
            found.append({"kind": mode_ + " run", "what": "generated code with %s: exit status %d: %s" % (
                              "callbacks blocking under SetBlockProfileRate(1) / SetMutexProfileFraction(1) / runtime/trace / CPU profile" if mode_ == "prof"
                              else "PretouchMany batch + tracebacks resolving function names", rc, " | ".join(fatal) or "no OK line"),
                          "command": "h_c10 -mode %s -n %d -seed %d" % (mode_, k, ctx.seed), "env": env, "output": out[:1500] + "\n...\n" + out[-1500:]})
    stats["profiler_and_name_runs"] = extra_runs
    for env, k in envs:
        gargs = ["-mode", "gc", "-n", str(k), "-seed", str(ctx.seed)]
        # the SONIC_SYNC_GC run uses the generated encoder as well: it is the regression run of f95f464 (the encoder's debug hook
        # used to call into Go between OP_map_iter and OP_save, where the fresh map iterator is held in a register only)
        rc, out = harness(gargs, timeout=(400 if not thorough else 2400), env=env)
        m = re.search(r"^OK rounds=(\d+) callbacks=(\d+) frames=(\d+) jit_frames=(\d+)", out, re.M)
        gc_runs.append({"env": env, "n": k, "rc": rc, "ok": bool(m) and rc == 0,
                        "rounds": int(m.group(1)) if m else 0, "callbacks": int(m.group(2)) if m else 0, "jit_frames": int(m.group(4)) if m else 0})
        if not (m and rc == 0):
            tail = "\n".join(l for l in out.splitlines() if " Intrs " not in l)[-3000:]
            found.append({"kind": "gc stress", "what": "generated code under %s: exit status %d, %s" % (env, rc, "value mismatch" if "MISMATCH" in out else "crash / fatal error"),
                          "command": "h_c10 " + " ".join(gargs), "env": env, "output": tail})
    stats["gc_stress"] = gc_runs

    # ---- coverage
    ev = sum(s.get("probes", 0) for s in stats.values() if isinstance(s, dict)) + len(scases) + sum(g["callbacks"] for g in gc_runs)
    ctx.cov["evaluations"] = ev
    ctx.cov["distinct_nontrivial"] = trep["distinct_nontrivial"] + len(set(jcases)) + len(set(scases))
    ctx.cov["traces_validated_against_impl"] = (len(cases) + len(lcases) + len(scases) + len(jcases) + len(fcases)) if mok else 0
    ctx.cov["rule"] = ("one evaluation = one pc looked up in one table (model, real MarshalBinary + transcribed decoder, and for line tables the real runtime), "
                       "one stack map, or one callback executed under generated frames with a forced collection, a traceback and a stack growth; "
                       "distinct = distinct non-empty table / bit list / generated function table")
    ctx.cov["distribution"] = {"table_kinds": trep["kinds"], "table_sizes": trep["sizes"], "details": stats}
    ctx.sample({"real_decoder_table": jcases[0] if jcases else None, "bytes": jimpl[0] if jimpl else None})
    ctx.sample({"skip_rule_witness": stats["skip_rule_witness"]})

    if skip_reproduced:
        if KF_SKIP in known:
            ctx.known(KF_SKIP, known[KF_SKIP]["signature"])
        else:
            found.append({"kind": "skip rule", "what": "legal ascending table with equal neighbouring values: the real runtime returns the NEXT range's value", **stats["skip_rule_witness"]})
    for f in found[:4]:
        ctx.violation("%s: %s" % (f["kind"], f["what"]), f, True)
    if problems and not ctx.violations:
        ctx.violation("; ".join("%s: %s" % p for p in problems)[:3000],
                      {"broken": [p[1][:2000] for p in problems], "theorem_file": "coq/theories/Props/C10.v",
                       "searched": "%d table probes, %d stack maps, %d generated functions, %d GC-stress callbacks" %
                                   (stats["random_tables"]["probes"] + stats["line_tables_real_runtime"]["probes"], len(scases), len(jcases), sum(g["callbacks"] for g in gc_runs))}, False)
