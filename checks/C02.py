"""C02 - No structurally malformed JSON is accepted; no valid JSON is rejected."""
import collections
import json
import os
import time

from . import common as c
from . import C02_lib as L

SUPPORT = ["Json/Chars.v", "Json/StrScan.v", "Json/NumScan.v", "Json/Fsm.v", "Json/Grammar.v", "Json/Lang.v",
           "Json/StrScanProofs.v", "Json/NumScanProofs.v", "Json/FsmProofs.v", "Json/FsmSound.v",
           "Json/FsmComplete.v", "Json/Wrappers.v", "Json/Fast.v", "Json/FastProofs.v", "Json/VsProofs.v", "Json/GenComplete.v", "Json/BitTrick.v",
           "Json/M0MaskList.v", "Json/M0MaskWord.v", "Json/M0Block.v", "Json/AdvanceNsBlocked.v", "Json/NumBlocked.v"]

CLAIM = {
    "gens": [],
    "category": "proof",
    "text": ("Coq theorems over an executable Gallina transcription of the validating state machine of native/scanning.h "
             "(fsm_exec_1, fsm_push, advance_ns, advance_dword, skip_string_1 -> advance_string_default in its blocked form, "
             "skip_positive_1/skip_negative_1 -> do_skip_number + check_index) and of the Go wrappers alg.Valid / CheckTrailings: "
             "stack bound 0 <= sp <= MAX_RECURSE, fuel sufficiency, soundness (acceptance => the consumed span is a value of the "
             "structural grammar sval) and completeness (every sval value whose stack need is <= MAX_RECURSE, in particular every "
             "strict RFC 8259 value of depth < MAX_RECURSE, is accepted with exactly its span), Valid <-> blank* value blank*. "
             "The blocked string-terminator search is proved equal to the scalar scan except on the recorded defect class "
             "(uninitialised `ch`), for which a refutation witness is proved. The non-validating skippers (skip_one_fast family) are "
             "proved to stop at the end of every structurally valid value (after a number: inside the blanks that follow it). The "
             "string-validating variant (MASK_VALIDATE_STRING, ConfigStd) is modelled (advance_string_validate) and proved to accept a subset "
             "of the default variant with the same spans, hence sound without exception, and complete for strict RFC 8259 documents of depth < MAX_RECURSE. The model is tied to the shipped code (both SIMD blobs "
             "and every consuming Go API) by a correspondence run on generated documents; every API is also compared with the "
             "two-sided oracle of the property (relaxed structural reference validator / encoding/json.Valid)."),
    "note": ("Trusted: Coq kernel, extraction + OCaml driver, the Go harness incl. its relaxed reference validator, encoding/json.Valid. "
             "The per-block bit trick (m0_mask) and the 16/32-byte rounds of do_skip_number / lspace are modelled at the level of their "
             "scalar specification and only tied by the correspondence run. Decoders other than the FSM (jitdec value parsers, ast.Parser) "
             "are compared with the oracle only."),
    "technique": "Coq proof over a hand-transcribed executable model + extracted-model correspondence run + two-sided differential oracle",
}


def _read_cases(path):
    cases = collections.OrderedDict()
    for l in open(path):
        f = l.rstrip("\n").split("\t")
        if len(f) >= 3:
            cases[f[0]] = (f[1], b"" if f[2] == "-" else bytes.fromhex(f[2]))
    return cases


def run(ctx):
    ctx.level = "proof"
    ctx.trusted = c.TRUSTED_COMMON + [
        c.TRUSTED_EXTRACT,
        "the relaxed structural reference validator in harness/cmd/c02 (RFC 8259 structure, string bodies = bytes with backslash pairs) and encoding/json.Valid as the two oracles",
        "hand transcription of native/scanning.h into coq/theories/Json/{Fsm,StrScan,NumScan}.v (tied to the shipped blobs only by the correspondence run)",
    ]
    ctx.assumptions = [
        "the executable model uses the scalar specifications of advance_ns/lspace_1, of the per-block step of advance_string_default and of the rounds of do_skip_number; Coq proves the blocked transcriptions equal to them, the correspondence run (length sweeps around 16/32/64-byte multiples) ties both to the shipped blobs",
        "error positions (*p on failure) are not modelled; only accept/reject, the error code and the accepted span are compared",
        "string contents (escapes, control characters, UTF-8) are outside the accept-set theorems, as the property allows",
        "the vector rounds are proved equal to the scalar specifications over hand transcriptions of the C text: m0_mask (every even width <= 64), the string round (movemask + m0_mask + ctz), advance_ns/lspace (cascade of Simd/Blocked.v), do_skip_number rounds (masks read as popcount / ctz of the prefix: check_bits as `two occurrences`, not at the N level); the SIMD intrinsics themselves (cmpeq/movemask/pshufb, clmul of get_string_maskx64) are read by their documented meaning",
        "Unmarshal into Go types, ast.Loads and the stream of jitdec value parsers are compared with the two-sided oracle only (no model)",
    ]
    tm = {}
    t0 = time.time()
    p_ok = c.standard_P(ctx, CLAIM["gens"], SUPPORT)
    tm["P"] = round(time.time() - t0, 1)
    problems = []
    if not p_ok:
        problems.append(("P", getattr(ctx, "p_fail", "proof half failed")))

    ok, hb = c.build_harness("c02")
    if not ok:
        ctx.violation("harness does not build against the repository: " + hb[-1500:], {"build": hb}, False)
        return
    work = os.path.join(c.BUILD, "work", "C02")
    os.makedirs(work, exist_ok=True)
    casef, implf, modelf = (os.path.join(work, x) for x in ("cases.txt", "impl.txt", "model.txt"))

    if ctx.replay:
        rp = json.load(open(ctx.replay))
        hx = rp.get("replay", {}).get("input_hex", "-")
        open(casef, "w").write("1\treplay\t%s\n" % hx)
    else:
        c.sh([hb, "-mode", "gen", "-tier", ctx.tier, "-seed", str(ctx.seed), "-corpus", os.path.join(c.ROOT, "corpus", "C02"),
              "-cases", casef], env=c.GOENV, timeout=600)
    t0 = time.time()
    rc, out = c.sh([hb, "-mode", "run", "-cases", casef, "-out", implf], env=c.GOENV, timeout=3000, check=False)
    tm["impl_run"] = round(time.time() - t0, 1)
    if rc != 0:
        # a crash of the implementation on some input is itself a finding: locate it
        done = sum(1 for _ in open(implf)) if os.path.exists(implf) else 0
        cases = _read_cases(casef)
        keys = list(cases)
        bad = cases[keys[done]] if done < len(keys) else ("?", b"")
        ctx.violation("the implementation crashed the harness process (rc=%d): %s" % (rc, out[-600:]),
                      {"input_hex": bad[1].hex() or "-", "kind": bad[0], "output": out[-3000:]}, True)
        return
    # the same cases on the SSE dispatch (internal/native/dispatch_amd64.go: useSSE), chosen at process start
    implf_sse = os.path.join(work, "impl_sse.txt")
    t0 = time.time()
    env_sse = dict(c.GOENV)
    env_sse["SONIC_MODE"] = "noavx2"
    rc, out = c.sh([hb, "-mode", "run", "-cases", casef, "-out", implf_sse], env=env_sse, timeout=3000, check=False)
    tm["impl_run_sse"] = round(time.time() - t0, 1)
    if rc != 0:
        ctx.violation("the implementation crashed the harness process under SONIC_MODE=noavx2 (rc=%d): %s" % (rc, out[-600:]),
                      {"output": out[-3000:]}, True)
        return
    ncases = sum(1 for _ in open(casef))
    t0 = time.time()
    mok, mexe = c.build_model("C02")     # the model only needs the Json/ files: run the tie even when P is broken elsewhere
    tm["build_model"] = round(time.time() - t0, 1)
    t0 = time.time()
    if not mok:
        problems.append(("T", "model extraction failed: " + mexe[-800:]))
    have_model = False
    if mok:
        rc, out = c.sh("%s < %s > %s" % (mexe, casef, modelf), timeout=6000, check=False)
        if rc != 0:
            problems.append(("T", "model driver failed: " + out[-500:]))
        else:
            nm = sum(1 for _ in open(modelf))
            have_model = True
            if nm != ncases:
                problems.append(("T", "model driver answered %d of %d cases" % (nm, ncases)))
    tm["model_run"] = round(time.time() - t0, 1)
    t0 = time.time()

    known = {k["id"]: k for k in c.known_findings("C02")}
    kinds = collections.Counter()
    verdicts = collections.Counter()
    sizes = collections.Counter()
    seen_known = collections.Counter()
    known_example = {}
    viol, ties = [], []
    nontrivial = set()
    evals = 0
    napis = 0
    nmodel = 0
    # the files are in the same order: stream them (the thorough tier has millions of cases)
    answered = {}
    for implfile, backend in ((implf, ""), (implf_sse, "@sse")):
      fm = open(modelf) if have_model else None
      nans = 0
      with open(casef) as fc, open(implfile) as fi:
        for lc_, li in zip(fc, fi):
            f = lc_.rstrip("\n").split("\t")
            cid, kind, doc = f[0], f[1], (b"" if f[2] == "-" else bytes.fromhex(f[2]))
            iid, im = L.parse_line(li)
            mo = None
            if fm is not None:
                lm = fm.readline()
                if lm:
                    mid, mo = L.parse_line(lm)
                    if mid != cid:
                        mo = None
                    elif backend == "":
                        nmodel += 1
            if iid != cid:
                problems.append(("T", "result files out of step at case %s" % cid))
                break
            nans += 1
            napis = len(im) - 4
            evals += napis
            if backend == "":
                kinds[kind] += 1
                n = len(doc)
                sizes["<8" if n < 8 else "<32" if n < 32 else "<64" if n < 64 else "<128" if n < 128 else "<1024" if n < 1024 else ">=1024"] += 1
                verdicts["std=%s rlx=%s valid=%s" % (im["std"], im["rlx"], im["valid"])] += 1
                if n > 0:
                    nontrivial.add(hash(doc))
                if len(ctx.cov["samples"]) < 6 and int(cid) % 397 == 1:
                    ctx.sample({"doc": repr(doc[:60]), "impl_valid": im["valid"], "std": im["std"], "model": (mo or {}).get("vo")})
            for fd in L.compare_case(cid, kind, doc, im, mo, backend=backend):
                if fd.sev == "violation":
                    if len(viol) < 2000:
                        viol.append(fd)
                elif fd.sev == "tie":
                    if len(ties) < 2000:
                        ties.append(fd)
                elif fd.sev in known:
                    seen_known[fd.sev] += 1
                    known_example.setdefault(fd.sev, fd)
                else:  # a finding id that is not (or no longer) listed: treat as a violation
                    viol.append(fd)
      answered[backend] = nans
      if fm is not None:
        fm.close()
    fm = None
    if fm is not None:
        fm.close()
    if ncases > 500000:      # the thorough tier leaves > 1 GB of result files behind
        for fn in (implf, implf_sse, modelf, casef):
            try:
                os.remove(fn)
            except OSError:
                pass
    for backend, nans in answered.items():
        if nans != ncases:
            problems.append(("T", "implementation%s answered %d of %d cases" % (backend, nans, ncases)))
    tm["compare"] = round(time.time() - t0, 1)
    ctx.cov["timings_s"] = tm
    ctx.cov["evaluations"] = evals
    ctx.cov["distinct_nontrivial"] = len(nontrivial)
    ctx.cov["traces_validated_against_impl"] = nmodel
    ctx.cov["rule"] = ("one evaluation = one consuming API run on one document; documents: corpus witnesses, hand-written malformed set with every "
                       "truncation, string/number/whitespace length sweeps over every residue around 16/32/64-byte blocks (terminated, unterminated, "
                       "escapes straddling block ends), nesting probes at 1..3 and 4094..4098, exhaustive strings over a 12-token alphabet, "
                       "grammar-generated valid documents and their structural mutations; non-trivial = distinct non-empty document")
    ctx.cov["distribution"] = {"kinds": dict(kinds), "sizes": dict(sizes), "verdicts": dict(verdicts),
                               "apis_per_case": napis, "backends": ["default dispatch (avx2 on this machine)", "SONIC_MODE=noavx2 (sse dispatch)"],
                               "known_finding_hits": dict(seen_known)}
    for fid in sorted(seen_known):
        f = known_example[fid]
        ctx.known(fid, "%s (%d API evaluations, e.g. %s on %r)" % (known[fid]["signature"][:160], seen_known[fid], f.api, f.doc[:40]))

    # violations with a concrete failing input (oracle side) first, at most a few per API
    per_api = collections.Counter()
    for f in sorted(viol, key=lambda f: len(f.doc)):
        if per_api[f.api] >= 1 or len(ctx.violations) >= 5:
            continue
        per_api[f.api] += 1
        ctx.violation("%s: %s on %r" % (f.api, f.what, f.doc[:80]), f.payload(), True)
    if ties and not ctx.violations:
        # model and implementation disagree although the oracle comparison is clean: the correspondence is broken.
        # The disagreeing input is concrete, and the model is proved sound and complete for the structural grammar,
        # so the implementation differs from the proved accept set on this input.
        for f in sorted(ties, key=lambda f: len(f.doc))[:3]:
            ctx.violation("model/implementation disagreement: %s: %s (implementation: %s) on %r" % (f.api, f.what, f.detail, f.doc[:80]),
                          f.payload(), True)
    ctx.cov["oracle_violations"] = len(viol)
    ctx.cov["model_disagreements"] = len(ties)
    if problems and not ctx.violations:
        ctx.violation("; ".join("%s: %s" % p for p in problems)[:3000],
                      {"broken": [p[1] for p in problems], "theorem_file": "coq/theories/Props/C02.v",
                       "searched": "%d API evaluations on %d documents, no oracle violation" % (evals, ncases)}, False)
