(* C19 - Numbers convert exactly in both directions.
   Only statements, closed by `exact`, with Print Assumptions beneath each. *)
From Coq Require Import ZArith NArith Bool List.
From SV.Gen Require Import NumTables.
From SV.Num Require Import RangeGen.
From SV.Num Require Import Dec IntParse NumGrammar Range IntPrint RangeProofs IntParseProofs NumGrammarProofs
  SkipNumberProofs IntPrintProofs IntPrintExact FloatCheck FloatSpec FloatCheckProofs FloatCheckSound
  FloatInterval ShortestSound FloatComplete ShortestComplete
  FloatFmt FloatFmtProofs WriteDecDenotes FloatFmt32Proofs WriteDecGrammar FloatShortcut VNumber VNumberScan VNumberLiteral Api Refuted.
Import ListNotations.
Open Scope Z_scope.

(* ---- integer parsing (model of native `vinteger`: vsigned.c / vunsigned.c) -------------------------
   For every integer literal [lit] (grammar: json_int) placed at any offset and followed by anything that is
   not a digit: a following '.', 'e', 'E' is rejected; otherwise the result is exactly the literal's value
   when it fits int64, and the overflow error when it does not.  Never wraps, never truncates. *)
Theorem C19_vsigned_exact : forall pre lit rest oob,
  json_int lit -> starts_digit rest = false ->
  let r := vsigned (pre ++ lit ++ rest) oob (length pre) in
  let v := int_lit_val lit in
  (starts_dot_or_exp rest = true -> v_vt r < 0) /\
  (starts_dot_or_exp rest = false -> in_i64 v -> r = mkV V_INTEGER (length pre + length lit)%nat v) /\
  (starts_dot_or_exp rest = false -> ~ in_i64 v -> v_vt r = - ERR_OVERFLOW).
Proof. exact vsigned_exact. Qed.
Print Assumptions C19_vsigned_exact.

Theorem C19_vunsigned_exact : forall pre ip rest oob,
  int_part ip -> starts_digit rest = false ->
  let r := vunsigned (pre ++ ip ++ rest) oob (length pre) in
  let v := dec_val ip in
  (starts_dot_or_exp rest = true -> v_vt r < 0) /\
  (starts_dot_or_exp rest = false -> in_u64 v -> r = mkV V_INTEGER (length pre + length ip)%nat v) /\
  (starts_dot_or_exp rest = false -> ~ in_u64 v -> v_vt r = - ERR_OVERFLOW).
Proof. exact vunsigned_exact. Qed.
Print Assumptions C19_vunsigned_exact.

(* conversely, on ANY input and offset, V_INTEGER is reported only for an integer literal, with its exact value *)
Theorem C19_vsigned_sound : forall s oob p r, vsigned s oob p = r -> v_vt r = V_INTEGER ->
  exists lit rest, skipn p s = lit ++ rest /\ json_int lit /\ v_p r = (p + length lit)%nat /\
                   v_iv r = int_lit_val lit /\ in_i64 (v_iv r) /\ starts_dot_or_exp rest = false /\
                   (starts_digit rest = true -> lit = [c_0] \/ lit = [c_minus; c_0]).
Proof. exact vsigned_sound. Qed.
Print Assumptions C19_vsigned_sound.

Theorem C19_vunsigned_sound : forall s oob p r, vunsigned s oob p = r -> v_vt r = V_INTEGER ->
  exists ip rest, skipn p s = ip ++ rest /\ int_part ip /\ v_p r = (p + length ip)%nat /\
                  v_iv r = dec_val ip /\ in_u64 (v_iv r) /\ starts_dot_or_exp rest = false /\
                  (starts_digit rest = true -> ip = [c_0]).
Proof. exact vunsigned_sound. Qed.
Print Assumptions C19_vunsigned_sound.

Example C19_vsigned_nonvacuous :
  json_int [45;49;50;56]%N /\ vsigned [45;49;50;56]%N 0%N 0 = mkV V_INTEGER 4 (-128) /\
  v_vt (vsigned [57;50;50;51;51;55;50;48;51;54;56;53;52;55;55;53;56;48;56]%N 0%N 0) = - ERR_OVERFLOW.
Proof. split; [apply ji_neg, ip_nz; reflexivity|split; reflexivity]. Qed.

(* ---- narrow destinations (jitdec range checks + narrow store) ------------------------------------ *)
Theorem C19_narrow_range_exact_signed : forall w iv, width_ok w -> - 2 ^ 63 <= iv < 2 ^ 63 ->
  (signed_ok w iv = true <-> - 2 ^ (w - 1) <= iv <= 2 ^ (w - 1) - 1) /\
  (signed_ok w iv = true -> store_signed w iv = iv).
Proof. exact narrow_signed_exact. Qed.
Print Assumptions C19_narrow_range_exact_signed.

Theorem C19_narrow_range_exact_unsigned : forall w u, width_ok w -> 0 <= u < 2 ^ 64 ->
  (unsigned_ok w u = true <-> u <= 2 ^ w - 1) /\
  (unsigned_ok w u = true -> store_unsigned w u = u).
Proof. exact narrow_unsigned_exact. Qed.
Print Assumptions C19_narrow_range_exact_unsigned.

(* the same statement over the constants the assembler actually passes: op_i8 ... op_map_key_u64 are regenerated
   from _asm_OP_* of internal/decoder/jitdec/assembler_regabi_amd64.go on every run (Gen/NumTables.v); editing a
   bound or swapping a range routine there changes these definitions and breaks the proof *)
Theorem C19_narrow_range_exact_signed_gen : forall w c iv, In (w, c) signed_ops -> - 2 ^ 63 <= iv < 2 ^ 63 ->
  (check_of c iv = true <-> - 2 ^ (w - 1) <= iv <= 2 ^ (w - 1) - 1) /\
  (check_of c iv = true -> store_signed w iv = iv).
Proof. exact gen_narrow_signed_exact. Qed.
Print Assumptions C19_narrow_range_exact_signed_gen.

Theorem C19_narrow_range_exact_unsigned_gen : forall w c u, In (w, c) unsigned_ops -> 0 <= u < 2 ^ 64 ->
  (check_of c u = true <-> u <= 2 ^ w - 1) /\
  (check_of c u = true -> store_unsigned w u = u).
Proof. exact gen_narrow_unsigned_exact. Qed.
Print Assumptions C19_narrow_range_exact_unsigned_gen.

(* bounds handed to CMPQ as immediates survive the sign extension of imm32 (the defect fixed by afd5482),
   and the range routines emit exactly the compare/jump sequences modelled in Num/Range.v *)
Theorem C19_range_immediates_fit : forallb (fun p => imm_fits (snd p)) (signed_ops ++ unsigned_ops) = true.
Proof. exact immediates_fit. Qed.
Print Assumptions C19_range_immediates_fit.

(* native/tab.h Digits (regenerated) is the two-digit table of the printer model *)
Theorem C19_digits_table : List.length Digits_tab = 200%nat /\
  forallb (fun i => (nth i Digits_tab 0%N =? Digits (Z.of_nat i))%N) (nrange 200) = true.
Proof. exact gen_digits_table. Qed.
Print Assumptions C19_digits_table.

Example C19_narrow_range_nonvacuous : width_ok 8 /\ signed_ok 8 (-128) = true /\ signed_ok 8 128 = false.
Proof. split; [left; reflexivity | vm_compute; auto]. Qed.

(* ---- the number grammar ---------------------------------------------------------------------------- *)
(* skip_number_1 / do_skip_number accept exactly the JSON number grammar (json_number is the inductive
   definition of RFC 8259 section 6 in Num/Dec.v): whatever is accepted is a number ... *)
Theorem C19_number_grammar_sound : forall s p ret np, skip_number s p = (ret, np) -> 0 <= ret ->
  ret = Z.of_nat p /\
  exists lit rest, skipn p s = lit ++ rest /\ json_number lit /\ np = Z.of_nat p + Z.of_nat (length lit).
Proof. exact skip_number_sound. Qed.
Print Assumptions C19_number_grammar_sound.

(* ... and every number, at any offset, followed by a byte that cannot continue a number, is accepted whole *)
Theorem C19_number_grammar_complete : forall pre lit rest, json_number lit -> terminated rest ->
  skip_number (pre ++ lit ++ rest) (length pre) =
    (Z.of_nat (length pre), Z.of_nat (length pre) + Z.of_nat (length lit)).
Proof. exact skip_number_complete. Qed.
Print Assumptions C19_number_grammar_complete.

(* alg.IsValidNumber (guards json.Number in both encoders) decides exactly the grammar *)
Theorem C19_is_valid_number_spec : forall s, is_valid_number s = true <-> json_number s.
Proof. exact is_valid_number_spec. Qed.
Print Assumptions C19_is_valid_number_spec.

Example C19_number_grammar_nonvacuous :
  json_number [45;49;46;53;101;43;51]%N /\ terminated [44]%N /\ skip_number [91;45;49;46;53;101;43;51;44]%N 1 = (1, 8).
Proof. split; [apply is_valid_number_spec; reflexivity|split; reflexivity]. Qed.

(* ---- integer printing (model of native/fastint.h) ---------------------------------------------------- *)
(* the digit-pair / SSE2 algorithm prints the canonical decimal of every 64-bit value ... *)
Theorem C19_u64toa_exact : forall v, 0 <= v < 2 ^ 64 -> u64toa v = canon_dec v.
Proof. exact u64toa_exact. Qed.
Print Assumptions C19_u64toa_exact.

Theorem C19_i64toa_exact : forall v, - 2 ^ 63 <= v < 2 ^ 63 -> i64toa v = canon_int v.
Proof. exact i64toa_exact. Qed.
Print Assumptions C19_i64toa_exact.

(* ... which consists of digits only, denotes v, has no leading zero, and is the shortest such text ... *)
Theorem C19_canon_dec_canonical : forall v, 0 <= v -> canonical (canon_dec v) v.
Proof. exact canon_dec_digits. Qed.
Print Assumptions C19_canon_dec_canonical.

Theorem C19_canon_dec_shortest : forall v l, 0 <= v -> all_digits l = true -> l <> [] -> dec_val l = v ->
  (length (canon_dec v) <= length l)%nat.
Proof. exact canon_dec_shortest. Qed.
Print Assumptions C19_canon_dec_shortest.

(* ... and parses back to the same value through the integer parsers above *)
Theorem C19_u64toa_parses_back : forall v oob, 0 <= v < 2 ^ 64 ->
  vunsigned (u64toa v) oob 0 = mkV V_INTEGER (length (u64toa v)) v.
Proof. exact u64toa_parses_back. Qed.
Print Assumptions C19_u64toa_parses_back.

Theorem C19_i64toa_parses_back : forall v oob, - 2 ^ 63 <= v < 2 ^ 63 ->
  vsigned (i64toa v) oob 0 = mkV V_INTEGER (length (i64toa v)) v.
Proof. exact i64toa_parses_back. Qed.
Print Assumptions C19_i64toa_parses_back.

(* ---- decimal <-> binary floating point: verified per-output checkers --------------------------------
   Specification (Num/FloatSpec.v, integers only): a real is a fraction N/D scaled by 2^-emin; is_rne f N D k says
   that the float k is nearest to N/D among all floats of precision prec (unbounded exponent) and that on a tie
   its canonical significand is even; rounds_to_spec adds the IEEE overflow rule.
   The statements for ALL inputs - `eisel_lemire_correct` (vnumber returns the correctly rounded double for every
   literal) and `schubfach_shortest` (f64toa/f32toa print the shortest closest decimal for every float) - are
   NOT proved.  What is proved: the executable checkers are sound, so every implementation output that the
   correspondence run feeds through them and that they accept is correct in the sense of the specification. *)

(* core: whenever the rounding function returns a value (its self-check did not fail) it is the correctly
   rounded result of num/den, for every well-formed format *)
Theorem C19_checker_sound_rne : forall f num den res, wf_fmt f -> 0 <= num -> 0 < den ->
  rne_frac f num den = res -> res <> RBad -> rounds_to_spec f (num * 2 ^ (- emin f)) den res.
Proof. exact checker_sound_rne. Qed.
Print Assumptions C19_checker_sound_rne.

(* parsing direction: if nearest_double_check accepts (literal, overflow flag, bit pattern) then the bit pattern
   denotes the round-to-nearest-even double of the literal's exact value (resp. the literal overflows) *)
Theorem C19_nearest_check_sound : forall f lit inf bits, wf_fmt f ->
  let v := lit_decode lit in
  in_window (lv_man v) (lv_exp v) ->
  nearest_check f lit inf bits = true ->
  let '(N, D) := scaled_dec f (lv_man v) (lv_exp v) in
  if inf then rounds_to_spec f N D RInf
  else exists k b, bits = b + (if lv_neg v then sign_bit f else 0) /\ 0 <= b /\
                   k_of_bits f b = Some k /\ rounds_to_spec f N D (RFin k).
Proof. exact nearest_check_sound. Qed.
Print Assumptions C19_nearest_check_sound.

(* printing direction, full statement: if shortest_roundtrip_check accepts (bits, sig, exp) then bits is a finite
   non-zero float k, sig*10^exp converts back to k (RTd: round-to-nearest-even of the exact decimal, IEEE overflow
   rule), no decimal with fewer significant digits converts to k, and among the decimals with the same number of
   digits that convert to k none is nearer to k.  Quantified over ALL decimals sig' * 10^exp'. *)
Theorem C19_shortest_check_sound : forall f abits sig exp, wf_fmt f ->
  shortest_check f abits sig exp = true ->
  exists k, k_of_bits f abits = Some k /\ 0 < k /\ 0 < sig /\ sig mod 10 <> 0 /\
    RTd f k sig exp /\
    (forall sig' exp', 0 < sig' -> RTd f k sig' exp' -> ndig sig <= ndig sig') /\
    (forall sig' exp', 0 < sig' -> ndig sig' = ndig sig -> RTd f k sig' exp' -> closer f k sig exp sig' exp').
Proof. exact shortest_check_sound. Qed.
Print Assumptions C19_shortest_check_sound.

(* the rounding specification is a function: a real has at most one round-to-nearest-even image *)
Theorem C19_is_rne_unique : forall f N D k1 k2, 2 <= prec f -> 0 < D -> is_rne f N D k1 -> is_rne f N D k2 -> k1 = k2.
Proof. exact is_rne_unique'. Qed.
Print Assumptions C19_is_rne_unique.

(* completeness: the rounding function never gives up (its self-check cannot fail), and the parsing-direction
   checker accepts every correctly rounded (literal, bits) pair: it is a decision procedure for the specification
   inside the exponent window; likewise shortest_check accepts every decimal that satisfies the three clauses of
   C19_shortest_check_sound (so the checkers cannot raise a false alarm). *)
Theorem C19_rne_frac_complete : forall f num den, wf_fmt f -> 0 < num -> 0 < den -> rne_frac f num den <> RBad.
Proof. exact rne_frac_complete. Qed.
Print Assumptions C19_rne_frac_complete.

Theorem C19_nearest_check_complete : forall f lit inf bits, wf_fmt f ->
  let v := lit_decode lit in
  in_window (lv_man v) (lv_exp v) ->
  (let '(N, D) := scaled_dec f (lv_man v) (lv_exp v) in
   match inf return Prop with
   | true => rounds_to_spec f N D RInf
   | false => exists k b, bits = b + (if lv_neg v then sign_bit f else 0) /\ 0 <= b /\
                          k_of_bits f b = Some k /\ rounds_to_spec f N D (RFin k)
   end) ->
  nearest_check f lit inf bits = true.
Proof. exact nearest_check_complete. Qed.
Print Assumptions C19_nearest_check_complete.

Theorem C19_shortest_check_complete : forall f abits sig exp k, wf_fmt f ->
  k_of_bits f abits = Some k -> 0 < k -> 1 <= sig -> sig mod 10 <> 0 ->
  -398 <= exp + ndig sig <= 398 ->
  RTd f k sig exp ->
  (forall sig' exp', 0 < sig' -> RTd f k sig' exp' -> ndig sig <= ndig sig') ->
  (forall sig' exp', 0 < sig' -> ndig sig' = ndig sig -> RTd f k sig' exp' -> closer f k sig exp sig' exp') ->
  shortest_check f abits sig exp = true.
Proof. exact shortest_check_complete. Qed.
Print Assumptions C19_shortest_check_complete.

Example C19_checker_nonvacuous :
  wf_fmt f64 /\ wf_fmt f32 /\ in_window 1 (-1) /\
  nearest_double_check [48;46;49]%N false 4591870180066957722 = true /\
  nearest_double_check [48;46;49]%N false 4591870180066957723 = false.
Proof.
  split; [exact wf_f64|]. split; [exact wf_f32|]. split; [right; vm_compute; split; discriminate|].
  split; vm_compute; reflexivity.
Qed.

(* ---- float printing: the notation part of f64toa.c (write_dec) ----------------------------------------
   Given the decimal (sig, exp) chosen by the shortest-digits search, the 8/4/2-digit chunking through the
   Digits table emits exactly the canonical digits of sig (format_integer) resp. the same digits up to trailing
   zeros (format_significand, which skips the low eight digits when they are all zero), ctz10 is the digit count,
   hence write_dec equals the same layout function over the canonical digit string (write_dec_ideal):
   exponent form `d[.ddd]e(+|-)X` iff the scientific exponent X = ndigits + exp - 1 is < -6 or > 20 (the rule of
   encoding/json: strconv 'e' format iff x < 1e-6 or x >= 1e21), otherwise plain decimal.
   write_dec_denotes: the emitted text, read back by lit_decode (sign, mantissa m, exponent e), denotes exactly
   sig * 10^exp (m * 10^a = sig * 10^b with e - a = exp - b), for every scientific exponent in (-1000, 1000).
   The same holds for the float32 routine (f32toa.c: 4 + 2 digit groups, ctz10_u32), sig < 10^9. *)
Theorem C19_format_integer_exact : forall sig, 1 <= sig < 10 ^ 17 -> format_integer sig = canon_dec sig.
Proof. exact format_integer_exact. Qed.
Print Assumptions C19_format_integer_exact.

Theorem C19_format_significand_exact : forall sig, 1 <= sig < 10 ^ 17 ->
  strip_trailing_zeros (format_significand sig) = strip_trailing_zeros (canon_dec sig).
Proof. exact format_significand_strip. Qed.
Print Assumptions C19_format_significand_exact.

Theorem C19_write_dec_layout_partial : forall sig exp, 1 <= sig < 10 ^ 17 ->
  write_dec_f64 sig exp = write_dec_ideal sig exp /\
  ctz10 sig = Z.of_nat (length (canon_dec sig)).
Proof. exact write_dec_layout. Qed.
Print Assumptions C19_write_dec_layout_partial.

Theorem C19_write_dec_denotes : forall sig exp, 1 <= sig < 10 ^ 17 ->
  let sci := ctz10 sig + exp - 1 in
  -1000 < sci < 1000 ->
  denotes (write_dec_f64 sig exp) sig exp /\
  uses_exponent (write_dec_f64 sig exp) = ((sci <? -6) || (20 <? sci)).
Proof. exact write_dec_f64_denotes. Qed.
Print Assumptions C19_write_dec_denotes.

Theorem C19_write_dec_f32_denotes : forall sig exp, 1 <= sig < 10 ^ 9 ->
  let sci := ctz10_u32 sig + exp - 1 in
  -1000 < sci < 1000 ->
  denotes (write_dec_f32 sig exp) sig exp /\
  uses_exponent (write_dec_f32 sig exp) = ((sci <? -6) || (20 <? sci)).
Proof. exact write_dec_f32_denotes. Qed.
Print Assumptions C19_write_dec_f32_denotes.

Theorem C19_format_u32_exact : forall sig, 1 <= sig < 10 ^ 9 ->
  format_integer_u32 sig = canon_dec sig /\
  strip_trailing_zeros (format_significand_f32 sig) = strip_trailing_zeros (canon_dec sig) /\
  ctz10_u32 sig = Z.of_nat (length (canon_dec sig)).
Proof. exact format_u32_exact. Qed.
Print Assumptions C19_format_u32_exact.

Example C19_write_dec_examples :
  write_dec_f64 1 21 = [49;101;43;50;49]%N /\                         (* 1e+21 *)
  write_dec_f64 1 20 = [49;48;48;48;48;48;48;48;48;48;48;48;48;48;48;48;48;48;48;48;48]%N /\
  write_dec_f64 1 (-6) = [48;46;48;48;48;48;48;49]%N /\               (* 0.000001 *)
  write_dec_f64 1 (-7) = [49;101;45;55]%N /\                          (* 1e-7 *)
  write_dec_f64 15 (-1) = [49;46;53]%N /\ write_dec_f64 12345 (-12) = [49;46;50;51;52;53;101;45;56]%N.
Proof. repeat split; reflexivity. Qed.

(* ---- the printed float text is always a JSON number (link to C04: Marshal's float output is well formed) ----
   for every (sig, exp) the shortest-digits search can return, write_dec's text - with or without the leading minus
   that f64toa/f32toa emit - is in the grammar, IsValidNumber accepts it and skip_number skips exactly it *)
Theorem C19_write_dec_f64_json_number : forall sig exp, 1 <= sig < 10 ^ 17 ->
  -1000 < ctz10 sig + exp - 1 < 1000 -> unsigned_number (write_dec_f64 sig exp).
Proof. exact write_dec_f64_json_number. Qed.
Print Assumptions C19_write_dec_f64_json_number.

Theorem C19_write_dec_f32_json_number : forall sig exp, 1 <= sig < 10 ^ 9 ->
  -1000 < ctz10_u32 sig + exp - 1 < 1000 -> unsigned_number (write_dec_f32 sig exp).
Proof. exact write_dec_f32_json_number. Qed.
Print Assumptions C19_write_dec_f32_json_number.

Theorem C19_float_text_accepted : forall (t : list N) (neg : bool) (pre rest : list N), unsigned_number t -> terminated rest ->
  let text := if neg then c_minus :: t else t in
  json_number text /\ is_valid_number text = true /\
  skip_number (pre ++ text ++ rest) (length pre) = (Z.of_nat (length pre), Z.of_nat (length pre) + Z.of_nat (length text)).
Proof. exact float_text_accepted. Qed.
Print Assumptions C19_float_text_accepted.

(* ---- the checkers without the exponent window (float64 and float32): the shortcut of rne_dec for decimal
   exponents beyond +-400 is sound (infinite resp. zero), so nearest_check is sound and complete for EVERY literal *)
Theorem C19_rne_dec_sound_all : forall f m e, std_fmt f -> 0 <= m ->
  let '(N, D) := scaled_dec f m e in rounds_to_spec f N D (rne_dec f m e).
Proof. exact rne_dec_sound_all. Qed.
Print Assumptions C19_rne_dec_sound_all.

Theorem C19_nearest_check_sound_all : forall f lit inf bits, std_fmt f ->
  let v := lit_decode lit in
  nearest_check f lit inf bits = true ->
  let '(N, D) := scaled_dec f (lv_man v) (lv_exp v) in
  if inf then rounds_to_spec f N D RInf
  else exists k b, bits = b + (if lv_neg v then sign_bit f else 0) /\ 0 <= b /\
                   k_of_bits f b = Some k /\ rounds_to_spec f N D (RFin k).
Proof. exact nearest_check_sound_all. Qed.
Print Assumptions C19_nearest_check_sound_all.

Theorem C19_nearest_check_complete_all : forall f lit inf bits, std_fmt f ->
  let v := lit_decode lit in
  (let '(N, D) := scaled_dec f (lv_man v) (lv_exp v) in
   match inf return Prop with
   | true => rounds_to_spec f N D RInf
   | false => exists k b, bits = b + (if lv_neg v then sign_bit f else 0) /\ 0 <= b /\
                          k_of_bits f b = Some k /\ rounds_to_spec f N D (RFin k)
   end) ->
  nearest_check f lit inf bits = true.
Proof. exact nearest_check_complete_all. Qed.
Print Assumptions C19_nearest_check_complete_all.

Example C19_std_formats : std_fmt f64 /\ std_fmt f32.
Proof. split; [exact std_f64|exact std_f32]. Qed.

(* ---- vnumber's scanning part: the input contract of atof_fast / Eisel-Lemire ---------------------------------
   for every number literal  ip [. fp] [e [+-] ed]  (exponent digits < 10000) followed by a byte that cannot
   continue a number: the scan ends at the end of the literal, reports '.'/exponent correctly, and its triple
   (man, exp10, trunc) brackets the literal's exact value  lv_man * 10^lv_exp :
       man * 10^q <= lv_man < (man + 1) * 10^q,  exp10 = lv_exp + q,
   with q = 0 (exact) when trunc = false, and a full 19-digit mantissa when trunc = true *)
Theorem C19_vnumber_scan_denotes : forall ip dot ex rest i0 n,
  int_part ip ->
  match dot with Some fp => digits1 fp | None => True end ->
  match ex with Some (_, ed) => digits1 ed /\ dec_val ed < 10000 | None => True end ->
  terminated rest ->
  exists sc q, vnumber_scan (shape ip dot ex ++ rest) i0 n = inr sc /\ 0 <= q /\
    let v := lit_decode (shape ip dot ex) in
    sc_end sc = (i0 + length (shape ip dot ex))%nat /\
    sc_dbl sc = is_some dot /\ sc_exp sc = is_some ex /\
    sc_man sc * 10 ^ q <= lv_man v < (sc_man sc + 1) * 10 ^ q /\
    sc_exp10 sc = lv_exp v + q /\
    (sc_trunc sc = false -> q = 0) /\
    (sc_trunc sc = true -> 10 ^ 18 <= sc_man sc < 10 ^ 19).
Proof. exact vnumber_scan_denotes. Qed.
Print Assumptions C19_vnumber_scan_denotes.

(* the whole model of vnumber_1 on a literal (optional minus, any following terminator, any out-of-bounds byte):
   it answers V_INTEGER exactly for integer literals inside int64, with the exact value and end position; every
   other literal is handed to the float conversion (float_result = the correctly rounded double / -ERR_FLOAT_INF
   of the specification; the running code is compared with it per input, see the refuted clause for "-0") *)
Theorem C19_vnumber_on_literal : forall (neg : bool) ip dot ex rest oob,
  int_part ip ->
  match dot with Some fp => digits1 fp | None => True end ->
  match ex with Some (_, ed) => digits1 ed /\ dec_val ed < 10000 | None => True end ->
  terminated rest ->
  let u := shape ip dot ex in
  let lit := if neg then c_minus :: u else u in
  let s := lit ++ rest in
  let r := vnumber s oob 0 in
  let is_int := negb (is_some dot) && negb (is_some ex) in
  (is_int = true -> in_i64_lit neg (dec_val ip) ->
     n_vt r = V_INTEGER /\ n_p r = length lit /\ n_iv r = (if neg then - dec_val ip else dec_val ip)) /\
  ((is_int = false \/ ~ in_i64_lit neg (dec_val ip)) -> r = float_result s 0 (length lit)).
Proof. exact vnumber_on_literal. Qed.
Print Assumptions C19_vnumber_on_literal.

(* ---- refuted clauses (the pinned code violates the property; witnesses replayed in the correspondence run,
   recorded as KF-C19-negzero-literal and KF-C19-f32-double-rounding) ---------------------------------------- *)
Theorem C19_negzero_literal_refuted :
  exists lit, nearest_bits f64 lit = BBits (2 ^ 63) /\ n_vt (vnumber lit 0%N 0) = V_INTEGER /\ n_dv (vnumber lit 0%N 0) = 0.
Proof. exact vnumber_negzero_refuted. Qed.
Print Assumptions C19_negzero_literal_refuted.

Theorem C19_float32_double_rounding_refuted :
  exists lit, nearest_bits f32 lit = BBits 1065353217 /\ unmarshal_f32 lit = Some 1065353216.
Proof. exact unmarshal_f32_double_rounding_refuted. Qed.
Print Assumptions C19_float32_double_rounding_refuted.
