(* C04 - Marshal output is well-formed JSON and round-trips, under every option set. *)
From Coq Require Import List NArith ZArith Bool.
From SV.Num Require Import Dec NumGrammar.
From SV.Enc Require Import Prims Ty Val IR Compile JsonLite VM Exec C04Proofs.
Import ListNotations.

(* ---- C04_errors: values without a JSON representation give an error, never bytes.
   Stated on the machine (for every executor parameter set P, every program, every option word): whenever execution
   reaches the instruction, the whole run ends with that error - an outcome is either Done bytes or Fail. *)

Theorem C04_errors_nan64 : forall P e co s f rest t bits txt n,
  at_instr s f rest OP_f64 -> leaf e (rp (fregs f)) = Some (t, VFloat bits txt) ->
  is_nan_inf64 bits = true -> has_opts (fflags f) (b_f64 P) = false -> run P e co n s = Fail E_nan.
Proof. exact nan64_fails. Qed.
Print Assumptions C04_errors_nan64.

Theorem C04_errors_nan32 : forall P e co s f rest t bits txt n,
  at_instr s f rest OP_f32 -> leaf e (rp (fregs f)) = Some (t, VFloat bits txt) ->
  is_nan_inf32 bits = true -> has_opts (fflags f) (b_f32 P) = false -> run P e co n s = Fail E_nan.
Proof. exact nan32_fails. Qed.

Theorem C04_errors_number : forall P e co s f rest t c v n,
  at_instr s f rest OP_number -> leaf e (rp (fregs f)) = Some (t, VStr (c :: v)) ->
  ~ json_number (c :: v) -> run P e co n s = Fail E_number.
Proof. exact number_fails. Qed.
Print Assumptions C04_errors_number.

Theorem C04_errors_unsupported : forall P e co s f rest t n,
  at_instr s f rest (OP_unsupported t) -> run P e co n s = Fail E_unsupported.
Proof. exact unsupported_fails. Qed.

Theorem C04_errors_too_deep : forall P e co s f rest n,
  at_instr s f rest OP_save -> (p_stack P <= N.of_nat (length (stk s)))%N -> run P e co n s = Fail E_too_deep.
Proof. exact too_deep_fails. Qed.

Theorem C04_stack_bounded : forall P e co s f rest s',
  at_instr s f rest OP_save -> step P e co s = Running s' -> (N.of_nat (length (stk s')) <= p_stack P)%N.
Proof. exact save_bounded. Qed.

(* end to end for the leaves, every option word *)
Theorem C04_errors_unsupported_kinds : forall P e co flags k v, unsupported_kind k = true ->
  encode P e co flags (Some (TPrim k, v)) = Fail E_unsupported.
Proof. exact encode_unsupported. Qed.
Print Assumptions C04_errors_unsupported_kinds.

Theorem C04_errors_nan_toplevel : forall P e co flags bits txt, is_nan_inf64 bits = true -> has_opts flags (b_f64 P) = false ->
  encode P e co flags (Some (TPrim KFloat64, VFloat bits txt)) = Fail E_nan.
Proof. exact encode_nan64. Qed.

(* non-vacuity *)
Example C04_errors_hyps_satisfiable :
  is_nan_inf64 9221120237041090560 = true /\ has_opts 39 (b_f64 prims_jit) = false /\ unsupported_kind KChan = true.
Proof. repeat split; reflexivity. Qed.

(* invalid output of a user MarshalJSON: rejected under CompactMarshaler (json.Compact); without it the native validator
   decides (unless NoValidateJSONMarshaler) - and that routine accepts invalid escapes / raw control characters inside strings *)
Theorem C04_marshaler_output_checked : forall flags ret, json_valid ret = false ->
  has_opts flags BitCompactMarshaler = true -> encodeJsonMarshaler flags (OOk ret) = Some None.
Proof. exact marshaler_output_checked. Qed.

Theorem C04_marshaler_output_valid : forall flags ret out, encodeJsonMarshaler flags (OOk ret) = Some (Some out) ->
  has_opts flags BitCompactMarshaler = true -> json_valid ret = true.
Proof. exact marshaler_output_valid. Qed.
Print Assumptions C04_marshaler_output_valid.

Theorem C04_marshaler_output_native_checked : forall flags ret, native_valid ret = false ->
  has_opts flags BitCompactMarshaler = false -> has_opts flags BitNoValidateJSONMarshaler = false ->
  encodeJsonMarshaler flags (OOk ret) = Some None.
Proof. exact marshaler_output_native_checked. Qed.

Theorem C04_marshaler_output_native_refuted :
  exists ret, json_valid ret = false /\ encodeJsonMarshaler 0 (OOk ret) = Some (Some ret).
Proof. exact marshaler_output_native_refuted. Qed.
Print Assumptions C04_marshaler_output_native_refuted.

(* ---- C04_wellformed for the proved fragment (scalars, strings, pointers, slices, arrays, []byte, structs without
   options), every option word (under NoNullSliceOrMap a nil slice is `[]`, one level deeper than the state stack it needs): Marshal stops with one strict RFC 8259 value, nested no
   deeper than the state stack it used, and sonic's own validator (property C02's model of alg.Valid) accepts it.
   The statement needs no hypothesis on the reference encoder: it is total on typed values of the fragment. *)
From SV.Enc Require Import StdEnc TyLemmas Frag EncProofs WellFormed Finish Total WfMarshal.
From SV.Json Require Grammar Fsm Wrappers.
From Coq Require Import Lia.

Theorem C04_wellformed_partial_jit : forall e co flg t v prog,
  (0 < MaxInlineDepth co)%nat -> EncOnlyOmitNull co = false ->
  frag e t -> compilable e co t -> has_type (fok_wf prims_jit) t v ->
  compile e co t (has_opts flg BitPointerValue) = COk prog -> (need v <= 4096)%nat ->
  wf_outcome (encode prims_jit e co flg (Some (t, v))) (need v + nil_depth (has_opts flg BitNoNullSliceOrMap)).
Proof. exact marshal_wellformed_jit. Qed.
Print Assumptions C04_wellformed_partial_jit.

Theorem C04_wellformed_partial_vm : forall e co flg t v prog,
  (0 < MaxInlineDepth co)%nat -> EncOnlyOmitNull co = false ->
  frag e t -> compilable e co t -> has_type (fok_wf prims_vm) t v ->
  compile e co t (has_opts flg BitPointerValue) = COk prog -> (need v <= 4096)%nat ->
  wf_outcome (encode prims_vm e co flg (Some (t, v))) (need v + nil_depth (has_opts flg BitNoNullSliceOrMap)).
Proof. exact marshal_wellformed_vm. Qed.
Print Assumptions C04_wellformed_partial_vm.

(* the pieces: the reference bytes are strict JSON; the reference is total; encodeFinish keeps strict JSON strict *)
Theorem C04_reference_wellformed : forall e nn t, frag e t -> forall fuel v addr res, has_type fwf t v ->
  std_enc e Qraw nn fuel t v addr false = SOk res -> Grammar.strict (need v + nil_depth nn) res.
Proof. exact wellformed_frag. Qed.

Theorem C04_reference_total : forall e nn (F : kind -> N -> option bytes -> Prop),
  (forall k b txt, F k b txt -> exists t, txt = Some t) ->
  forall t, frag e t -> forall v fuel addr, has_type F t v -> (need v < fuel)%nat ->
  exists res, std_enc e Qraw nn fuel t v addr false = SOk res.
Proof. exact std_total. Qed.

Theorem C04_finish_preserves : forall flags d v, Grammar.strict d v -> Grammar.strict d (encode_finish flags v).
Proof. exact encode_finish_strict. Qed.
Print Assumptions C04_finish_preserves.

(* non-vacuity: a struct with a float and a slice of strings holding '<' and U+2028, under ConfigStd's option word *)
Definition c04_ex_ty : ty :=
  TStruct 32 [(0%N, TPrim KFloat64); (8%N, TSlice (TPrim KString))]
    [Field [102%N] 0 (TPrim KFloat64) [(0%N, false)]; Field [115%N] 1 (TSlice (TPrim KString)) [(8%N, false)]].     (* s: omitempty *)
Definition c04_ex_val : val :=
  VStruct [VFloat 4609434218613702656 (Some [49; 46; 53]%N); VSlice (Some [VStr [60; 226; 128; 168]%N])].
Definition c04_ex_out : bytes :=
  [123; 34; 102; 34; 58; 49; 46; 53; 44; 34; 115; 34; 58; 91; 34; 92; 117; 48; 48; 51; 99; 92; 117; 50; 48; 50; 56; 34; 93; 125]%N.

Example C04_wellformed_nonvacuous :
  frag [] c04_ex_ty /\ compilable [] default_copts c04_ex_ty /\ has_type (fok_wf prims_jit) c04_ex_ty c04_ex_val /\
  encode prims_jit [] default_copts std_flags (Some (c04_ex_ty, c04_ex_val)) = Done c04_ex_out /\
  Fsm.Valid c04_ex_out = Fsm.Ok true.
Proof.
  assert (Hf : frag [] c04_ex_ty).
  { cbn. repeat split; try lia. repeat constructor.
    - exists 0%N. repeat split; [left; reflexivity|cbn; auto].
    - exists 8%N. repeat split; [right; left; split; reflexivity|cbn; auto]. }
  assert (Hc : compilable [] default_copts c04_ex_ty).
  { cbn. split; [|repeat split]. intro pv. destruct pv; eexists; vm_compute; reflexivity. }
  assert (Hv : has_type (fok_wf prims_jit) c04_ex_ty c04_ex_val).
  { apply HT_struct; [reflexivity|]. intros k o t x Hk Hx. destruct k as [|[|k]]; cbn in Hk, Hx.
    - injection Hk as <- <-. injection Hx as <-. apply HT_float; [right; reflexivity|]. split.
      + eexists. split; [reflexivity|]. split; [intros _; split; reflexivity|intro H; discriminate H].
      + intros t0 H. injection H as <-. left. exists [49%N], [46%N; 53%N], []. repeat split.
        * right. exists 49%N, []. repeat split. discriminate.
        * right. exists [53%N]. repeat split. discriminate.
        * left. reflexivity.
    - injection Hk as <- <-. injection Hx as <-. apply HT_slice. intros y [<-|[]]. apply HT_str.
    - destruct k; discriminate Hk. }
  assert (He : encode prims_jit [] default_copts std_flags (Some (c04_ex_ty, c04_ex_val)) = Done c04_ex_out) by (vm_compute; reflexivity).
  split; [exact Hf|split; [exact Hc|split; [exact Hv|split; [exact He|]]]].
  assert (Hw : wf_outcome (encode prims_jit [] default_copts std_flags (Some (c04_ex_ty, c04_ex_val))) (need c04_ex_val + nil_depth (has_opts std_flags BitNoNullSliceOrMap))).
  { destruct (compile [] default_copts c04_ex_ty (has_opts std_flags BitPointerValue)) as [prog|] eqn:Ec; [|vm_compute in Ec; discriminate Ec].
    eapply C04_wellformed_partial_jit; try eassumption; try reflexivity; cbn; lia. }
  rewrite He in Hw. destruct Hw as [(out & Ho & _ & Hval)|Ho]; [|discriminate Ho].
  injection Ho as <-. apply Hval. cbn. lia.
Qed.
Print Assumptions C04_wellformed_nonvacuous.

(* ---- the documented effect of encoder switches on the machine (for property C18: these are the statements about
   EncodeNullForInfOrNan; NoNullSliceOrMap and SortMapKeys need the fragment with that bit / with maps).
   (1) on typed values of the fragment (all floats finite) execution gives the bytes of the reference encoder whatever the
       other option bits are: switching on any bit other than NoNullSliceOrMap (and the internal pointer-value bit) changes
       nothing - in particular EncodeNullForInfOrNan, SortMapKeys (no maps in the fragment), the Marshaler switches;
   (2) on a NaN/Inf float64 the bit turns exactly the failure (C04_errors_nan_toplevel) into `null`. *)
From SV.Enc Require Import Switches.

Theorem C04_switch_irrelevant_jit : forall e co b flg t v prog,
  (0 < MaxInlineDepth co)%nat -> EncOnlyOmitNull co = false ->
  b <> BitNoNullSliceOrMap -> b <> BitPointerValue ->
  frag e t -> compilable e co t -> has_type (fok prims_jit) t v ->
  compile e co t (has_opts flg BitPointerValue) = COk prog -> (need v <= 4096)%nat ->
  exists res, done_or_fuel (exec_top prims_jit e co flg (Some (t, v))) res /\
              done_or_fuel (exec_top prims_jit e co (set_bit flg b) (Some (t, v))) res.
Proof.
  intros e co b flg t v prog Hin Hnu Hb1 Hb2 Hf Hc Hv Hp Hn.
  eapply (switch_irrelevant prims_jit e co jit_i64 jit_u64); try eassumption; try reflexivity; try discriminate.
  change (p_stack prims_jit) with 4096%N. lia.
Qed.
Print Assumptions C04_switch_irrelevant_jit.

Theorem C04_switch_irrelevant_vm : forall e co b flg t v prog,
  (0 < MaxInlineDepth co)%nat -> EncOnlyOmitNull co = false ->
  b <> BitNoNullSliceOrMap -> b <> BitPointerValue ->
  frag e t -> compilable e co t -> has_type (fok prims_vm) t v ->
  compile e co t (has_opts flg BitPointerValue) = COk prog -> (need v <= 4096)%nat ->
  exists res, done_or_fuel (exec_top prims_vm e co flg (Some (t, v))) res /\
              done_or_fuel (exec_top prims_vm e co (set_bit flg b) (Some (t, v))) res.
Proof.
  intros e co b flg t v prog Hin Hnu Hb1 Hb2 Hf Hc Hv Hp Hn.
  eapply (switch_irrelevant prims_vm e co); try eassumption; try reflexivity; try discriminate.
  change (p_stack prims_vm) with 4096%N. lia.
Qed.
Print Assumptions C04_switch_irrelevant_vm.

(* NoNullSliceOrMap: execution gives the reference bytes computed with that bit, and the reference uses the bit only to print a
   nil slice as `[]` (a nil map as `{}`) instead of `null` (StdEnc.std_enc; C04_switch_nonull_reference) *)
Theorem C04_switch_nonull_jit : forall e co flg t v prog,
  (0 < MaxInlineDepth co)%nat -> EncOnlyOmitNull co = false ->
  frag e t -> compilable e co t -> has_type (fok prims_jit) t v ->
  compile e co t (has_opts flg BitPointerValue) = COk prog -> (need v <= 4096)%nat ->
  exists res, std_marshal e Qraw (has_opts flg BitNoNullSliceOrMap) (S (need v)) (Some (t, v)) = SOk res /\
              done_or_fuel (exec_top prims_jit e co flg (Some (t, v))) res.
Proof.
  intros e co flg t v prog Hin Hnu Hf Hc Hv Hp Hn.
  eapply (exec_top_frag prims_jit e co jit_i64 jit_u64); try eassumption; try reflexivity; try discriminate.
  change (p_stack prims_jit) with 4096%N. lia.
Qed.
Print Assumptions C04_switch_nonull_jit.

Theorem C04_switch_nonull_vm : forall e co flg t v prog,
  (0 < MaxInlineDepth co)%nat -> EncOnlyOmitNull co = false ->
  frag e t -> compilable e co t -> has_type (fok prims_vm) t v ->
  compile e co t (has_opts flg BitPointerValue) = COk prog -> (need v <= 4096)%nat ->
  exists res, std_marshal e Qraw (has_opts flg BitNoNullSliceOrMap) (S (need v)) (Some (t, v)) = SOk res /\
              done_or_fuel (exec_top prims_vm e co flg (Some (t, v))) res.
Proof.
  intros e co flg t v prog Hin Hnu Hf Hc Hv Hp Hn.
  eapply (exec_top_frag prims_vm e co); try eassumption; try reflexivity; try discriminate.
  change (p_stack prims_vm) with 4096%N. lia.
Qed.
Print Assumptions C04_switch_nonull_vm.

Example C04_switch_nonull_reference : forall e el,
  std_enc e Qraw true 1 (TSlice el) (VSlice None) false false = SOk [91%N; 93%N] /\
  std_enc e Qraw false 1 (TSlice el) (VSlice None) false false = SOk s_null.
Proof. exact std_enc_nn_nil. Qed.

Theorem C04_switch_nan_null : forall P e co flags bits txt, is_nan_inf64 bits = true -> has_opts flags (b_f64 P) = true ->
  encode P e co flags (Some (TPrim KFloat64, VFloat bits txt)) = Done (encode_finish flags s_null).
Proof. exact encode_nan64_null. Qed.
Print Assumptions C04_switch_nan_null.

Example C04_switch_bits : b_f64 prims_jit = BitEncodeNullForInfOrNan /\ b_f64 prims_vm = BitEncodeNullForInfOrNan /\
  BitEncodeNullForInfOrNan <> BitNoNullSliceOrMap /\ BitEncodeNullForInfOrNan <> BitPointerValue /\
  BitSortMapKeys <> BitNoNullSliceOrMap /\ BitSortMapKeys <> BitPointerValue.
Proof. repeat split; discriminate. Qed.
