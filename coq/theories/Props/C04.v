(* C04 - Marshal output is well-formed JSON and round-trips, under every option set. *)
From Coq Require Import List NArith ZArith Bool.
From SV.Num Require Import Dec NumGrammar.
From SV.Enc Require Import Prims Ty Val IR Compile JsonLite VM Exec C04Proofs.
Import ListNotations.

(* ---- C04_errors: values without a JSON representation give an error, never bytes.
   Stated on the machine (for every executor parameter set P, every program, every option word): whenever execution
   reaches the instruction, the whole run ends with that error - an outcome is either Done bytes or Fail. *)

Theorem C04_errors_nan64 : forall P e co s f rest t bits txt n,
  at_instr s f rest OP_f64 -> leaf e (rp (fregs f)) = Some (t, VFloat bits txt) ->
  is_nan_inf64 bits = true -> has_opts (fflags f) (b_f64 P) = false -> run P e co n s = Fail E_nan.
Proof. exact nan64_fails. Qed.
Print Assumptions C04_errors_nan64.

Theorem C04_errors_nan32 : forall P e co s f rest t bits txt n,
  at_instr s f rest OP_f32 -> leaf e (rp (fregs f)) = Some (t, VFloat bits txt) ->
  is_nan_inf32 bits = true -> has_opts (fflags f) (b_f32 P) = false -> run P e co n s = Fail E_nan.
Proof. exact nan32_fails. Qed.

Theorem C04_errors_number : forall P e co s f rest t c v n,
  at_instr s f rest OP_number -> leaf e (rp (fregs f)) = Some (t, VStr (c :: v)) ->
  ~ json_number (c :: v) -> run P e co n s = Fail E_number.
Proof. exact number_fails. Qed.
Print Assumptions C04_errors_number.

Theorem C04_errors_unsupported : forall P e co s f rest t n,
  at_instr s f rest (OP_unsupported t) -> run P e co n s = Fail E_unsupported.
Proof. exact unsupported_fails. Qed.

Theorem C04_errors_too_deep : forall P e co s f rest n,
  at_instr s f rest OP_save -> (p_stack P <= N.of_nat (length (stk s)))%N -> run P e co n s = Fail E_too_deep.
Proof. exact too_deep_fails. Qed.

Theorem C04_stack_bounded : forall P e co s f rest s',
  at_instr s f rest OP_save -> step P e co s = Running s' -> (N.of_nat (length (stk s')) <= p_stack P)%N.
Proof. exact save_bounded. Qed.

(* end to end for the leaves, every option word *)
Theorem C04_errors_unsupported_kinds : forall P e co flags k v, unsupported_kind k = true ->
  encode P e co flags (Some (TPrim k, v)) = Fail E_unsupported.
Proof. exact encode_unsupported. Qed.
Print Assumptions C04_errors_unsupported_kinds.

Theorem C04_errors_nan_toplevel : forall P e co flags bits txt, is_nan_inf64 bits = true -> has_opts flags (b_f64 P) = false ->
  encode P e co flags (Some (TPrim KFloat64, VFloat bits txt)) = Fail E_nan.
Proof. exact encode_nan64. Qed.

(* non-vacuity *)
Example C04_errors_hyps_satisfiable :
  is_nan_inf64 9221120237041090560 = true /\ has_opts 39 (b_f64 prims_jit) = false /\ unsupported_kind KChan = true.
Proof. repeat split; reflexivity. Qed.

(* invalid output of a user MarshalJSON: rejected under CompactMarshaler (json.Compact); without it the native validator
   decides (unless NoValidateJSONMarshaler) - and that routine accepts invalid escapes / raw control characters inside strings *)
Theorem C04_marshaler_output_checked : forall flags ret, json_valid ret = false ->
  has_opts flags BitCompactMarshaler = true -> encodeJsonMarshaler flags (OOk ret) = Some None.
Proof. exact marshaler_output_checked. Qed.

Theorem C04_marshaler_output_valid : forall flags ret out, encodeJsonMarshaler flags (OOk ret) = Some (Some out) ->
  has_opts flags BitCompactMarshaler = true -> json_valid ret = true.
Proof. exact marshaler_output_valid. Qed.
Print Assumptions C04_marshaler_output_valid.

Theorem C04_marshaler_output_native_checked : forall flags ret, native_valid ret = false ->
  has_opts flags BitCompactMarshaler = false -> has_opts flags BitNoValidateJSONMarshaler = false ->
  encodeJsonMarshaler flags (OOk ret) = Some None.
Proof. exact marshaler_output_native_checked. Qed.

Theorem C04_marshaler_output_native_refuted :
  exists ret, json_valid ret = false /\ encodeJsonMarshaler 0 (OOk ret) = Some (Some ret).
Proof. exact marshaler_output_native_refuted. Qed.
Print Assumptions C04_marshaler_output_native_refuted.
