(* C14 - AST search and read-only views return exactly the addressed value.
   Only statements, closed by `exact`, with Print Assumptions beneath each. *)
From Coq Require Import List Arith Bool NArith.
From SV.Ast Require Import Tree Search SearchProofs Node Refute PathRefine PruneProofs.
Import ListNotations.

(* match_key compares the raw member name with the wanted key escape by escape (native/scanning.h); for every member name
   whose escapes are well formed that is the comparison of the DECODED name with the key, for every key *)
Theorem C14_match_key_spec :
  forall raw key d, unescape raw = Some d -> match_key raw key = Some (bytes_eqb d key).
Proof. exact match_key_spec. Qed.
Print Assumptions C14_match_key_spec.

Example C14_match_key_nonvacuous :   (* the member name "a" matches the key "a" *)
  unescape [92; 117; 48; 48; 54; 49]%N = Some [97]%N /\ match_key [92; 117; 48; 48; 54; 49]%N [97]%N = Some true.
Proof. split; vm_compute; reflexivity. Qed.

(* a skipped sibling - any value, nested containers included - is consumed exactly, whatever follows it: the own-kind bracket
   counter of skip_one_fast never stops early or late on a well-formed value *)
Theorem C14_skip_sibling_exact : forall t rest, skip1 (tokens_of t ++ rest) = Some rest.
Proof. exact skip1_spec. Qed.
Print Assumptions C14_skip_sibling_exact.

(* REPAIRED in /repo (ffe8bf0): Node.Get on an object beyond the index threshold with a duplicated key returns the FIRST
   occurrence whether the node is loaded or still lazy (before the repair: the last one once loaded) *)
Theorem C14_node_get_indexed_agrees :
  model_obs (RRaw, dup_doc) dup_ops = spec_obs (RRaw, dup_doc) dup_ops /\
  model_obs (RRaw, dup_doc) [([SKey (key_n 3)], OpLook)] = spec_obs (RRaw, dup_doc) [([SKey (key_n 3)], OpLook)].
Proof. exact (conj dupkeys_index_agrees dupkeys_lazy_agrees). Qed.
Print Assumptions C14_node_get_indexed_agrees.

(* search_spec: for every document (as a tree with raw member names whose escapes are well formed), every path of keys and
   indexes and whatever follows the document, the model of native get_by_path - with ValidateJSON on or off - returns exactly the
   value the plain navigation addresses - FIRST occurrence of a duplicated key, escaped names compared decoded, skipped siblings
   of any shape -, "not found" exactly when a key / index is missing and a syntax error exactly when a step meets the wrong
   kind of value.  CopyReturn / ConcurrentRead do not enter the search (they only decide how the located text is wrapped). *)
Theorem C14_search_spec :
  forall validate ps t rest, keys_ok t = true -> spec_res ps t (get_by_path validate (tokens_of t ++ rest) ps).
Proof. exact search_spec. Qed.
Print Assumptions C14_search_spec.

(* the validating skipper (skip_one_1, ValidateJSON) and the fast one consume the same single value of a well-formed stream *)
Theorem C14_validating_skip_exact :
  forall t rest, skip_strict (S (length (tokens_of t ++ rest))) MValue (tokens_of t ++ rest) = Some rest.
Proof. exact skip_strict_spec. Qed.
Print Assumptions C14_validating_skip_exact.

Example C14_search_nonvacuous :
  let doc := TObj [([92; 117; 48; 48; 54; 49]%N, TNum [49]%N);                      (* "a" : 1 *)
                   ([98]%N, TArr [TObj [([120]%N, TNull)]; TArr [TTrue; TFalse]]);           (* "b" : [{"x":null},[true,false]] *)
                   ([97]%N, TNum [50]%N)] in                                                (* "a" : 2   (duplicate) *)
  keys_ok doc = true /\
  get_by_path false (tokens_of doc) [SKey [97]%N] = SFound [KNum [49]%N] [KComma; KStr [98]%N; KColon; KLBrack; KLBrace; KStr [120]%N; KColon; KNull; KRBrace; KComma; KLBrack; KTrue; KComma; KFalse; KRBrack; KRBrack; KComma; KStr [97]%N; KColon; KNum [50]%N; KRBrace] /\
  get_by_path false (tokens_of doc) [SKey [98]%N; SIdx 1; SIdx 1] = SFound [KFalse] [KRBrack; KRBrack; KComma; KStr [97]%N; KColon; KNum [50]%N; KRBrace] /\
  get_by_path false (tokens_of doc) [SKey [98]%N; SIdx 2] = SNotFound /\
  get_by_path true (tokens_of doc) [SIdx 0] = SInval /\
  get_by_path true (tokens_of doc) [SKey [98]%N; SIdx 0; SKey [120]%N] = SFound [KNull] [KRBrace; KComma; KLBrack; KTrue; KComma; KFalse; KRBrack; KRBrack; KComma; KStr [97]%N; KColon; KNum [50]%N; KRBrace].
Proof. repeat split; vm_compute; reflexivity. Qed.

(* preorder_spec: for every document whose strings and member names decode, the traverser of ast/visitor.go (ast.Preorder) emits
   exactly the preorder flattening of the tree: begin/end of every container, every member name before its value, every scalar,
   nothing skipped, added or reordered *)
Theorem C14_preorder_spec : forall t evs, flatten t = Some evs -> preorder (tokens_of t) = Some evs.
Proof. exact preorder_spec. Qed.
Print Assumptions C14_preorder_spec.

Example C14_preorder_nonvacuous :
  flatten (TObj [([92; 117; 48; 48; 54; 49]%N, TArr [TNull; TObj []]); ([98]%N, TStr [92; 110]%N)]) =
  Some [PObjBegin; PKey [97]%N; PArrBegin; PNull; PObjBegin; PObjEnd; PArrEnd; PKey [98]%N; PStr [10]%N; PObjEnd].
Proof. vm_compute. reflexivity. Qed.

(* Node.Get / Node.Index / Node.GetByPath (the lazy AST side of the search): every history of lookups at arbitrary paths on a raw,
   concurrent-read, lazily parsed or constructed document returns exactly what the plain tree addresses (first occurrence of a
   duplicated key, positional index on arrays and objects), or its error class; earlier lookups (what they happened to load) never
   change a later answer.  Any hash function (collisions allowed), non-empty keys. *)
Theorem C14_node_getbypath_spec :
  forall (hash : bytes -> N) (v : value) (ops : list step),
    Forall look_step ops ->
    fst (run hash ops (mk_value hash v)) = fst (spec_run ops (snd v)).
Proof. exact look_run_from_doc. Qed.
Print Assumptions C14_node_getbypath_spec.

(* preorder with a visitor that answers VisitOPSkip to OnArrayBegin / OnObjectBegin: whatever containers it skips (skip k = the
   k-th container announced), on the token stream of any document the traverser emits exactly the flattening in which each skipped
   container contributes its Begin and End only - nothing of its inside, everything after it intact, no error on a valid document.
   Tokens carry no white space: the event stream is independent of insignificant white space by construction of the model; that
   the real traverser agrees on pretty-printed text is checked by the runs (white space after { [ , : at random). *)
Theorem C14_preorder_skip_spec :
  forall (skip : nat -> bool) t evs k', flatten_skip skip t 0 = Some (evs, k') -> preorder_skip skip (tokens_of t) = Some evs.
Proof. exact preorder_skip_spec. Qed.
Print Assumptions C14_preorder_skip_spec.

Example C14_preorder_skip_nonvacuous :
  (* {"a":[null,{}],"b":"\n"} with the visitor skipping the array (container 1): the object inside it is never announced *)
  flatten_skip (skip_of [1%nat]) (TObj [([92; 117; 48; 48; 54; 49]%N, TArr [TNull; TObj []]); ([98]%N, TStr [92; 110]%N)]) 0 =
  Some ([PObjBegin; PKey [97]%N; PArrBegin; PArrEnd; PKey [98]%N; PStr [10]%N; PObjEnd], 2%nat).
Proof. vm_compute. reflexivity. Qed.

(* a skipping visitor sees the document in which every skipped container is replaced by an EMPTY container of the same kind
   (prune), and nothing else changes: same events, same number of containers announced *)
Theorem C14_skip_is_prune :
  forall (skip : nat -> bool) t k,
    flatten_skip skip t k = with_count (flatten (fst (prune skip t k))) (snd (prune skip t k)).
Proof. exact prune_spec. Qed.
Print Assumptions C14_skip_is_prune.
