(* C17 - Stream decoding is independent of how the reader chunks the bytes; stream Encoder delivery.
   Only statements, closed by `exact`, with Print Assumptions beneath each.
   The model follows /repo after the repairs 005ce23 / 79f3366 / 3d2189e (see notes/C17.md). *)
From Coq Require Import NArith List Bool Arith.
From SV.Stream Require Import Skip SkipProofs Json1 SkipValid Dec Spec Enc Witness DecProofs1 DecProofs2 DecProofs Valid EncProofs.
Import ListNotations.
Open Scope N_scope.

(* ---- chunk independence, under the exact guard `good_values` - a computable check of the byte stream and the reader's
   final condition alone (DecProofs.gv_step): each top-level value is a number whose run of number bytes is delimited
   (or ends a stream that ends with io.EOF), or an object / array / string / literal that is VALID for the reference
   scanner - nothing about the fast skipper or the inner decoder has to be checked for those, see
   C17_fast_skip_on_valid / C17_inner_on_valid below; the stream ends in white space, in a byte that cannot start a
   value, in a framed value the decoder rejects, or in a truncated object / array / string / literal.
   For EVERY reader oracle delivering these bytes (cuts anywhere, empty reads, final condition with or after the last
   data, any buffer size >= 1) the model yields the values and the terminal condition of the value-by-value
   specification: io.EOF / the reader's own error unchanged after the values / an error for malformed or truncated
   trailing data.
   Missing for full strength: malformed values inside a stream that continues, malformed numbers, and the case
   refuted below. *)
Theorem C17_stream_chunk_independent_partial : forall avx2 pc r vs t,
  (1 <= pc)%nat -> wf_reader r = true ->
  good_values avx2 (rfin r) (S (length (rd_bytes r))) (rd_bytes r) = Some (vs, t) ->
  run avx2 pc r = stream_values (rd_bytes r) (rfin r) /\ run avx2 pc r = (vs, t).
Proof. exact stream_chunk_independent_partial. Qed.
Print Assumptions C17_stream_chunk_independent_partial.

(* ---- the same at the level of the grammar: NO guard to compute.  For every stream of top-level values that are valid
   for the reference scanner (objects, arrays, strings, literals, numbers; separated by white space or nothing), followed
   by white space, by a number that ends the stream, by a byte that cannot start a value or by a truncated object /
   array / string / literal - see Valid.valid_stream, six constructors - and EVERY reader oracle delivering it.
   Nothing is assumed about the fast skipper, decodeNumber or the inner decoder: Valid.v proves what they do on valid
   values (guard contains grammar: valid_stream_good).  The one side condition (constructor vs_number): a number must not
   be glued to further number bytes that run up to the end of the data of a FAILING reader (refuted below). *)
Theorem C17_stream_chunk_independent : forall avx2 pc r,
  (1 <= pc)%nat -> wf_reader r = true -> valid_stream (rfin r) (rd_bytes r) ->
  run avx2 pc r = stream_values (rd_bytes r) (rfin r).
Proof. exact stream_chunk_independent_valid. Qed.
Print Assumptions C17_stream_chunk_independent.

Theorem C17_grammar_in_guard : forall avx2 fin s,
  valid_stream fin s -> forall fuel, (length s < fuel)%nat -> exists vs t, good_values avx2 fin fuel s = Some (vs, t).
Proof. exact valid_stream_good. Qed.
Print Assumptions C17_grammar_in_guard.

Example C17_valid_stream_satisfiable : valid_stream EOF ex_stream.
Proof. exact ex_stream_valid. Qed.

(* ---- the framing routine and the inner decoder are PARAMETERS of the result: for any `skip` with the framing property
   recorded in good_stream and ANY function `inner` of the framed bytes (Decoder.Decode into interface{}, into a struct,
   with any options: whatever is decoded, it is decoded from the same bytes for every chunking), the model yields the
   listed results and terminal condition for every reader oracle *)
Theorem C17_parametric_in_inner_decoder : forall (skip : bytes -> skipres) (inner : bytes -> option bytes) fin s vs t,
  good_stream skip inner fin s vs t ->
  forall st fuel, Inv st -> rfin (rd st) = fin -> drop_ws (pending st) = drop_ws s -> (length vs < fuel)%nat ->
  exists st', decode_all skip inner fuel st = (vs, t, st').
Proof. exact decode_all_good. Qed.
Print Assumptions C17_parametric_in_inner_decoder.

Theorem C17_stream_same_bytes_same_result : forall avx2 pc1 pc2 r1 r2 vs t,
  (1 <= pc1)%nat -> (1 <= pc2)%nat -> wf_reader r1 = true -> wf_reader r2 = true ->
  rd_bytes r1 = rd_bytes r2 -> rfin r1 = rfin r2 ->
  good_values avx2 (rfin r1) (S (length (rd_bytes r1))) (rd_bytes r1) = Some (vs, t) ->
  run avx2 pc1 r1 = run avx2 pc2 r2.
Proof. exact stream_same_bytes_same_result. Qed.
Print Assumptions C17_stream_same_bytes_same_result.

(* hypotheses are satisfiable: a 45-byte stream (object, number, string with escaped quote and brackets, array,
   literals, a number at the very end) passes the guard with io.EOF (8 values) and with a reader error (7 values, then
   that error); a three-read oracle with an empty read and the error delivered with the last data is well-behaved *)
Example C17_guard_satisfiable : forall avx2,
  exists vs, good_values avx2 EOF (S (length ex_stream)) ex_stream = Some (vs, TIo EOF) /\ length vs = 8%nat.
Proof. exact ex_stream_good. Qed.
Example C17_guard_satisfiable_reader_error : forall avx2,
  exists vs, good_values avx2 (ErrR 7) (S (length ex_stream)) ex_stream = Some (vs, TIo (ErrR 7)) /\ length vs = 7%nat.
Proof. exact ex_stream_good_err. Qed.
Example C17_reader_satisfiable :
  wf_reader (mk_reader [(firstn 3 ex_stream, None); ([], None); (skipn 3 ex_stream, Some (ErrR 7))] (ErrR 7)) = true.
Proof. exact ex_reader_wf. Qed.

(* the heart of it for self-delimiting values: the frame the fast skipper finds is found in every buffer that holds at
   least the value, and every shorter buffer gets "EOF inside the value" (never "invalid") *)
Theorem C17_selfdelim_framing_stable : forall avx2 r n c rest,
  r = c :: rest -> selfdelim c = true -> skip_one_fast avx2 r = SkOk 0 n -> framed_at (skip_one_fast avx2) r n.
Proof. exact selfdelim_framed. Qed.
Print Assumptions C17_selfdelim_framing_stable.

(* on every VALID object / array / string / literal (reference scanner, strict or lenient), followed by anything, the
   fast skipper frames exactly the value; its last byte is not white space *)
Theorem C17_fast_skip_on_valid : forall avx2 strict c rest n,
  selfdelim c = true -> scan_value strict (c :: rest) = Complete n ->
  skip_one_fast avx2 (c :: rest) = SkOk 0 n /\ (1 <= n <= length (c :: rest))%nat /\
  is_space (nth (n - 1) (c :: rest) 0) = false.
Proof. exact skip_on_valid. Qed.
Print Assumptions C17_fast_skip_on_valid.

(* ... and the inner decoder, given the framed copy of a valid value, returns exactly its text *)
Theorem C17_inner_on_valid : forall c rest n,
  is_space c = false -> scan_value true (c :: rest) = Complete n ->
  inner_decode (firstn n (c :: rest)) = Some (firstn n (c :: rest)).
Proof. exact inner_on_valid. Qed.
Print Assumptions C17_inner_on_valid.

(* ... and for numbers: whatever the cuts, the loop of decodeNumber stops exactly after the run of number bytes
   (generic over the framing routine; R = c :: rest is everything from the first byte of the number on) *)
Theorem C17_number_framing_chunk_independent : forall fuel st s k c W' rest,
  Inv st -> (rd_fuel (rd st) < fuel)%nat ->
  skipn s (buf st) = c :: W' -> rest = W' ++ rd_bytes (rd st) -> (k <= num_run W')%nat ->
  let m := S (num_run rest) in
  let R := c :: rest in
  exists res st', decodeNumber_loop fuel (S s + k) st = (res, st') /\
    (scanned st' + scanp st' = scanned st + scanp st)%nat /\ pcap st' = pcap st /\ rfin (rd st') = rfin (rd st) /\
    (((m < length R)%nat /\ res = NBreak (s + m) /\ Inv st' /\ (s + m < length (buf st'))%nat /\
      skipn s (buf st') ++ rd_bytes (rd st') = R) \/
     (m = length R /\
      match rfin (rd st) with
      | EOF => res = NBreak (s + m) /\ Inv st' /\ skipn s (buf st') = R /\ rd_bytes (rd st') = [] /\
               (s + m)%nat = length (buf st')
      | ErrR k' => res = NErr /\ err st' = Some (DIo (ErrR k'))
      end)).
Proof. exact (decodeNumber_loop_spec (skip_one_fast true) inner_decode). Qed.
Print Assumptions C17_number_framing_chunk_independent.

(* a reader error is returned unchanged after the values that precede it (instance of the main theorem) *)
Theorem C17_reader_error_after_values_partial : forall avx2 pc r vs k,
  (1 <= pc)%nat -> wf_reader r = true -> rfin r = ErrR k ->
  good_values avx2 (ErrR k) (S (length (rd_bytes r))) (rd_bytes r) = Some (vs, TIo (ErrR k)) ->
  run avx2 pc r = (vs, TIo (ErrR k)).
Proof.
  intros avx2 pc r vs k Hp Hw Hf G. rewrite <- Hf in G at 1.
  exact (proj2 (stream_chunk_independent_partial avx2 pc r vs _ Hp Hw G)).
Qed.
Print Assumptions C17_reader_error_after_values_partial.

(* Decode never reports success without consuming input - every state reached from a fresh decoder (scanp <= len(buf),
   see C17_buffered_total), every reader and stream: a returned value has consumed at least one byte, and
   nil-without-a-value is not a result of Decode *)
Theorem C17_decode_progress : forall avx2 st v st',
  BInv st -> Decode (skip_one_fast avx2) inner_decode st = (RVal v, st') -> (InputOffset st < InputOffset st')%nat.
Proof. exact decode_progress_value. Qed.
Print Assumptions C17_decode_progress.

(* InputOffset(), exact accounting (/repo 012b3b6): scanned + len(buf) + bytes not yet delivered - the length of the
   stream for a decoder started on it - is unchanged by every successful Decode, so InputOffset() is exactly the number
   of bytes that are no longer pending, whatever the chunking *)
Theorem C17_input_offset_exact : forall avx2 st v st',
  BInv st -> Decode (skip_one_fast avx2) inner_decode st = (RVal v, st') ->
  acct st' = acct st /\ (InputOffset st' + length (pending st'))%nat = acct st.
Proof. exact input_offset_exact. Qed.
Print Assumptions C17_input_offset_exact.

Example C17_acct_fresh : forall r pc, acct (new_decoder r pc) = length (rd_bytes r).
Proof. exact acct_new_decoder. Qed.

(* ... and after a value it lies between the end of that value and the beginning of the next token (positions in the
   byte stream: acct st minus what is left) - bounds that do not mention the reader's cuts *)
Theorem C17_input_offset_bounds : forall avx2 st n v,
  Inv st -> BInv st ->
  gv_step avx2 (rfin (rd st)) (drop_ws (pending st)) = GVal n v ->
  exists st', Decode (skip_one_fast avx2) inner_decode st = (RVal v, st') /\
    (acct st - length (skipn n (drop_ws (pending st))) <= InputOffset st')%nat /\
    (InputOffset st' <= acct st - length (drop_ws (skipn n (drop_ws (pending st)))))%nat.
Proof. exact input_offset_bounds. Qed.
Print Assumptions C17_input_offset_bounds.

Theorem C17_decode_never_nil : forall avx2 st, Inv st -> fst (Decode (skip_one_fast avx2) inner_decode st) <> RNil.
Proof. exact decode_never_nil. Qed.
Print Assumptions C17_decode_never_nil.

(* errors are sticky: the error returned by Decode is recorded, and every later Decode returns it again, leaving the
   state and the reader alone (full strength) *)
Theorem C17_decode_error_sticky : forall avx2 st e st',
  Decode (skip_one_fast avx2) inner_decode st = (RErr e, st') ->
  err st' = Some e /\ Decode (skip_one_fast avx2) inner_decode st' = (RErr e, st').
Proof.
  intros avx2 st e st' H.
  exact (conj (decode_error_recorded _ _ _ _ _ H)
              (decode_error_sticky _ _ _ _ (decode_error_recorded _ _ _ _ _ H))).
Qed.
Print Assumptions C17_decode_error_sticky.

(* Buffered() is total (it used to panic after a terminal error; /repo d6563a0): scanp <= len(buf) holds in the fresh
   decoder and is preserved by every Decode and More, for every reader oracle - so Buffered() = Some _ in every reachable
   state, in particular after an error *)
Theorem C17_buffered_total : forall avx2,
  (forall r pc, Buffered (new_decoder r pc) <> None) /\
  (forall st, Buffered st <> None ->
     Buffered (snd (Decode (skip_one_fast avx2) inner_decode st)) <> None /\ Buffered (snd (More st)) <> None).
Proof.
  intros avx2.
  assert (E : forall st, Buffered st <> None <-> BInv st).
  { intros st. unfold Buffered, BInv. destruct (scanp st <=? length (buf st))%nat eqn:L.
    - apply Nat.leb_le in L. split; [auto|discriminate].
    - apply Nat.leb_gt in L. split; [congruence|intros H; apply Nat.lt_nge in L; contradiction]. }
  split.
  - intros r pc. apply E. unfold BInv. simpl. auto.
  - intros st H. apply E in H. split; apply E; [exact (decode_binv _ _ st H)|exact (more_binv st H)].
Qed.
Print Assumptions C17_buffered_total.

(* ---- stream encoder (full strength for the plain path) *)
(* every short-write pattern, zero-length writes included, delivers exactly Marshal's bytes plus the newline
   (unless disabled), provided no Write fails *)
Theorem C17_enc_delivers_marshal : forall body newline w,
  Forall noerr (wresp w) ->
  exists w1, Encode (Some body) None newline w = (ENil, w1) /\
             wgot w1 = wgot w ++ body ++ (if newline then [10] else []).
Proof. exact enc_delivers_marshal. Qed.
Print Assumptions C17_enc_delivers_marshal.

(* the first failing Write - also the one that carries the newline - is returned, unless everything had been
   delivered before it was ever issued *)
Theorem C17_enc_write_error_returned : forall body newline w used k e rest,
  wresp w = used ++ (k, Some e) :: rest -> Forall noerr used ->
  (exists w1, Encode (Some body) None newline w = (EErr e, w1)) \/
  (exists w1, Encode (Some body) None newline w = (ENil, w1) /\
              wgot w1 = wgot w ++ body ++ (if newline then [10] else [])).
Proof. exact enc_write_error_returned. Qed.
Print Assumptions C17_enc_write_error_returned.

(* nil means: everything was delivered and no Write that was issued failed *)
Theorem C17_enc_nil_means_all_delivered : forall body newline w w1,
  Encode (Some body) None newline w = (ENil, w1) ->
  wgot w1 = wgot w ++ body ++ (if newline then [10] else []) /\
  exists used, wresp w = used ++ wresp w1 /\ Forall noerr used.
Proof. exact enc_nil_means_all_delivered. Qed.
Print Assumptions C17_enc_nil_means_all_delivered.

(* an error returned by Encode is the Writer's, and the delivered bytes are a prefix of Marshal ++ newline *)
Theorem C17_enc_error_is_writers : forall body newline w e w1,
  Encode (Some body) None newline w = (EErr e, w1) ->
  In (Some e) (map snd (wresp w)) /\ exists pre suf, payload body newline = pre ++ suf /\ wgot w1 = wgot w ++ pre.
Proof. exact enc_error_is_writers. Qed.
Print Assumptions C17_enc_error_is_writers.

(* SetIndent path: one Write; nil only if everything was delivered, otherwise the Writer's error or io.ErrShortWrite *)
Theorem C17_enc_indent_path : forall body ind newline w res w1,
  Encode (Some body) (Some ind) newline w = (res, w1) ->
  let p := if newline then ind ++ [10] else ind in
  (res = ENil -> wgot w1 = wgot w ++ p) /\
  (forall e, res = EErr e -> e = ErrShortWrite \/ In (Some e) (map snd (wresp w))) /\
  (exists pre suf, p = pre ++ suf /\ wgot w1 = wgot w ++ pre).
Proof. exact enc_indent_path. Qed.
Print Assumptions C17_enc_indent_path.

(* SetIndent path at full strength: the outcome is decided by the writer's answer to the single Write *)
Theorem C17_enc_indent_cases : forall body ind newline w,
  let p := indent_payload ind newline in
  p <> [] ->
  match wresp w with
  | [] => Encode (Some body) (Some ind) newline w = (ENil, {| wresp := []; wgot := wgot w ++ p |})
  | (k, Some e) :: tl =>
    Encode (Some body) (Some ind) newline w = (EErr e, {| wresp := tl; wgot := wgot w ++ firstn (Nat.min k (length p)) p |})
  | (k, None) :: tl =>
    if (length p <=? k)%nat
    then Encode (Some body) (Some ind) newline w = (ENil, {| wresp := tl; wgot := wgot w ++ p |})
    else Encode (Some body) (Some ind) newline w = (EErr ErrShortWrite, {| wresp := tl; wgot := wgot w ++ firstn k p |})
  end.
Proof. exact enc_indent_cases. Qed.
Print Assumptions C17_enc_indent_cases.

(* ---- More() and Buffered(), as documented for encoding/json on top-level streams (tied in the harness to
   encoding/json.Decoder.More in lockstep and to "Buffered() ++ undelivered = stream[InputOffset():]") *)
Theorem C17_more_spec : forall st r st',
  Inv st -> More st = (r, st') ->
  match drop_ws (pending st) with
  | [] => r = MFalse /\ err st' = Some (DIo (rfin (rd st)))
  | c :: R' => r = (if (N.eqb c 93 || N.eqb c 125)%bool then MFalse else MTrue) /\ Inv st' /\ pending st' = c :: R'
  end.
Proof. exact more_spec. Qed.
Print Assumptions C17_more_spec.

Theorem C17_buffered_spec : forall st, BInv st -> exists b, Buffered st = Some b /\ pending st = b ++ rd_bytes (rd st).
Proof. exact buffered_spec. Qed.
Print Assumptions C17_buffered_spec.

(* ---- the former refutation witnesses now agree with the specification (regression cases, also in corpus/C17) *)
Theorem C17_former_witnesses_fixed : forall avx2,
  run avx2 64 w_split = stream_values (rd_bytes w_split) EOF /\
  run avx2 64 w_sign = ([[45; 53]], TIo EOF) /\ run avx2 64 w_exp = ([[49; 101; 53]], TIo EOF) /\
  run avx2 64 w_swallow = stream_values (rd_bytes w_swallow) EOF /\
  run avx2 64 (w_tail EOF) = stream_values (rd_bytes (w_tail EOF)) EOF /\ snd (run avx2 64 (w_tail EOF)) = TSyntax /\
  run avx2 64 w_garbage = stream_values (rd_bytes w_garbage) EOF /\
  run avx2 64 w_stuck = stream_values (rd_bytes w_stuck) EOF /\ snd (run avx2 64 w_stuck) = TSyntax /\
  fst (Encode (Some [123; 125]) None true w_nl) = EErr (WErr 7).
Proof. exact former_witnesses_fixed. Qed.
Print Assumptions C17_former_witnesses_fixed.

(* ---- what is still false: full strength over all streams and readers.  Stream -557- read from a reader that then
   fails: the value -557 precedes the reader's error but is not returned (malformed input AND a failing reader) *)
Theorem C17_stream_chunk_independent_refuted : forall avx2, ~ chunk_independent avx2.
Proof. exact chunk_independent_refuted. Qed.
Print Assumptions C17_stream_chunk_independent_refuted.

Theorem C17_number_run_before_reader_error_refuted : forall avx2,
  run avx2 64 w_numrun = ([], TIo (ErrR 1)) /\
  stream_values (rd_bytes w_numrun) (ErrR 1) = ([[45; 53; 53; 55]], TIo (ErrR 1)).
Proof. exact number_run_before_reader_error_witness. Qed.
Print Assumptions C17_number_run_before_reader_error_refuted.
