(* C08 - Codecs are safe and deterministic under arbitrary concurrent use.
   Only statements, closed by `exact`, with Print Assumptions beneath each.
   Model: Cache/Rcu.v (ProgramCache.Get/Compute as small-step threads over the model of Cache/PCache.v, arbitrary scheduler);
   Gen/Access.v (access classification regenerated from pcache.go / jitdec/pools.go), Gen/CacheConsts.v. *)
From Coq Require Import NArith List String.
From SV.Gen Require Import CacheConsts Access PoolUse.
From SV.Cache Require Import PCache PCacheInv Rcu RcuProofs C08Thm AccessProofs PoolDiscipline.
Import ListNotations.
Open Scope N_scope.

(* For every hash function, every deterministic compile function, every set of concurrent Get/Compute calls (one per
   thread) and EVERY schedule: each completed Compute returns exactly `compute vt` (what it returns alone), each completed
   Get returns nil or `compute vt`; add never panics; the published map is always well-formed and serves every present
   type with `compute` of that type; the compile callback succeeds at most once per type. *)
Theorem C08_rcu_linearizable :
  forall (hash : N -> N) (compute : N -> option N) (calls : list call) (sched : list nat),
    (forall k v, compute k = Some v -> v <> 0) ->
    keys_nonnil calls ->
    LoadFactor_den * (N.of_nat (List.length sched) + 1) <= LoadFactor_num * 2 ^ 31 ->
    let g := rcu_exec hash compute (rcu_init calls) sched in
    (forall t k v, g_th g t = DoneG k v -> nth_error calls t = Some (CGet k) /\ (v = 0 \/ compute k = Some v)) /\
    (forall t k r, g_th g t = DoneC k r -> nth_error calls t = Some (CCompute k) /\ r = compute k) /\
    (forall t k, g_th g t <> Crashed k) /\
    (exists e f, inv hash e f (g_p g) /\ (forall k, f k <> 0 -> compute k = Some (f k)) /\
                 (forall k, k <> 0 -> Get hash (g_p g) k = f k)) /\
    NoDup (g_log g).
Proof. exact rcu_linearizable. Qed.
Print Assumptions C08_rcu_linearizable.

(* no entry is ever lost or replaced by a later publication *)
Theorem C08_rcu_no_entry_lost :
  forall (hash : N -> N) (compute : N -> option N) (calls : list call) (s1 s2 : list nat) (k : N),
    (forall k v, compute k = Some v -> v <> 0) ->
    keys_nonnil calls -> k <> 0 ->
    LoadFactor_den * (N.of_nat (List.length (s1 ++ s2)) + 1) <= LoadFactor_num * 2 ^ 31 ->
    let g1 := rcu_exec hash compute (rcu_init calls) s1 in
    let g2 := rcu_exec hash compute (rcu_init calls) (s1 ++ s2) in
    Get hash (g_p g1) k <> 0 -> Get hash (g_p g2) k = Get hash (g_p g1) k.
Proof. exact rcu_no_entry_lost. Qed.
Print Assumptions C08_rcu_no_entry_lost.

Example C08_rcu_hypotheses_satisfiable :
  let hash := fun _ => 7 in
  let compute := fun k => if k =? 5 then None else Some (k + 100) in
  let calls := [CCompute 1; CCompute 1; CGet 1; CCompute 5; CCompute 2] in
  let sched := [0; 1; 2; 0; 0; 1; 0; 0; 2; 0; 0; 1; 1; 1; 1; 1; 3; 3; 3; 3; 3; 4; 4; 4; 4; 4; 4; 4; 4]%nat in
  let g := rcu_exec hash compute (rcu_init calls) sched in
  keys_nonnil calls /\
  (g_th g 0%nat, g_th g 1%nat, g_th g 2%nat, g_th g 3%nat, g_th g 4%nat) =
  (DoneC 1 (Some 101), DoneC 1 (Some 101), DoneG 1 0, DoneC 5 None, DoneC 2 (Some 102)) /\
  g_log g = [2; 1].
Proof. exact rcu_example. Qed.

(* static race condition expressible in the model: every access to ProgramCache.p, to the fields of a _ProgramMap, to
   valueCache and fieldCache is atomic, on a not-yet-published object, an immutable read, or under the lock that guards
   every access to that object - except in functions no concurrent API call can reach *)
Theorem C08_access_discipline : forallb harmless accesses = true.
Proof. exact access_discipline_thm. Qed.
Print Assumptions C08_access_discipline.

Theorem C08_access_exceptions :
  exceptions = [ ("ProgramCache.Reset", "ProgramCache.p", true);
                 ("freezeValue", "valueCache", false);
                 ("freezeValue", "valueCache", true) ]%string
  /\ reachable "ProgramCache.Reset" = false /\ reachable "freezeValue" = false.
Proof. exact access_exceptions_thm. Qed.
Print Assumptions C08_access_exceptions.

(* the thread programs of Cache/Rcu.v follow exactly this source text (regenerated on every run) *)
Theorem C08_rcu_source_unchanged : rcu_source = rcu_source_expected.
Proof. exact rcu_source_thm. Qed.

(* POOL RECYCLING.  The two pools that carry mutable state between API calls: jitdec decoder stacks ("stack", clean-on-put:
   freeStack resets sp before Put) and native state machines ("fsm", init-on-get: every user initialises before its first read).
   The event lists of every control-flow path of every user are regenerated from the sources (Gen/PoolUse.v: jitdec/pools.go,
   jitdec/decoder.go, native/types, utf8, ast, encoder/alg, decoder/api and the C sources of the native routines). *)
Theorem C08_pool_users_ok : forallb user_ok pool_users = true.
Proof. exact pool_users_ok_thm. Qed.
Print Assumptions C08_pool_users_ok.

(* For every interleaving of any number of calls (event by event), whichever pooled object each Get receives and however each
   use ends (an error inside nested containers may leave ANY state): the run never reaches a violation - no call reads state left
   behind by another call - and the decoder stack pool only ever holds clean stacks. *)
Theorem C08_stack_pool_discipline : forall acts,
  Forall (act_ok (paths_of "stack")) acts ->
  exists w', wrun true (mkW [] (fun _ => (None, []))) acts = Some w' /\ Forall (fun s => s = Clean) (w_pool w').
Proof. exact stack_pool_discipline_thm. Qed.
Print Assumptions C08_stack_pool_discipline.

Theorem C08_fsm_pool_discipline : forall acts,
  Forall (act_ok (paths_of "fsm")) acts ->
  exists w', wrun false (mkW [] (fun _ => (None, []))) acts = Some w'.
Proof. exact fsm_pool_discipline_thm. Qed.
Print Assumptions C08_fsm_pool_discipline.

(* the theorems are about these users (not an empty list) *)
Example C08_pool_users_present :
  map (fun u => (pu_pool u, pu_func u)) pool_users =
  [ ("stack", "/internal/decoder/jitdec.Decode"); ("fsm", "/ast.Parser.skip"); ("fsm", "/ast.Parser.getByPath");
    ("fsm", "/internal/decoder/api.Skip"); ("fsm", "/internal/encoder/alg.Valid"); ("fsm", "/utf8.CorrectWith") ]%string.
Proof. exact pool_users_present. Qed.

(* what breaks the discipline: a Put without the reset (clean-on-put pool), a read before the reset (init-on-get pool) *)
Example C08_put_without_reset_refuted : path_ok true [PGet; PUse; PPut] = false.
Proof. exact put_without_reset_refuted. Qed.
Example C08_use_before_reset_refuted : path_ok false [PGet; PUse; PReset; PPut] = false.
Proof. exact use_before_reset_refuted. Qed.
