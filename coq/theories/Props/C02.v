(* C02 - No structurally malformed JSON is accepted; no valid JSON is rejected.
   Only statements, closed by `exact`, with Print Assumptions beneath each.

   Model: Json/Fsm.v (fsm_exec_1 / fsm_push / advance_ns / advance_dword / skip_string_1 / skip_positive_1 /
   skip_negative_1 of native/scanning.h, flags = 0), Json/StrScan.v (advance_string_default in blocked form, faithful
   to the shipped blobs), Json/NumScan.v (do_skip_number + check_index), wrappers alg.Valid and CheckTrailings.
   Grammar: Json/Grammar.v  sval h v  (structural JSON value needing at most h FSM frames),
            strict d v (RFC 8259 value of nesting depth at most d). *)
From Coq Require Import NArith Bool List Arith.
From SV.Json Require Import Chars StrScan NumScan Fsm Grammar StrScanProofs NumScanProofs FsmProofs Lang FsmSound FsmComplete Wrappers Fast FastProofs VsProofs GenComplete BitTrick M0MaskList M0MaskWord M0Block AdvanceNsBlocked NumBlocked.
From SV.Simd Require Import Blocked.
Import ListNotations.
Open Scope N_scope.

(* ---- stack bound ------------------------------------------------------------------------------------------ *)

(* fsm_push: a push beyond MAX_RECURSE frames gives ERR_RECURSE_MAX *)
Theorem C02_fsm_push_full : forall st t, (MAX_RECURSE <= length st)%nat -> fsm_push st t = Err ERR_RECURSE_MAX.
Proof. exact fsm_push_full. Qed.
Print Assumptions C02_fsm_push_full.
Example C02_fsm_push_full_nonvacuous : (MAX_RECURSE <= length (repeat FSM_ARR 4096))%nat.
Proof. vm_compute. reflexivity. Qed.

(* 0 <= sp <= MAX_RECURSE in every configuration reachable by iterations of the loop of fsm_exec_1 *)
Theorem C02_fsm_stack_inv : forall slen st0 s0 st s,
  (length st0 <= MAX_RECURSE)%nat -> reach slen st0 s0 st s -> (0 <= length st <= MAX_RECURSE)%nat.
Proof. exact fsm_stack_inv. Qed.
Print Assumptions C02_fsm_stack_inv.
Example C02_fsm_stack_inv_nonvacuous : reach 2 [FSM_VAL] [91; 93] [] [].
Proof.
  eapply reach_step with (fuel := 3%nat); [eapply reach_step with (fuel := 3%nat); [apply reach_refl|]|]; vm_compute; reflexivity.
Qed.

(* ---- termination ---------------------------------------------------------------------------------------- *)

(* every iteration consumes input: with more fuel than bytes the loop never runs out of fuel and its result does
   not depend on the fuel *)
Theorem C02_fsm_fuel_enough : forall f1 f2 slen st s, (length s < f1)%nat -> (length s < f2)%nat ->
  fsm_exec_1 f1 slen st s <> None /\ fsm_exec_1 f1 slen st s = fsm_exec_1 f2 slen st s.
Proof. exact fsm_fuel_enough. Qed.
Print Assumptions C02_fsm_fuel_enough.

(* ---- number scanner --------------------------------------------------------------------------------------- *)

Theorem C02_num_sound : forall s r, do_skip_number s = Some r -> is_digit (hd0 s) = true ->
  exists n, s = n ++ r /\ sunsigned n.
Proof. exact num_sound. Qed.
Print Assumptions C02_num_sound.
Example C02_num_sound_nonvacuous : do_skip_number [49; 46; 53; 101; 45; 51; 44] = Some [44].
Proof. vm_compute. reflexivity. Qed.

Theorem C02_num_complete : forall n r, sunsigned n -> numclass (hd0 r) = false -> do_skip_number (n ++ r) = Some r.
Proof. exact num_complete. Qed.
Print Assumptions C02_num_complete.

(* ---- string scanner: blocked = scalar, except on the defect class ------------------------------------------ *)

Theorem C02_scan_blocked_eq_scalar_partial : forall fuel s, s <> [] -> (length s <= fuel)%nat ->
  bug_class s = false -> advance_string_default fuel s = scan_scalar s.
Proof. exact scan_blocked_eq_scalar_partial. Qed.
Print Assumptions C02_scan_blocked_eq_scalar_partial.
Example C02_scan_blocked_eq_scalar_nonvacuous : bug_class (repeat 97 31 ++ [34]) = false.
Proof. vm_compute. reflexivity. Qed.

(* on the defect class (exact guard, stated on the scalar notions only) the shipped routine accepts an unterminated
   string up to the end of the input *)
Theorem C02_scan_blocked_on_bug_class : forall fuel s, s <> [] -> (length s <= fuel)%nat ->
  advance_string_default fuel s = if bug_class s then Some [] else scan_scalar s.
Proof. exact advance_string_default_spec. Qed.
Print Assumptions C02_scan_blocked_on_bug_class.

Theorem C02_bug_class_unterminated : forall s, bug_class s = true ->
  scan_scalar s = None /\ (32 <= length s)%nat /\ (length s mod 32 = 0 \/ length s mod 32 = 1)%nat.
Proof. exact bug_class_unterminated. Qed.
Print Assumptions C02_bug_class_unterminated.

Theorem C02_scan_blocked_refuted : exists s, s <> [] /\
  scan_scalar s = None /\ advance_string_default (length s) s = Some [].
Proof. exact scan_blocked_refuted. Qed.
Print Assumptions C02_scan_blocked_refuted.

(* ---- soundness -------------------------------------------------------------------------------------------- *)

(* validate_one / skip_one: an accepted span is blank* followed by a value of the structural grammar (within the
   frame budget) - unless the input ends in an unterminated string of the defect class (then r = []) *)
Theorem C02_fsm_sound_partial : forall s v r, skip_one s = Ok (v, r) ->
  (exists w val, s = w ++ val ++ r /\ v = val ++ r /\ all_ws w /\ sval MAX_RECURSE val) \/ (r = [] /\ bugged s).
Proof. exact skip_one_sound_partial. Qed.
Print Assumptions C02_fsm_sound_partial.
Example C02_fsm_sound_nonvacuous : skip_one [32; 91; 49; 44; 123; 125; 93; 120] = Ok ([91; 49; 44; 123; 125; 93; 120], [120]).
Proof. vm_compute. reflexivity. Qed.

(* sharp form: the only accepted non-values are bare top-level strings  blank* QUOTE body  with body in the defect
   class, consumed to the end of the input (after the first iteration the bottom frame is a container frame) *)
Theorem C02_fsm_sound_sharp : forall s v r, skip_one s = Ok (v, r) ->
  (exists w val, s = w ++ val ++ r /\ v = val ++ r /\ all_ws w /\ sval MAX_RECURSE val) \/ (r = [] /\ bare_bug_string s).
Proof. exact skip_one_sound_sharp. Qed.
Print Assumptions C02_fsm_sound_sharp.

(* full soundness is false of the faithful model: the unterminated string QUOTE followed by 32 bytes `a` is accepted *)
Theorem C02_fsm_sound_refuted : exists s, Valid s = Ok true /\
  ~ (exists w v w2 h, s = w ++ v ++ w2 /\ all_ws w /\ all_ws w2 /\ sval h v).
Proof. exact fsm_sound_refuted. Qed.
Print Assumptions C02_fsm_sound_refuted.

(* ---- completeness ----------------------------------------------------------------------------------------- *)

(* every structural value needing at most MAX_RECURSE frames is accepted with exactly its span *)
Theorem C02_fsm_complete : forall w v r,
  all_ws w -> sval MAX_RECURSE v -> (snumber v -> numclass (hd0 r) = false) ->
  skip_one (w ++ v ++ r) = Ok (v ++ r, r).
Proof. exact skip_one_complete. Qed.
Print Assumptions C02_fsm_complete.
Example C02_fsm_complete_nonvacuous : sval MAX_RECURSE [91; 93].
Proof. change [91; 93] with (91 :: [] ++ [93]). unfold MAX_RECURSE. apply SV_arr0. reflexivity. Qed.

(* strict RFC 8259 values are structural values: depth d needs at most d + 1 frames ... *)
Theorem C02_strict_sub_sjson : forall d v, strict d v -> sval (S d) v.
Proof. exact strict_sub_sval. Qed.
Print Assumptions C02_strict_sub_sjson.

(* ... hence nothing of nesting depth < MAX_RECURSE that the RFC grammar accepts is rejected *)
Theorem C02_fsm_complete_strict : forall d w v r,
  all_ws w -> strict d v -> (d < MAX_RECURSE)%nat -> (snumber v -> numclass (hd0 r) = false) ->
  skip_one (w ++ v ++ r) = Ok (v ++ r, r).
Proof. exact skip_one_complete_strict. Qed.
Print Assumptions C02_fsm_complete_strict.

(* ---- the Go wrappers --------------------------------------------------------------------------------------- *)

Theorem C02_valid_complete : forall s, structurally_valid s -> Valid s = Ok true.
Proof. exact valid_complete. Qed.
Print Assumptions C02_valid_complete.

Theorem C02_valid_sound_partial : forall s, Valid s = Ok true -> structurally_valid s \/ bugged s.
Proof. exact valid_sound_partial. Qed.
Print Assumptions C02_valid_sound_partial.

(* valid_iff with the exact guard *)
Theorem C02_valid_iff_partial : forall s, ~ bugged s -> (Valid s = Ok true <-> structurally_valid s).
Proof. exact valid_iff_partial. Qed.
Print Assumptions C02_valid_iff_partial.

(* valid_iff at full strength over the faithful model: Valid accepts exactly blank* value blank* and the bare
   unterminated strings of the defect class *)
Theorem C02_valid_iff_sharp : forall s, Valid s = Ok true <-> structurally_valid s \/ bare_bug_string s.
Proof. exact valid_iff_sharp. Qed.
Print Assumptions C02_valid_iff_sharp.

Theorem C02_check_trailings_spec : forall rest, CheckTrailings rest = true <-> all_ws rest.
Proof. exact check_trailings_spec. Qed.
Print Assumptions C02_check_trailings_spec.

(* ---- the non-validating skippers (Get, lazy ast loading, stream decoder) ------------------------------------ *)

(* on a structurally valid value skip_one_fast stops at the end of the value, i.e. it returns the span the
   validating FSM accepts; after a number it may stop inside the blanks that follow it, never beyond them *)
Theorem C02_fast_skip_on_valid : forall h w v r,
  all_ws w -> sval h v -> (snumber v -> valid_follow r) ->
  exists ws1 r', all_ws ws1 /\ r = ws1 ++ r' /\ (~ snumber v -> ws1 = []) /\
                 skip_one_fast_1 (w ++ v ++ r) = Ok (v ++ r, r').
Proof. exact fast_skip_on_valid. Qed.
Print Assumptions C02_fast_skip_on_valid.
Example C02_fast_skip_on_valid_nonvacuous : valid_follow [32; 44; 49].
Proof. exists [32], [44; 49]. repeat split; auto. Qed.

(* "exactly the same span" is false of the faithful model for numbers: `1` followed by 16 blanks *)
Theorem C02_fast_skip_exact_span_refuted : exists s v r r',
  skip_one s = Ok (v, r) /\ skip_one_fast_1 s = Ok (v, r') /\ r <> r'.
Proof. exact fast_skip_exact_span_refuted. Qed.
Print Assumptions C02_fast_skip_exact_span_refuted.

(* ---- flags & MASK_VALIDATE_STRING (ConfigStd / ValidateString): advance_string_validate ---------------------- *)

(* the string-validating scanner succeeds only where the default one does, with the same suffix *)
Theorem C02_advance_string_validate_sub : forall fuel s r,
  advance_string_validate fuel s = SOk r -> advance_string_default fuel s = Some r.
Proof. exact advance_string_validate_sub. Qed.
Print Assumptions C02_advance_string_validate_sub.
Example C02_advance_string_validate_nonvacuous : advance_string_validate 10 [97; 92; 117; 48; 48; 52; 49; 34; 44] = SOk [44].
Proof. vm_compute. reflexivity. Qed.

(* the FSM with MASK_VALIDATE_STRING accepts a subset of what it accepts without, with the same span ... *)
Theorem C02_skip_one_vs_sub : forall s v r, skip_one_vs s = Ok (v, r) -> skip_one s = Ok (v, r).
Proof. exact skip_one_vs_sub. Qed.
Print Assumptions C02_skip_one_vs_sub.

(* ... and is sound at full strength (advance_string_validate has no uninitialised variable) *)
Theorem C02_fsm_vs_sound : forall s v r, skip_one_vs s = Ok (v, r) ->
  exists w val, s = w ++ val ++ r /\ v = val ++ r /\ all_ws w /\ sval MAX_RECURSE val.
Proof. exact skip_one_vs_sound. Qed.
Print Assumptions C02_fsm_vs_sound.
Example C02_fsm_vs_sound_nonvacuous : skip_one_vs [91; 34; 97; 34; 93] = Ok ([91; 34; 97; 34; 93], []).
Proof. vm_compute. reflexivity. Qed.

(* completeness of the string-validating scanner: a strict RFC 8259 string body (no control characters, valid
   escapes) is accepted with exactly its extent, wherever the vector rounds fall, for every fuel *)
Theorem C02_advance_string_validate_complete : forall fuel b r, strict_body b ->
  advance_string_validate fuel (b ++ 34 :: r) = SOk r.
Proof. exact advance_string_validate_complete. Qed.
Print Assumptions C02_advance_string_validate_complete.
Example C02_advance_string_validate_complete_nonvacuous : strict_body [97; 92; 110; 92; 117; 48; 48; 52; 49].
Proof. apply stb_char; [discriminate|discriminate|discriminate|]. apply stb_esc; [reflexivity|]. apply stb_u; try reflexivity. constructor. Qed.

(* ... hence every strict RFC 8259 document of nesting depth < MAX_RECURSE is accepted under MASK_VALIDATE_STRING
   (ConfigStd / ValidateString) with exactly its span: nothing encoding/json.Valid accepts (UTF-8 aside) is rejected *)
Theorem C02_fsm_vs_complete_strict : forall d w v r,
  all_ws w -> strict d v -> (d < MAX_RECURSE)%nat -> (snumber v -> numclass (hd0 r) = false) ->
  skip_one_vs (w ++ v ++ r) = Ok (v ++ r, r).
Proof. exact skip_one_vs_complete_strict. Qed.
Print Assumptions C02_fsm_vs_complete_strict.

(* ---- the backslash-run bit trick (m0_mask), every even word width --------------------------------------------- *)

(* over bit lists of any even length: the ripple reading of
     m1 &= ~cr; fe = (m1 << 1) | cr; os = (m1 & ~fe) & ODD_MASK; es = add(os, m1, &cr) << 1; escaped = fe & (es ^ EVEN_MASK)
   marks exactly the escaped positions (at every position that is not a backslash) and carries out the pending escape *)
Theorem C02_m0_mask_bits_spec : forall cr bs, Nat.even (length bs) = true ->
  snd (m0_mask_bits cr bs) = snd (esc_flags cr bs) /\
  (forall i, nth i bs true = false -> nth i (fst (m0_mask_bits cr bs)) false = nth i (fst (esc_flags cr bs)) false).
Proof. exact m0_mask_bits_spec. Qed.
Print Assumptions C02_m0_mask_bits_spec.

(* m0_mask_spec on machine words: every even width w <= 64, every backslash mask, both carries - in particular the
   shipped add32 / add64 versions *)
Theorem C02_m0_mask_spec : forall w m1 crb, (0 < w <= 64)%nat -> Nat.even w = true -> m1 < 2 ^ N.of_nat w ->
  let '(escaped, cr') := m0_mask (N.of_nat w) m1 (N.b2n crb) in
  cr' = N.b2n (snd (esc_flags crb (bits w m1))) /\
  forall i, (i < w)%nat -> tb m1 i = false -> tb escaped i = nth i (fst (esc_flags crb (bits w m1))) false.
Proof. exact m0_mask_spec. Qed.
Print Assumptions C02_m0_mask_spec.
Example C02_m0_mask_spec_nonvacuous : m0_mask 64 0x0e 0 = (0x14, 0).     (* three backslashes at 1..3: position 4 is escaped (bit 2 lies on a backslash) *)
Proof. vm_compute. reflexivity. Qed.

(* one vector round as computed (movemask of quote / backslash, m0_mask, ctz) = the specification block_scan *)
Theorem C02_block_round_eq : forall w crb blk, length blk = w -> (0 < w <= 64)%nat -> Nat.even w = true ->
  block_round w crb blk = block_scan crb blk.
Proof. exact block_round_eq. Qed.
Print Assumptions C02_block_round_eq.

(* the blocked string scanner without the block_scan abstraction *)
Theorem C02_scan_blocked_bits_spec : forall fuel s, s <> [] -> (length s <= fuel)%nat ->
  advance_string_default_bits fuel s = if bug_class s then Some [] else scan_scalar s.
Proof. exact advance_string_default_bits_spec. Qed.
Print Assumptions C02_scan_blocked_bits_spec.

(* ---- the other vector rounds ---------------------------------------------------------------------------------- *)

(* advance_ns: four unrolled tests + lspace_1 (32-byte rounds under AVX2, none under SSE) + scalar tail = specification *)
Theorem C02_advance_ns_blocked_eq : forall ps, Forall (fun ph => width ph > 0)%nat ps ->
  forall s, advance_ns_c ps s = advance_ns s.
Proof. exact advance_ns_c_eq. Qed.
Print Assumptions C02_advance_ns_blocked_eq.

(* do_skip_number: 32/16-byte rounds (check_bits, check_vidx, stop at the first non-number byte) + scalar loop = scalar model *)
Theorem C02_do_skip_number_blocked_eq : forall ws, Forall (fun W => 0 < W)%nat ws ->
  forall s, do_skip_number_blocked ws s = do_skip_number s.
Proof. exact do_skip_number_blocked_eq. Qed.
Print Assumptions C02_do_skip_number_blocked_eq.
