(* C06 - Returned data is caller-owned; buffers and inputs are never aliased or overrun.
   Only statements, closed by `exact`, with Print Assumptions beneath each. *)
From Coq Require Import ZArith List Bool.
From SV.Pools Require Import Pool Api ApiGen Buf Ev CheckSizeOk.
From SV.Gen Require Import PureFns CheckSize Tables PoolApi.
From SV.Str Require Import Unquote UnquoteProofs.
Import ListNotations.

(* owned_forever, machine level: for EVERY set of alias-free move programs, every schedule and every choice the pools make,
   a write never targets an array a caller owns or a pool holds, and every array stays referenced from exactly one place *)
Theorem C06_owned_forever : forall sched s, inv s -> all_linear s ->
  let '(sf, tr) := run s sched in
  inv sf /\ Forall (fun e => match e with
                           | (LWrite a, ow, pooled) => ~ In a ow /\ ~ In a pooled
                           | _ => True end) tr.
Proof. exact owned_forever. Qed.
Print Assumptions C06_owned_forever.

(* ... instantiated with the transcribed APIs (Encode, EncodeInto, EncodeIndented, StreamEncoder.Encode, ast MarshalJSON,
   StreamDecoder.Decode, Unmarshal([]byte)): any number of concurrent calls from the initial state *)
Theorem C06_api_owned_forever : forall progs sched, Forall (fun p => In p all_programs) progs ->
  let '(sf, tr) := run (init progs) sched in
  inv sf /\ Forall (fun e => match e with
                           | (LWrite a, ow, pooled) => ~ In a ow /\ ~ In a pooled
                           | _ => True end) tr.
Proof. exact api_owned_forever. Qed.
Print Assumptions C06_api_owned_forever.

(* ... and with the programs EXTRACTED FROM THE SOURCE on this run (Gen/PoolApi.v: Encode + encodeFinishWithPool, EncodeInto,
   EncodeIndented, StreamEncoder.Encode, ast Node.MarshalJSON; every control-flow path x growth x poolable).  An edit that returns
   a pooled buffer, or uses a buffer after freeing it, makes the extracted program non-linear (or is rejected by the emitter) *)
Theorem C06_gen_programs_linear : forallb linear gen_progs = true.
Proof. exact gen_programs_linear. Qed.
Print Assumptions C06_gen_programs_linear.

Theorem C06_gen_api_owned_forever : forall progs sched, Forall (fun p => In p gen_progs) progs ->
  let '(sf, tr) := run (init progs) sched in
  inv sf /\ Forall (fun e => match e with
                           | (LWrite a, ow, pooled) => ~ In a ow /\ ~ In a pooled
                           | _ => True end) tr.
Proof. exact gen_api_owned_forever. Qed.
Print Assumptions C06_gen_api_owned_forever.

(* the extracted programs are executable to their end, and what they hand to the caller is in no pool afterwards *)
Theorem C06_gen_programs_complete : forallb completes gen_progs = true.
Proof. exact gen_programs_complete. Qed.
Print Assumptions C06_gen_programs_complete.

Theorem C06_gen_handover_not_pooled :
  forallb hands_over_disjoint (filter (fun p => negb (existsb (fun i => match i with Move FromOwned _ => true | _ => false end) p)) gen_progs) = true.
Proof. exact gen_handover_not_pooled. Qed.
Print Assumptions C06_gen_handover_not_pooled.

Theorem C06_owned_exclusive : forall s a, inv s -> In a (owned s) ->
  ~ In a (concat (pools s)) /\ ~ In a (flat_map regs_of (threads s)) /\ cnt a (owned s) = 1.
Proof. exact owned_exclusive. Qed.
Print Assumptions C06_owned_exclusive.

Theorem C06_api_programs_linear : forallb linear all_programs = true.
Proof. exact api_programs_linear. Qed.
Print Assumptions C06_api_programs_linear.

(* the model is not vacuous: the two classic mistakes are expressible and violate the property *)
Theorem C06_encode_nocopy_refuted :
  exists sched, violates (snd (run (init [Encode_nocopy; Encode_copy false false false]) sched)) = true.
Proof. exact encode_nocopy_refuted. Qed.
Print Assumptions C06_encode_nocopy_refuted.

Theorem C06_ast_free_before_copy_refuted :
  exists sched, read_of_pooled (snd (run (init [AstMarshal_free_before_copy]) sched)) = true.
Proof. exact ast_free_before_copy_refuted. Qed.
Print Assumptions C06_ast_free_before_copy_refuted.

(* the produced bytes do not depend on capacity, on the garbage behind len, or on what growslice leaves behind *)
Theorem C06_output_cap_independent : forall b1 b2 outs1 outs2,
  wf b1 -> wf b2 -> visible b1 = visible b2 -> map fst outs1 = map fst outs2 ->
  visible (appends b1 outs1) = visible (appends b2 outs2).
Proof. exact output_cap_independent. Qed.
Print Assumptions C06_output_cap_independent.

Theorem C06_pooled_output : forall b outs, wf b -> len b = 0 -> visible (appends b outs) = concat (map fst outs).
Proof. exact pooled_output. Qed.
Print Assumptions C06_pooled_output.

(* alg.Quote / alg.HtmlEscape: GuardSlice2 (translated from the Go source) + the native loop never write beyond cap and never
   read outside the source, for any capacity sequence and any native behaviour within its contract *)
Theorem C06_quote_loop_in_bounds : forall native grow fuel l c nb,
  (forall nb dn, (0 <= nb -> 0 <= dn -> let '(fin, k, w) := native nb dn in 0 <= w <= dn /\ 0 <= k <= nb /\ (fin = true -> k = nb))%Z) ->
  (forall c, (2 * c <= grow c)%Z) ->
  (0 <= l <= c -> c <= 2 ^ 61 -> 0 <= nb < 2 ^ 61 ->
  let '(l', c') := rt_GuardSlice2 l c (nb + 1) in
  l' = l /\ nb + 1 <= c' - l' /\ Forall (call_ok nb) (loop native grow fuel 0 nb l' c'))%Z.
Proof. exact quote_loop_in_bounds. Qed.
Print Assumptions C06_quote_loop_in_bounds.

Theorem C06_htmlescape_loop_in_bounds : forall native grow fuel len cap nb,
  (forall nb dn, (0 <= nb -> 0 <= dn -> let '(fin, k, w) := native nb dn in 0 <= w <= dn /\ 0 <= k <= nb /\ (fin = true -> k = nb))%Z) ->
  (forall c, (2 * c <= grow c)%Z) ->
  (0 <= len <= cap -> 0 <= nb -> Forall (call_ok nb) (loop native grow fuel 0 nb len cap))%Z.
Proof. exact htmlescape_loop_in_bounds. Qed.
Print Assumptions C06_htmlescape_loop_in_bounds.

(* generated x86 stores vs reserved space, over Gen/CheckSize.v *)
Theorem C06_check_size_covers : forallb emitter_ok emitters = true.
Proof. exact check_size_covers. Qed.
Print Assumptions C06_check_size_covers.

Theorem C06_check_size_census : (52 <= n_emitters /\ Z.of_nat (length emitters) = n_emitters /\ n_emitters <= n_paths)%Z.
Proof. exact check_size_census. Qed.
Print Assumptions C06_check_size_census.

(* the unquote destination make([]byte, 0, len(s)) is large enough (model and proof by C20: Str/UnquoteProofs.v) *)
Theorem C06_unquote_len_le : forall flags s o, has flags c_F_DBLUNQ = false ->
  unquote flags s = UOk o -> length o <= length s.
Proof. exact unquote_len_le. Qed.
Print Assumptions C06_unquote_len_le.
