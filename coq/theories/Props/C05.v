(* C05 - Results depend only on the input bytes; nothing outside the input is ever read.
   Only statements, closed by `exact`, with Print Assumptions beneath each. *)
From Coq Require Import NArith ZArith List Arith Bool.
From SV.Mem Require Import Mem Scan Routines.
Import ListNotations.

(* the generic theorem of the read monad: a run that only touches indices inside the input gives the same result and the
   same accesses whatever bytes follow the input *)
Theorem C05_tail_independent : forall {A} (p : prog A) (s t1 t2 : list byte),
  in_bounds (length s) (touched (s ++ t1) p) -> run (s ++ t2) p = run (s ++ t1) p.
Proof. exact @tail_independent. Qed.
Print Assumptions C05_tail_independent.

(* page model: with the input flush against the end of its page, a run faults iff it touches an index >= len *)
Theorem C05_flush_faults_iff : forall base len l, 0 < len -> (base + len) mod page_size = 0 ->
  faults base len l = negb (in_boundsb len l).
Proof. exact flush_faults_iff. Qed.
Print Assumptions C05_flush_faults_iff.

(* lspace.h lspace_1 (32-byte block loop + scalar tail; w = 0: the SSE build) *)
Theorem C05_lspace_reads_in_bounds : forall (s t : list byte) w p,
  in_bounds (length s) (touched (s ++ t) (lspace_1 w (length s) p)).
Proof. exact lspace_reads_in_bounds. Qed.
Print Assumptions C05_lspace_reads_in_bounds.
Theorem C05_lspace_tail_independent : forall (s t1 t2 : list byte) w p,
  run (s ++ t1) (lspace_1 w (length s) p) = run (s ++ t2) (lspace_1 w (length s) p).
Proof. exact lspace_tail_independent. Qed.
Print Assumptions C05_lspace_tail_independent.

(* scanning.h advance_ns *)
Theorem C05_advance_ns_reads_in_bounds : forall (s t : list byte) w p,
  in_bounds (length s) (touched (s ++ t) (advance_ns w (length s) p)).
Proof. exact advance_ns_reads_in_bounds. Qed.
Print Assumptions C05_advance_ns_reads_in_bounds.
Theorem C05_advance_ns_tail_independent : forall (s t1 t2 : list byte) w p,
  run (s ++ t1) (advance_ns w (length s) p) = run (s ++ t2) (advance_ns w (length s) p).
Proof. exact advance_ns_tail_independent. Qed.
Print Assumptions C05_advance_ns_tail_independent.
Theorem C05_advance_ns_cursor_bound : forall (s t : list byte) w p,
  snd (result (s ++ t) (advance_ns w (length s) p)) <= Nat.max (length s) (p + 4).
Proof. exact advance_ns_cursor_bound. Qed.
Print Assumptions C05_advance_ns_cursor_bound.

(* scanning.h advance_dword: partial (exact guard: the size_t expression len + dec - 4 must not wrap) and refuted *)
Theorem C05_advance_dword_reads_partial : forall (s t : list byte) p dec val,
  size_ok (length s) -> dec <= 1 -> dec <= p -> 4 <= length s + dec ->
  in_bounds (S (length s)) (touched (s ++ t) (advance_dword (length s) p dec val)).
Proof. exact advance_dword_reads_partial. Qed.
Print Assumptions C05_advance_dword_reads_partial.
Theorem C05_advance_dword_load_in_bounds : forall (s t : list byte) p dec val,
  size_ok (length s) -> dec <= 1 -> dec <= p -> 4 <= length s + dec ->
  forall i, In i (firstn 4 (touched (s ++ t) (advance_dword (length s) p dec val))) -> i < length s.
Proof. exact advance_dword_load_in_bounds. Qed.
Print Assumptions C05_advance_dword_load_in_bounds.
Theorem C05_advance_dword_oob_refuted :
  exists (s : list byte) p dec val,
    touched s (advance_dword (length s) p dec val) <> [] /\
    ~ in_bounds (length s) (touched s (advance_dword (length s) p dec val)).
Proof. exact advance_dword_oob_refuted. Qed.
Print Assumptions C05_advance_dword_oob_refuted.
Theorem C05_advance_dword_tail_dependent_refuted :
  exists (s t1 t2 : list byte) p dec val,
    result (s ++ t1) (advance_dword (length s) p dec val) <> result (s ++ t2) (advance_dword (length s) p dec val).
Proof. exact advance_dword_tail_dependent_refuted. Qed.
Print Assumptions C05_advance_dword_tail_dependent_refuted.

(* value.c: literal dispatch; "t" "n" "tr" "nu" "f" "fa" "fal" " t" read beyond the input, every 4-byte word over
   {t r u e n l f a s blank 0 [} does not (exhaustive sweep of 12^4 words) *)
Theorem C05_value_short_literal_oob_refuted :
  forallb (fun s => oob s (value_head 32 (length s) 0))
    [[116]; [110]; [116; 114]; [110; 117]; [102]; [102; 97]; [102; 97; 108]; [32; 116]]%N = true.
Proof. exact value_short_literal_oob_refuted. Qed.
Print Assumptions C05_value_short_literal_oob_refuted.
Theorem C05_value_head_in_bounds_len4 :
  forallb (fun s => negb (oob s (value_head 32 (length s) 0))) (words 4) = true.
Proof. exact value_head_in_bounds_len4. Qed.
Print Assumptions C05_value_head_in_bounds_len4.

(* vnumber / vinteger prefix: at most one byte behind the input, and exactly when the input ends after a leading zero *)
Theorem C05_vnumber_head_reads_at_most_one_beyond : forall (s t : list byte) p,
  in_bounds (S (length s)) (touched (s ++ t) (vnumber_head (length s) p)).
Proof. exact vnumber_head_reads_at_most_one_beyond. Qed.
Print Assumptions C05_vnumber_head_reads_at_most_one_beyond.
Theorem C05_check_leading_zero_oob_refuted :
  forallb (fun sp => let '(s, p) := sp in negb (in_boundsb (length s) (touched s (vnumber_head (length s) p))))
    [([48%N], 0); ([45%N; 48%N], 0); ([91%N; 48%N], 1); ([123%N; 34%N; 97%N; 34%N; 58%N; 48%N], 5)] = true.
Proof. exact check_leading_zero_oob_refuted. Qed.
Print Assumptions C05_check_leading_zero_oob_refuted.

(* strings and digit runs *)
Theorem C05_string_scan_reads_in_bounds : forall (s t : list byte) w p,
  in_bounds (length s) (touched (s ++ t) (string_blocks (S (length s)) w p (length s))).
Proof. exact string_scan_reads_in_bounds. Qed.
Print Assumptions C05_string_scan_reads_in_bounds.
Theorem C05_string_scan_tail_independent : forall (s t1 t2 : list byte) w p,
  run (s ++ t1) (string_blocks (S (length s)) w p (length s)) = run (s ++ t2) (string_blocks (S (length s)) w p (length s)).
Proof. exact string_scan_tail_independent. Qed.
Print Assumptions C05_string_scan_tail_independent.
Theorem C05_digits_reads_in_bounds : forall (s t : list byte) p,
  in_bounds (length s) (touched (s ++ t) (digits_loop (length s - p) p (length s))).
Proof. exact digits_reads_in_bounds. Qed.
Print Assumptions C05_digits_reads_in_bounds.

(* optdec newParser: reads below len + 64 stay inside the private padded copy *)
Theorem C05_padded_copy_reads_private : forall {A} (p : prog A) (s t1 t2 : list byte),
  in_bounds (length s + 64) (touched ((s ++ padding) ++ t1) p) ->
  run ((s ++ padding) ++ t2) p = run ((s ++ padding) ++ t1) p.
Proof. exact @padded_copy_reads_private. Qed.
Print Assumptions C05_padded_copy_reads_private.

(* ---- the W-blocked finders (reusing b-c10's Simd/Blocked.v and b-c20's Str/Common.v) *)
From SV.Simd Require Import Blocked.
From SV.Str Require Import Common.
From SV.Mem Require Import Blocked.

(* any cascade of vector rounds + scalar tail only loads inside the input, whatever the widths ... *)
Theorem C05_cascade_reads_in_bounds : forall p ps (s t : list byte) i,
  in_bounds (length s) (touched (s ++ t) (cascade_m p ps i (length s))).
Proof. intros. eapply safe_reads_in_bounds. apply cascade_m_safe. Qed.
Print Assumptions C05_cascade_reads_in_bounds.

(* ... and computes b-c10's pure cascade (= the scalar specification) *)
Theorem C05_cascade_is_pure_cascade : forall p ps, Forall (fun ph => width ph > 0) ps ->
  forall (s t : list N) i, i <= length s ->
  result (s ++ t) (cascade_m p ps i (length s)) = i + cascade p ps (skipn i s).
Proof. exact cascade_m_is_cascade. Qed.
Print Assumptions C05_cascade_is_pure_cascade.

(* lspace_1, memcchr_p32, memcchr_quote_unsafe in both SIMD builds *)
Theorem C05_blocked_finders_read_in_bounds : forall (s t : list N) avx2 i,
  in_bounds (length s) (touched (s ++ t) (lspace_m avx2 i (length s))) /\
  in_bounds (length s) (touched (s ++ t) (memcchr_p32_m avx2 i (length s))) /\
  in_bounds (length s) (touched (s ++ t) (memcchr_quote_unsafe_m avx2 i (length s))).
Proof. exact blocked_finders_read_in_bounds. Qed.
Print Assumptions C05_blocked_finders_read_in_bounds.

Theorem C05_blocked_finders_tail_independent : forall (s t1 t2 : list N) avx2 i,
  run (s ++ t1) (lspace_m avx2 i (length s)) = run (s ++ t2) (lspace_m avx2 i (length s)) /\
  run (s ++ t1) (memcchr_p32_m avx2 i (length s)) = run (s ++ t2) (memcchr_p32_m avx2 i (length s)) /\
  run (s ++ t1) (memcchr_quote_unsafe_m avx2 i (length s)) = run (s ++ t2) (memcchr_quote_unsafe_m avx2 i (length s)).
Proof. exact blocked_finders_tail_independent. Qed.
Print Assumptions C05_blocked_finders_tail_independent.

(* the copy-on-the-fly finder of quote / html_escape (rounds need nb >= W and dn >= W), any width list, any output space *)
Theorem C05_memcchr_quote_reads_in_bounds : forall ws (s t : list N) dn,
  in_bounds (length s) (touched (s ++ t) (memcchr_ws_m find_quote_lane single_special ws 0 (length s) 0 dn)) /\
  in_bounds (length s) (touched (s ++ t) (memcchr_ws_m find_html_lane find_html_lane ws 0 (length s) 0 dn)).
Proof. exact memcchr_quote_reads_in_bounds. Qed.
Print Assumptions C05_memcchr_quote_reads_in_bounds.

Theorem C05_memcchr_ws_m_agrees_sweep :
  forallb (fun s => forallb (fun dn =>
      Z.eqb (result s (memcchr_ws_m find_quote_lane single_special [4; 2] 0 (length s) 0 dn))
            (memcchr_ws [4; 2] find_quote_lane single_special s 0 dn))
    (seq 0 8)) (strs 6) = true.
Proof. exact memcchr_ws_m_agrees_sweep. Qed.
Print Assumptions C05_memcchr_ws_m_agrees_sweep.

(* the page-guard argument: a W-byte load issued with fewer than W bytes left, only when it cannot cross a page boundary,
   touches nothing outside the input's pages and its verdict does not depend on what it over-reads *)
Theorem C05_guarded_tail_page_safe : forall base W i n key (m : list N),
  0 < W <= 4096 -> 0 < length key -> i + length key <= n ->
  page_safe base n (touched m (guarded_tail base W i key)).
Proof. exact guarded_tail_page_safe. Qed.
Print Assumptions C05_guarded_tail_page_safe.

Theorem C05_guarded_tail_tail_independent : forall base W i key (s t1 t2 : list N),
  length key <= W -> i + length key <= length s ->
  result (s ++ t1) (guarded_tail base W i key) = result (s ++ t2) (guarded_tail base W i key).
Proof. exact guarded_tail_tail_independent. Qed.
Print Assumptions C05_guarded_tail_tail_independent.

(* ---- optdec's private padded copy, tied to the source by Gen/OptPad.v *)
From SV.Gen Require Import OptPad.
From SV.Mem Require Import PadTie.
Theorem C05_padded_buffer_is_input_then_padding : forall data pos,
  padded_buffer data pos = skipn pos data ++ padding.
Proof. exact padded_buffer_is_input_then_padding. Qed.
Print Assumptions C05_padded_buffer_is_input_then_padding.

Theorem C05_resumed_parse_sees_only_input : forall {A} (p : prog A) (data : list N) pos (t1 t2 : list N),
  in_bounds (length (skipn pos data) + 64)%nat (touched (padded_buffer data pos ++ t1) p) ->
  run (padded_buffer data pos ++ t2) p = run (padded_buffer data pos ++ t1) p.
Proof. exact @resumed_parse_sees_only_input. Qed.
Print Assumptions C05_resumed_parse_sees_only_input.
