(* C11 - The alternative decoder implementation is observably equivalent. (statements added as they are proved) *)
From Coq Require Import NArith ZArith List Bool.
From SV.Dec Require Import Ty Val Parse Text Num Common FieldMap StdBind SonicBind DecProofs.
Import ListNotations.

(* placeholder until Dec/OptProofs.v: the binder of the proved fragment does not depend on the hash function
   used by the field table, so the three implementations, which share it, agree on field selection *)
Theorem C11_binder_hash_independent : forall (h1 h2 : bytes -> N) (o : opts) t, frag t = true ->
  forall j v, strict_jv j = true -> guards o j -> sonic_bind h1 o t j v = sonic_bind h2 o t j v.
Proof.
  intros h1 h2 o t F j v S G.
  rewrite (proj1 (bind_agree_all h1 o) t F j v S G), (proj1 (bind_agree_all h2 o) t F j v S G). reflexivity.
Qed.
Print Assumptions C11_binder_hash_independent.
