(* C11 - The alternative decoder implementation (SONIC_USE_OPTDEC, +SONIC_USE_FASTMAP) is observably equivalent.
   Only statements, closed by `exact`, with Print Assumptions beneath each.
   Model: Dec/SonicBind.v with the implementation parameter `impl` (Jit | Opt | OptFast). *)
From Coq Require Import NArith ZArith List Bool String.
From SV.Dec Require Import Ty Val Parse ParseMono Text Num Common FieldMap StdBind SonicBind DecProofs Witness OptProofs.
Import ListNotations.
Open Scope string_scope.

(* binder level: on the fragment (bool, every integer width, float64, string, interface{}, pointers, slices, arrays,
   structs with unquoted fields of pairwise distinct ASCII names; json.Number excluded), for every document whose
   strings all three unquoters read alike and whose objects have pairwise distinct keys (after lower-casing), every initial value without hidden slice elements, every option set and every hash function:
   the alternative binder (with or without the fast map) returns exactly what the default one returns *)
Theorem C11_binder_equiv_partial : forall (h : bytes -> N) (o : opts) t, frag11 t = true ->
  forall im j v, is_opt im = true -> guards11 o j -> nh v = true ->
  sonic_bind h im o t j v = sonic_bind h Jit o t j v.
Proof. exact (fun h o => proj1 (equiv_all h o)). Qed.
Print Assumptions C11_binder_equiv_partial.

(* on input bytes: for every valid document (accepted by the strict reader, well-formed UTF-8, no number beyond
   binary64) satisfying the conditions above, Unmarshal gives the same error-or-not and the same value under the three
   implementations *)
Theorem C11_equiv : forall (h : bytes -> N) (o : opts) im t s v j,
  is_opt im = true -> frag11 t = true -> nh v = true ->
  utf8_valid s = true -> lparse true s = Some j -> doc_ok o j ->
  sonic_unmarshal h im o t s v = sonic_unmarshal h Jit o t s v.
Proof. exact equiv_top. Qed.
Print Assumptions C11_equiv.

(* every structurally malformed input is rejected by all three implementations, for every destination type *)
Theorem C11_malformed_rejected : forall (h : bytes -> N) (o : opts) im t s v,
  let s' := if o_validate o then (if utf8_valid s then s else utf8_correct s) else s in
  lparse false s' = None -> sonic_unmarshal h im o t s v = Err.
Proof. exact malformed_rejected. Qed.
Print Assumptions C11_malformed_rejected.

(* what the strict reader accepts, the lenient reader accepts with the same tree (used by both theorems) *)
Theorem C11_reader_monotone : forall s j, lparse true s = Some j -> lparse false s = Some j.
Proof. exact lparse_mono. Qed.
Print Assumptions C11_reader_monotone.

(* the hypotheses are satisfiable, under both stock configurations, and the common result is a value *)
Example C11_equiv_nonvacuous : forall o, (o = opts_std \/ o = opts_default) ->
  exists j, lparse true ex11_in = Some j /\ doc_ok o j /\ frag11 ex_ty = true /\ nh ex_v0 = true /\ utf8_valid ex11_in = true /\
            sonic_unmarshal h1 Opt o ex_ty ex11_in ex_v0 = sonic_unmarshal h1 Jit o ex_ty ex11_in ex_v0 /\
            sonic_unmarshal h1 OptFast o ex_ty ex11_in ex_v0 = sonic_unmarshal h1 Jit o ex_ty ex11_in ex_v0 /\
            exists r, sonic_unmarshal h1 Jit o ex_ty ex11_in ex_v0 = Ok r.
Proof. exact equiv_example. Qed.
Print Assumptions C11_equiv_nonvacuous.

(* ------------------------------------------------------------------ divergences the faithful model contains
   (each witness is replayed on the three real back ends from corpus/C01; known_findings.d/C11.json) *)

Theorem C11_float_inf_refuted :
  let t := TStruct (fld "n" TNum FNil) in
  sonic_unmarshal h1 Jit opts_std t (b "{""n"":1e400}") (VList [VStr []] []) = Ok (VList [VStr (b "1e400")] []) /\
  sonic_unmarshal h1 Opt opts_std t (b "{""n"":1e400}") (VList [VStr []] []) = Err /\
  sonic_unmarshal h1 Jit opts_std (TStruct (fld "a" (TInt I64) FNil)) (b "{""zz"":1e400}") (VList [VInt 0] []) = Ok (VList [VInt 0] []) /\
  sonic_unmarshal h1 Opt opts_std (TStruct (fld "a" (TInt I64) FNil)) (b "{""zz"":1e400}") (VList [VInt 0] []) = Err.
Proof. exact float_inf_refuted. Qed.
Print Assumptions C11_float_inf_refuted.

(* repaired (ea591a6): a null element of []string and a null value of map[string]string *)
Theorem C11_slice_and_map_null_agree :
  sonic_unmarshal h1 Jit opts_std (TSlice TStr) (b "[null]") VNil = Ok (VList [VStr []] []) /\
  sonic_unmarshal h1 Opt opts_std (TSlice TStr) (b "[null]") VNil = Ok (VList [VStr []] []) /\
  sonic_unmarshal h1 Jit opts_std (TMap KStr TStr) (b "{""k"":null}") VNil = Ok (VMap [(VStr (b "k"), VStr [])]) /\
  sonic_unmarshal h1 Opt opts_std (TMap KStr TStr) (b "{""k"":null}") VNil = Ok (VMap [(VStr (b "k"), VStr [])]).
Proof. exact slice_and_map_null_agree. Qed.
Print Assumptions C11_slice_and_map_null_agree.

Theorem C11_slice_grow_refuted :
  let t := TSlice (TStruct (fld "A" (TInt I64) (fld "B" (TInt I64) FNil))) in
  let v := VList [] [VList [VInt 7; VInt 8] []] in
  let s := b "[{""A"":1},{""A"":2}]" in
  sonic_unmarshal h1 Jit opts_std t s v = Ok (VList [VList [VInt 1; VInt 8] []; VList [VInt 2; VInt 0] []] []) /\
  sonic_unmarshal h1 Opt opts_std t s v = Ok (VList [VList [VInt 1; VInt 0] []; VList [VInt 2; VInt 0] []] []).
Proof. exact slice_grow_refuted. Qed.
Print Assumptions C11_slice_grow_refuted.

(* repaired divergences (afd5482, 39e707a) now agree *)
Theorem C11_u32_key_and_f32_edge_agree :
  sonic_unmarshal h1 Jit opts_std (TMap (KInt U32) (TInt I64)) (b "{""4294967296"":1}") VNil = Err /\
  sonic_unmarshal h1 Opt opts_std (TMap (KInt U32) (TInt I64)) (b "{""4294967296"":1}") VNil = Err /\
  sonic_unmarshal h1 Jit opts_std TF32 (b "3.4028235e38") (VFlt 0) = Ok (VFlt 2139095039) /\
  sonic_unmarshal h1 Opt opts_std TF32 (b "3.4028235e38") (VFlt 0) = Ok (VFlt 2139095039).
Proof. exact u32_key_and_f32_edge_agree. Qed.
Print Assumptions C11_u32_key_and_f32_edge_agree.

(* repaired (fac5479) *)
Theorem C11_ptrptr_null_agree :
  sonic_unmarshal h1 Jit opts_std (TPtr (TPtr TUnm)) (b "null") VNil = Ok VNil /\
  sonic_unmarshal h1 Opt opts_std (TPtr (TPtr TUnm)) (b "null") VNil = Ok VNil.
Proof. exact ptrptr_null_agree_11. Qed.
Print Assumptions C11_ptrptr_null_agree.
