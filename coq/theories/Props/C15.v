(* C15 - ast.Node behaves like a plain ordered tree; lazy loading is unobservable.
   Only statements, closed by `exact`, with Print Assumptions beneath each. *)
From Coq Require Import List Arith Bool NArith.
From SV.Ast Require Import Linked Tree Node Refute LinkedProofs IndexProofs NodeRefine ArrayRefine RootRefine ObjectRefine ObjectOps ObjectSet RootRefine2 ArrayOps ArraySet RootRefine3 ObjectIdx ObjectPop ObjectIdxOps RootRefine4 PathRefine MoveProofs MoveOps.
Import ListNotations.

(* ---- the chunked child storage (head [16] + tail chunks + size) is a plain list ---- *)
(* for every well-formed storage (every size, any number of chunks) and every sequence of Push / Pop / Set / store-through-At,
   ToSlice-style abstraction and At agree with the plain list operations *)
Theorem C15_linked_refines_list :
  forall (A : Type) (dflt : A) (ops : list (lop (A := A))) (s : linked A),
    wf s ->
    to_list (fold_left (lstep dflt) ops s) = fold_left lspec ops (to_list s) /\
    wf (fold_left (lstep dflt) ops s) /\
    forall i, At (fold_left (lstep dflt) ops s) i = nth_error (fold_left lspec ops (to_list s)) i.
Proof. exact (@linked_refines_list). Qed.
Print Assumptions C15_linked_refines_list.

(* FromSlice (NewArray / NewObject) starts from exactly the given slice, whatever its length *)
Theorem C15_linked_from_slice :
  forall (A : Type) (dflt : A) (con : list A) (ops : list (lop (A := A))),
    to_list (fold_left (lstep dflt) ops (FromSlice dflt con)) = fold_left lspec ops con.
Proof. exact (@linked_from_slice_refines). Qed.
Print Assumptions C15_linked_from_slice.

Example C15_linked_nonvacuous : wf (FromSlice 0%nat (seq 0 40)) /\ At (FromSlice 0%nat (seq 0 40)) 33 = Some 33%nat.
Proof. split; [apply FromSlice_spec | vm_compute; reflexivity]. Qed.

(* ---- the key index ---- *)
(* for every hash function (collisions allowed): when the index agrees with the live pairs and no live key is duplicated,
   Get(key) of a non-empty key is the first-occurrence search over the cells and never dereferences nil *)
Theorem C15_index_get_spec :
  forall (hash : bytes -> N) (s : lpairs node) (key : bytes),
    wf (pv s) -> cells_ok hash (to_list (pv s)) -> nodup_live (to_list (pv s)) ->
    (forall m, index s = Some m -> index_ok hash m (to_list (pv s))) ->
    key <> [] ->
    P_Get hash s key = getres_of (find_cell (to_list (pv s)) key 0).
Proof. exact index_get_spec. Qed.
Print Assumptions C15_index_get_spec.

Theorem C15_noindex_get_spec :
  forall (hash : bytes -> N) (s : lpairs node) (key : bytes),
    wf (pv s) -> index s = None -> key <> [] -> P_Get hash s key = getres_of (find_cell (to_list (pv s)) key 0).
Proof. exact noindex_get_spec. Qed.
Print Assumptions C15_noindex_get_spec.

(* ---- laziness / representation is not observable through the abstraction ---- *)
(* a value denotes the same tree whether it arrives raw, raw with a lock, lazily parsed or built with the constructors *)
Theorem C15_value_representation_irrelevant :
  forall (hash : bytes -> N) (r1 r2 : repr) (t : tree),
    abs (mk_value hash (r1, t)) = abs (mk_value hash (r2, t)) /\ abs (mk_value hash (r1, t)) = t.
Proof.
  intros. destruct (abs_mk_value hash (r1, t)) as (_ & H1). destruct (abs_mk_value hash (r2, t)) as (_ & H2).
  simpl in *. split; congruence.
Qed.
Print Assumptions C15_value_representation_irrelevant.

(* parsing a raw node (checkRaw/parseRaw: lazily, or one level under a lock) does not change what it denotes *)
Theorem C15_checkRaw_unobservable : forall hash n, abs (snd (checkRaw hash n)) = abs n.
Proof. exact abs_checkRaw. Qed.
Print Assumptions C15_checkRaw_unobservable.

(* completing a lazy array (skipAllIndex: children kept raw; loadAllIndex: parsed once / fully) does not change it *)
Theorem C15_skipAllIndex_unobservable :
  forall hash n, arr_inv n -> abs (skipAllIndex hash n) = abs n /\ arr_inv (skipAllIndex hash n).
Proof. exact abs_skipAllIndex. Qed.
Print Assumptions C15_skipAllIndex_unobservable.

Theorem C15_loadAllIndex_unobservable :
  forall hash once n, arr_inv n -> abs (loadAllIndex hash once n) = abs n /\ arr_inv (loadAllIndex hash once n).
Proof. exact abs_loadAllIndex. Qed.
Print Assumptions C15_loadAllIndex_unobservable.

(* loading one child at a time up to position index (skipIndex on a lazy array): the array denotes the same tree, stays
   well formed, and the cell returned holds exactly the index-th element - or nil exactly when index is out of range *)
Theorem C15_lazy_index_spec :
  forall index l v rest,
    wf v -> l = size v -> forallb exists_ (to_list v) = true -> size v <= index ->
    let r := skip_index_loop index l v rest in
    abs (snd r) = TArr (live_abs (to_list v) ++ rest) /\ arr_inv (snd r) /\
    (index < size v + length rest ->
       exists j c, fst r = Some j /\ child_at (snd r) j = Some c /\ exists_ c = true /\
                   nth_error (live_abs (to_list v) ++ rest) (Nat.max index (size v)) = Some (abs c)) /\
    (size v + length rest <= index -> fst r = None).
Proof. exact skip_index_loop_spec. Qed.
Print Assumptions C15_lazy_index_spec.

Example C15_lazy_index_nonvacuous :
  fst (skip_index_loop 2 0 emptyN [TNull; TTrue; TFalse; TNull]) = Some 2.
Proof. vm_compute. reflexivity. Qed.

(* ---- clauses of the property that the faithful model REFUTES (each witness replays on /repo, corpus/C15) ---- *)

(* REPAIRED in /repo (ffe8bf0): object beyond the index threshold with a duplicated key - loaded or lazy, Get / Unset address
   the first occurrence and Pop of the last duplicate does not hide the first (regression histories of the former refutations) *)
Theorem C15_node_dupkeys_index_agrees :
  model_obs (RRaw, dup_doc) dup_ops = spec_obs (RRaw, dup_doc) dup_ops /\
  model_obs (RRaw, dup_doc) popdup_ops = spec_obs (RRaw, dup_doc) popdup_ops /\
  model_obs (RRaw, dup_doc) [([SKey (key_n 3)], OpLook)] = spec_obs (RRaw, dup_doc) [([SKey (key_n 3)], OpLook)].
Proof. exact (conj dupkeys_index_agrees (conj popdup_index_agrees dupkeys_lazy_agrees)). Qed.
Print Assumptions C15_node_dupkeys_index_agrees.

(* REPAIRED in /repo (ecd1239): Unset(key); Pop(); Get(key) on an indexed object reports "not found" instead of panicking *)
Theorem C15_node_stale_index_agrees :
  model_obs (RRaw, TObj (obj_n 18)) stale_ops = spec_obs (RRaw, TObj (obj_n 18)) stale_ops.
Proof. exact stale_index_agrees. Qed.
Print Assumptions C15_node_stale_index_agrees.

(* Len observes how much of a lazy node has been parsed *)
Theorem C15_node_len_lazy_refuted :
  model_obs (RRaw, len_doc) [([], OpLen)] <> spec_obs (RRaw, len_doc) [([], OpLen)]
  /\ model_obs (RRaw, len_doc) [([], OpLoad); ([], OpLen)] = spec_obs (RRaw, len_doc) [([], OpLoad); ([], OpLen)].
Proof. exact (conj len_lazy_witness len_loaded_agrees). Qed.
Print Assumptions C15_node_len_lazy_refuted.

(* REPAIRED in /repo (6c9aabd): the key "" is no longer shadowed by a soft-deleted pair (regression history) *)
Theorem C15_node_emptykey_unset_agrees : model_obs (RRaw, ek_doc) ek_ops = spec_obs (RRaw, ek_doc) ek_ops.
Proof. exact emptykey_unset_agrees. Qed.
Print Assumptions C15_node_emptykey_unset_agrees.

(* REPAIRED in /repo (d346b1d): an out-of-range Move is a no-op also when a cell is unset; in-range moves still move *)
Theorem C15_node_move_oor_holes_agrees : model_obs (RRaw, mv_doc) mv_ops = spec_obs (RRaw, mv_doc) mv_ops.
Proof. exact move_oor_holes_agrees. Qed.
Print Assumptions C15_node_move_oor_holes_agrees.

(* ---- node_refines_tree (PARTIAL): induction over the op list ----
   For every hash function, every document, every initial representation of it (raw, raw with lock, lazily parsed, built with the
   constructors) and EVERY finite sequence of root-level Look / Load / LoadAll / Add operations, every observation of the model
   equals the plain tree's: which parts happen to be parsed, and when, is not observable.  The fragment is what is proved;
   the remaining operations (Get/Index below the root, Len, Set, SetByIndex, Unset, UnsetByIndex, Pop, Move, SortKeys, ForEach,
   MarshalJSON, Interface) are covered by the three-way replay of checks/C15.py and by the layer theorems above, and three of
   them are refuted as stated (Len on a lazy node, key "" with a soft-deleted pair, out-of-range Move with holes). *)
Theorem C15_node_refines_tree_partial :
  forall (hash : bytes -> N) (v : value) (ops : list step),
    forallb frag ops = true ->
    fst (run hash ops (mk_value hash v)) = fst (spec_run ops (snd v)).
Proof. exact node_refines_tree_partial_from_doc. Qed.
Print Assumptions C15_node_refines_tree_partial.

Example C15_node_refines_tree_partial_nonvacuous :
  forallb frag [([], OpAdd (RLazy, TArr [TNull])); ([], OpLook); ([], OpLoad); ([], OpAdd (RRaw, TTrue)); ([], OpLook)] = true.
Proof. reflexivity. Qed.

(* ---- node_refines_tree (PARTIAL), second fragment ----
   adds Set(key, value) and Unset(key) with non-empty keys on raw / lazy / loaded objects (index or not, soft-deleted cells, lazy
   search of the first occurrence), for a hash without collisions that never returns 0 (caching.StrHash maps 0 to 1; a 64-bit
   collision is the theoretical defect noted in notes/C15.md). *)
Theorem C15_node_refines_tree_partial2 :
  forall (hash : bytes -> N),
    (forall a b, hash a = hash b -> a = b) ->
    forall (v : value) (ops : list step),
      forallb frag2 ops = true ->
      fst (run hash ops (mk_value hash v)) = fst (spec_run ops (snd v)).
Proof. intros hash Hinj. exact (node_refines_tree_partial2_from_doc hash Hinj). Qed.
Print Assumptions C15_node_refines_tree_partial2.

Example C15_node_refines_tree_partial2_nonvacuous :
  forallb frag2 [([], OpSet [97]%N (RLazy, TObj [([98]%N, TNull)])); ([], OpLook); ([], OpUnset [98]%N); ([], OpLoad);
                 ([], OpSet [97]%N (RRaw, TTrue)); ([], OpAdd (RFull, TNull))] = true
  /\ (forall a b, hash_inj a = hash_inj b -> a = b -> True).
Proof. split; [reflexivity|auto]. Qed.

(* the lazy key search: skipKey returns the cell of the FIRST occurrence of a non-empty key (searching the loaded pairs, then
   loading on demand), keeps the cells the object denotes and its invariant *)
Theorem C15_skipKey_spec :
  forall hash n key,
    oinv hash n -> is_object n = true -> key <> [] ->
    let r := skipKey hash n key in
    full_cells hash (snd r) = full_cells hash n /\ oinv hash (snd r) /\ is_object (snd r) = true /\
    fst r = keyres_of (getres_of (find_cell (full_cells hash n) key 0)) /\
    (forall j, fst r = KFound j -> j < loaded_size (snd r)) /\
    (fst r = KNil -> not_lazy (snd r)).
Proof. exact skipKey_spec. Qed.
Print Assumptions C15_skipKey_spec.

(* ---- node_refines_tree (PARTIAL), third fragment: documents whose root is an array ----
   every sequence of root-level Look / Load / LoadAll / Add / SetByIndex / UnsetByIndex / Pop with ANY index (in range or not):
   logical positions over soft-deleted cells, the last-element case of UnsetByIndex (which is Pop), Pop dropping trailing
   unset cells, loading one element at a time up to the index. *)
Theorem C15_node_refines_tree_partial3 :
  forall (hash : bytes -> N) (r : repr) (l : list tree) (ops : list step),
    forallb frag3 ops = true ->
    fst (run hash ops (mk_value hash (r, TArr l))) = fst (spec_run ops (TArr l)).
Proof. exact node_refines_tree_partial3_from_doc. Qed.
Print Assumptions C15_node_refines_tree_partial3.

Example C15_node_refines_tree_partial3_nonvacuous :
  forallb frag3 [([], OpUnsetIdx 1); ([], OpSetIdx 3 (RRaw, TNull)); ([], OpPop); ([], OpUnsetIdx 0); ([], OpAdd (RLazy, TArr []));
                 ([], OpLook); ([], OpLoad); ([], OpSetIdx 99 (RFull, TTrue))] = true.
Proof. reflexivity. Qed.

(* skipIndex: the cell of the idx-th LIVE element (soft-deleted cells skipped), loading on demand *)
Theorem C15_skipIndex_spec :
  forall n idx, arr_inv n -> is_array n = true ->
    let r := skipIndex n idx in
    full_acells (snd r) = full_acells n /\ arr_inv (snd r) /\ is_array (snd r) = true /\
    fst r = nth_live exists_ (full_acells n) idx 0 /\
    (forall j, fst r = Some j -> j < aloaded_size (snd r)) /\
    (fst r = None -> not_lazy (snd r)).
Proof. exact skipIndex_spec. Qed.
Print Assumptions C15_skipIndex_spec.

(* ---- node_refines_tree at the ROOT, all documents ----
   For a hash without collisions that never returns 0, every document (array, object or scalar root), every initial
   representation and EVERY sequence of root-level
     Look, Len (on a node that is not lazy), Load, LoadAll, Add, Set, Unset (non-empty keys), SetByIndex, UnsetByIndex, Pop
   - positional operations on objects included, any index in or out of range - every observation of the model equals the
   plain tree's (induction over the op list; invariant R2 = the node exists, denotes the tree, its storage is well formed, l counts
   the live cells, the index is consistent with the live pairs).  The fragments partial / partial2 / partial3 above are
   instances (partial holds for every hash).  Not covered: Move, SortKeys, ForEach, MarshalJSON, Interface and operations on nodes
   below the root (three-way replay only); Len on a lazy node is refuted (C15_node_len_lazy_refuted). *)
Theorem C15_node_refines_tree_root :
  forall (hash : bytes -> N),
    (forall a b, hash a = hash b -> a = b) -> (forall k, hash k <> 0%N) ->
    forall (v : value) (ops : list step),
      steps_ok hash ops (mk_value hash v) ->
      fst (run hash ops (mk_value hash v)) = fst (spec_run ops (snd v)).
Proof. intros hash H1 H2. exact (node_refines_tree_root_from_doc hash H1 H2). Qed.
Print Assumptions C15_node_refines_tree_root.

Example C15_node_refines_tree_root_nonvacuous :
  steps_ok hash_inj
    [([], OpSetIdx 1 (RRaw, TNull)); ([], OpUnsetIdx 0); ([], OpPop); ([], OpSet [97]%N (RLazy, TArr [TTrue])); ([], OpLoad); ([], OpLen);
     ([], OpUnset [98]%N); ([], OpLook)]
    (mk_value hash_inj (RRaw, TObj [([97]%N, TNull); ([98]%N, TTrue); ([99]%N, TFalse)])).
Proof. vm_compute. repeat split; try discriminate. Qed.

(* ---- nodes reached from the root ----
   one level: Node.Get / Node.Index (get_child, any representation, loading on demand) returns the cell that denotes the child the
   plain tree addresses (first occurrence of the key / idx-th live element or member), or the tree's error; storing through the
   returned pointer (put_child) denotes spec_put; loading never changes the values the node denotes *)
Theorem C15_get_child_spec :
  forall (hash : bytes -> N) n s, R2 hash n (abs n) -> sel_ok s ->
    let r := get_child hash n s in
    R2 hash (snd r) (abs n) /\ fvalues hash (snd r) = fvalues hash (snd (checkRaw hash n)) /\
    match spec_child (abs n) s with
    | SVal tc =>
      exists i c, fst r = LSlot i /\ child_at (snd r) i = Some c /\ exists_ c = true /\ abs c = tc /\
        nth_error (fvalues hash (snd r)) i = Some c /\
        forall c', exists_ c' = true ->
          R2 hash (put_child (snd r) i c') (spec_put (abs n) s (abs c')) /\
          fvalues hash (put_child (snd r) i c') = upd (fvalues hash (snd r)) i c'
    | SErr e => fst r = LErr e
    end.
Proof. exact get_child_spec. Qed.
Print Assumptions C15_get_child_spec.

(* all levels, read-only: with the recursive invariant dgood (every node below is well formed), EVERY history of lookups at
   ARBITRARY paths (Get / Index chains = Node.GetByPath; non-empty keys) from every document in every initial representation
   observes exactly what the plain tree gives - the value found, "not found", "unsupported type" - whatever earlier lookups happened
   to parse.  (Mutations below the root are not proved: the per-operation "the cells of the result come from the old cells, the new
   value or fresh raw cells" lemmas that keep dgood are missing; they are covered by the three-way replay.) *)
Theorem C15_lookups_at_any_depth :
  forall (hash : bytes -> N) (v : value) (ops : list step),
    Forall look_step ops ->
    fst (run hash ops (mk_value hash v)) = fst (spec_run ops (snd v)).
Proof. exact look_run_from_doc. Qed.
Print Assumptions C15_lookups_at_any_depth.

Example C15_lookups_nonvacuous :
  Forall look_step [([SKey [97]%N; SIdx 1; SKey [98]%N], OpLook); ([SIdx 0], OpLook); ([SKey [97]%N; SIdx 7], OpLook); ([], OpLook)].
Proof. repeat constructor; simpl; discriminate. Qed.

(* ---- MoveOne on the chunked storage ----
   for every well-formed storage and every pair of positions (equal, in range, out of range): MoveOne(source, target) is the plain
   list move - the element at source is taken out and inserted at target, the ones in between slide by one; nothing else changes *)
Theorem C15_move_one_spec :
  forall (A : Type) (s : linked A) (source target : nat), wf s ->
    to_list (MoveOne s source target) = move_nth target source (to_list s) /\ wf (MoveOne s source target) /\
    size (MoveOne s source target) = size s.
Proof. exact (@MoveOne_spec). Qed.
Print Assumptions C15_move_one_spec.

Example C15_move_one_nonvacuous :
  to_list (MoveOne (FromSlice 0%nat (seq 0 40)) 3 35) = move_nth 35 3 (seq 0 40) /\ nth_error (move_nth 35 3 (seq 0 40)) 35 = Some 3%nat.
Proof. split; vm_compute; reflexivity. Qed.

(* ---- node_refines_tree at the root, with Move ----
   C15_node_refines_tree_root extended by Move(dst, src) - any positions, in or out of range - on an array that has no soft-deleted
   cell at that moment (guard `dense`, evaluated on the model state like the Len guard).  Move over unset cells (the logical ->
   physical translation move_translate) is not proved; it is covered by the replay and the regression witness of fix d346b1d. *)
Theorem C15_node_refines_tree_root_move :
  forall (hash : bytes -> N),
    (forall a b, hash a = hash b -> a = b) -> (forall k, hash k <> 0%N) ->
    forall (v : value) (ops : list step),
      steps_ok5 hash ops (mk_value hash v) ->
      fst (run hash ops (mk_value hash v)) = fst (spec_run ops (snd v)).
Proof. intros hash H1 H2. exact (node_refines_tree_root5_from_doc hash H1 H2). Qed.
Print Assumptions C15_node_refines_tree_root_move.

Example C15_node_refines_tree_root_move_nonvacuous :
  steps_ok5 hash_inj
    [([], OpMove 3 0); ([], OpAdd (RRaw, TNull)); ([], OpMove 0 4); ([], OpMove 9 1); ([], OpSetIdx 2 (RFull, TTrue)); ([], OpLoad); ([], OpLen); ([], OpPop)]
    (mk_value hash_inj (RRaw, TArr [TNull; TTrue; TFalse; TNum [49]%N])).
Proof. vm_compute. repeat split; try discriminate. Qed.
