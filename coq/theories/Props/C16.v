(* C16 - Nodes declared concurrently readable really are.
   Only statements, closed by `exact`, with Print Assumptions beneath each. *)
From Coq Require Import List String Bool Arith.
From SV.Gen Require Import NodeAccess.
From SV.Conc Require Import NodeLock NodeTree Lockset.
Import ListNotations.

(* every schedule, every number of goroutines, every assignment of the documented reads that take the read lock around
   the raw text (Raw, encodeRaw) or go through checkRaw (Get, Index, GetByPath, typed accessors, Interface, Map, Array):
   each read returns its sequential result, and the final node is the sequential one *)
Theorem C16_concurrent_reads_eq_sequential :
  forall n (progs : nat -> list op) (sched : list nat),
    (forall i, i < n -> forallb safe_op (progs i) = true) ->
    let st := run sched (init n progs) in
    (forall i r, i < n -> In r (res (th st i)) -> good r = true) /\
    (quiescent st ->
       (nd st = node_parsed /\ exists i, i < n /\ In (ParseInput false false) (res (th st i))) \/
       (nd st = node_raw /\ forall i r, i < n -> In r (res (th st i)) -> is_val r = false)).
Proof. exact concurrent_reads_eq_sequential. Qed.
Print Assumptions C16_concurrent_reads_eq_sequential.

Example C16_concurrent_reads_nonvacuous :
  let progs := fun i => match i with 0 => [OpGet; OpRaw] | 1 => [OpRaw; OpGet] | _ => [OpRaw] end in
  (forall i, i < 3 -> forallb safe_op (progs i) = true).
Proof. intros progs i _. destruct i as [|[|i]]; reflexivity. Qed.

(* the invariant behind it is preserved by every step of every thread *)
Theorem C16_step_preserves_invariant : forall i st, Inv st -> Inv (step i st).
Proof. exact step_inv. Qed.
Print Assumptions C16_step_preserves_invariant.

(* two levels: operations on the root (0, o) and Get / Index / GetByPath chains (S k, o) = OpGet on the root, then o on child k,
   the children being raw nodes with their own mutex (load-once parse): every read at every node returns its sequential
   result, idle nodes are raw or completely parsed, and a thread is at a child only while the root is parsed *)
Theorem C16_tree_concurrent_reads_eq_sequential :
  forall n (progs : nat -> list mop) (sched : list nat),
    (forall i, i < n -> msafe (progs i) = true) ->
    let st := mrun sched (minit n progs) in
    (forall i k r, i < n -> In r (mres (mth st i) k) -> good r = true) /\
    (forall k, (forall i, i < n -> mpc (mth st i) = Idle \/ cur (mth st i) <> k) ->
               nds st k = node_raw \/ nds st k = node_parsed) /\
    (forall i, i < n -> cur (mth st i) <> 0 -> nds st 0 = node_parsed) /\
    (forall i k r, i < n -> In r (mres (mth st i) k) -> is_val r = true -> nds st k = node_parsed).
Proof. exact tree_concurrent_reads_eq_sequential. Qed.
Print Assumptions C16_tree_concurrent_reads_eq_sequential.

Example C16_tree_nonvacuous :
  let progs := fun i => match i with 0 => [(1, OpGet); (0, OpRaw)] | 1 => [(1, OpRaw); (2, OpGet)] | _ => [(0, OpGet)] end in
  (forall i, i < 3 -> msafe (progs i) = true).
Proof. intros progs i _. destruct i as [|[|i]]; reflexivity. Qed.

(* regression statement: MarshalJSON as it was before fca300b (fast path: isRaw() then toString() with no read lock) is
   NOT safe: a schedule exists on which it returns a text made of the new length and the old pointer *)
Theorem C16_marshal_fastpath_refuted :
  exists n progs sched i r, i < n /\ In r (res (th (run sched (init n progs)) i)) /\ good r = false.
Proof. exact marshal_fastpath_refuted. Qed.
Print Assumptions C16_marshal_fastpath_refuted.

(* regression statement: parseRaw as it was before 30f25f0 - a failing parse under the lock overwrites the node (and its
   mutex pointer) and never unlocks: waiting readers hang *)
Theorem C16_parse_error_leaks_lock_refuted :
  exists n progs sched,
    let es := erun false sched (mkE (init n progs) false) in
    leaked es = true /\
    forall sched', tpc (th (base (erun false sched' es)) 1) = R0 /\ todo (th (base (erun false sched' es)) 0) = [] /\
                   tpc (th (base (erun false sched' es)) 0) = Idle.
Proof. exact parse_error_leaks_lock_refuted. Qed.
Print Assumptions C16_parse_error_leaks_lock_refuted.

(* lockset discipline over the access table regenerated from /repo/ast on every run *)
Theorem C16_lockset_discipline :
  closed = true /\
  (forall v, In v violations -> exists c, In (v, c) justification) /\
  side_conditions = true.
Proof. exact lockset_discipline. Qed.
Print Assumptions C16_lockset_discipline.

Theorem C16_lockset_unjustified_none : unjustified = [].
Proof. exact lockset_unjustified_subset. Qed.
Print Assumptions C16_lockset_unjustified_none.

(* while MarshalJSON has the unlocked fast path in the regenerated table, the discipline is violated there ... *)
Theorem C16_lockset_marshal_fastpath_refuted :
  marshal_fastpath_unlocked = true ->
  In (("Node.toString", ("p", ("read", 0)), "Node.MarshalJSON"))%string violations /\
  In (("Node.toString", ("l", ("read", 0)), "Node.MarshalJSON"))%string violations.
Proof. exact lockset_marshal_fastpath_refuted. Qed.
Print Assumptions C16_lockset_marshal_fastpath_refuted.

(* ... and on the current tree both defect sites have their repaired shape *)
Theorem C16_lockset_defect_sites_repaired : marshal_fastpath_unlocked = false /\ parse_error_plain_overwrite = false.
Proof. exact lockset_defect_sites_repaired. Qed.
Print Assumptions C16_lockset_defect_sites_repaired.

(* the anchors of the protocol, by shape of the regenerated code: assign writes l, p and then stores t atomically, last;
   parseRaw does everything between lock() and the deferred unlock(); Raw, encodeRaw and MarshalJSON read the text under rlock() *)
Theorem C16_protocol_shapes : shapes_ok = true.
Proof. exact shapes_ok_true. Qed.
Print Assumptions C16_protocol_shapes.
