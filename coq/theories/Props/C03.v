(* C03 - Marshal agrees with encoding/json on errors and on the emitted JSON text. *)
From Coq Require Import List NArith ZArith Bool Permutation Sorted.
Import ListNotations.
From SV.Num Require Import Dec NumGrammar NumGrammarProofs.
From SV.Enc Require Import Prims Ty Val IR Compile JsonLite MapSort VM Exec StdEnc CompileWf TyLemmas Frag EncProofs Total.

(* alg/sort.go: the 3-way radix quicksort (insertion sort base case, heapsort fallback) sorts every list of keys
   bytewise, for every depth budget, and only permutes it *)
Theorem C03_radix_qsort_sorted_perm : forall (A : Type) (kvs : list (@pair A)) (d md : nat), agree_upto d kvs ->
  Permutation kvs (radixQsort kvs d md) /\ StronglySorted (fun x y => str_le (fst x) (fst y)) (radixQsort kvs d md).
Proof. intros A. exact (@radix_qsort_sorted_perm A). Qed.
Print Assumptions C03_radix_qsort_sorted_perm.

Theorem C03_sort_pairs_sorted_perm : forall (A : Type) (kvs : list (@pair A)),
  Permutation kvs (sort_pairs kvs) /\ StronglySorted (fun x y => str_le (fst x) (fst y)) (sort_pairs kvs).
Proof. intros A. exact (@sort_pairs_sorted_perm A). Qed.
Print Assumptions C03_sort_pairs_sorted_perm.

Example C03_agree_upto_satisfiable : forall (A : Type) (kvs : list (@pair A)), agree_upto 0 kvs.
Proof. intros A. exact (@agree_upto_0 A). Qed.

(* alg.IsValidNumber (guards json.Number) accepts exactly the JSON number grammar (proved by property C19's builder) *)
Theorem C03_is_valid_number_spec : forall s, is_valid_number s = true <-> json_number s.
Proof. exact is_valid_number_spec. Qed.
Print Assumptions C03_is_valid_number_spec.

(* compiler.go: every branch operand of a compiled program is a position of the program (or its end), for every
   environment of named types, compile options, type and pv *)
Theorem C03_compile_labels_wf : forall e co vt pv prog, compile e co vt pv = COk prog ->
  Forall (fun i => forall l, target i = Some l -> (l <= length prog)%nat) prog.
Proof. exact compile_labels_wf. Qed.
Print Assumptions C03_compile_labels_wf.

Example C03_compile_labels_nonvacuous :
  exists prog, compile [] default_copts (TSlice (TPrim KInt)) false = COk prog /\ length prog = 15%nat.
Proof. eexists. split; [vm_compute; reflexivity | reflexivity]. Qed.

(* ---- the main statement, on the proved fragment (`_partial`).  The fragment is Frag.frag: unnamed bool / integer / float /
   string kinds, pointers, slices incl. []byte, arrays, and structs whose resolved fields have no options and direct offsets
   (no omitempty / string / omitzero, no embedded pointers on the path), non-zero-size physical fields laid out without
   overlap - all arbitrarily nested, including structs compiled out of line (OP_recurse beyond the inline depth or with
   >= 50 fields: the nested frame, the program cache request and the return are part of the proof).  Every well-typed
   value with finite floats; both executors; every environment; every compile options with MaxInlineDepth > 0, provided the
   struct types inside the type compile at top level (`compilable`, which is what OP_recurse asks of the program cache).
   Marshal under the std-compatible option word returns exactly `encodeFinish (reference bytes)`, where the reference bytes
   are those of Enc/StdEnc.std_marshal (encoding/json as documented) with sonic's spelling of string escapes (Qraw) - or the
   model's 2^40-step fuel runs out (never observed; no step bound is proved).
   NOT covered by the theorem (tied on every run instead, see checks/C03.py): struct field options and embedding, maps,
   interfaces, named types / Marshalers, json.Number, NaN/Inf, and that the HTML / UTF-8 post passes of encodeFinish act
   literal by literal. *)
Theorem C03_marshal_agree_partial_jit : forall e co t v fuel res prog,
  (0 < MaxInlineDepth co)%nat -> EncOnlyOmitNull co = false ->
  frag e t -> compilable e co t -> has_type (fok prims_jit) t v -> compile e co t false = COk prog ->
  std_marshal e Qraw false fuel (Some (t, v)) = SOk res -> (need v <= 4096)%nat ->
  agree (encode prims_jit e co std_flags (Some (t, v))) res.
Proof. exact marshal_agree_jit. Qed.
Print Assumptions C03_marshal_agree_partial_jit.

Theorem C03_marshal_agree_partial_vm : forall e co t v fuel res prog,
  (0 < MaxInlineDepth co)%nat -> EncOnlyOmitNull co = false ->
  frag e t -> compilable e co t -> has_type (fok prims_vm) t v -> compile e co t false = COk prog ->
  std_marshal e Qraw false fuel (Some (t, v)) = SOk res -> (need v <= 4096)%nat ->
  agree (encode prims_vm e co std_flags (Some (t, v))) res.
Proof. exact marshal_agree_vm. Qed.
Print Assumptions C03_marshal_agree_partial_vm.

(* the same without any hypothesis on the reference encoder: it is total on typed values of the fragment *)
Theorem C03_marshal_agree_total_jit : forall e co t v prog,
  (0 < MaxInlineDepth co)%nat -> EncOnlyOmitNull co = false ->
  frag e t -> compilable e co t -> has_type (fok prims_jit) t v -> compile e co t false = COk prog -> (need v <= 4096)%nat ->
  exists res, std_marshal e Qraw false (S (need v)) (Some (t, v)) = SOk res /\ agree (encode prims_jit e co std_flags (Some (t, v))) res.
Proof.
  intros e co t v prog Hin Hnu Hf Hc Hv Hp Hn.
  destruct (std_total e false (fok prims_jit)) with (t := t) (v := v) (fuel := S (need v)) (addr := false) as [res Hr]; try assumption.
  - intros k b txt (x & -> & _). eexists; reflexivity.
  - apply le_n.
  - exists res. split; [exact Hr|]. eapply marshal_agree_jit; eassumption.
Qed.
Print Assumptions C03_marshal_agree_total_jit.

Theorem C03_marshal_agree_total_vm : forall e co t v prog,
  (0 < MaxInlineDepth co)%nat -> EncOnlyOmitNull co = false ->
  frag e t -> compilable e co t -> has_type (fok prims_vm) t v -> compile e co t false = COk prog -> (need v <= 4096)%nat ->
  exists res, std_marshal e Qraw false (S (need v)) (Some (t, v)) = SOk res /\ agree (encode prims_vm e co std_flags (Some (t, v))) res.
Proof.
  intros e co t v prog Hin Hnu Hf Hc Hv Hp Hn.
  destruct (std_total e false (fok prims_vm)) with (t := t) (v := v) (fuel := S (need v)) (addr := false) as [res Hr]; try assumption.
  - intros k b txt (x & -> & _). eexists; reflexivity.
  - apply le_n.
  - exists res. split; [exact Hr|]. eapply marshal_agree_vm; eassumption.
Qed.
Print Assumptions C03_marshal_agree_total_vm.

(* the machine-level statement behind it: the code compiled for a type of the fragment, placed anywhere in a program, at any
   inline depth and pv, run under any option word (nn = its NoNullSliceOrMap bit, which the reference encoder takes as a parameter) with the cursor on a value of that type, appends
   the reference bytes and restores every register and the state stack *)
Theorem C03_code_ok_frag : forall P e co nn,
  (forall z, (- 2 ^ 63 <= z < 2 ^ 63)%Z -> p_i64toa P z = itoa z) ->
  (forall z, (0 <= z < 2 ^ 64)%Z -> p_u64toa P z = utoa (Z.to_N z)) ->
  (forall s d, p_quote P s d = quote s d) ->
  b_recurse P <> b_empty_arr P -> EncOnlyOmitNull co = false -> (0 < MaxInlineDepth co)%nat ->
  forall t, frag e t -> compilable e co t -> forall cf tab cpv sp pc pv c, tab_above tab t ->
    compileOne e co cf tab cpv sp pc t pv = COk c -> code_ok P e co nn t c pc.
Proof. exact code_ok_frag. Qed.
Print Assumptions C03_code_ok_frag.

(* hypotheses satisfiable, and the statement is not about OutOfFuel only: a slice of pointers to structs (array + string fields) *)
Example C03_marshal_agree_nonvacuous :
  frag [] ex_ty /\ compilable [] default_copts ex_ty /\ has_type (fok prims_jit) ex_ty ex_val /\
  std_marshal [] Qraw false 10 (Some (ex_ty, ex_val)) = SOk ex_out /\
  encode prims_jit [] default_copts std_flags (Some (ex_ty, ex_val)) = Done ex_out.
Proof. exact frag_example. Qed.

(* the same for the field options of the fragment: `,string` on an int64, omitempty on a false bool (left out) and on a non-empty string *)
Example C03_marshal_agree_nonvacuous_opts :
  frag [] ex2_ty /\ compilable [] default_copts ex2_ty /\ has_type (fok prims_jit) ex2_ty ex2_val /\
  std_marshal [] Qraw false 10 (Some (ex2_ty, ex2_val)) = SOk ex2_out /\
  encode prims_jit [] default_copts std_flags (Some (ex2_ty, ex2_val)) = Done ex2_out.
Proof. exact frag_example_opts. Qed.
