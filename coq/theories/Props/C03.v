(* C03 - Marshal agrees with encoding/json on errors and on the emitted JSON text. *)
From Coq Require Import List NArith ZArith Bool Permutation Sorted.
Import ListNotations.
From SV.Num Require Import Dec NumGrammar NumGrammarProofs.
From SV.Enc Require Import Prims Ty Val IR Compile JsonLite MapSort VM StdEnc CompileWf.

(* alg/sort.go: the 3-way radix quicksort (insertion sort base case, heapsort fallback) sorts every list of keys
   bytewise, for every depth budget, and only permutes it *)
Theorem C03_radix_qsort_sorted_perm : forall (A : Type) (kvs : list (@pair A)) (d md : nat), agree_upto d kvs ->
  Permutation kvs (radixQsort kvs d md) /\ StronglySorted (fun x y => str_le (fst x) (fst y)) (radixQsort kvs d md).
Proof. intros A. exact (@radix_qsort_sorted_perm A). Qed.
Print Assumptions C03_radix_qsort_sorted_perm.

Theorem C03_sort_pairs_sorted_perm : forall (A : Type) (kvs : list (@pair A)),
  Permutation kvs (sort_pairs kvs) /\ StronglySorted (fun x y => str_le (fst x) (fst y)) (sort_pairs kvs).
Proof. intros A. exact (@sort_pairs_sorted_perm A). Qed.
Print Assumptions C03_sort_pairs_sorted_perm.

Example C03_agree_upto_satisfiable : forall (A : Type) (kvs : list (@pair A)), agree_upto 0 kvs.
Proof. intros A. exact (@agree_upto_0 A). Qed.

(* alg.IsValidNumber (guards json.Number) accepts exactly the JSON number grammar (proved by property C19's builder) *)
Theorem C03_is_valid_number_spec : forall s, is_valid_number s = true <-> json_number s.
Proof. exact is_valid_number_spec. Qed.
Print Assumptions C03_is_valid_number_spec.

(* compiler.go: every branch operand of a compiled program is a position of the program (or its end), for every
   environment of named types, compile options, type and pv *)
Theorem C03_compile_labels_wf : forall e co vt pv prog, compile e co vt pv = COk prog ->
  Forall (fun i => forall l, target i = Some l -> (l <= length prog)%nat) prog.
Proof. exact compile_labels_wf. Qed.
Print Assumptions C03_compile_labels_wf.

Example C03_compile_labels_nonvacuous :
  exists prog, compile [] default_copts (TSlice (TPrim KInt)) false = COk prog /\ length prog = 15%nat.
Proof. eexists. split; [vm_compute; reflexivity | reflexivity]. Qed.
