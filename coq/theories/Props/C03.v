(* C03 - Marshal agrees with encoding/json on errors and on the emitted JSON text. *)
From Coq Require Import List NArith ZArith Bool Permutation Sorted.
From SV.Enc Require Import Prims Ty Val IR Compile JsonLite MapSort VM StdEnc.

(* alg/sort.go: the 3-way radix quicksort (insertion sort base case, heapsort fallback) sorts every list of keys
   bytewise, for every depth budget, and only permutes it *)
Theorem C03_radix_qsort_sorted_perm : forall (A : Type) (kvs : list (@pair A)) (d md : nat), agree_upto d kvs ->
  Permutation kvs (radixQsort kvs d md) /\ StronglySorted (fun x y => str_le (fst x) (fst y)) (radixQsort kvs d md).
Proof. intros A. exact (@radix_qsort_sorted_perm A). Qed.
Print Assumptions C03_radix_qsort_sorted_perm.

Theorem C03_sort_pairs_sorted_perm : forall (A : Type) (kvs : list (@pair A)),
  Permutation kvs (sort_pairs kvs) /\ StronglySorted (fun x y => str_le (fst x) (fst y)) (sort_pairs kvs).
Proof. intros A. exact (@sort_pairs_sorted_perm A). Qed.
Print Assumptions C03_sort_pairs_sorted_perm.

Example C03_agree_upto_satisfiable : forall (A : Type) (kvs : list (@pair A)), agree_upto 0 kvs.
Proof. intros A. exact (@agree_upto_0 A). Qed.
