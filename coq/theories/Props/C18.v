(* C18 - Each option has exactly its documented effect; entry points are equivalent.
   Only statements, closed by `exact`, with Print Assumptions beneath each. *)
From Coq Require Import NArith Bool List.
From SV.Gen Require Import OptBits.
From SV.Gen Require Import EntryPoints.
From SV.Opts Require Import Spec Proofs Entry.
Open Scope N_scope.

(* every one of the 2^16 Config values is translated into exactly the documented option bits,
   nothing more and nothing less (froze is regenerated from sonic.go:Froze on every run) *)
Theorem C18_froze_exact : forall c : config, froze c = (enc_spec c, dec_spec c).
Proof. exact froze_exact_all. Qed.
Print Assumptions C18_froze_exact.

(* the same bit has the same meaning in the public packages, the internal packages, the bit indices
   tested by the VM / JIT / alternative decoder, the native flag mirrors and the C headers *)
Theorem C18_bits_agree_across_layers :
  forallb enc_layer_ok enc_layers = true /\ forallb dec_layer_ok dec_layers = true /\ native_ok = true.
Proof. exact layers_agree. Qed.
Print Assumptions C18_bits_agree_across_layers.

Theorem C18_bits_pairwise_distinct : enc_bits_distinct = true /\ dec_bits_distinct = true.
Proof. exact bits_distinct. Qed.
Print Assumptions C18_bits_pairwise_distinct.

(* the setter methods of Encoder / Decoder (and hence of the stream types that embed them) flip exactly
   the bit Froze uses for the same switch, on every option word *)
Theorem C18_encoder_setters : forall o, o < 2 ^ 9 -> enc_setters_ok o = true.
Proof. exact enc_setters_all. Qed.
Print Assumptions C18_encoder_setters.

Theorem C18_decoder_setters : forall o, o < 2 ^ 8 -> dec_setters_ok o = true.
Proof. exact dec_setters_all. Qed.
Print Assumptions C18_decoder_setters.

Theorem C18_stock_configs :
  froze ConfigDefault_cfg = (0, 0) /\
  froze ConfigStd_cfg = (encint_EscapeHTML + encint_SortMapKeys + encint_CompactMarshaler + encint_ValidateString,
                         consts_OptionCopyString + consts_OptionValidateString) /\
  froze ConfigFastest_cfg = (encint_NoValidateJSONMarshaler, consts_OptionNoValidateJSON).
Proof. exact stock_configs. Qed.
Print Assumptions C18_stock_configs.

Theorem C18_froze_words_in_range : forall c, fst (froze c) < 2 ^ 9 /\ snd (froze c) < 2 ^ 8.
Proof. exact froze_words_in_range. Qed.
Print Assumptions C18_froze_words_in_range.

(* Marshal, MarshalString, MarshalIndent, Unmarshal, UnmarshalString, Valid, ValidString are one-line
   delegations to the frozen default Config (tables regenerated from api.go on every run) *)
Theorem C18_entrypoints_delegate : forallb delegation_ok expected_delegations = true.
Proof. exact entrypoints_delegate. Qed.
Print Assumptions C18_entrypoints_delegate.

(* every frozenConfig method reaches its codec with the option word of its own side only, and
   UnmarshalFromString = SetOptions; Decode; CheckTrailings *)
Theorem C18_frozen_methods_shape : forallb method_ok expected_methods = true /\ sides_ok = true.
Proof. exact frozen_methods_shape. Qed.
Print Assumptions C18_frozen_methods_shape.
