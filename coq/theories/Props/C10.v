(* C10 - Generated code cooperates with the Go runtime: GC, stack growth, tracebacks.
   The weakest claim of the development: the theorems cover only the METADATA handed to the runtime (pc-value tables,
   stack maps, declared pointer bitmaps).  Collection, stack copying, preemption and write barriers are not modelled.
   Only statements, closed by `exact`, with Print Assumptions beneath each. *)
From Coq Require Import NArith ZArith List String.
From SV.Gen Require Import PtrMaps WbStores Frames.
From SV.Loader Require Import Pcdata StackMap PtrMapsProofs WbCoverage FrameProofs FuncName.
Import ListNotations.

(* Pcdata.MarshalBinary followed by the runtime's pcvalue returns, at every covered pc, the value of the enclosing range -
   for tables with strictly increasing end-PCs, every value different from its predecessor (the first from -1), bounded *)
Theorem C10_pcdata_roundtrip : forall tab target v,
  pcdata_wf tab -> lookup tab target = Some v -> pcvalue (marshal_binary tab) target = Some v.
Proof. exact pcdata_roundtrip. Qed.
Print Assumptions C10_pcdata_roundtrip.

Example C10_pcdata_wf_satisfiable :
  pcdata_wf [(12, 0%Z); (40, 232%Z); (44, 0%Z); (96, 232%Z)]%N /\
  pcvalue (marshal_binary [(12, 0%Z); (40, 232%Z); (44, 0%Z); (96, 232%Z)]%N) 41%N = Some 0%Z.
Proof. exact pcdata_wf_satisfiable. Qed.

(* the boolean check applied to the tables of really generated code implies pcdata_wf *)
Theorem C10_wf_check_sound : forall tab, wf_check tab = true -> pcdata_wf tab.
Proof. exact wf_check_sound. Qed.
Print Assumptions C10_wf_check_sound.

(* outside pcdata_wf the skip rule of MarshalBinary breaks legal (ascending) tables: equal neighbouring values ... *)
Theorem C10_pcdata_roundtrip_refuted :
  exists tab target v, lookup tab target = Some v /\ pcvalue (marshal_binary tab) target <> Some v.
Proof. exact pcdata_roundtrip_refuted. Qed.
Print Assumptions C10_pcdata_roundtrip_refuted.

(* ... and a first value of -1 (PCDATA_UnsafePointSafe for the whole function, Options.NoPreempt = false) *)
Theorem C10_pcdata_unsafepoint_safe_refuted :
  marshal_binary safe_witness = [0%N] /\ lookup safe_witness 5%N = Some (-1)%Z /\ pcvalue (marshal_binary safe_witness) 5%N = None.
Proof. exact pcdata_unsafepoint_safe_refuted. Qed.
Print Assumptions C10_pcdata_unsafepoint_safe_refuted.

Theorem C10_varint_roundtrip : forall n rest, (n < 2 ^ 63)%N -> readvarint (uvarint n ++ rest) = Some (n, rest).
Proof. exact readvarint_uvarint. Qed.
Print Assumptions C10_varint_roundtrip.

Theorem C10_zigzag_roundtrip : forall z, unzigzag (zigzag z) = z.
Proof. exact unzigzag_zigzag. Qed.
Print Assumptions C10_zigzag_roundtrip.

(* StackMapBuilder.AddField* / Build against the bit lookup *)
Theorem C10_stackmap_roundtrip : forall bits,
  let '(n, l, bytes) := build bits in
  n = 1%nat /\ l = List.length bits /\ List.length bytes = ((List.length bits + 7) / 8)%nat /\
  forall i, (i < List.length bits)%nat -> bit bytes i = nth i bits false.
Proof. exact stackmap_roundtrip. Qed.
Print Assumptions C10_stackmap_roundtrip.

(* declared pointer bitmaps = the word-by-word pointer map of the Go function types; sizes of the argument areas *)
Theorem C10_ptrmaps_match_signature :
  ptrmap_of decoder_params = jitdec_argPtrs /\
  ptrmap_of encoder_params = vars_ArgPtrs /\
  (8 * N.of_nat (List.length jitdec_argPtrs) = jitdec_FP_args)%N /\
  (8 * N.of_nat (List.length vars_ArgPtrs) = encoder_FP_args)%N /\
  (8 * N.of_nat (List.length jitdec_argPtrs_generic) = jitdec_VD_args)%N /\
  jitdec_argPtrs_generic = [true] /\ vars_ArgPtrs_generic = [true] /\
  (jitdec_FP_fargs + jitdec_FP_saves + jitdec_FP_locals + 8 = jitdec_FP_size)%N /\
  (encoder_FP_fargs + encoder_FP_saves + encoder_FP_locals + 8 = encoder_FP_size)%N.
Proof. exact ptrmaps_match_signature. Qed.
Print Assumptions C10_ptrmaps_match_signature.

Theorem C10_local_maps_empty :
  jitdec_localPtrs = [] /\ jitdec_localPtrs_generic = [] /\ vars_LocalPtrs = [] /\ vars_LocalPtrs_generic = [].
Proof. exact local_maps_empty. Qed.
Print Assumptions C10_local_maps_empty.

(* write-barrier coverage of the three x86 emitters, over the store table regenerated from their source: every store to a
   non-stack destination is inside a barrier helper, narrower than a pointer, an immediate, a byte of the encoder's output
   buffer, or one of the listed and categorised exceptions (exact list, exact multiplicities); the categories themselves
   are reading-based arguments, not proofs *)
Theorem C10_wb_coverage :
  (forall r, In r stores ->
     r_class r = "Stack"%string \/ is_helper (r_fn r) = true \/ narrow (r_mnem r) = true \/ prefix "jit.Imm(" (r_src r) = true \/
     r_class r = "Heap _RP"%string \/ exists n c, In (key_of r, n, c) exceptions) /\
  (forall k n c, In (k, n, c) exceptions -> count_key k = n) /\
  param_sites_ok = true /\ helpers_ok = true.
Proof. exact wb_coverage. Qed.
Print Assumptions C10_wb_coverage.

(* frame-pointer discipline of the three emitters (regenerated): SUBQ $size, SP; MOVQ BP, size-8(SP); LEAQ size-8(SP), BP ...
   MOVQ size-8(SP), BP; ADDQ $size, SP; RET - what the frame-pointer unwinders of the profilers and the tracer rely on *)
Theorem C10_frame_pointer_discipline :
  ((fr_jitdec_offs + 8)%nat = fr_jitdec_size /\
   jitdec_prologue = want_prologue fr_jitdec_size fr_jitdec_offs /\ jitdec_epilogue = want_epilogue fr_jitdec_size fr_jitdec_offs) /\
  ((fr_encoder_offs + 8)%nat = fr_encoder_size /\
   encoder_prologue = want_prologue fr_encoder_size fr_encoder_offs /\ encoder_epilogue = want_epilogue fr_encoder_size fr_encoder_offs) /\
  ((fr_generic_offs + 8)%nat = fr_generic_size /\
   generic_compile = (want_prologue fr_generic_size fr_generic_offs ++ want_epilogue fr_generic_size fr_generic_offs)%list).
Proof. exact frame_pointer_discipline. Qed.
Print Assumptions C10_frame_pointer_discipline.

(* the function-name table: every name offset resolves (NUL-terminated read, as the runtime does) to the name written for
   that function, brackets rewritten to [...] or not *)
Theorem C10_funcname_tab_roundtrip : forall names,
  Forall (fun n => ~ In 0%N (written n)) names ->
  let '(tab, offs) := make_funcname_tab names in
  List.length offs = List.length names /\
  forall i, (i < List.length names)%nat -> resolve tab (nth i offs 0%nat) = written (nth i names []).
Proof. exact funcname_tab_roundtrip. Qed.
Print Assumptions C10_funcname_tab_roundtrip.
