(* C09 - Codec results never depend on history: cache state, compile order, Pretouch.
   Only statements, closed by `exact`, with Print Assumptions beneath each.
   Model: Cache/PCache.v (internal/caching/pcache.go), Cache/LoadMap.v (loader.LoadMany -> Load);
   constants from Gen/CacheConsts.v (regenerated from the source on every run). *)
From Coq Require Import NArith List.
From SV.Gen Require Import CacheConsts LoaderMap EncCacheKey ResolverUse.
From SV.Cache Require Import PCache PCacheProofs LoadMap C09Model Served C09Thm ResolverCache.
Import ListNotations.
Open Scope N_scope.

(* For EVERY hash function of the type descriptors (collisions are adversarial) and every sequence of
   ProgramCache.Get / ProgramCache.Compute calls (and raw adds of absent types) on the cache created with
   _InitCapacity: nothing panics, every call returns what the finite map "type -> first program computed for it"
   returns - whatever was cached before and however many rehashes happened - and afterwards n <= cap/2.
   The bound excludes only uint32 overflow of the capacity (more than 2^30 - 1 calls). *)
Theorem C09_pcache_refines_map :
  forall (hash : N -> N) (ops : list op),
    valid_ops empty_spec ops ->
    LoadFactor_den * (N.of_nat (length ops) + 1) <= LoadFactor_num * 2 ^ 31 ->
    exists s',
      cache_run hash cache_init_cap ops = (Some s', spec_run empty_spec ops) /\
      (forall k, k <> 0 -> Get hash s' k = spec_final empty_spec ops k) /\
      2 * pm_n s' <= pm_m s' + 1.
Proof. exact pcache_refines_map. Qed.
Print Assumptions C09_pcache_refines_map.

(* the same for every power-of-two initial capacity 2^e0 <= 2^31 (the capacities the correspondence run uses) *)
Theorem C09_pcache_refines_map_anycap :
  forall (hash : N -> N) (e0 : N) (ops : list op),
    e0 <= 31 -> valid_ops empty_spec ops ->
    LoadFactor_den * (N.of_nat (length ops) + 1) <= LoadFactor_num * 2 ^ 31 ->
    exists s',
      cache_run hash (2 ^ e0) ops = (Some s', spec_run empty_spec ops) /\
      (forall k, k <> 0 -> Get hash s' k = spec_final empty_spec ops k) /\
      pm_n s' <= pm_m s' + 1.
Proof. exact pcache_refines_map_anycap. Qed.
Print Assumptions C09_pcache_refines_map_anycap.

(* fuel sufficiency: the iteration bound `i := m + 1` of the probe loop in get never decides a result *)
Theorem C09_probe_bound_never_binding :
  forall (hash : N -> N) (e0 : N) (ops : list op) (k : N) (extra : nat),
    e0 <= 31 -> valid_ops empty_spec ops ->
    LoadFactor_den * (N.of_nat (length ops) + 1) <= LoadFactor_num * 2 ^ 31 -> k <> 0 ->
    exists s',
      fst (cache_run hash (2 ^ e0) ops) = Some s' /\
      get_loop (N.to_nat (u32 (pm_m s' + 1)) + extra) (pm_m s') (pm_b s') k (N.land (u32 (hash k)) (pm_m s'))
      = Get hash s' k.
Proof. exact pcache_probe_bound_never_binding. Qed.
Print Assumptions C09_probe_bound_never_binding.

Example C09_hypotheses_satisfiable :
  let ops := [OCompute 7 (Some 10); OGet 7; OCompute 9 None; OCompute 7 (Some 11); OAdd 3 5; OGet 4] in
  valid_ops empty_spec ops /\
  LoadFactor_den * (N.of_nat (length ops) + 1) <= LoadFactor_num * 2 ^ 31 /\
  spec_run empty_spec ops = [RVal 10; RVal 10; RErr; RVal 10; RVal 5; RVal 0].
Proof. exact valid_ops_example. Qed.

(* why Compute must re-check under its lock: a raw add of a type that is already present makes the answer
   depend on unrelated later insertions (the old entry wins until a rehash reorders wrapped-around slots) *)
Example C09_raw_add_of_present_key_is_history_dependent :
  let hash := fun k => if k =? 1 then 3 else 0 in
  let ops := [OAdd 1 10; OAdd 1 20; OGet 1; OAdd 2 30; OGet 1] in
  snd (run hash 1 2 (Some (newProgramMap 4)) ops) = [RVal 10; RVal 20; RVal 10; RVal 30; RVal 20].
Proof. exact raw_add_of_present_key_is_history_dependent. Qed.

(* batch loading (loader.LoadMany -> Load): EVERY item of EVERY batch is served by its own machine code - the entry returned
   for input i is the sum of the earlier text sizes and the bytes of the loaded segment there are exactly its text - whatever
   the function names are, in particular for distinct types that print identically (a/x.T and b/x.T are both "decode_x.T").
   The pinned tree violated this (results were mapped back BY NAME; SIGSEGV / wrong codec after PretouchMany); repaired by
   /repo cc3de94.  The model follows Gen/LoaderMap.v, regenerated from loader_latest.go on every run: a return to the
   by-name mapping changes the model and breaks this proof. *)
Theorem C09_loadmany_own_code :
  forall (items : list item) (i : nat) (it : item),
    nth_error items i = Some it ->
    exists off, nth_error (loader_loadmany items) i = Some (Some off) /\
                code_at (concat_text items) off (length (it_text it)) = it_text it.
Proof. exact loadmany_own_code. Qed.
Print Assumptions C09_loadmany_own_code.

(* the former witness of the defect: two items with one name now get two different entries *)
Example C09_loadmany_own_code_same_names :
  let items := [mkItem [100; 95; 120; 46; 84] [184; 1; 0; 0; 0; 195]; mkItem [100; 95; 120; 46; 84] [184; 2; 0; 0; 0; 195; 204; 204]] in
  loader_loadmany items = [Some 0; Some 6].
Proof. exact loadmany_own_code_same_names. Qed.

(* WHICH PROGRAM SERVES A TYPE.  The encoder caches are keyed by (type, pointer-value flag) - key shape regenerated from
   internal/encoder/vars/cache.go on every run (Gen/EncCacheKey.v).  For every hash function, every compiler
   `compile : type -> pv -> program or error` and EVERY history of FindOrCompile (every Marshal / OP_recurse), pretouchType and
   pretouchRec batches, with any flags, in any order: nothing panics, every FindOrCompile(vt, pv) returned exactly
   compile vt pv, and afterwards the program cached for (vt, pv) is - if any - compile vt pv.  It never depends on which call
   compiled first.  (Before /repo ea86c56 the key was the type only and this was false: C09_served_type_only_key_refuted.) *)
Theorem C09_served_history_free :
  forall (hash : N -> N) (compile : N -> bool -> option N) (h : list hop),
    (forall k pv v, compile k pv = Some v -> v <> 0) ->
    Forall hop_ok h ->
    LoadFactor_den * (hsize h + 1) <= LoadFactor_num * 2 ^ 31 ->
    exists st', enc_hrun hash compile h = Some (st', expected compile h) /\
                forall k pv, k <> 0 ->
                  let v := Get hash (st' (GetProgram_get pv)) k in v = 0 \/ compile k pv = Some v.
Proof. exact served_history_free. Qed.
Print Assumptions C09_served_history_free.

Example C09_served_hypotheses_satisfiable :
  let compile := fun (k : N) (pv : bool) => if k =? 9 then None else Some (2 * k + (if pv then 1 else 0)) in
  let h := [HFind 3 true; HBatch [(3, false); (4, true); (9, false)]; HFind 3 false; HPretouch 4 false; HFind 4 true; HFind 9 true] in
  Forall hop_ok h /\ LoadFactor_den * (hsize h + 1) <= LoadFactor_num * 2 ^ 31 /\
  expected compile h = [Some 7; Some 6; Some 9; None].
Proof. exact served_hypotheses_satisfiable. Qed.

Example C09_served_type_only_key_refuted :
  let compile := fun (k : N) (pv : bool) => Some (2 * k + (if pv then 1 else 0)) in
  let one := fun (_ : bool) => tt in
  let one2 := fun (pv : bool) => (tt, pv) in
  let run := hrun unit (fun _ _ => true) (fun _ => 0) 1 2 compile one one2 one one2 (fun _ => newProgramMap 4) in
  option_map snd (run [HFind 1 true; HFind 1 false]) = Some [Some 3; Some 3] /\
  option_map snd (run [HFind 1 false; HFind 1 true]) = Some [Some 2; Some 2] /\
  expected compile [HFind 1 true; HFind 1 false] = [Some 3; Some 2].
Proof. exact served_type_only_key_refuted. Qed.

(* THE FIELD-RESOLUTION CACHE (internal/resolver.fieldCache): one shared field list per struct type, handed to every compilation
   of every codec that contains the type.  For every history of ResolveStruct calls and compilations (any types, any order, any
   compile options - a compilation may do to the entry whatever the SOURCE lets it do: Gen/ResolverUse.v lists every syntactic
   write through the returned slice, there is none), every lookup returns exactly `fields k`, the pure resolveFields of the type:
   what a codec is compiled from never depends on what was compiled before.  (Seeded C09-b1 - EncOnlyOmitNull clearing F_omitempty
   in the shared entry - makes `writers_exist` true and this proof fail; C09_resolver_writer_refuted shows why it matters.) *)
Theorem C09_resolver_stable : forall (ty : Type) (ty_eqb : ty -> ty -> bool),
  (forall a b, ty_eqb a b = true <-> a = b) ->
  forall (fl : Type) (fields : ty -> fl) (h : list (rop ty fl)),
    snd (rrun ty ty_eqb fl fields writers_exist (fun _ => None) h) = map (fun o => fields (op_key ty fl o)) h.
Proof. exact resolver_stable. Qed.
Print Assumptions C09_resolver_stable.

(* where the shared list leaves the compilers (both callees only read it), and that all three callers were analysed *)
Theorem C09_resolver_escapes_pinned :
  escapes = expected_escapes /\ resolver_callers = 3%nat.
Proof. exact resolver_escapes_pinned. Qed.

Example C09_resolver_hypothesis_satisfiable : forall a b, Nat.eqb a b = true <-> a = b.
Proof. exact PeanoNat.Nat.eqb_eq. Qed.

Example C09_resolver_writer_refuted :
  let fields := fun (_ : nat) => 7%nat in
  snd (rrun nat Nat.eqb nat fields true (fun _ => None) [HCompile nat nat 1%nat (fun _ => 0%nat); HResolve nat nat 1%nat]) = [7%nat; 0%nat].
Proof. exact resolver_writer_refuted. Qed.
