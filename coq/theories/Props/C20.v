(* C20 - Quote, unquote, HTML-escape and UTF-8 routines match their definitions.
   Only statements, closed by `exact`, with Print Assumptions beneath each.
   Models: Str/{Quote,Unquote,HtmlEsc,Utf8,AstQuote}.v (native/*.c + the Go loops), tables: Gen/Tables.v (regenerated
   from native/parsing.h, native/types.h, internal/native/types, internal/rt on every run).
   `ws` is the list of SIMD block widths ([32;16] AVX2, [16] SSE, [] scalar): every theorem holds for all positive widths. *)
From Coq Require Import NArith ZArith Bool List.
From SV.Gen Require Import Tables.
From SV.Str Require Import Common Quote HtmlEsc Unquote Utf8 RefUtf8 AstQuote TablesOk FinderProofs QuoteProofs
     GoQuoteProofs RoundTrip HtmlProofs Utf8Proofs UnquoteProofs DoubleProofs Swar JitString HtmlLink AstQuoteProofs DoubleStrict.
From SV.Str Require Utf8Simd Utf8SimdProofs.
From SV.Json Require Grammar.
From SV.Enc Require Prims.
Import ListNotations.
Open Scope nat_scope.

(* ---------------------------------------------------------------- tables *)

(* n = |s| <= 7, n <> 0 exactly on the bytes the SIMD finder, the scalar finder and _EscTab flag, for every byte value *)
Theorem C20_tables_ok : forall b, tables_ok_b b = true.
Proof. exact tables_ok_all. Qed.
Print Assumptions C20_tables_ok.

(* the single-mode table writes exactly the RFC 8259 escapes (256 byte values swept) *)
Theorem C20_single_table_is_rfc8259 : forall b, (b < 256)%N -> single_rfc_b b = true.
Proof. exact (sweep256 single_rfc_b single_rfc_sweep). Qed.
Print Assumptions C20_single_table_is_rfc8259.

Theorem C20_consts_agree :
  c_F_DBLUNQ = go_F_DOUBLE_UNQUOTE /\ c_F_UNIREP = go_F_UNICODE_REPLACE /\ c_ERR_EOF = go_ERR_EOF /\
  c_ERR_INVAL = go_ERR_INVALID_CHAR /\ c_ERR_ESCAPE = go_ERR_INVALID_ESCAPE /\ c_ERR_UNICODE = go_ERR_INVALID_UNICODE /\
  c_MAX_RECURSE = go_MAX_RECURSE /\ MAX_ESCAPED_BYTES = 8%N /\ N.land c_F_DBLUNQ c_F_UNIREP = 0%N /\ c_F_DBLUNQ <> 0%N /\ c_F_UNIREP <> 0%N.
Proof. exact consts_agree. Qed.
Print Assumptions C20_consts_agree.

(* ---------------------------------------------------------------- blocked finders (also C13) *)

(* memcchr_quote / memcchr_html_quote with any positive block widths meet the specification of the scalar loop *)
Theorem C20_blocked_finder_spec : forall ws pv ps src pos dn,
  Forall (fun W => 0 < W) ws -> (forall b, pv b = ps b) ->
  mq_spec ps src pos dn (memcchr_ws ws pv ps src pos dn).
Proof. exact memcchr_ws_spec. Qed.
Print Assumptions C20_blocked_finder_spec.

Theorem C20_blocked_eq_scalar : forall ws p src dn,
  Forall (fun W => 0 < W) ws -> find_first p src <> dn \/ length src <= dn ->
  memcchr_ws ws p p src 0 dn = memcchr_ws [] p p src 0 dn.
Proof. exact memcchr_blocked_eq_scalar. Qed.
Print Assumptions C20_blocked_eq_scalar.

Example C20_blocked_hyp_sat : Forall (fun W => 0 < W) ws_avx2 /\ Forall (fun W => 0 < W) ws_sse.
Proof. exact (conj ws_avx2_pos ws_sse_pos). Qed.

(* ---------------------------------------------------------------- quote *)

(* native quote, both paths, = greedy table-driven escape under the destination bound, for every width list *)
Theorem C20_quote_spec : forall ws flags src dn,
  Forall (fun W => 0 < W) ws -> quote ws flags src dn = quote_ref (quote_tab flags) src 0 dn.
Proof. exact quote_spec. Qed.
Print Assumptions C20_quote_spec.

Theorem C20_quote_full : forall ws flags src dn,
  Forall (fun W => 0 < W) ws -> length (escape_all (quote_tab flags) src) <= dn ->
  quote ws flags src dn = (Z.of_nat (length src), escape_all (quote_tab flags) src).
Proof. exact quote_full. Qed.
Print Assumptions C20_quote_full.

Theorem C20_quote_width_independent : forall ws flags src dn,
  Forall (fun W => 0 < W) ws -> quote ws flags src dn = quote [] flags src dn.
Proof. exact quote_width_independent. Qed.
Print Assumptions C20_quote_width_independent.

(* alg.Quote: the output does not depend on the capacity schedule of the restart loop - any initial capacity,
   any growslice returning at least the requested capacity, any block widths *)
Theorem C20_go_quote_spec : forall (grow : nat -> nat -> nat), (forall old req, req <= grow old req) ->
  forall ws, Forall (fun W => 0 < W) ws ->
  forall buf cap val double, go_quote grow ws buf cap val double = Some (buf ++ quote_lit double val).
Proof. exact go_quote_spec. Qed.
Print Assumptions C20_go_quote_spec.

Example C20_go_quote_hyp_sat : forall old req, req <= grow_exact old req.
Proof. intros; apply le_n. Qed.

Theorem C20_encoder_quote_spec : forall ws s, Forall (fun W => 0 < W) ws ->
  encoder_quote ws s = Some ([34]%N ++ escape_all _SingleQuoteTab s ++ [34]%N).
Proof. exact encoder_quote_spec. Qed.
Print Assumptions C20_encoder_quote_spec.

(* ---------------------------------------------------------------- unquote (quote s) = s *)

(* all byte strings, single (flags 0,2) and double (flags 1,3) mode, with and without F_UNIREP *)
Theorem C20_unquote_quote : forall flags s, unquote flags (escape_all (quote_tab flags) s) = UOk s.
Proof. exact unquote_quote. Qed.
Print Assumptions C20_unquote_quote.

(* encoder.Quote produces a literal whose body unquote.String decodes back to the input *)
Theorem C20_encoder_quote_decodes_back : forall ws s, Forall (fun W => 0 < W) ws ->
  exists body, encoder_quote ws s = Some ([34]%N ++ body ++ [34]%N) /\
               go_unquote_string body = inl s /\ go_into_bytes body false = inl s.
Proof. exact encoder_quote_unquote. Qed.
Print Assumptions C20_encoder_quote_decodes_back.

(* ---------------------------------------------------------------- unquote = reference unquoting *)

(* single mode (F_DBLUNQ off), F_UNIREP on or off, every list of N: success and value, or failure, exactly as the
   reference unquoter of Str/UnquoteProofs.v (encoding/json's escape semantics: the eight simple escapes, \uXXXX with
   surrogate pairs combined, a lone or mis-ordered surrogate -> U+FFFD when replacing, otherwise rejected; malformed
   escapes rejected; every other byte copied) *)
Theorem C20_unquote_spec : forall flags s, has flags c_F_DBLUNQ = false ->
  match unquote flags s with
  | UOk o => ref_unquote (S (length s)) (has flags c_F_UNIREP) s = Some o
  | UErr _ _ => ref_unquote (S (length s)) (has flags c_F_UNIREP) s = None
  end.
Proof. exact unquote_spec. Qed.
Print Assumptions C20_unquote_spec.

Example C20_unquote_spec_hyp_sat :
  has 0%N c_F_DBLUNQ = false /\ has 2%N c_F_DBLUNQ = false /\ has 0%N c_F_UNIREP = false /\
  has 2%N c_F_UNIREP = true /\ has 1%N c_F_DBLUNQ = true.
Proof. exact single_flags. Qed.

(* unquote.String / IntoBytes / intoBytesUnsafe(replace) *)
Theorem C20_go_into_bytes_spec : forall s replace,
  match go_into_bytes s replace with
  | inl o => ref_unquote (S (length s)) replace s = Some o
  | inr _ => ref_unquote (S (length s)) replace s = None
  end.
Proof. exact go_into_bytes_spec. Qed.
Print Assumptions C20_go_into_bytes_spec.

(* the destination of len(s) bytes that unquote.String allocates is never exceeded *)
Theorem C20_unquote_len_le : forall flags s o, has flags c_F_DBLUNQ = false ->
  unquote flags s = UOk o -> length o <= length s.
Proof. exact unquote_len_le. Qed.
Print Assumptions C20_unquote_len_le.

(* the SWAR test unhex16_is of native/parsing.h (hasless / hasmore / hasbetween on the 32-bit word, and with the
   64-bit intermediates the C code really uses) is exactly "all four bytes are hex digits" - the abstraction used by
   the unquote model is exact on bytes *)
Theorem C20_unhex16_is_swar : forall s,
  (nth 0 s 0 < 256 -> nth 1 s 0 < 256 -> nth 2 s 0 < 256 -> nth 3 s 0 < 256 -> unhex16_is_swar s = unhex16_is s)%N.
Proof. exact unhex16_is_swar_spec. Qed.
Print Assumptions C20_unhex16_is_swar.

Theorem C20_unhex16_is_swar64 : forall s,
  (nth 0 s 0 < 256 -> nth 1 s 0 < 256 -> nth 2 s 0 < 256 -> nth 3 s 0 < 256 -> unhex16_is_swar64 s = unhex16_is s)%N.
Proof. exact unhex16_is_swar64_spec. Qed.
Print Assumptions C20_unhex16_is_swar64.

(* ---------------------------------------------------------------- double mode (`,string`) against encoding/json *)

(* reference = two applications of the reference unquoter (outer literal, then inner literal).  On the canonical
   double escape (what alg.Quote(double) / the encoder writes) the fused native routine agrees with it ... *)
Theorem C20_unquote_double_canonical_partial : forall flags t, has flags c_F_DBLUNQ = true ->
  unquote flags (escape_all _DoubleQuoteTab t) = UOk t /\
  ref_unquote2 (has flags c_F_UNIREP) (escape_all _DoubleQuoteTab t) = Some t.
Proof. exact unquote_double_canonical. Qed.
Print Assumptions C20_unquote_double_canonical_partial.

Example C20_double_hyp_sat : has 1%N c_F_DBLUNQ = true /\ has 3%N c_F_DBLUNQ = true.
Proof. exact double_canonical_hyp_sat. Qed.

(* fused = unquoting twice on a much larger class than the canonical one: the OUTER escaping is sonic's canonical
   single escape of an ARBITRARY inner body u, the strict reference accepts u (every escape well formed, every surrogate
   escape properly paired), and u does not end in a raw quote / tab / LF / CR (`last_ok`: the F_DBLUNQ code returns
   ERR_EOF when nothing follows a two-byte escape).  KF-double-unquote-fusion lies exactly outside: non-canonical outer
   escaping or lone surrogate escapes inside (necessity witnesses: DoubleStrict.strict_needed, canonical_outer_needed,
   last_ok_needed) *)
Theorem C20_unquote_double_strict : forall flags u o, has flags c_F_DBLUNQ = true -> last_ok u = true ->
  ref_unquote (S (length u)) false u = Some o ->
  unquote flags (escape_all _SingleQuoteTab u) = UOk o.
Proof. exact unquote_double_strict. Qed.
Print Assumptions C20_unquote_double_strict.

Theorem C20_unquote_double_eq_twice_strict : forall flags rep u o, has flags c_F_DBLUNQ = true -> last_ok u = true ->
  ref_unquote (S (length u)) false u = Some o ->
  unquote flags (escape_all _SingleQuoteTab u) = UOk o /\ ref_unquote2 rep (escape_all _SingleQuoteTab u) = Some o.
Proof. exact unquote_double_eq_twice_strict. Qed.
Print Assumptions C20_unquote_double_eq_twice_strict.

(* with F_UNIREP off (UseUnicodeErrors) the fused pass on canonically escaped input IS the strict reference *)
Theorem C20_unquote_double_strict_iff : forall flags u o, has flags c_F_DBLUNQ = true -> has flags c_F_UNIREP = false ->
  (unquote flags (escape_all _SingleQuoteTab u) = UOk o <->
   ref_unquote (S (length u)) false u = Some o /\ last_ok u = true).
Proof. exact unquote_double_strict_iff. Qed.
Print Assumptions C20_unquote_double_strict_iff.

(* ... but not in general: the full statement `unquote (DBL) = ref_unquote2` is false of the faithful model.
   Witnesses (replayed on the real code through sonic.Unmarshal into a `,string` field, KF-double-unquote-fusion):
   \u005cn -> bytes 5c 6e instead of a newline; \\ud83d\ude00 -> U+FFFD ude00 instead of U+FFFD U+FFFD;
   \\ud800\\\\ (canonical escape of a lone surrogate followed by an escaped backslash) -> ERR_EOF instead of U+FFFD 5c *)
Theorem C20_unquote_double_refuted :
  (unquote 3 dbl_w1 = UOk [92; 110]%N /\ ref_unquote2 true dbl_w1 = Some [10]%N) /\
  (unquote 3 dbl_w2 = UOk [239; 191; 189; 117; 100; 101; 48; 48]%N /\
   ref_unquote2 true dbl_w2 = Some [239; 191; 189; 239; 191; 189]%N) /\
  (unquote 3 dbl_w3 = UErr c_ERR_EOF 11 /\ ref_unquote2 true dbl_w3 = Some [239; 191; 189; 92]%N).
Proof. exact unquote_double_refuted. Qed.
Print Assumptions C20_unquote_double_refuted.

(* the `,string` string-field path of the default decoder (literal \-quote tests of jitdec + the fused native pass with
   the flags escape_string_twice passes), on what the encoder writes for such a field, with UseUnicodeErrors on or off *)
Theorem C20_jit_string_tag_canonical : forall unicode_errors t,
  jit_unquote_twice unicode_errors ([92; 34]%N ++ escape_all _DoubleQuoteTab t ++ [92; 34]%N) = Some t.
Proof. exact jit_unquote_twice_canonical. Qed.
Print Assumptions C20_jit_string_tag_canonical.

(* ---------------------------------------------------------------- ast.quoteString *)

(* the literal written by the portable ast/encode.go:quoteString (with its U+2028/2029 escapes), unquoted by sonic's own
   unquoter in single mode with or without F_UNIREP, is the input; the destination prefix is preserved *)
Theorem C20_ast_quote_string_decodes_back : forall e s, Forall (fun b => (b < 256)%N) s ->
  exists body, quote_string e s = e ++ [34%N] ++ body ++ [34%N] /\
               unquote 2 body = UOk s /\ unquote 0 body = UOk s.
Proof. exact quote_string_decodes_back. Qed.
Print Assumptions C20_ast_quote_string_decodes_back.

(* ---------------------------------------------------------------- html_escape *)

Theorem C20_html_escape_spec : forall ws src dn, Forall (fun W => 0 < W) ws ->
  html_escape ws src dn = let '(ret, out) := html_bounded src 0 dn in (ret, length out, out).
Proof. exact html_escape_spec. Qed.
Print Assumptions C20_html_escape_spec.

Theorem C20_html_escape_full : forall ws src dn, Forall (fun W => 0 < W) ws ->
  length (html_ref src) <= dn -> html_escape ws src dn = (Z.of_nat (length src), length (html_ref src), html_ref src).
Proof. exact html_escape_full. Qed.
Print Assumptions C20_html_escape_full.

Theorem C20_html_escape_width_independent : forall ws src dn, Forall (fun W => 0 < W) ws ->
  html_escape ws src dn = html_escape [] src dn.
Proof. exact html_escape_width_independent. Qed.
Print Assumptions C20_html_escape_width_independent.

(* alg.HtmlEscape = dst ++ json.HTMLEscape reference for EVERY destination and every capacity schedule (full strength
   since the repair e1e5e27; before it the growth request forgot len(dst) and rt.GrowSlice panicked) *)
Theorem C20_go_html_escape_spec : forall (grow : nat -> nat -> nat), (forall old req, req <= grow old req) ->
  forall ws, Forall (fun W => 0 < W) ws ->
  forall dst cap src, length dst <= cap ->
    go_html_escape grow ws dst cap src = GoOk (dst ++ html_ref src).
Proof. exact go_html_escape_spec. Qed.
Print Assumptions C20_go_html_escape_spec.

(* the destination prefix is preserved *)
Theorem C20_go_html_escape_prefix : forall (grow : nat -> nat -> nat), (forall old req, req <= grow old req) ->
  forall ws, Forall (fun W => 0 < W) ws ->
  forall dst cap src, length dst <= cap ->
    exists out, go_html_escape grow ws dst cap src = GoOk out /\ firstn (length dst) out = dst.
Proof. exact go_html_escape_prefix. Qed.
Print Assumptions C20_go_html_escape_prefix.

(* the witness of the repaired defect, kept as a regression example *)
Example C20_htmlescape_regression :
  go_html_escape grow_exact ws_avx2 (repeat 112%N 65) 65 [] = GoOk (repeat 112%N 65).
Proof. exact go_html_escape_regression. Qed.

(* link to C04 (b-c03): C20's json.HTMLEscape reference is the HTML pass of C04's encodeFinish model; with
   C04's html_escape_strict, escaping acts only inside the string literals of a strict RFC 8259 text and keeps it
   strict - through native html_escape and the Go grow loop, for every capacity schedule and block width *)
Theorem C20_html_ref_is_c04_pass : forall s, html_ref s = Prims.html_escape s.
Proof. exact html_ref_eq_c04. Qed.
Print Assumptions C20_html_ref_is_c04_pass.

Theorem C20_go_html_escape_preserves_strict : forall (grow : nat -> nat -> nat), (forall old req, req <= grow old req) ->
  forall ws, Forall (fun W => 0 < W) ws ->
  forall d cap src, Grammar.strict d src ->
  exists out, go_html_escape grow ws [] cap src = GoOk out /\ Grammar.strict d out.
Proof. exact go_html_escape_strict. Qed.
Print Assumptions C20_go_html_escape_preserves_strict.

Example C20_strict_sat : Grammar.strict 0 [34; 60; 34]%N.
Proof.
  apply (Grammar.ST_str 0 [60%N]). apply Grammar.stb_char; try (intro H; discriminate H).
  apply Grammar.stb_nil.
Qed.

(* ---------------------------------------------------------------- UTF-8 *)

(* the mask tests of valid_utf8_4byte = Unicode table 3-7 (no overlongs, no surrogates, <= U+10FFFF) *)
Theorem C20_valid4_is_table_3_7 : forall s, bytes s ->
  (match s with b :: _ => (128 <=? b)%N = true | [] => False end) ->
  valid_utf8_4byte (load32_le s) = seq_len s.
Proof. exact valid4_seq_len. Qed.
Print Assumptions C20_valid4_is_table_3_7.

Theorem C20_validate_utf8_fast_spec : forall s, bytes s ->
  validate_utf8_fast s = match first_bad s with None => 0%Z | Some p => (- Z.of_nat p - 1)%Z end.
Proof. exact validate_utf8_fast_spec. Qed.
Print Assumptions C20_validate_utf8_fast_spec.

Theorem C20_validate_utf8_WF : forall s, bytes s -> (validate_utf8_fast s = 0%Z <-> WF s).
Proof. exact validate_utf8_fast_WF. Qed.
Print Assumptions C20_validate_utf8_WF.

Theorem C20_go_validate_spec : forall s, bytes s -> go_validate s = wf s.
Proof. exact go_validate_spec. Qed.
Print Assumptions C20_go_validate_spec.

(* the AVX2 pre-check of validate_utf8_fast (native/utf8.h validate_utf8_avx2: the simdjson three-table lookup per
   lane, must_be_2_3_continuation, is_incomplete, the ASCII shortcuts of check64 / check128 that leave the previous
   vector stale, the 128/64-byte driver loops and the zero-padded remainder) returns "no error" exactly on the
   well-formed strings; hence the AVX2 build of validate_utf8_fast returns what the scalar routine returns *)
Theorem C20_avx2_precheck_exact : forall s, bytes s -> Utf8Simd.validate_utf8_avx2 s = wf s.
Proof. exact Utf8SimdProofs.avx2_exact. Qed.
Print Assumptions C20_avx2_precheck_exact.

Theorem C20_avx2_precheck_sound : forall s, bytes s -> Utf8Simd.validate_utf8_avx2 s = true -> WF s.
Proof. exact Utf8SimdProofs.avx2_sound. Qed.
Print Assumptions C20_avx2_precheck_sound.

Theorem C20_validate_utf8_fast_avx2_eq : forall s, bytes s ->
  Utf8Simd.validate_utf8_fast_avx2 s = validate_utf8_fast s.
Proof. exact Utf8SimdProofs.validate_utf8_fast_avx2_eq. Qed.
Print Assumptions C20_validate_utf8_fast_avx2_eq.

(* utf8.CorrectWith = byte-wise replacement, whatever the size of the position buffer (restarts) *)
Theorem C20_correct_with_spec : forall msize dst src repl, bytes src -> 0 < msize ->
  correct_with_msize msize dst src repl = Some (dst ++ replace_invalid repl src).
Proof. exact correct_with_spec. Qed.
Print Assumptions C20_correct_with_spec.

Theorem C20_correct_with_default : forall dst src repl, bytes src ->
  correct_with dst src repl = Some (dst ++ replace_invalid repl src).
Proof. exact correct_with_default_spec. Qed.
Print Assumptions C20_correct_with_default.

Example C20_bytes_sat : bytes [226; 130; 172]%N.
Proof. exact bytes_euro. Qed.
