(* C07 - No input can crash, hang or panic the process, and every error value is usable.
   Only statements, closed by `exact`, with Print Assumptions beneath each.
   Gen/PureFns.v and Gen/Consts.v are regenerated from /repo by tools/tx on every run. *)
From Coq Require Import ZArith Bool.
From Coq Require Import List NArith.
From SV.Safe Require Import GoInt ErrBounds ErrEcho ConstsOk SizeArith Depth.
From SV.Gen Require Import PureFns Consts.
Open Scope Z_scope.

(* decoder.SyntaxError: for every source length and EVERY position an int can hold (negative, beyond the end),
   Src[p:q] and the two strings.Repeat calls of description() cannot panic *)
Theorem C07_calcBounds_safe : forall size pos,
  0 <= size <= max_int - 16 -> int_ok pos ->
  excerpt_safe size (reorder (errors_calcBounds size pos)).
Proof. exact calcBounds_safe. Qed.
Print Assumptions C07_calcBounds_safe.

Theorem C07_calcBounds_inside_bounded : forall size pos,
  0 <= size <= max_int - 16 -> 0 <= pos < size ->
  excerpt_ok size (reorder (errors_calcBounds size pos)).
Proof. exact calcBounds_inside_bounded. Qed.
Print Assumptions C07_calcBounds_inside_bounded.

Theorem C07_calcBounds_caret : forall size pos,
  0 <= size <= max_int - 16 -> 0 <= pos < size ->
  let '(lbound, lwidth, rbound, rwidth) := errors_calcBounds size pos in
  lbound + lwidth = pos /\ lwidth + 1 + rwidth = rbound - lbound /\ lbound <= pos < rbound.
Proof. exact calcBounds_caret. Qed.
Print Assumptions C07_calcBounds_caret.

(* what description() actually slices and repeats (argument order of the final Sprintf included) *)
Theorem C07_errors_description_safe : forall size pos,
  0 <= size <= max_int - 16 -> int_ok pos ->
  excerpt_safe size (errors_description size pos) /\
  excerpt_len (errors_description size pos) <= (if (0 <=? pos) && (pos <? size) then 65 else Z.max 65 (size + 1)).
Proof. exact errors_description_safe. Qed.
Print Assumptions C07_errors_description_safe.

(* after fix e5f5c29: the excerpt is bounded by a constant for EVERY position an int can hold (positions outside the source -
   every EOF error has pos = len - are clamped to the nearest end); before the fix they echoed the whole source *)
Theorem C07_calcBounds_bounded_all : forall size pos,
  0 <= size <= max_int - 16 -> int_ok pos ->
  excerpt_ok32 size (errors_calcBounds size pos).
Proof. exact calcBounds_bounded_all. Qed.
Print Assumptions C07_calcBounds_bounded_all.

(* ast.SyntaxError: no guard on Pos in the source; safe under the exact precondition, unsafe outside it *)
Theorem C07_ast_description_safe : forall size pos,
  0 <= size <= 2 ^ 61 -> 0 <= pos <= size + 16 ->
  excerpt_ok size (ast_description size pos) /\ excerpt_len (ast_description size pos) <= 112.
Proof. exact ast_description_safe. Qed.
Print Assumptions C07_ast_description_safe.

Theorem C07_ast_description_pos_beyond_end_refuted :
  exists size pos, 0 < size /\ size + 16 < pos /\ let '(p, q, _, _) := ast_description size pos in q < p.
Proof. exact ast_description_pos_beyond_end_refuted. Qed.
Print Assumptions C07_ast_description_pos_beyond_end_refuted.

Theorem C07_ast_description_negative_pos_unbounded :
  forall K, 0 <= K <= 2 ^ 60 -> exists pos, pos < 0 /\ let '(_, _, _, y) := ast_description 10 pos in y > K.
Proof. exact ast_description_negative_pos_unbounded. Qed.
Print Assumptions C07_ast_description_negative_pos_unbounded.

Theorem C07_ast_errors_description_agree : forall size pos,
  0 <= size <= 2 ^ 61 -> 0 <= pos < size -> ast_description size pos = errors_description size pos.
Proof. exact ast_errors_description_agree. Qed.
Print Assumptions C07_ast_errors_description_agree.

(* types.ParsingError.Message *)
Theorem C07_parsing_error_message_total : forall code,
  0 <= code < 2 ^ 63 -> types_Message_inbounds code = true -> 0 <= code < table_len.
Proof. exact parsing_error_message_total. Qed.
Print Assumptions C07_parsing_error_message_total.

Theorem C07_parsing_error_message_top_bit_refuted :
  exists code, uint_ok code /\ types_Message_inbounds code = true /\ ~ (code < table_len).
Proof. exact parsing_error_message_top_bit_refuted. Qed.
Print Assumptions C07_parsing_error_message_top_bit_refuted.

Theorem C07_message_table_len : go_types_ParsingErrors_len = table_len.
Proof. exact message_table_len. Qed.
Print Assumptions C07_message_table_len.

(* resource limits agree between C, Go mirror structs, the generated decoder and the encoder *)
Theorem C07_fsm_stack_limits_agree :
  c_fsm_push_limit = c_MAX_RECURSE /\ c_StateMachine_vt_len = c_MAX_RECURSE /\
  go_types_MAX_RECURSE = c_MAX_RECURSE /\ go_types_StateMachine_Vt_len = c_MAX_RECURSE /\
  c_fsm_push_error = go_types_ERR_RECURSE_EXCEED_MAX.
Proof. exact fsm_stack_limits_agree. Qed.
Print Assumptions C07_fsm_stack_limits_agree.

Theorem C07_fsm_push_in_bounds : forall sp, 0 <= sp -> ~ (sp >= c_fsm_push_limit) ->
  sp < c_StateMachine_vt_len /\ sp < go_types_StateMachine_Vt_len.
Proof. exact fsm_push_in_bounds. Qed.
Print Assumptions C07_fsm_push_in_bounds.

Theorem C07_jitdec_stack_limits_agree :
  go_jitdec_MaxStackBytes = go_jitdec_MaxStack * go_jitdec_PtrBytes /\
  go_jitdec_Stack_sb_len = go_jitdec_MaxStack /\
  go_jitdec_Stack_vp_len = go_types_MAX_RECURSE /\
  go_jitdec_Stack_dp_len = go_types_MaxDigitNums /\ go_jitdec_MaxDigitNums = go_types_MaxDigitNums /\
  go_decconsts_MaxStack = go_jitdec_MaxStack.
Proof. exact jitdec_stack_limits_agree. Qed.
Print Assumptions C07_jitdec_stack_limits_agree.

Theorem C07_encoder_stack_limits_agree :
  go_encvars_StackLimit = go_encvars_MaxStack * go_encvars_StateSize /\
  go_encvars_MaxStackSP = go_encvars_StackLimit /\
  go_encvars_Push_limit = go_encvars_Stack_sb_len * go_encvars_StateSize.
Proof. exact encoder_stack_limits_agree. Qed.
Print Assumptions C07_encoder_stack_limits_agree.

Theorem C07_encoder_push_in_bounds : forall sp, 0 <= sp -> sp mod go_encvars_StateSize = 0 ->
  ~ (sp >= go_encvars_Push_limit) -> sp + go_encvars_StateSize <= go_encvars_Stack_sb_len * go_encvars_StateSize.
Proof. exact encoder_push_in_bounds. Qed.
Print Assumptions C07_encoder_push_in_bounds.

(* the stream decoder's refill always hands Read a non-empty slice (progress), never shrinks, make() is legal *)
Theorem C07_realloc_room : forall pl pc l c,
  0 <= l <= c -> 0 < c <= 2 ^ 61 ->
  let '(_, l', c') := stream_realloc g_api_minLeftBufferShift_init pl pc l c in
  l' = l /\ c <= c' /\ l' < c'.
Proof. exact realloc_room. Qed.
Print Assumptions C07_realloc_room.

Theorem C07_guardslice2_room : forall l c n,
  0 <= l <= c -> c <= 2 ^ 61 -> 0 <= n <= 2 ^ 61 ->
  let '(l', c') := rt_GuardSlice2 l c n in l' = l /\ c <= c' /\ n <= c' - l' /\ 0 <= l' <= c'.
Proof. exact guardslice2_room. Qed.
Print Assumptions C07_guardslice2_room.

(* the Go traversal of ast.Preorder (same shape: Parser.Parse noLazy) after fix 62dcdd9, with the limit regenerated from the
   source (Gen/Consts.go_types_MAX_RECURSE): the counter of nested decodeArray/decodeObject frames never exceeds MAX_RECURSE,
   for every input *)
Definition max_recurse : nat := Z.to_nat go_types_MAX_RECURSE.

Theorem C07_preorder_depth_bounded : forall s, (snd (preorder max_recurse s) <= max_recurse)%nat.
Proof. exact (preorder_depth_bounded max_recurse). Qed.
Print Assumptions C07_preorder_depth_bounded.

(* up to the limit the depth used is exactly the nesting depth ... *)
Theorem C07_preorder_nested_upto_limit : forall n, (1 <= n <= max_recurse)%nat ->
  preorder max_recurse (opens n ++ closes n) = (Ok nil, n).
Proof. exact (preorder_nested_upto_limit max_recurse). Qed.
Print Assumptions C07_preorder_nested_upto_limit.

Theorem C07_preorder_open_upto_limit : forall n, (n <= max_recurse)%nat -> preorder max_recurse (opens n) = (ErrEOF, n).
Proof. exact (preorder_open_upto_limit max_recurse). Qed.
Print Assumptions C07_preorder_open_upto_limit.

(* ... and deeper nesting, closed or not, whatever follows, is refused with an ordinary error value after exactly MAX_RECURSE frames *)
Theorem C07_preorder_beyond_limit_rejected : forall n X, (max_recurse < n)%nat ->
  preorder max_recurse (opens n ++ X) = (ErrRecurse, max_recurse).
Proof. exact (preorder_beyond_limit_rejected max_recurse). Qed.
Print Assumptions C07_preorder_beyond_limit_rejected.

Example C07_max_recurse_value : max_recurse = 4096%nat.
Proof. reflexivity. Qed.

(* traversals of a loaded tree (Node.Interface, MarshalJSON of a loaded node, SortKeys(true), LoadAll): frames = height; trees
   loaded from documents have height <= MAX_RECURSE (native skipper / Parse limit), hand-built trees are the caller's *)
Theorem C07_tree_walk_depth_is_height : forall t, walk 0 t = height t.
Proof. exact tree_walk_depth_is_height. Qed.
Print Assumptions C07_tree_walk_depth_is_height.

Theorem C07_tree_walk_depth_unbounded : forall n, walk 0 (nest_tree n) = n.
Proof. exact tree_walk_depth_unbounded. Qed.
Print Assumptions C07_tree_walk_depth_unbounded.

(* KNOWN FINDING (not an input, a destination type): nested slices / arrays / maps compile to programs whose length doubles per
   nesting level on both the decoder and the encoder side (the recurrence is checked against the real compilers by T) *)
From SV.Safe Require Import CompileSize.
Theorem C07_nested_container_program_exponential : forall l1 k n, (2 ^ n * l1 <= plen l1 k n)%nat.
Proof. exact plen_exponential. Qed.
Print Assumptions C07_nested_container_program_exponential.
