(* C01 - Unmarshal agrees with encoding/json on accept/reject and on the decoded value.
   Only statements, closed by `exact`, with Print Assumptions beneath each.
   Models: Dec/StdBind.v (encoding/json), Dec/SonicBind.v (sonic), Dec/FieldMap.v, Dec/Range.v, Dec/Trailing.v. *)
From Coq Require Import NArith ZArith List Bool String.
From SV.Dec Require Import Ty Val Parse Text Num Common FieldMap FieldMapProofs FieldLookup Range Trailing StdBind SonicBind
  DecProofs OptProofs DecProofs2 Witness Witness2 Compile Exec ExecProofs ExecWitness Code Sim SimTop CodeStruct SimStruct.
Import ListNotations.
Open Scope string_scope.

(* ------------------------------------------------------------------ field lookup *)

(* caching.FieldMap: after Set of pairwise distinct names (ids 0..n-1) into the 2n-slot table, Get returns the id of
   the name and -1 (None) for any other string - for EVERY hash function; the probe loop always terminates on an empty
   slot or on the name (its fuel is never the reason for a None) *)
Theorem C01_fieldmap_get_spec : forall (h : bytes -> N) names name, NoDup names ->
  get h (build h names) name = find_idx (fun n => bytes_eqb n name) names 0.
Proof. exact fieldmap_get_spec. Qed.
Print Assumptions C01_fieldmap_get_spec.

(* exact probe then strings.ToLower side map (smaller id preferred) = encoding/json's exact name then first
   fold-equal field, on ASCII names and keys *)
Theorem C01_field_lookup_std : forall (h : bytes -> N) names key,
  NoDup names -> Forall (fun n => is_ascii n = true) names -> is_ascii key = true ->
  sonic_lookup h names key = std_lookup names key.
Proof. exact field_lookup_std. Qed.
Print Assumptions C01_field_lookup_std.

(* beyond ASCII the rules differ in both directions (U+017F matches S only by folding; U+0130 matches I only by
   ToLower): known finding KF-C01-fold *)
Theorem C01_field_lookup_nonascii_refuted : forall h : bytes -> N,
  exists names key, NoDup names /\ sonic_lookup h names key = None /\ std_lookup names key = Some 0%nat.
Proof. exact field_lookup_nonascii_refuted. Qed.
Print Assumptions C01_field_lookup_nonascii_refuted.

Theorem C01_field_lookup_nonascii_refuted_2 : forall h : bytes -> N,
  exists names key, NoDup names /\ sonic_lookup h names key = Some 0%nat /\ std_lookup names key = None.
Proof. exact field_lookup_nonascii_refuted_2. Qed.
Print Assumptions C01_field_lookup_nonascii_refuted_2.

Example C01_field_lookup_nonvacuous :
  let names := [[110; 97; 109; 101]; [78; 97; 109; 101]; [105; 100]]%N in
  NoDup names /\ Forall (fun n => is_ascii n = true) names /\
  std_lookup names [78; 65; 77; 69]%N = Some 0%nat /\ std_lookup names [78; 97; 109; 101]%N = Some 1%nat /\
  std_lookup names [120]%N = None.
Proof. exact field_lookup_std_nonvacuous. Qed.
Print Assumptions C01_field_lookup_nonvacuous.

(* ------------------------------------------------------------------ range checks, trailing data *)

(* the range checks emitted after vsigned/vunsigned accept exactly the representable integers: every width, all of Z *)
Theorem C01_range_op_spec : forall k z, accept_op k z = in_range k z.
Proof. exact range_op_spec. Qed.
Print Assumptions C01_range_op_spec.

(* the map-key opcodes use the same checks (map_key_u32 since fix afd5482) *)
Theorem C01_range_map_key_spec : forall k z, accept_map_key k z = in_range k z.
Proof. exact range_map_key_spec. Qed.
Print Assumptions C01_range_map_key_spec.

(* why range_unsigned_CX could not serve for uint32: its 32-bit immediate 0xFFFFFFFF is sign-extended (the defect
   repaired by afd5482; witness 2^32) *)
Theorem C01_range_unsigned_imm32_pitfall :
  exists z, in_range U32 z = false /\ in_range U64 z = true /\ range_unsigned (imax U32) (enc64 z) = true.
Proof. exact range_unsigned_imm32_pitfall. Qed.
Print Assumptions C01_range_unsigned_imm32_pitfall.

Example C01_range_nonvacuous : accept_op I8 (-128) = true /\ accept_op U32 4294967295 = true /\ accept_op U8 256 = false.
Proof. exact range_accepts_something. Qed.
Print Assumptions C01_range_nonvacuous.

(* CheckTrailings succeeds iff only JSON whitespace follows the value *)
Theorem C01_trailing_spec : forall buf pos, Forall (fun c => (c < 256)%N) buf ->
  (check_trailings buf pos = true <-> all_ws (skipn pos buf) = true).
Proof. exact trailing_spec. Qed.
Print Assumptions C01_trailing_spec.

(* ------------------------------------------------------------------ the binders *)

(* On documents: for every destination type of the fragment (bool, every integer width, float64, string,
   json.Number, interface{}, pointers, slices, arrays, structs with unquoted fields of pairwise distinct ASCII names -
   nested arbitrarily), every strict document whose strings decode identically under both unquoters, whose keys
   decode to ASCII and which contains no number spelled -0, every initial value, every option set (UseNumber,
   UseInt64, DisallowUnknownFields, ValidateString or not) and every hash function: same error-or-not, same value.
   `_partial`: float32, []byte and the RawMessage / Unmarshaler / TextUnmarshaler leaves are outside (each has a
   refutation below or is left to the differential run); maps and `,string` fields are in
   C01_bind_agree_maps_quoted below, under the no-collision discipline. *)
Theorem C01_bind_agree_partial : forall (h : bytes -> N) (o : opts) t, frag t = true ->
  forall j v, strict_jv j = true -> guards o j -> sonic_bind h Jit o t j v = std_bind o t j v.
Proof. exact (fun h o => proj1 (bind_agree_all h o)). Qed.
Print Assumptions C01_bind_agree_partial.

(* On input bytes: when encoding/json's reader accepts, both agree (error-or-not and value); when it rejects, sonic
   rejects too or the documented leniency applies (structurally well-formed document, lexically invalid string body,
   which was skipped rather than stored) *)
Theorem C01_bind_agree : forall (h : bytes -> N) (o : opts) t s v,
  frag t = true -> input_ok o s -> (forall j, parse s = Some j -> guards o j) ->
  match parse s with
  | Some j => sonic_unmarshal h Jit o t s v = std_unmarshal o t s v
  | None => std_unmarshal o t s v = Err /\
            (sonic_unmarshal h Jit o t s v = Err \/ skipped_only_structural h o t s v)
  end.
Proof. exact bind_agree_top. Qed.
Print Assumptions C01_bind_agree.

(* the hypotheses are satisfiable: a struct with tags, a case-insensitive key, duplicate keys, nulls, an unknown
   field, under both stock configurations; and the common result is the expected value *)
Example C01_bind_agree_nonvacuous : forall o, (o = opts_std \/ o = opts_default) ->
  frag ex_ty = true /\ input_ok o ex_in /\ (forall j, parse ex_in = Some j -> guards o j) /\ parse ex_in <> None.
Proof. exact agreement_example_hypotheses. Qed.
Print Assumptions C01_bind_agree_nonvacuous.

Example C01_bind_agree_example :
  sonic_unmarshal h1 Jit opts_std ex_ty ex_in ex_v0 = Ok ex_out /\ std_unmarshal opts_std ex_ty ex_in ex_v0 = Ok ex_out /\
  sonic_unmarshal h1 Jit opts_default ex_ty ex_in ex_v0 = Ok ex_out.
Proof. exact agreement_example_values. Qed.
Print Assumptions C01_bind_agree_example.

(* The larger fragment: maps with string / integer / TextUnmarshaler keys and `,string` fields (bool, integers,
   float64, string, json.Number, pointers to them) added, nested arbitrarily.  Extra hypotheses (the no-collision
   discipline): every object of the document has pairwise distinct keys - as lower-cased texts and as integers -,
   strings are free of escapes and read as JSON numbers when they start like one, the initial value holds no
   non-empty map.  Under them no map element and no struct field is decoded twice, which is exactly where sonic
   (decodes over the existing element: C01_mapmerge_refuted) and encoding/json (fresh zero element) differ. *)
Theorem C01_bind_agree_maps_quoted_partial : forall (h : bytes -> N) (o : opts) t, frag2 t = true ->
  forall j v, strict_jv j = true -> guards2 o j -> nomap v = true -> sonic_bind h Jit o t j v = std_bind o t j v.
Proof. exact (fun h o => proj1 (bind_agree2_all h o)). Qed.
Print Assumptions C01_bind_agree_maps_quoted_partial.

Theorem C01_bind_agree_maps_quoted : forall (h : bytes -> N) (o : opts) t s v,
  frag2 t = true -> input_ok o s -> nomap v = true -> (forall j, parse s = Some j -> guards2 o j) ->
  match parse s with
  | Some j => sonic_unmarshal h Jit o t s v = std_unmarshal o t s v
  | None => std_unmarshal o t s v = Err /\
            (sonic_unmarshal h Jit o t s v = Err \/ skipped_only_structural h o t s v)
  end.
Proof. exact bind_agree2_top. Qed.
Print Assumptions C01_bind_agree_maps_quoted.

Example C01_bind_agree_maps_quoted_nonvacuous : forall o, (o = opts_std \/ o = opts_default) ->
  frag2 ex2_ty = true /\ input_ok o ex2_in /\ nomap ex2_v0 = true /\ (forall j, parse ex2_in = Some j -> guards2 o j) /\
  parse ex2_in <> None.
Proof. exact agreement2_example_hypotheses. Qed.
Print Assumptions C01_bind_agree_maps_quoted_nonvacuous.

Example C01_bind_agree_maps_quoted_example :
  sonic_unmarshal h1 Jit opts_std ex2_ty ex2_in ex2_v0 = Ok ex2_out /\ std_unmarshal opts_std ex2_ty ex2_in ex2_v0 = Ok ex2_out /\
  sonic_unmarshal h1 Jit opts_default ex2_ty ex2_in ex2_v0 = Ok ex2_out.
Proof. exact agreement2_example_values. Qed.
Print Assumptions C01_bind_agree_maps_quoted_example.

(* strings made of printable ASCII without backslash and quote satisfy the string guards *)
Theorem C01_plain_strings_ok : forall o b, forallb plain_byte b = true -> str_ok o b /\ key_ok b.
Proof. exact (fun o b H => conj (plain_str_ok o b H) (plain_key_ok b H)). Qed.
Print Assumptions C01_plain_strings_ok.

(* ------------------------------------------------------------------ the compiled program
   Dec/Compile.v transcribes jitdec/compiler.go (tied instruction by instruction to the real IL), Dec/Exec.v interprets
   the opcodes with the semantics of the _asm_OP_* emitters over bytes (tied to the real decoder on every generated
   case).  First link to the tree-level binder: for primitive destinations (bool, every integer width, float32, float64)
   the compiled program computes exactly sonic_unmarshal - every input, option set, initial value, hash.  For composite
   types the link is the differential run only. *)
Theorem C01_il_prim_correct : forall (h : bytes -> N) (o : opts) t s v,
  prim t = true -> il_unmarshal h o t s v = sonic_unmarshal h Jit o t s v.
Proof. exact il_prim_correct. Qed.
Print Assumptions C01_il_prim_correct.

(* hence the agreement theorem speaks about the compiled program there *)
Theorem C01_il_prim_agree : forall (h : bytes -> N) (o : opts) t s v,
  prim t = true -> frag t = true -> input_ok o s -> (forall j, parse s = Some j -> guards o j) ->
  match parse s with
  | Some j => il_unmarshal h o t s v = std_unmarshal o t s v
  | None => std_unmarshal o t s v = Err /\
            (il_unmarshal h o t s v = Err \/ skipped_only_structural h o t s v)
  end.
Proof. exact il_prim_vs_std. Qed.
Print Assumptions C01_il_prim_agree.

(* a trailing comma after exactly len(array) elements: an error since fix b376c30, like encoding/json; extra elements
   are still skipped (a program-level behaviour: the tree model cannot read `[1,]` at all) *)
Theorem C01_il_array_trailing_comma_agree :
  il_unmarshal h1 opts_std (TArr 1 TAny) (b "[1,]") (zero (TArr 1 TAny)) = Err /\
  il_unmarshal h1 opts_default (TArr 2 (TInt I64)) (b "[1,2 , ]") (zero (TArr 2 (TInt I64))) = Err /\
  std_unmarshal opts_std (TArr 1 TAny) (b "[1,]") (zero (TArr 1 TAny)) = Err /\
  il_unmarshal h1 opts_std (TArr 1 (TInt I64)) (b "[1, ""x"", [2,3]]") (zero (TArr 1 (TInt I64))) = Ok (VList [VInt 1] []) /\
  std_unmarshal opts_std (TArr 1 (TInt I64)) (b "[1, ""x"", [2,3]]") (zero (TArr 1 (TInt I64))) = Ok (VList [VInt 1] []).
Proof. exact il_array_trailing_comma_agree. Qed.
Print Assumptions C01_il_array_trailing_comma_agree.

(* null into **T with ( *T ) an unmarshaler on the program compiled since fix fac5479; `null 5` is trailing data *)
Theorem C01_il_ptrptr_null :
  il_unmarshal h1 opts_std (TPtr (TPtr TUnm)) (b "null") VNil = Ok VNil /\
  il_unmarshal h1 opts_std (TPtr (TPtr TUnm)) (b "null 5") VNil = Err /\
  il_unmarshal h1 opts_std (TPtr (TPtr TUnm)) (b " [1, 2]") VNil = Ok (VPtr (VPtr (VStr (b "[1, 2]")))).
Proof. exact il_ptrptr_null. Qed.
Print Assumptions C01_il_ptrptr_null.

(* the example documents of the agreement theorems through their compiled programs *)
Theorem C01_il_examples :
  il_unmarshal h1 opts_std ex_ty ex_in ex_v0 = Ok ex_out /\ il_unmarshal h1 opts_default ex_ty ex_in ex_v0 = Ok ex_out /\
  il_unmarshal h1 opts_std ex2_ty ex2_in ex2_v0 = Ok ex2_out /\ il_unmarshal h1 opts_default ex2_ty ex2_in ex2_v0 = Ok ex2_out.
Proof. exact il_examples. Qed.
Print Assumptions C01_il_examples.

(* ------------------------------------------------------------------ the compiled programs, composite types

   (1) the label discipline of the compiler (pc / pin / rel on the growing program) yields, for every type of the fragment
   `ilf` (scalars, string, json.Number, interface{}, pointers, slices, fixed arrays, nested arbitrarily), a block whose content depends
   only on its position: compileOps sp t p = p ++ code t (length p), with every jump target of `code` written out as
   base + offset (Dec/Code.v). *)
Theorem C01_compile_code : forall t, ilf t = true -> forall sp p, compileOps sp t p = (p ++ code t (List.length p))%list.
Proof. exact compile_code. Qed.
Print Assumptions C01_compile_code.

(* (2) simulation: for bool, every integer width, float32, float64, string, interface{}, and pointers / slices / fixed
   arrays of those nested arbitrarily (destination well shaped: an array value holds exactly its N elements; every value is
   well shaped when the type has no array: C01_shape_noarr), running `compile t` with the IL interpreter (CheckTrailings included) gives the result of the
   tree-level binder - every input (malformed ones included), option set, initial value (hidden slice elements included)
   and hash - unless one of the two answers Unk (interpreter out of fuel / escape validation of skipped text under
   ValidateString, which the tree model leaves open). *)
Theorem C01_il_sim : forall (h : bytes -> N) (o : opts) t s v, simf t = true -> shape t v ->
  compat (il_unmarshal h o t s v) (sonic_unmarshal h Jit o t s v).
Proof. exact il_sim. Qed.
Print Assumptions C01_il_sim.

Theorem C01_shape_noarr : forall t, noarr t = true -> forall v, shape t v.
Proof. exact shape_noarr. Qed.
Print Assumptions C01_shape_noarr.

Theorem C01_shape_zero : forall t, shape t (zero t).
Proof. exact shape_zero. Qed.
Print Assumptions C01_shape_zero.

(* (3) hence C01_bind_agree speaks about the compiled program on the common fragment *)
Theorem C01_il_sim_agree : forall (h : bytes -> N) (o : opts) t s v,
  simf t = true -> shape t v -> frag t = true -> input_ok o s -> (forall j, parse s = Some j -> guards o j) ->
  match parse s with
  | Some j => compat (il_unmarshal h o t s v) (std_unmarshal o t s v)
  | None => std_unmarshal o t s v = Err /\
            (il_unmarshal h o t s v = Err \/ il_unmarshal h o t s v = Unk \/ sonic_unmarshal h Jit o t s v = Unk \/
             skipped_only_structural h o t s v)
  end.
Proof. exact il_sim_vs_std. Qed.
Print Assumptions C01_il_sim_agree.

(* not vacuous: nested slices and pointers with a pre-populated destination (hidden elements reused), both answers are
   values; a malformed document is an error for both *)
Theorem C01_il_sim_nonvacuous :
  let t := TSlice (TPtr (TSlice (TInt I64))) in
  let v0 := VList [VPtr (VList [VInt 7] [VInt 8])] [VNil; VPtr (VList [] [VInt 9])] in
  simf t = true /\
  il_unmarshal h1 opts_std t (b " [[1,2], null ,[3]] ") v0 =
    Ok (VList [VPtr (VList [VInt 1; VInt 2] []); VNil; VPtr (VList [VInt 3] [])] []) /\
  sonic_unmarshal h1 Jit opts_std t (b " [[1,2], null ,[3]] ") v0 =
    Ok (VList [VPtr (VList [VInt 1; VInt 2] []); VNil; VPtr (VList [VInt 3] [])] []) /\
  il_unmarshal h1 opts_default t (b "[[1,2],]") v0 = Err /\ sonic_unmarshal h1 Jit opts_default t (b "[[1,2],]") v0 = Err.
Proof. repeat split; vm_compute; reflexivity. Qed.
Print Assumptions C01_il_sim_nonvacuous.

(* fixed arrays: elements decoded in place, missing ones cleared, extra ones skipped, `[]` clears all, a trailing comma
   after the last decoded element is an error for both (fix b376c30) *)
Theorem C01_il_sim_arrays_nonvacuous :
  let t := TArr 2 (TSlice (TArr 1 (TInt I64))) in
  let v0 := VList [VList [VList [VInt 7] []] [VList [VInt 8] []]; VNil] [] in
  simf t = true /\ shape t v0 /\
  il_unmarshal h1 opts_std t (b "[[[1],[2,3]]]") v0 = Ok (VList [VList [VList [VInt 1] []; VList [VInt 2] []] []; VNil] []) /\
  sonic_unmarshal h1 Jit opts_std t (b "[[[1],[2,3]]]") v0 = Ok (VList [VList [VList [VInt 1] []; VList [VInt 2] []] []; VNil] []) /\
  il_unmarshal h1 opts_default t (b "[]") v0 = Ok (VList [VNil; VNil] []) /\
  sonic_unmarshal h1 Jit opts_default t (b "[]") v0 = Ok (VList [VNil; VNil] []) /\
  il_unmarshal h1 opts_default t (b "[null,null,7,[8]]") v0 = sonic_unmarshal h1 Jit opts_default t (b "[null,null,7,[8]]") v0 /\
  il_unmarshal h1 opts_default t (b "[null,null,]") v0 = Err /\ sonic_unmarshal h1 Jit opts_default t (b "[null,null,]") v0 = Err.
Proof.
  cbv zeta. split; [reflexivity|]. split.
  { simpl. repeat (split || constructor || reflexivity). }
  repeat split; vm_compute; reflexivity.
Qed.
Print Assumptions C01_il_sim_arrays_nonvacuous.

(* structs (top inline level): header with the two copies of the key loop, the switch tables filled with the addresses of
   the field blocks, one block per field, the final drop - for structs with at least one field, every field unquoted and of a
   type of `ilf` *)
Theorem C01_compile_struct : forall nm q t r, sfields (FCons nm q t r) = true -> forall p,
  compileOps 0 (TStruct (FCons nm q t r)) p = (p ++ scode (FCons nm q t r) (List.length p))%list.
Proof. exact compile_struct. Qed.
Print Assumptions C01_compile_struct.

(* simulation for structs: fields unquoted, of types of `simf` without fixed arrays (`sfields2`); destination a struct value
   with one value per field. Hypothesis on the field table: the lookup returns field numbers only (the FieldMap model stores
   the ids 0..n-1: C01_fieldmap_get_spec for the exact probe; not yet proved for the case-insensitive side map). Member loop:
   key through parse_string + unquote, exact-then-lower-case lookup, switch to the field's block, unknown keys skipped
   (DisallowUnknownFields: error), duplicate keys decode over the previous value, `{}`, every malformed shape. *)
Theorem C01_il_sim_struct : forall (h : bytes -> N) (o : opts) fs s vs, is_fnil fs = false -> sfields2 fs = true ->
  (forall k i, sonic_lookup h (fnames fs) k = Some i -> (i < flen fs)%nat) ->
  List.length vs = flen fs ->
  compat (il_unmarshal h o (TStruct fs) s (VList vs [])) (sonic_unmarshal h Jit o (TStruct fs) s (VList vs [])).
Proof. exact il_sim_struct. Qed.
Print Assumptions C01_il_sim_struct.

Theorem C01_il_sim_struct_nonvacuous :
  let fs := FCons (b "name") false TStr (FCons (b "ids") false (TSlice (TInt I64)) (FCons (b "P") false (TPtr TBool) FNil)) in
  let v0 := VList [VStr (b "old"); VList [VInt 9] [VInt 8]; VNil] [] in
  is_fnil fs = false /\ sfields2 fs = true /\
  il_unmarshal h1 opts_std (TStruct fs) (b "{""NAME"":""x"", ""ids"":[1,2], ""zz"":{""a"":[1]}, ""p"":true, ""ids"":[3]}") v0 =
    Ok (VList [VStr (b "x"); VList [VInt 3] [VInt 2]; VPtr (VBool true)] []) /\
  sonic_unmarshal h1 Jit opts_std (TStruct fs) (b "{""NAME"":""x"", ""ids"":[1,2], ""zz"":{""a"":[1]}, ""p"":true, ""ids"":[3]}") v0 =
    Ok (VList [VStr (b "x"); VList [VInt 3] [VInt 2]; VPtr (VBool true)] []) /\
  il_unmarshal h1 opts_default (TStruct fs) (b "{""name"":""x"",}") v0 = Err /\
  sonic_unmarshal h1 Jit opts_default (TStruct fs) (b "{""name"":""x"",}") v0 = Err.
Proof. repeat split; vm_compute; reflexivity. Qed.
Print Assumptions C01_il_sim_struct_nonvacuous.

(* ------------------------------------------------------------------ clauses the faithful model violates
   (each witness is replayed on the real code from corpus/C01 and listed in known_findings.d/C01.json) *)

Theorem C01_mapmerge_refuted :
  let t := TMap KStr (TStruct (fld "A" (TInt I64) (fld "B" (TInt I64) FNil))) in
  let s := b "{""k"":{""A"":1},""k"":{""B"":2}}" in
  sonic_unmarshal h1 Jit opts_std t s VNil = Ok (VMap [(VStr (b "k"), VList [VInt 1; VInt 2] [])]) /\
  std_unmarshal opts_std t s VNil = Ok (VMap [(VStr (b "k"), VList [VInt 0; VInt 2] [])]).
Proof. exact mapmerge_refuted. Qed.
Print Assumptions C01_mapmerge_refuted.

Theorem C01_mapmerge_null_refuted :
  let t := TMap KStr (TInt U16) in
  let v := VMap [(VStr (b "k"), VInt 65535)] in
  sonic_unmarshal h1 Jit opts_std t (b "{""k"":null}") v = Ok (VMap [(VStr (b "k"), VInt 65535)]) /\
  std_unmarshal opts_std t (b "{""k"":null}") v = Ok (VMap [(VStr (b "k"), VInt 0)]).
Proof. exact mapmerge_null_refuted. Qed.
Print Assumptions C01_mapmerge_null_refuted.

Theorem C01_f32_double_rounding_refuted :
  sonic_unmarshal h1 Jit opts_std TF32 (b "1.00000005960464477539062500000000000000000001") (VFlt 0) = Ok (VFlt 1065353216) /\
  std_unmarshal opts_std TF32 (b "1.00000005960464477539062500000000000000000001") (VFlt 0) = Ok (VFlt 1065353217) /\
  sonic_unmarshal h1 Jit opts_std TF32 (b "340282356779733661637539395458142568447") (VFlt 0) = Err /\
  std_unmarshal opts_std TF32 (b "340282356779733661637539395458142568447") (VFlt 0) = Ok (VFlt 2139095039).
Proof. exact f32_double_rounding_refuted. Qed.
Print Assumptions C01_f32_double_rounding_refuted.

(* repaired (fac5479): null into **T with ( *T ) an unmarshaler *)
Theorem C01_ptrptr_null_agree :
  sonic_unmarshal h1 Jit opts_std (TPtr (TPtr TUnm)) (b "null") VNil = Ok VNil /\
  std_unmarshal opts_std (TPtr (TPtr TUnm)) (b "null") VNil = Ok VNil.
Proof. exact ptrptr_null_agree. Qed.
Print Assumptions C01_ptrptr_null_agree.

(* repaired (afd5482): a uint32 map key above 2^32-1 is rejected by both *)
Theorem C01_u32_map_key_agree :
  sonic_unmarshal h1 Jit opts_std (TMap (KInt U32) (TInt I64)) (b "{""4294967296"":1}") VNil = Err /\
  std_unmarshal opts_std (TMap (KInt U32) (TInt I64)) (b "{""4294967296"":1}") VNil = Err /\
  sonic_unmarshal h1 Jit opts_std (TMap (KInt U32) (TInt I64)) (b "{""4294967295"":1}") VNil = Ok (VMap [(VInt 4294967295, VInt 1)]).
Proof. exact u32_map_key_agree. Qed.
Print Assumptions C01_u32_map_key_agree.

Theorem C01_quoted_string_refuted :
  let t := TStruct (qfld "s" TStr FNil) in
  let s := b "{""s"":""\""a\nb\""""}" in
  sonic_unmarshal h1 Jit opts_std t s (VList [VStr []] []) = Ok (VList [VStr [97; 10; 98]%N] []) /\
  std_unmarshal opts_std t s (VList [VStr []] []) = Err.
Proof. exact quoted_string_refuted. Qed.
Print Assumptions C01_quoted_string_refuted.

Theorem C01_raw_utf8_refuted :
  sonic_unmarshal h1 Jit opts_std TRaw [34; 97; 255; 98; 34]%N VNil = Ok (VStr [34; 97; 239; 191; 189; 98; 34]%N) /\
  std_unmarshal opts_std TRaw [34; 97; 255; 98; 34]%N VNil = Ok (VStr [34; 97; 255; 98; 34]%N).
Proof. exact raw_utf8_refuted. Qed.
Print Assumptions C01_raw_utf8_refuted.

Theorem C01_int_key_syntax_refuted :
  sonic_unmarshal h1 Jit opts_std (TMap (KInt I64) (TInt I64)) (b "{""01"":1}") VNil = Err /\
  std_unmarshal opts_std (TMap (KInt I64) (TInt I64)) (b "{""01"":1}") VNil = Unk.
Proof. exact int_key_syntax_refuted. Qed.
Print Assumptions C01_int_key_syntax_refuted.

(* the text -0 gives +0 in sonic and -0 in encoding/json: equal for reflect.DeepEqual, hence excluded by `guards`
   rather than listed as a finding *)
Theorem C01_minus_zero_sign :
  sonic_unmarshal h1 Jit opts_std TF64 (b "-0") (VFlt 0) = Ok (VFlt 0) /\
  std_unmarshal opts_std TF64 (b "-0") (VFlt 0) = Ok (VFlt (2 ^ 63)).
Proof. exact minus_zero_sign. Qed.
Print Assumptions C01_minus_zero_sign.
