(* C12 - The interpreter (VM) encoder is observably equivalent to the JIT encoder. *)
From Coq Require Import List NArith ZArith Bool.
From SV.Gen Require Import EncFlags.
From SV.Enc Require Import Prims Ty Val IR Compile VM Exec C12Proofs.
Import ListNotations.

(* one IR, two executors: the machine is parameterised by everything in which vm.go and the x86 code differ
   (number/quote primitives, option bit tested per op, state-stack bound); equal parameters give equal results
   for every environment of named types, compile options, option word and value *)
Theorem C12_exec_agree : forall A B, prims_eq A B ->
  forall e co flags v, encode A e co flags v = encode B e co flags v.
Proof. exact exec_agree. Qed.
Print Assumptions C12_exec_agree.

Example C12_prims_eq_satisfiable : prims_eq prims_vm prims_vm.
Proof. unfold prims_eq. repeat split; reflexivity. Qed.

(* the option bit each op tests is the same in vm.go (`has_opts`) and in the assembler (`BTQ $bit, fv`) - column generated
   from both sources - and is the documented bit *)
Theorem C12_flag_bits_agree :
  vm_flag_tests = jit_flag_tests /\
  b_f32 prims_vm = b_f32 prims_jit /\ b_f64 prims_vm = b_f64 prims_jit /\
  b_map_write_key prims_vm = b_map_write_key prims_jit /\
  b_empty_arr prims_vm = b_empty_arr prims_jit /\ b_empty_obj prims_vm = b_empty_obj prims_jit /\
  b_recurse prims_vm = b_recurse prims_jit /\ b_eface prims_vm = b_eface prims_jit /\ b_iface prims_vm = b_iface prims_jit /\
  b_f32 prims_vm = BitEncodeNullForInfOrNan /\ b_f64 prims_vm = BitEncodeNullForInfOrNan /\
  b_map_write_key prims_vm = BitSortMapKeys /\ b_empty_arr prims_vm = BitNoNullSliceOrMap /\
  b_empty_obj prims_vm = BitNoNullSliceOrMap /\ b_recurse prims_vm = BitPointerValue /\
  b_eface prims_vm = BitPointerValue /\ b_iface prims_vm = BitPointerValue.
Proof. exact flag_bits_agree. Qed.
Print Assumptions C12_flag_bits_agree.

(* per-primitive agreement: integers (all 2^64 values: native fastint.h = strconv), strings, floats except +-0 *)
Theorem C12_prims_agree_int :
  (forall z, (- 2 ^ 63 <= z < 2 ^ 63)%Z -> p_i64toa prims_vm z = p_i64toa prims_jit z) /\
  (forall z, (0 <= z < 2 ^ 64)%Z -> p_u64toa prims_vm z = p_u64toa prims_jit z).
Proof. exact prims_agree_int. Qed.
Print Assumptions C12_prims_agree_int.

Theorem C12_prims_agree_quote : forall s d, p_quote prims_vm s d = p_quote prims_jit s d.
Proof. exact prims_agree_quote. Qed.

Theorem C12_prims_agree_f64_nonzero : forall bits txt, is_zero_f64 bits = false ->
  p_f64toa prims_vm bits txt = p_f64toa prims_jit bits txt.
Proof. exact prims_agree_f64_nonzero. Qed.

Theorem C12_prims_agree_f32_nonzero : forall bits txt, is_zero_f32 bits = false ->
  p_f32toa prims_vm bits txt = p_f32toa prims_jit bits txt.
Proof. exact prims_agree_f32_nonzero. Qed.

Example C12_nonzero_satisfiable : is_zero_f64 4607182418800017408 = false /\ is_zero_f32 1065353216 = false.
Proof. split; reflexivity. Qed.

(* +-0: the interpreter's `v == 0` branch (alg.F64toa/F32toa) agrees with the native printer when the digits of a
   zero are "0" / "-0" *)
Theorem C12_prims_agree_f64_zero : forall bits txt, (bits < 2 ^ 64)%N -> zero_txt_ok 64 bits txt ->
  p_f64toa prims_vm bits txt = p_f64toa prims_jit bits txt.
Proof. exact prims_agree_f64_zero. Qed.
Theorem C12_prims_agree_f32_zero : forall bits txt, (bits < 2 ^ 32)%N -> zero_txt_ok 32 bits txt ->
  p_f32toa prims_vm bits txt = p_f32toa prims_jit bits txt.
Proof. exact prims_agree_f32_zero. Qed.
Example C12_zero_txt_ok_satisfiable : zero_txt_ok 64 (2 ^ 63) [45; 48]%N /\ zero_txt_ok 64 0 [48%N].
Proof. split; split; intro H; try reflexivity; discriminate H. Qed.

(* -0.0 was refuted on the pinned tree (interpreter: 0, JIT: -0); repaired by fix b09723f, now a theorem of the
   repaired model: both executors print -0, for float64 and float32 *)
Theorem C12_f64_negzero_agree :
  encode prims_vm [] default_copts 39 (Some (TPrim KFloat64, negzero64)) = Done [45; 48]%N /\
  encode prims_jit [] default_copts 39 (Some (TPrim KFloat64, negzero64)) = Done [45; 48]%N /\
  encode prims_vm [] default_copts 39 (Some (TPrim KFloat32, negzero32)) = Done [45; 48]%N /\
  encode prims_jit [] default_copts 39 (Some (TPrim KFloat32, negzero32)) = Done [45; 48]%N.
Proof. exact f64_negzero_agree. Qed.
Print Assumptions C12_f64_negzero_agree.

(* the state-stack bound was refuted on the pinned tree (vars.Stack.Push admitted MaxStack frames, the JIT's save_state
   one less: JAE instead of JA); repaired by fix a4d60f7 - both bounds are generated from the sources *)
Theorem C12_stack_bound_agree : p_stack prims_vm = p_stack prims_jit /\ p_stack prims_vm = MaxStack.
Proof. exact stack_bound_agree. Qed.

(* the executors are the same machine up to the digit oracle of zeros (the interpreter's `v == 0` branch prints "0"/"-0"
   itself, the JIT prints the native routine's digits) *)
Theorem C12_exec_agree_partial : forall e co flags v,
  encode prims_vm e co flags v = encode prims_jit_repaired e co flags v.
Proof. exact exec_agree_partial. Qed.
Print Assumptions C12_exec_agree_partial.
