(* C13 - SIMD level does not change any result (AVX2 vs SSE).
   Only statements, closed by `exact`, with Print Assumptions beneath each. *)
From Coq Require Import NArith List String Arith.
From SV.Gen Require Import Dispatch.
From SV.Simd Require Import Blocked QuoteCap DispatchSpec DispatchProofs.
Import ListNotations.

(* (a) dispatch: useAVX2 / useSSE (regenerated from internal/native/dispatch_amd64.go on every run) assign exactly
   the same set of variables, once each, each from its own package, to the symbol belonging to the variable's name,
   the same symbol in both; nothing declared is forgotten except the dead S_skip_one_fast *)
Theorem C13_dispatch_tables_same_domain :
  (forall v, In v (lhs useAVX2_assigns) <-> In v (lhs useSSE_assigns)) /\
  NoDup (lhs useAVX2_assigns) /\ NoDup (lhs useSSE_assigns) /\
  (forall v pk s, In (v, (pk, s)) useAVX2_assigns -> pk = "avx2"%string /\ sym_ok v s = true) /\
  (forall v pk s, In (v, (pk, s)) useSSE_assigns -> pk = "sse"%string /\ sym_ok v s = true) /\
  (forall v p1 s1 p2 s2, In (v, (p1, s1)) useAVX2_assigns -> In (v, (p2, s2)) useSSE_assigns -> s1 = s2) /\
  (forall v, In v declared -> In v never_assigned \/ In v (lhs useAVX2_assigns)) /\
  (forall v, In v (lhs useAVX2_assigns) -> In v declared /\ ~ In v never_assigned).
Proof. exact dispatch_tables_same_domain. Qed.
Print Assumptions C13_dispatch_tables_same_domain.

Theorem C13_wrappers_call_own_variable :
  (forall w f, In (w, f) wrappers -> f = ("__" ++ w)%string /\ In f (lhs useAVX2_assigns) /\ In f (lhs useSSE_assigns)) /\
  (forall f, In f func_vars -> In (drop2 f, f) wrappers) /\
  NoDup (map fst wrappers).
Proof. exact wrappers_call_own_variable. Qed.
Print Assumptions C13_wrappers_call_own_variable.

Theorem C13_init_dispatch_shape :
  init_chain = [("cpu.HasAVX2", "useAVX2"); ("cpu.HasSSE", "useSSE")]%string /\ init_else_panics = true /\
  useAVX2_calls = [("avx2", "Use")]%string /\ useSSE_calls = [("sse", "Use")]%string.
Proof. exact init_dispatch_shape. Qed.
Print Assumptions C13_init_dispatch_shape.

Theorem C13_use_tables_consistent : use_tables_ok = true.
Proof. exact use_tables_consistent. Qed.
Print Assumptions C13_use_tables_consistent.

(* (b) a block-structured finder equals the scalar specification for every block width and every input *)
Theorem C13_blocked_eq_scalar :
  forall (p : N -> bool) (W : nat), W > 0 -> forall s : list N, find_blocked p W s = find_scalar p s.
Proof. exact blocked_eq_scalar. Qed.
Print Assumptions C13_blocked_eq_scalar.

Example C13_blocked_nonvacuous :
  32 > 0 /\ find_blocked non_space 32 (repeat 32%N 40 ++ [65%N]) = 40 /\ find_blocked non_space 16 (repeat 32%N 40 ++ [65%N]) = 40.
Proof. vm_compute. repeat split. repeat constructor. Qed.

(* ... and so does every cascade of loops / single rounds of positive widths followed by the scalar tail; hence any
   two compilations of the same finder (AVX2: 32 then 16 ..., SSE: 16 ...) agree on every input *)
Theorem C13_cascade_eq_scalar :
  forall (p : N -> bool) (ps : list phase), Forall (fun ph => width ph > 0) ps ->
  forall s : list N, cascade p ps s = find_scalar p s.
Proof. exact cascade_eq_scalar. Qed.
Print Assumptions C13_cascade_eq_scalar.

Theorem C13_cascades_agree :
  forall (p : N -> bool) (ps1 ps2 : list phase),
  Forall (fun ph => width ph > 0) ps1 -> Forall (fun ph => width ph > 0) ps2 ->
  forall s : list N, cascade p ps1 s = cascade p ps2 s.
Proof. exact cascades_agree. Qed.
Print Assumptions C13_cascades_agree.

Example C13_cascade_nonvacuous :
  Forall (fun ph => width ph > 0) [Loop 32; Loop 16; Once 8; Once 4] /\
  cascade needs_quote [Loop 32; Loop 16; Once 8; Once 4] (repeat 97%N 61 ++ [34%N; 97%N]) = 61.
Proof. split; [repeat constructor | vm_compute; reflexivity]. Qed.

(* the 64-bit position masks of advance_string_* / get_maskx64 are assembled from 32-bit lanes (AVX2) or 16-bit lanes
   (SSE); for every lane width the assembled mask is the mask of the whole block *)
Theorem C13_lanes_mask_eq :
  forall (p : N -> bool) (L : nat), L > 0 -> forall s : list N, lanes_mask p L s = mask p s.
Proof. exact lanes_mask_eq. Qed.
Print Assumptions C13_lanes_mask_eq.

Theorem C13_lanes_agree :
  forall (p : N -> bool) (L1 L2 : nat), L1 > 0 -> L2 > 0 -> forall s : list N, lanes_mask p L1 s = lanes_mask p L2 s.
Proof. exact lanes_agree. Qed.
Print Assumptions C13_lanes_agree.

(* instances: lspace (AVX2: 32-byte loop, SSE: scalar only), memcchr_p32, memcchr_quote_unsafe *)
Theorem C13_lspace_variants_agree :
  forall s off, lspace_avx2 s off = lspace_sse s off /\ lspace_sse s off = lspace_spec s off.
Proof. exact lspace_variants_agree. Qed.
Print Assumptions C13_lspace_variants_agree.

Theorem C13_lspace_vec_test_spec : forall c, (c < 256)%N -> lspace_vec_test c = is_space c.
Proof. exact lspace_vec_test_spec. Qed.
Print Assumptions C13_lspace_vec_test_spec.

Theorem C13_finder_variants_agree : forall s,
  memcchr_p32_avx2 s = memcchr_p32_sse s /\ memcchr_quote_unsafe_avx2 s = memcchr_quote_unsafe_sse s.
Proof. exact finder_variants_agree. Qed.
Print Assumptions C13_finder_variants_agree.

(* memcchr_quote / memcchr_html_quote: the copying finder with a destination capacity.  AVX2 = loop 2W, test 2W, loop W,
   test W, scalar; SSE = loop W, test W, scalar (W = 16): equal results (+k found / end of input, -(k)-1 destination full)
   for every predicate, every W > 0, every input and every capacity *)
Theorem C13_memcchr_quote_avx2_eq_sse :
  forall (p : N -> bool) (W : nat), W > 0 -> forall (s : list N) (dn : nat),
  memcchr_quote_avx2 p W s dn = memcchr_quote_sse p W s dn.
Proof. exact memcchr_quote_avx2_eq_sse. Qed.
Print Assumptions C13_memcchr_quote_avx2_eq_sse.

Example C13_memcchr_quote_nonvacuous :
  16 > 0 /\ memcchr_quote_avx2 needs_quote 16 (repeat 97%N 20 ++ [34%N] ++ repeat 97%N 19) 20 = Found 20 /\
  memcchr_quote_sse needs_quote 16 (repeat 97%N 20 ++ [34%N] ++ repeat 97%N 3) 20 = Full 20.
Proof. split; [repeat constructor | vm_compute; split; reflexivity]. Qed.
