(* C06: (1) the bytes an encoder call produces do not depend on the capacity of the buffer it appends to, on the
   garbage behind len, or on what growslice leaves behind the copied prefix;  (2) the Go loops around native quote /
   html_escape (internal/encoder/alg/spec.go Quote, HtmlEscape) never let the native routine write beyond cap, for ANY
   sequence of capacities growslice may return and any behaviour of the native routine within its contract. *)
From Coq Require Import ZArith List Lia Bool Arith.
From SV.Safe Require Import GoInt ErrBounds SizeArith.
From SV.Gen Require Import PureFns.
Import ListNotations.
Open Scope nat_scope.

Definition byte := N.

(* a Go slice seen from its array: all cap bytes of the array and the length *)
Record buf := mkBuf { data : list byte; len : nat }.
Definition cap (b : buf) : nat := length (data b).
Definition wf (b : buf) : Prop := len b <= cap b.
Definition visible (b : buf) : list byte := firstn (len b) (data b).

(* append(b, out...): in place when it fits; otherwise growslice: a new array holding the old visible bytes, out, and
   `junk` (whatever the allocator leaves in the extra capacity) *)
Definition append (b : buf) (out junk : list byte) : buf :=
  if len b + length out <=? cap b
  then mkBuf (firstn (len b) (data b) ++ out ++ skipn (len b + length out) (data b)) (len b + length out)
  else mkBuf (firstn (len b) (data b) ++ out ++ junk) (len b + length out).

Lemma visible_append : forall b out junk, wf b -> visible (append b out junk) = visible b ++ out.
Proof.
  intros b out junk H. unfold wf, cap in H. unfold append, visible, cap.
  assert (L : length (firstn (len b) (data b)) = len b) by (apply firstn_length_le; exact H).
  destruct (len b + length out <=? length (data b)); cbn [data len].
  - rewrite app_assoc.
    rewrite firstn_app. rewrite app_length, L. replace (len b + length out - (len b + length out)) with 0 by lia.
    cbn [firstn]. rewrite app_nil_r. rewrite firstn_all2; [reflexivity|rewrite app_length, L; lia].
  - rewrite app_assoc. rewrite firstn_app. rewrite app_length, L. replace (len b + length out - (len b + length out)) with 0 by lia.
    cbn [firstn]. rewrite app_nil_r. rewrite firstn_all2; [reflexivity|rewrite app_length, L; lia].
Qed.

Lemma wf_append : forall b out junk, wf b -> wf (append b out junk).
Proof.
  intros b out junk H. unfold wf, cap in *. unfold append, cap.
  assert (L : length (firstn (len b) (data b)) = len b) by (apply firstn_length_le; exact H).
  destruct (len b + length out <=? length (data b)) eqn:E; cbn [data len].
  - apply Nat.leb_le in E. rewrite !app_length, L, skipn_length. lia.
  - rewrite !app_length, L. lia.
Qed.

(* the output of a sequence of appends (= an encoder run: each emission appends its bytes) *)
Fixpoint appends (b : buf) (outs : list (list byte * list byte)) : buf :=
  match outs with
  | [] => b
  | (o, j) :: t => appends (append b o j) t
  end.

Lemma visible_appends : forall outs b, wf b -> visible (appends b outs) = visible b ++ concat (map fst outs).
Proof.
  induction outs as [|[o j] t IH]; intros b H; cbn [appends map concat fst].
  - rewrite app_nil_r. reflexivity.
  - rewrite IH by (apply wf_append; exact H). rewrite visible_append by exact H. rewrite app_assoc. reflexivity.
Qed.

(* output_cap_independent: two runs producing the same emissions into buffers that agree on their visible prefix - whatever
   their capacities, the garbage behind len, the junk growslice leaves - hand back the same bytes *)
Theorem output_cap_independent : forall b1 b2 outs1 outs2,
  wf b1 -> wf b2 -> visible b1 = visible b2 -> map fst outs1 = map fst outs2 ->
  visible (appends b1 outs1) = visible (appends b2 outs2).
Proof. intros. rewrite !visible_appends by assumption. congruence. Qed.

(* a pooled buffer is reset to [:0] by FreeBytes: the result of Encode is exactly the emissions *)
Corollary pooled_output : forall b outs, wf b -> len b = 0 -> visible (appends b outs) = concat (map fst outs).
Proof. intros b outs H L. rewrite visible_appends by exact H. unfold visible. rewrite L. reflexivity. Qed.

Example append_example :
  visible (append (mkBuf [1; 2; 9; 9]%N 2) [7; 8; 6]%N [0; 0]%N) = [1; 2; 7; 8; 6]%N /\
  visible (append (mkBuf [1; 2; 9; 9; 9; 9]%N 2) [7; 8; 6]%N []) = [1; 2; 7; 8; 6]%N.
Proof. vm_compute. split; reflexivity. Qed.

(* ---------------------------------------------------------------- the quote / html-escape loops *)
Open Scope Z_scope.

Section NativeLoop.
  (* native quote / html_escape (sp, nb, dp, &dn): result (finished, consumed input bytes, written output bytes) *)
  Variable native : Z -> Z -> bool * Z * Z.
  (* the contract of the native routine (native/quote.c, html_escape.c: "dn is the output space; returns ~consumed when it is full") *)
  Hypothesis native_contract : forall nb dn, 0 <= nb -> 0 <= dn ->
    let '(fin, c, w) := native nb dn in 0 <= w <= dn /\ 0 <= c <= nb /\ (fin = true -> c = nb).
  (* rt.GrowSlice(typeByte, *b, b.Cap*2): ANY capacity not below the request *)
  Variable grow : Z -> Z.
  Hypothesis grow_ge : forall c, 2 * c <= grow c.

  (* for nb > 0 { dn := cap - len; ret := native(sp, nb, dp, &dn); len += dn; if ret >= 0 break; grow; nb -= ^ret; sp += ^ret }
     trace: every native call as (offset into the source, nb passed, len before, cap, bytes written) *)
  Fixpoint loop (fuel : nat) (off nb len cap : Z) : list (Z * Z * Z * Z * Z) :=
    match fuel with
    | O => []
    | S f =>
      if nb <=? 0 then [] else
      let '(fin, c, w) := native nb (cap - len) in
      (off, nb, len, cap, w) ::
      (if fin then [] else loop f (off + c) (nb - c) (len + w) (grow cap))
    end.

  (* every call: the source window [off, off+nb) stays inside the original string, the write fits the spare capacity *)
  Definition call_ok (total : Z) (e : Z * Z * Z * Z * Z) : Prop :=
    let '(off, nb, len, cap, w) := e in
    0 <= off /\ 0 < nb /\ off + nb = total /\ 0 <= len /\ len + w <= cap.

  Theorem loop_in_bounds : forall fuel off nb len cap total,
    0 <= off -> off + nb = total -> 0 <= len <= cap ->
    Forall (call_ok total) (loop fuel off nb len cap).
  Proof.
    induction fuel as [|f IH]; intros off nb len cap total Ho Ht Hl; cbn [loop]; [constructor|].
    destruct (nb <=? 0) eqn:E; [constructor|]. apply Z.leb_gt in E.
    pose proof (native_contract nb (cap - len) ltac:(lia) ltac:(lia)) as C.
    destruct (native nb (cap - len)) as [[fin c] w]. destruct C as [Cw [Cc Cf]].
    constructor.
    - unfold call_ok. lia.
    - destruct fin; [constructor|]. apply IH; try lia. pose proof (grow_ge cap). lia.
  Qed.
End NativeLoop.

(* alg.Quote: buf = rt.GuardSlice2(buf, nb+1) first (Gen/PureFns: room for nb+1 bytes, len kept), then the loop *)
Theorem quote_loop_in_bounds : forall native grow fuel l c nb,
  (forall nb dn, 0 <= nb -> 0 <= dn -> let '(fin, k, w) := native nb dn in 0 <= w <= dn /\ 0 <= k <= nb /\ (fin = true -> k = nb)) ->
  (forall c, 2 * c <= grow c) ->
  0 <= l <= c -> c <= 2 ^ 61 -> 0 <= nb < 2 ^ 61 ->
  let '(l', c') := rt_GuardSlice2 l c (nb + 1) in
  l' = l /\ nb + 1 <= c' - l' /\ Forall (call_ok nb) (loop native grow fuel 0 nb l' c').
Proof.
  intros native grow fuel l c nb Hn Hg Hl Hc Hnb.
  pose proof (guardslice2_room l c (nb + 1) Hl Hc ltac:(lia)) as G.
  destruct (rt_GuardSlice2 l c (nb + 1)) as [l' c']. destruct G as [G1 [G2 [G3 G4]]].
  repeat split; try assumption.
  apply loop_in_bounds; try assumption; lia.
Qed.

(* alg.HtmlEscape: same loop (sidx += ^nb, GrowSlice(dbuf.Cap*2)), starting from whatever capacity the destination has *)
Theorem htmlescape_loop_in_bounds : forall native grow fuel len cap nb,
  (forall nb dn, 0 <= nb -> 0 <= dn -> let '(fin, k, w) := native nb dn in 0 <= w <= dn /\ 0 <= k <= nb /\ (fin = true -> k = nb)) ->
  (forall c, 2 * c <= grow c) ->
  0 <= len <= cap -> 0 <= nb ->
  Forall (call_ok nb) (loop native grow fuel 0 nb len cap).
Proof. intros. apply loop_in_bounds; try assumption; lia. Qed.

(* non-vacuity: a native routine that needs 6 output bytes per input byte and a growslice that exactly doubles *)
Example loop_example :
  loop (fun nb dn => if 6 * nb <=? dn then (true, nb, 6 * nb) else (false, dn / 6, 6 * (dn / 6))) (fun c => 2 * c) 10 0 10 0 11
  = [(0, 10, 0, 11, 6); (1, 9, 6, 22, 12); (3, 7, 18, 44, 24); (7, 3, 42, 88, 18)].
Proof. vm_compute. reflexivity. Qed.
