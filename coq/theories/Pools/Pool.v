(* C06: ownership of buffers.  Heap objects (byte arrays) have identity; pools are multisets of arrays; every API is a
   short program of MOVES of array references between places (a pool, a register of the running call, the caller, a
   fresh allocation, the garbage) transcribed from the Go source; goroutines interleave at instruction granularity.
   The instruction set is linear (a reference is moved, never duplicated) except for `Alias`, which exists only to
   express broken variants.  Theorem owned_forever: for all alias-free programs, all schedules and all choices the pools
   make, an array handed to a caller is in no pool, in no register of any running call, and is never written again. *)
From Coq Require Import List Arith Lia Bool PeanoNat.
Import ListNotations.

Definition aid := nat.          (* array identity *)

Inductive reg := RB | RD | RR.  (* buf / dst (second pooled buffer) / result *)

Inductive src := FromPool (k : nat)            (* pool k hands out one of its arrays (which one: the scheduler's choice) *)
               | FromPoolOrFresh (k : nat)     (* vars.NewBytes / newBuffer / bufPool.Get: pooled array, or make() when the pool gives nothing *)
               | FromFresh                     (* make / growslice / dirtmake / string(buf) *)
               | FromReg (r : reg)
               | FromOwned.                    (* a buffer the caller lends (EncodeInto) *)
Inductive dst := ToPool (k : nat) | ToReg (r : reg) | ToOwned | ToNowhere.

Inductive instr :=
| Move (f : src) (t : dst)
| Wr (r : reg)                   (* bytes are stored into the array in r *)
| Rd (r : reg)                   (* bytes are loaded from the array in r *)
| SwapR (x y : reg)
| Alias (d s : reg).             (* NON-LINEAR: d := s, both keep the reference.  No API uses it. *)

Definition linear_instr (i : instr) : bool := match i with Alias _ _ => false | _ => true end.
Definition linear (p : list instr) : bool := forallb linear_instr p.

Record thread := mkT { code : list instr; rb : option aid; rd : option aid; rr : option aid }.

Definition getr (t : thread) (r : reg) : option aid := match r with RB => rb t | RD => rd t | RR => rr t end.
Definition setr (t : thread) (r : reg) (v : option aid) : thread :=
  match r with
  | RB => mkT (code t) v (rd t) (rr t)
  | RD => mkT (code t) (rb t) v (rr t)
  | RR => mkT (code t) (rb t) (rd t) v
  end.
Definition pop (t : thread) : thread := mkT (tl (code t)) (rb t) (rd t) (rr t).

Definition oa (o : option aid) : list aid := match o with Some a => [a] | None => [] end.
Definition regs_of (t : thread) : list aid := oa (rb t) ++ oa (rd t) ++ oa (rr t).

Record state := mkS { pools : list (list aid); owned : list aid; next : aid; threads : list thread }.

(* every reference to an array that exists anywhere *)
Definition refs (s : state) : list aid := concat (pools s) ++ owned s ++ flat_map regs_of (threads s).

Inductive label := LWrite (a : aid) | LRead (a : aid) | LTau.

Fixpoint upd {A} (l : list A) (i : nat) (v : A) : list A :=
  match l, i with
  | [], _ => []
  | _ :: t, O => v :: t
  | h :: t, S j => h :: upd t j v
  end.
Fixpoint remove_nth {A} (l : list A) (i : nat) : list A :=
  match l, i with
  | [], _ => []
  | _ :: t, O => t
  | h :: t, S j => h :: remove_nth t j
  end.

(* state without the running thread's registers: (pools, owned, next) *)
Definition take (pl : list (list aid)) (ow : list aid) (nx : aid) (t : thread) (f : src) (ch : option nat)
  : option (aid * list (list aid) * list aid * aid * thread) :=
  match f with
  | FromFresh => Some (nx, pl, ow, S nx, t)
  | FromPool k =>
    match ch with
    | Some j => match nth_error (nth k pl []) j with
                | Some a => Some (a, upd pl k (remove_nth (nth k pl []) j), ow, nx, t)
                | None => None end
    | None => None
    end
  | FromPoolOrFresh k =>
    match ch with
    | Some j => match nth_error (nth k pl []) j with
                | Some a => Some (a, upd pl k (remove_nth (nth k pl []) j), ow, nx, t)
                | None => None end
    | None => Some (nx, pl, ow, S nx, t)
    end
  | FromReg r => match getr t r with Some a => Some (a, pl, ow, nx, setr t r None) | None => None end
  | FromOwned =>
    match ch with
    | Some j => match nth_error ow j with Some a => Some (a, pl, remove_nth ow j, nx, t) | None => None end
    | None => None
    end
  end.

Definition give (pl : list (list aid)) (ow : list aid) (t : thread) (d : dst) (a : aid)
  : option (list (list aid) * list aid * thread) :=
  match d with
  | ToPool k => if k <? length pl then Some (upd pl k (a :: nth k pl []), ow, t) else None
  | ToReg r => match getr t r with None => Some (pl, ow, setr t r (Some a)) | Some _ => None end
  | ToOwned => Some (pl, a :: ow, t)
  | ToNowhere => Some (pl, ow, t)
  end.

Definition exec (s : state) (ti : nat) (ch : option nat) : option (state * label) :=
  match nth_error (threads s) ti with
  | None => None
  | Some t =>
    match code t with
    | [] => None
    | i :: _ =>
      let t0 := pop t in
      match i with
      | Move f d =>
        match take (pools s) (owned s) (next s) t0 f ch with
        | Some (a, pl, ow, nx, t1) =>
          match give pl ow t1 d a with
          | Some (pl', ow', t2) => Some (mkS pl' ow' nx (upd (threads s) ti t2), LTau)
          | None => None
          end
        | None => None
        end
      | Wr r => match getr t r with Some a => Some (mkS (pools s) (owned s) (next s) (upd (threads s) ti t0), LWrite a) | None => None end
      | Rd r => match getr t r with Some a => Some (mkS (pools s) (owned s) (next s) (upd (threads s) ti t0), LRead a) | None => None end
      | SwapR x y => Some (mkS (pools s) (owned s) (next s) (upd (threads s) ti (setr (setr t0 x (getr t y)) y (getr t x))), LTau)
      | Alias d sr => Some (mkS (pools s) (owned s) (next s) (upd (threads s) ti (setr t0 d (getr t sr))), LTau)
      end
    end
  end.

(* ---------------------------------------------------------------- counting references *)

Definition cnt (a : aid) (l : list aid) : nat := count_occ Nat.eq_dec l a.

Lemma cnt_app : forall a l1 l2, cnt a (l1 ++ l2) = cnt a l1 + cnt a l2.
Proof. intros. apply count_occ_app. Qed.

Lemma cnt_cons : forall a x l, cnt a (x :: l) = (if Nat.eq_dec x a then 1 else 0) + cnt a l.
Proof. intros. unfold cnt. cbn. destruct (Nat.eq_dec x a); reflexivity. Qed.

Lemma cnt_remove_nth : forall a l j x, nth_error l j = Some x ->
  cnt a l = (if Nat.eq_dec x a then 1 else 0) + cnt a (remove_nth l j).
Proof.
  intros a l. induction l as [|h t IH]; intros j x H; destruct j; cbn in H; try discriminate.
  - inversion H; subst. cbn [remove_nth]. apply cnt_cons.
  - cbn [remove_nth]. rewrite !cnt_cons. rewrite (IH j x H). lia.
Qed.

Lemma cnt_concat_upd : forall a (l : list (list aid)) k v, k < length l ->
  cnt a (concat (upd l k v)) + cnt a (nth k l []) = cnt a (concat l) + cnt a v.
Proof.
  intros a l. induction l as [|h t IH]; intros k v Hk; cbn in Hk; [lia|].
  destruct k; cbn [upd concat nth]; rewrite !cnt_app.
  - lia.
  - specialize (IH k v ltac:(lia)). lia.
Qed.

Lemma nth_error_nth_nil : forall (l : list (list aid)) k j x, nth_error (nth k l []) j = Some x -> k < length l.
Proof.
  intros l k j x H. destruct (Nat.lt_ge_cases k (length l)) as [|G]; [assumption|].
  rewrite nth_overflow in H by assumption. destruct j; discriminate.
Qed.

Lemma cnt_flat_map_upd : forall a (l : list thread) i t t', nth_error l i = Some t ->
  cnt a (flat_map regs_of (upd l i t')) + cnt a (regs_of t) = cnt a (flat_map regs_of l) + cnt a (regs_of t').
Proof.
  intros a l. induction l as [|h tl IH]; intros i t t' H; destruct i; cbn in H; try discriminate.
  - inversion H; subst. cbn [upd flat_map]. rewrite !cnt_app. lia.
  - cbn [upd flat_map]. rewrite !cnt_app. specialize (IH i t t' H). lia.
Qed.

Definition co (a : aid) (o : option aid) : nat := cnt a (oa o).

Lemma cnt_regs_setr : forall a t r v,
  cnt a (regs_of (setr t r v)) + co a (getr t r) = cnt a (regs_of t) + co a v.
Proof.
  intros a t r v. unfold regs_of, co. destruct r; cbn [setr getr rb rd rr]; rewrite !cnt_app; lia.
Qed.

Lemma regs_of_pop : forall t, regs_of (pop t) = regs_of t.
Proof. reflexivity. Qed.
Lemma getr_pop : forall t r, getr (pop t) r = getr t r.
Proof. intros t r; destruct r; reflexivity. Qed.

(* ---------------------------------------------------------------- the invariant *)

(* every array is referenced from at most one place; identities not yet allocated are referenced from nowhere *)
Definition inv (s : state) : Prop :=
  forall a, cnt a (refs s) <= 1 /\ (next s <= a -> cnt a (refs s) = 0).

Definition rest_cnt (a : aid) (pl : list (list aid)) (ow : list aid) : nat := cnt a (concat pl) + cnt a ow.

Definition eqn (a b : aid) : nat := if Nat.eq_dec a b then 1 else 0.

Lemma co_some : forall a b, co b (Some a) = eqn a b.
Proof. intros. unfold co, oa, eqn. rewrite cnt_cons. cbn. lia. Qed.
Lemma co_none : forall b, co b None = 0.
Proof. reflexivity. Qed.

Lemma pool_take_cnt : forall pl ow k j x, nth_error (nth k pl []) j = Some x ->
  forall b, rest_cnt b (upd pl k (remove_nth (nth k pl []) j)) ow + eqn x b = rest_cnt b pl ow.
Proof.
  intros pl ow k j x Hx b. unfold rest_cnt, eqn.
  pose proof (cnt_concat_upd b pl k (remove_nth (nth k pl []) j) (nth_error_nth_nil _ _ _ _ Hx)) as E.
  rewrite (cnt_remove_nth b _ _ _ Hx) in E. lia.
Qed.

(* take: either the reference leaves an existing place (counts drop by one for that array), or it is a fresh identity *)
Lemma take_cnt : forall pl ow nx t f ch a pl' ow' nx' t',
  take pl ow nx t f ch = Some (a, pl', ow', nx', t') ->
  (nx' = nx /\ forall b, rest_cnt b pl' ow' + cnt b (regs_of t') + eqn a b = rest_cnt b pl ow + cnt b (regs_of t))
  \/ (a = nx /\ nx' = S nx /\ pl' = pl /\ ow' = ow /\ t' = t).
Proof.
  intros pl ow nx t f ch a pl' ow' nx' t' H.
  destruct f as [k|k| |r|]; cbn [take] in H.
  - destruct ch as [j|]; [|discriminate]. destruct (nth_error (nth k pl []) j) as [x|] eqn:Ex; [|discriminate].
    inversion H; subst. left. split; [reflexivity|]. intro b. pose proof (pool_take_cnt pl ow' k j a Ex b). lia.
  - destruct ch as [j|].
    + destruct (nth_error (nth k pl []) j) as [x|] eqn:Ex; [|discriminate].
      inversion H; subst. left. split; [reflexivity|]. intro b. pose proof (pool_take_cnt pl ow' k j a Ex b). lia.
    + inversion H; subst. right. repeat split; reflexivity.
  - inversion H; subst. right. repeat split; reflexivity.
  - destruct (getr t r) as [x|] eqn:Er; [|discriminate]. inversion H; subst. left. split; [reflexivity|]. intro b.
    pose proof (cnt_regs_setr b t r None) as E. rewrite Er, co_some, co_none in E. lia.
  - destruct ch as [j|]; [|discriminate]. destruct (nth_error ow j) as [x|] eqn:Ex; [|discriminate].
    inversion H; subst. left. split; [reflexivity|]. intro b. unfold rest_cnt, eqn.
    rewrite (cnt_remove_nth b ow j a Ex). lia.
Qed.

Lemma give_cnt : forall pl ow t d a pl' ow' t', give pl ow t d a = Some (pl', ow', t') ->
  forall b, rest_cnt b pl' ow' + cnt b (regs_of t') <= rest_cnt b pl ow + cnt b (regs_of t) + eqn a b.
Proof.
  intros pl ow t d a pl' ow' t' H b. destruct d as [k|r| |]; cbn [give] in H.
  - destruct (k <? length pl) eqn:E; [|discriminate]. apply Nat.ltb_lt in E. inversion H; subst.
    unfold rest_cnt, eqn. pose proof (cnt_concat_upd b pl k (a :: nth k pl []) E) as C. rewrite cnt_cons in C. lia.
  - destruct (getr t r) eqn:Er; [discriminate|]. inversion H; subst.
    pose proof (cnt_regs_setr b t r (Some a)) as E. rewrite Er, co_some, co_none in E. lia.
  - inversion H; subst. unfold rest_cnt, eqn. rewrite cnt_cons. lia.
  - inversion H; subst. lia.
Qed.

Definition total (b : aid) (s : state) : nat := cnt b (refs s).

Lemma total_split : forall b s ti t, nth_error (threads s) ti = Some t ->
  forall pl ow nx t', total b (mkS pl ow nx (upd (threads s) ti t')) + cnt b (regs_of t) + rest_cnt b (pools s) (owned s)
                = total b s + cnt b (regs_of t') + rest_cnt b pl ow.
Proof.
  intros b s ti t H pl ow nx t'. unfold total, refs, rest_cnt. cbn [pools owned threads]. rewrite !cnt_app.
  pose proof (cnt_flat_map_upd b (threads s) ti t t' H). lia.
Qed.

(* ---------------------------------------------------------------- preservation *)
Theorem exec_preserves_inv : forall s ti ch s' l,
  inv s -> exec s ti ch = Some (s', l) ->
  (forall t, nth_error (threads s) ti = Some t -> linear (code t) = true) ->
  inv s'.
Proof.
  intros s ti ch s' l Hinv H Hlin. unfold exec in H.
  destruct (nth_error (threads s) ti) as [t|] eqn:Et; [|discriminate].
  specialize (Hlin t eq_refl).
  destruct (code t) as [|i rest] eqn:Ec; [discriminate|].
  cbn [linear forallb] in Hlin. apply andb_true_iff in Hlin. destruct Hlin as [Hi _].
  assert (Hsame : forall t', regs_of t' = regs_of t -> forall nx, next s <= nx ->
            inv (mkS (pools s) (owned s) nx (upd (threads s) ti t'))).
  { intros t' Hr nx Hnx b. pose proof (total_split b s ti t Et (pools s) (owned s) nx t') as E. rewrite Hr in E.
    destruct (Hinv b) as [H1 H2]. unfold total in *. split; [lia|]. intro Hb. cbn [next] in Hb. specialize (H2 ltac:(lia)). lia. }
  destruct i as [f d|r|r|x y|d sr]; try discriminate Hi.
  - (* Move *)
    destruct (take (pools s) (owned s) (next s) (pop t) f ch) as [[[[[a pl] ow] nx] t1]|] eqn:Etk; [|discriminate].
    destruct (give pl ow t1 d a) as [[[pl' ow'] t2]|] eqn:Egv; [|discriminate].
    inversion H; subst s' l. clear H.
    pose proof (give_cnt _ _ _ _ _ _ _ _ Egv) as G.
    intro b. pose proof (total_split b s ti t Et pl' ow' nx t2) as E.
    destruct (Hinv b) as [H1 H2]. unfold total in *. specialize (G b).
    destruct (take_cnt _ _ _ _ _ _ _ _ _ _ _ Etk) as [[Hn T]|[Ha [Hn [Hp [Ho Ht]]]]].
    + subst nx. specialize (T b). rewrite regs_of_pop in T. cbn [next]. split; [lia|]. intro Hb. specialize (H2 Hb). lia.
    + subst a nx pl ow t1. rewrite regs_of_pop in G. cbn [next].
      destruct (Hinv (next s)) as [_ Hz]. specialize (Hz (le_n _)). unfold eqn in G.
      split.
      * destruct (Nat.eq_dec (next s) b) as [e|e]; [subst b|]; lia.
      * intro Hb. specialize (H2 ltac:(lia)). destruct (Nat.eq_dec (next s) b) as [e|e]; [subst b|]; lia.
  - (* Wr *)
    destruct (getr t r); [|discriminate]. inversion H; subst. apply Hsame; [apply regs_of_pop|lia].
  - (* Rd *)
    destruct (getr t r); [|discriminate]. inversion H; subst. apply Hsame; [apply regs_of_pop|lia].
  - (* SwapR: the registers are permuted *)
    inversion H; subst s' l. clear H. intro b.
    pose proof (total_split b s ti t Et (pools s) (owned s) (next s) (setr (setr (pop t) x (getr t y)) y (getr t x))) as E.
    assert (Hc : cnt b (regs_of (setr (setr (pop t) x (getr t y)) y (getr t x))) = cnt b (regs_of t)).
    { unfold regs_of. destruct x, y; cbn [setr pop getr rb rd rr]; rewrite !cnt_app; lia. }
    rewrite Hc in E. destruct (Hinv b) as [H1 H2]. unfold total in *. cbn [next]. split; [lia|]. intro Hb. specialize (H2 Hb). lia.
Qed.

(* ---------------------------------------------------------------- runs *)

(* a schedule: which thread moves, and what the pool (or the lending caller) hands out *)
Fixpoint run (s : state) (sched : list (nat * option nat)) : state * list (label * list aid * list aid) :=
  match sched with
  | [] => (s, [])
  | (ti, ch) :: rest =>
    match exec s ti ch with
    | Some (s', l) => let '(sf, tr) := run s' rest in (sf, (l, owned s, concat (pools s)) :: tr)   (* owned / pooled BEFORE the step *)
    | None => run s rest      (* blocked or finished thread: nothing happens *)
    end
  end.

Definition all_linear (s : state) : Prop := forall t, In t (threads s) -> linear (code t) = true.

Lemma upd_In : forall {A} (l : list A) i v x, In x (upd l i v) -> x = v \/ In x l.
Proof.
  intros A l. induction l as [|h t IH]; intros i v x H; destruct i; cbn in *; try tauto.
  - destruct H; [left; auto|right; right; assumption].
  - destruct H; [right; left; assumption|]. destruct (IH i v x H); [left|right; right]; assumption.
Qed.

Lemma linear_tl : forall p, linear p = true -> linear (tl p) = true.
Proof. intros [|i p] H; [reflexivity|]. cbn in H. apply andb_true_iff in H. apply H. Qed.

Lemma code_setr : forall t r v, code (setr t r v) = code t.
Proof. intros t r v; destruct r; reflexivity. Qed.

Lemma take_code : forall pl ow nx t f ch a pl' ow' nx' t',
  take pl ow nx t f ch = Some (a, pl', ow', nx', t') -> code t' = code t.
Proof.
  intros pl ow nx t f ch a pl' ow' nx' t' H. destruct f as [k|k| |r|]; cbn [take] in H.
  - destruct ch; [|discriminate]. destruct (nth_error _ _); [|discriminate]. inversion H; reflexivity.
  - destruct ch; [destruct (nth_error _ _); [|discriminate]|]; inversion H; reflexivity.
  - inversion H; reflexivity.
  - destruct (getr t r); [|discriminate]. inversion H; subst. apply code_setr.
  - destruct ch; [|discriminate]. destruct (nth_error _ _); [|discriminate]. inversion H; reflexivity.
Qed.

Lemma give_code : forall pl ow t d a pl' ow' t', give pl ow t d a = Some (pl', ow', t') -> code t' = code t.
Proof.
  intros pl ow t d a pl' ow' t' H. destruct d as [k|r| |]; cbn [give] in H.
  - destruct (k <? length pl); [|discriminate]. inversion H; reflexivity.
  - destruct (getr t r); [discriminate|]. inversion H; subst. apply code_setr.
  - inversion H; reflexivity.
  - inversion H; reflexivity.
Qed.

Lemma exec_preserves_linear : forall s ti ch s' l, all_linear s -> exec s ti ch = Some (s', l) -> all_linear s'.
Proof.
  intros s ti ch s' l Hl H. unfold exec in H.
  destruct (nth_error (threads s) ti) as [t|] eqn:Et; [|discriminate].
  assert (Ht : linear (code t) = true) by (apply Hl; eapply nth_error_In; eassumption).
  assert (Hpop : forall t', code t' = tl (code t) -> forall pl ow nx, all_linear (mkS pl ow nx (upd (threads s) ti t'))).
  { intros t' Hc pl ow nx x Hx. cbn [threads] in Hx. apply upd_In in Hx. destruct Hx as [->|Hx]; [rewrite Hc; apply linear_tl, Ht|apply Hl, Hx]. }
  destruct (code t) as [|i rest] eqn:Ec; [discriminate|]. cbn [tl] in Hpop.
  assert (Hcp : code (pop t) = rest) by (cbn; rewrite Ec; reflexivity).
  destruct i as [f d|r|r|x y|d sr].
  - destruct (take (pools s) (owned s) (next s) (pop t) f ch) as [[[[[a pl] ow] nx] t1]|] eqn:Etk; [|discriminate].
    destruct (give pl ow t1 d a) as [[[pl' ow'] t2]|] eqn:Egv; [|discriminate].
    injection H as <- <-. apply Hpop.
    rewrite (give_code _ _ _ _ _ _ _ _ Egv), (take_code _ _ _ _ _ _ _ _ _ _ _ Etk). exact Hcp.
  - destruct (getr t r); [|discriminate]. injection H as <- <-. apply Hpop. exact Hcp.
  - destruct (getr t r); [|discriminate]. injection H as <- <-. apply Hpop. exact Hcp.
  - injection H as <- <-. apply Hpop. rewrite !code_setr. exact Hcp.
  - injection H as <- <-. apply Hpop. rewrite code_setr. exact Hcp.
Qed.

(* the array a write goes to is held in a register of the writing call: it cannot be owned by a caller or sit in a pool *)
Lemma write_target_not_shared : forall s ti ch s' a, inv s -> exec s ti ch = Some (s', LWrite a) ->
  ~ In a (owned s) /\ ~ In a (concat (pools s)).
Proof.
  intros s ti ch s' a Hinv H. unfold exec in H.
  destruct (nth_error (threads s) ti) as [t|] eqn:Et; [|discriminate].
  destruct (code t) as [|i rest]; [discriminate|].
  assert (Hreg : forall r, getr t r = Some a -> ~ In a (owned s) /\ ~ In a (concat (pools s))).
  { intros r Hr. destruct (Hinv a) as [H1 _]. unfold refs in H1. rewrite !cnt_app in H1.
    assert (1 <= cnt a (flat_map regs_of (threads s))).
    { apply nth_error_split in Et. destruct Et as [l1 [l2 [E _]]]. rewrite E, flat_map_app. cbn [flat_map]. rewrite !cnt_app.
      assert (1 <= cnt a (regs_of t)); [|lia].
      unfold regs_of. destruct r; cbn [getr] in Hr; rewrite Hr; rewrite !cnt_app; cbn [oa]; rewrite cnt_cons; destruct (Nat.eq_dec a a); lia. }
    split; intro Hin; apply (count_occ_In Nat.eq_dec) in Hin; unfold cnt in *; lia. }
  destruct i as [f d|r|r|x y|d sr].
  - destruct (take _ _ _ _ _ _) as [[[[[? ?] ?] ?] ?]|]; [|discriminate]. destruct (give _ _ _ _ _) as [[[? ?] ?]|]; discriminate.
  - destruct (getr t r) eqn:Er; [|discriminate]. inversion H; subst. eapply Hreg; eassumption.
  - destruct (getr t r); discriminate.
  - discriminate.
  - discriminate.
Qed.

(* owned_forever: from any state satisfying the invariant (in particular the empty initial state), for every schedule of
   alias-free programs: every write goes to an array that is neither owned by a caller nor pooled at that moment, and the
   invariant (so: owned arrays are in no pool and in no register) holds at the end *)
Theorem owned_forever : forall sched s, inv s -> all_linear s ->
  let '(sf, tr) := run s sched in
  inv sf /\ Forall (fun e => match e with
                            | (LWrite a, ow, pooled) => ~ In a ow /\ ~ In a pooled
                            | _ => True end) tr.
Proof.
  induction sched as [|[ti ch] rest IH]; intros s Hinv Hlin; cbn [run].
  - split; [assumption|constructor].
  - destruct (exec s ti ch) as [[s' l]|] eqn:E.
    + assert (Hinv' : inv s') by (eapply exec_preserves_inv; [eassumption|eassumption|intros t Ht; apply Hlin; eapply nth_error_In; eassumption]).
      assert (Hlin' : all_linear s') by (eapply exec_preserves_linear; eassumption).
      specialize (IH s' Hinv' Hlin'). destruct (run s' rest) as [sf tr]. destruct IH as [I1 I2].
      split; [assumption|]. constructor; [|assumption].
      destruct l as [a|a|]; try exact I. eapply write_target_not_shared; eassumption.
    + apply IH; assumption.
Qed.

(* an owned array is referenced from nowhere else: not pooled, not in a register of any call *)
Theorem owned_exclusive : forall s a, inv s -> In a (owned s) ->
  ~ In a (concat (pools s)) /\ ~ In a (flat_map regs_of (threads s)) /\ cnt a (owned s) = 1.
Proof.
  intros s a Hinv Hin. destruct (Hinv a) as [H1 _]. unfold refs in H1. rewrite !cnt_app in H1.
  apply (count_occ_In Nat.eq_dec) in Hin. unfold cnt in *.
  repeat split; try lia; intro H; apply (count_occ_In Nat.eq_dec) in H; lia.
Qed.
