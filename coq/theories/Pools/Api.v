(* C06: the APIs as move programs, transcribed statement by statement from the Go source.
   pools: 0 = encoder vars.bytesPool, 1 = encoder vars.bufferPool, 2 = ast bytesPool, 3 = stream decoder bufPool *)
From Coq Require Import List Arith Lia Bool.
From SV.Pools Require Import Pool.
Import ListNotations.

Definition P_ENC := 0. Definition P_BUF := 1. Definition P_AST := 2. Definition P_DEC := 3.

(* internal/encoder/encoder.go: Encode.  Variants = the run-time branches (error, EscapeHTML / ValidateString with or
   without growth, rt.CanSizeResue(cap) true / false).  grow = the encoder outgrew the pooled array (growslice). *)
Definition finish_with_pool (grow : bool) : list instr :=
  (* dst := vars.NewBytes(); *buf, *dst = HTMLEscape( *dst, *buf), *buf; vars.FreeBytes(dst)   [same shape for utf8.CorrectWith] *)
  [Move (FromPoolOrFresh P_ENC) (ToReg RD); Rd RB] ++
  (if grow then [Move (FromReg RD) ToNowhere; Move FromFresh (ToReg RD); Wr RD] else [Wr RD]) ++
  [SwapR RB RD; Move (FromReg RD) (ToPool P_ENC)].

Definition encode_body (grow : bool) : list instr :=
  (* buf := vars.NewBytes(); encodeIntoCheckRace(buf, val, opts) *)
  [Move (FromPoolOrFresh P_ENC) (ToReg RB)] ++
  (if grow then [Wr RB; Move (FromReg RB) ToNowhere; Move FromFresh (ToReg RB); Wr RB] else [Wr RB]).

Definition Encode_error (grow : bool) : list instr :=
  encode_body grow ++ [Move (FromReg RB) (ToPool P_ENC)].                      (* vars.FreeBytes(buf); return nil, err *)
Definition Encode_copy (grow esc escgrow : bool) : list instr :=
  encode_body grow ++ (if esc then finish_with_pool escgrow else []) ++
  (* CanSizeResue: ret = dirtmake.Bytes; copy(ret, *buf); vars.FreeBytes(buf); return ret *)
  [Move FromFresh (ToReg RR); Rd RB; Wr RR; Move (FromReg RB) (ToPool P_ENC); Move (FromReg RR) ToOwned].
Definition Encode_big (grow esc escgrow : bool) : list instr :=
  encode_body grow ++ (if esc then finish_with_pool escgrow else []) ++
  (* !CanSizeResue: ret = *buf  (the header is dropped, never pooled) *)
  [Move (FromReg RB) ToOwned].
(* FreeBytes of an array that is too large: not pooled *)
Definition Encode_error_big (grow : bool) : list instr := encode_body grow ++ [Move (FromReg RB) ToNowhere].

(* EncodeInto(buf *[]byte, ...): the caller lends its buffer; the (possibly regrown) buffer goes back to the caller;
   encodeFinish allocates (HTMLEscape(nil, buf)) *)
Definition EncodeInto_prog (grow esc : bool) : list instr :=
  [Move FromOwned (ToReg RB)] ++
  (if grow then [Wr RB; Move (FromReg RB) ToOwned; Move FromFresh (ToReg RB); Wr RB] else [Wr RB]) ++
  (if esc then [Move FromFresh (ToReg RR); Rd RB; Wr RR; Move (FromReg RB) ToOwned; Move (FromReg RR) ToOwned]
   else [Move (FromReg RB) ToOwned]).

(* EncodeIndented: out := vars.NewBytes(); EncodeInto(out,...); buf := vars.NewBuffer(); json.Indent(buf, *out); FreeBytes(out);
   copy or hand over buf.Bytes() *)
Definition EncodeIndented_copy (grow : bool) : list instr :=
  encode_body grow ++
  [Move (FromPoolOrFresh P_BUF) (ToReg RD); Rd RB; Wr RD; Move (FromReg RB) (ToPool P_ENC);
   Move FromFresh (ToReg RR); Rd RD; Wr RR; Move (FromReg RD) (ToPool P_BUF); Move (FromReg RR) ToOwned].
Definition EncodeIndented_big (grow : bool) : list instr :=
  encode_body grow ++
  [Move (FromPoolOrFresh P_BUF) (ToReg RD); Rd RB; Wr RD; Move (FromReg RB) (ToPool P_ENC); Move (FromReg RD) ToOwned].

(* StreamEncoder.Encode: out := vars.NewBytes(); EncodeInto; w.Write( *out) (the writer only reads); vars.FreeBytes(out) *)
Definition StreamEncode_prog (grow : bool) : list instr :=
  encode_body grow ++ [Rd RB; Move (FromReg RB) (ToPool P_ENC)].

(* ast/encode.go Node.MarshalJSON: buf := newBuffer(); self.encode(buf); copy + freeBuffer, or hand over when too large *)
Definition AstMarshal_copy (grow : bool) : list instr :=
  [Move (FromPoolOrFresh P_AST) (ToReg RB)] ++
  (if grow then [Wr RB; Move (FromReg RB) ToNowhere; Move FromFresh (ToReg RB); Wr RB] else [Wr RB]) ++
  [Move FromFresh (ToReg RR); Rd RB; Wr RR; Move (FromReg RB) (ToPool P_AST); Move (FromReg RR) ToOwned].
Definition AstMarshal_big : list instr :=
  [Move (FromPoolOrFresh P_AST) (ToReg RB); Wr RB; Move (FromReg RB) ToNowhere; Move FromFresh (ToReg RB); Wr RB; Move (FromReg RB) ToOwned].
Definition AstMarshal_error : list instr :=
  [Move (FromPoolOrFresh P_AST) (ToReg RB); Wr RB; Move (FromReg RB) (ToPool P_AST)].

(* internal/decoder/api/stream.go StreamDecoder.Decode: realloc(&buf) takes bufPool's array (or grows into a fresh one), Read fills it,
   self.Decoder.Reset(string(self.buf[s:e])) COPIES the document (the decoded strings reference the copy), the buffer goes back to the pool when empty *)
Definition StreamDecode_prog (grow : bool) : list instr :=
  [Move (FromPoolOrFresh P_DEC) (ToReg RB); Wr RB] ++
  (if grow then [Move FromFresh (ToReg RD); Rd RB; Wr RD; Move (FromReg RB) ToNowhere; SwapR RB RD; Wr RB] else []) ++
  [Move FromFresh (ToReg RR); Rd RB; Wr RR; Move (FromReg RR) ToOwned; Move (FromReg RB) (ToPool P_DEC)].

(* sonic.Unmarshal([]byte) / Get([]byte) / CopyString: string(buf) copy; the values handed out reference the copy *)
Definition UnmarshalBytes_prog : list instr :=
  [Move FromOwned (ToReg RB); Move FromFresh (ToReg RR); Rd RB; Wr RR; Move (FromReg RB) ToOwned; Move (FromReg RR) ToOwned].

Definition bools := [true; false].
Definition all_programs : list (list instr) :=
  flat_map (fun g => [Encode_error g; Encode_error_big g; EncodeIndented_copy g; EncodeIndented_big g; StreamEncode_prog g;
                      AstMarshal_copy g; StreamDecode_prog g] ++
             flat_map (fun e => [EncodeInto_prog g e] ++ flat_map (fun eg => [Encode_copy g e eg; Encode_big g e eg]) bools) bools) bools
  ++ [AstMarshal_big; AstMarshal_error; UnmarshalBytes_prog].

(* every transcribed program is alias-free *)
Theorem api_programs_linear : forallb linear all_programs = true.
Proof. vm_compute. reflexivity. Qed.

(* the initial state: four empty pools, nothing handed out, calls not started *)
Definition init (progs : list (list instr)) : state :=
  mkS [[]; []; []; []] [] 0 (map (fun p => mkT p None None None) progs).

Lemma init_inv : forall progs, inv (init progs).
Proof.
  intros progs a. unfold init, refs. cbn [pools owned threads concat app].
  assert (H : flat_map regs_of (map (fun p => mkT p None None None) progs) = []).
  { induction progs; [reflexivity|]. cbn. assumption. }
  rewrite H. cbn. split; [lia|reflexivity].
Qed.

Lemma init_linear : forall progs, Forall (fun p => In p all_programs) progs -> all_linear (init progs).
Proof.
  intros progs H t Ht. unfold init in Ht. cbn [threads] in Ht. apply in_map_iff in Ht. destruct Ht as [p [<- Hp]].
  cbn [code]. rewrite Forall_forall in H. specialize (H p Hp).
  pose proof api_programs_linear as L. rewrite forallb_forall in L. apply L, H.
Qed.

(* owned_forever for the APIs: any number of concurrent calls, any interleaving, any pool behaviour *)
Theorem api_owned_forever : forall progs sched, Forall (fun p => In p all_programs) progs ->
  let '(sf, tr) := run (init progs) sched in
  inv sf /\ Forall (fun e => match e with
                           | (LWrite a, ow, pooled) => ~ In a ow /\ ~ In a pooled
                           | _ => True end) tr.
Proof. intros progs sched H. apply owned_forever; [apply init_inv|apply init_linear, H]. Qed.

(* ---- the model discriminates: an Encode that returns the pooled buffer itself (no copy) lets the next call write into
   memory the first caller owns *)
Definition Encode_nocopy : list instr :=
  [Move (FromPoolOrFresh P_ENC) (ToReg RB); Wr RB; Alias RR RB; Move (FromReg RB) (ToPool P_ENC); Move (FromReg RR) ToOwned].

Definition violates (tr : list (label * list aid * list aid)) : bool :=
  existsb (fun e => match e with (LWrite a, ow, _) => existsb (Nat.eqb a) ow | _ => false end) tr.

Theorem encode_nocopy_refuted :
  exists sched, violates (snd (run (init [Encode_nocopy; Encode_copy false false false]) sched)) = true.
Proof.
  (* call 0 runs to completion (pool gives nothing -> fresh array 0, handed over AND pooled); call 1 gets array 0 from the pool and writes it *)
  exists [(0, None); (0, None); (0, None); (0, None); (0, None); (1, Some 0); (1, None)].
  vm_compute. reflexivity.
Qed.

(* ast MarshalJSON with freeBuffer BEFORE the copy: another call can take the buffer and overwrite it while it is still being copied from *)
Definition AstMarshal_free_before_copy : list instr :=
  [Move (FromPoolOrFresh P_AST) (ToReg RB); Wr RB; Alias RD RB; Move (FromReg RD) (ToPool P_AST);
   Move FromFresh (ToReg RR); Rd RB; Wr RR; Move (FromReg RB) ToNowhere; Move (FromReg RR) ToOwned].

Definition read_of_pooled (tr : list (label * list aid * list aid)) : bool :=
  existsb (fun e => match e with (LRead a, _, pooled) => existsb (Nat.eqb a) pooled | _ => false end) tr.

Theorem ast_free_before_copy_refuted :
  exists sched, read_of_pooled (snd (run (init [AstMarshal_free_before_copy]) sched)) = true.
Proof. exists [(0, None); (0, None); (0, None); (0, None); (0, None); (0, None)]. vm_compute. reflexivity. Qed.

(* sanity: the transcribed Encode really reaches the hand-over, with the result in no pool *)
Example encode_copy_runs :
  let '(sf, tr) := run (init [Encode_copy false true false]) (repeat (0, None) 20) in
  owned sf = [2] /\ pools sf = [[1; 0]; []; []; []] /\ violates tr = false.
Proof. vm_compute. repeat split; reflexivity. Qed.
