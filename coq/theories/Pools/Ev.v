(* C06: buffer events of the encoder's x86 emitters (Gen/CheckSize.v is a list of these, regenerated from
   internal/encoder/x86/assembler_regabi_amd64.go) and the accounting that decides whether every store lies inside the
   space reserved by the last check_size. *)
From Coq Require Import ZArith String List Bool Lia.
Import ListNotations.
Open Scope Z_scope.

Inductive ev :=
| Check (k : Z)            (* check_size(k): at least k bytes free behind RL *)
| CheckSym (s : string)    (* check_size(len(e)) *)
| CheckR (k : Z)           (* check_size_r(reg, d): reg + d bytes; k = d + proven lower bound of reg *)
| Store (off w : Z)        (* MOVx imm, off(RP)(RL): w bytes at RL + off *)
| Adv (n : Z)              (* ADDQ $n, RL *)
| AdvDyn                   (* RL advanced / reloaded by a run-time amount *)
| DynWrite                 (* a callee writes the run-time part of the last check_size_r reservation (memmove, b64encode) *)
| Text (n : Z)             (* add_text of an n-byte literal: stores [0,n) and advances n *)
| TextSym (s : string)     (* add_text(e) *)
| IntStore (nd bits : Z) (signed : bool)   (* store_int: check_size(nd); i64toa/u64toa of a `bits`-bit integer *)
| FloatStore (bits : Z)    (* f64toa / f32toa at RL *)
| NativeBounded            (* native quote: writes at most dn = RC - RL bytes (its contract; see quote_loop_in_bounds) *)
| Label (l : string) | Jmp (l : string) | CJmp (l : string)
| Reset.

Record st := mkSt { r : Z; a : Z; dynW : bool; dynA : bool; sym : option string; dead : bool }.
Definition st0 : st := mkSt 0 0 false false None false.

Definition meet (x y : st) : st :=
  mkSt (Z.min (r x) (r y)) (Z.max (a x) (a y)) (dynW x && dynW y) (dynA x && dynA y)
       (match sym x, sym y with Some s1, Some s2 => if String.eqb s1 s2 then Some s1 else None | _, _ => None end) false.

Fixpoint lookup (l : string) (m : list (string * st)) : option st :=
  match m with
  | [] => None
  | (k, v) :: t => if String.eqb k l then Some v else lookup l t
  end.

Definition record (l : string) (s : st) (m : list (string * st)) : list (string * st) :=
  match lookup l m with
  | Some v => (l, meet v s) :: m
  | None => (l, s) :: m
  end.

(* longest decimal rendering: sign + digits *)
Definition int_fits (nd bits : Z) (signed : bool) : bool :=
  if signed then (2 ^ (bits - 1) <? 10 ^ (nd - 1)) && (1 <=? nd - 1) else (2 ^ bits <=? 10 ^ nd).

(* shortest round-trip renderings: "-2.2250738585072014e-308" (24), "-1.17549435e-38" (15) *)
Definition float_maxlen (bits : Z) : Z := if bits =? 64 then 24 else 15.

(* one event: new state, label map, ok? *)
Definition step (s : st) (m : list (string * st)) (e : ev) : st * list (string * st) * bool :=
  if dead s then
    match e with
    | Label l => (match lookup l m with Some v => v | None => st0 end, m, true)
    | _ => (s, m, true)
    end
  else
  match e with
  | Check k => (mkSt k 0 false false None false, m, true)
  | CheckSym x => (mkSt 0 0 false false (Some x) false, m, true)
  | CheckR k => (mkSt k 0 true true None false, m, true)
  | Store off w => (s, m, (0 <=? off) && (0 <? w) && (a s + off + w <=? r s))
  | Adv n => (mkSt (r s) (a s + n) (dynW s) (dynA s) (sym s) false, m, (0 <=? n) && (a s + n <=? r s))
  | Text n => (mkSt (r s) (a s + n) (dynW s) (dynA s) (sym s) false, m, (0 <=? n) && (a s + n <=? r s))
  | TextSym x => (st0, m, match sym s with Some y => String.eqb x y && (a s =? 0) | None => false end)
  | DynWrite => (mkSt (r s) (a s) false (dynA s) (sym s) false, m, dynW s)
  | AdvDyn => if dynA s then (mkSt (r s) (a s) (dynW s) false (sym s) false, m, true) else (st0, m, true)
  | IntStore nd bits sg => (st0, m, int_fits nd bits sg)
  | FloatStore bits => (st0, m, a s + float_maxlen bits <=? r s)
  | NativeBounded => (st0, m, true)
  | Reset => (st0, m, true)
  | CJmp l => (s, record l s m, true)
  | Jmp l => (mkSt (r s) (a s) (dynW s) (dynA s) (sym s) true, record l s m, true)
  | Label l => (match lookup l m with Some v => meet v s | None => st0 end, m, true)
  end.

Fixpoint run_path (s : st) (m : list (string * st)) (p : list ev) : bool :=
  match p with
  | [] => true
  | e :: t => let '(s', m', ok) := step s m e in ok && run_path s' m' t
  end.

Definition path_ok (p : list ev) : bool := run_path st0 [] p.
Definition emitter_ok (e : string * list (list ev)) : bool := forallb path_ok (snd e).

(* what int_fits buys: every value of the type prints in at most nd characters *)
Lemma int_fits_signed : forall nd bits, int_fits nd bits true = true ->
  forall v, - 2 ^ (bits - 1) <= v < 2 ^ (bits - 1) -> Z.abs v < 10 ^ (nd - 1) \/ (v = - 2 ^ (bits - 1) /\ 2 ^ (bits - 1) < 10 ^ (nd - 1)).
Proof.
  intros nd bits H v Hv. unfold int_fits in H. apply andb_true_iff in H. destruct H as [H _]. apply Z.ltb_lt in H.
  left. lia.
Qed.

Lemma int_fits_unsigned : forall nd bits, int_fits nd bits false = true ->
  forall v, 0 <= v < 2 ^ bits -> v < 10 ^ nd.
Proof. intros nd bits H v Hv. unfold int_fits in H. apply Z.leb_le in H. lia. Qed.
