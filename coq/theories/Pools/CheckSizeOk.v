(* C06: in every `_asm_OP_*` emitter of the encoder's x86 assembler, every constant store to the output buffer and every
   constant advance of the output cursor lies inside the space reserved by the preceding check_size / check_size_r;
   integer printers get at least as many bytes as the longest rendering of their type.
   Gen/CheckSize.v is regenerated from internal/encoder/x86/assembler_regabi_amd64.go on every run. *)
From Coq Require Import ZArith String List Bool Lia.
From SV.Pools Require Import Ev.
From SV.Gen Require Import CheckSize.
Import ListNotations.
Open Scope Z_scope.

Theorem check_size_covers : forallb emitter_ok emitters = true.
Proof. vm_compute. reflexivity. Qed.

(* the sweep is not empty: all 52 emitters, 77 generator paths *)
Theorem check_size_census : 52 <= n_emitters /\ Z.of_nat (length emitters) = n_emitters /\ n_emitters <= n_paths.
Proof. vm_compute. repeat split; discriminate. Qed.

(* the accounting discriminates: a constant lowered by one, or one more store, is rejected *)
Example lowered_constant_rejected :
  path_ok [Check 4; Store 0 4; Store 4 1; Adv 5] = false /\ path_ok [Check 5; Store 0 4; Store 4 1; Adv 5] = true /\
  path_ok [Check 2; Text 2; Store 0 1] = false /\ path_ok [IntStore 19 64 true] = false /\ path_ok [IntStore 20 64 true] = true /\
  path_ok [Check 4; Label "x"; Store 0 4] = false /\ path_ok [Check 32; CJmp "l"; Check 4; Jmp "e"; Label "l"; FloatStore 64] = true.
Proof. vm_compute. repeat split; reflexivity. Qed.

(* what an accepted IntStore means: every value of the type needs at most nd characters *)
Theorem int_store_fits_signed : forall nd bits, int_fits nd bits true = true ->
  forall v, - 2 ^ (bits - 1) <= v < 2 ^ (bits - 1) -> Z.abs v <= 2 ^ (bits - 1) /\ 2 ^ (bits - 1) < 10 ^ (nd - 1).
Proof.
  intros nd bits H v Hv. unfold int_fits in H. apply andb_true_iff in H. destruct H as [H _]. apply Z.ltb_lt in H. lia.
Qed.

Theorem int_store_fits_unsigned : forall nd bits, int_fits nd bits false = true ->
  forall v, 0 <= v < 2 ^ bits -> v < 10 ^ nd.
Proof. exact int_fits_unsigned. Qed.
