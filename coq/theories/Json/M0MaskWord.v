(* m0_mask on machine words (N, width w <= 64, w even) has exactly the bits of the ripple reading `trick` of
   M0MaskList.v; with m0_mask_bits_spec this gives m0_mask_spec for the shipped widths 32 and 64. *)
From Coq Require Import List NArith Bool Arith Lia.
From SV.Json Require Import M0MaskList BitTrick.
Import ListNotations.
Open Scope N_scope.

Definition tb (x : N) (i : nat) : bool := N.testbit x (N.of_nat i).
Definition bits (w : nat) (x : N) : list bool := map (tb x) (seq 0 w).

Lemma nth_bits : forall w x i d, (i < w)%nat -> nth i (bits w x) d = tb x i.
Proof.
  intros w x i d Hi. unfold bits. rewrite (nth_indep _ d (tb x 0%nat)) by (rewrite map_length, seq_length; lia).
  rewrite map_nth, seq_nth by lia. reflexivity.
Qed.

(* ---- constants -------------------------------------------------------------------------------------- *)

Lemma odd_const : forall i, (i < 64)%nat -> tb 0xaaaaaaaaaaaaaaaa i = Nat.odd i.
Proof.
  assert (H : forallb (fun i => Bool.eqb (tb 0xaaaaaaaaaaaaaaaa i) (Nat.odd i)) (seq 0 64) = true) by (vm_compute; reflexivity).
  intros i Hi. rewrite forallb_forall in H. apply Bool.eqb_prop. apply H. apply in_seq. lia.
Qed.

Lemma even_const : forall i, (i < 64)%nat -> tb 0x5555555555555555 i = Nat.even i.
Proof.
  assert (H : forallb (fun i => Bool.eqb (tb 0x5555555555555555 i) (Nat.even i)) (seq 0 64) = true) by (vm_compute; reflexivity).
  intros i Hi. rewrite forallb_forall in H. apply Bool.eqb_prop. apply H. apply in_seq. lia.
Qed.

Lemma wmask_ones : forall w, wmask w = N.ones w.
Proof. intros w. unfold wmask. rewrite N.ones_equiv, N.sub_1_r. reflexivity. Qed.

Lemma tb_wmask : forall w i, tb (wmask (N.of_nat w)) i = Nat.ltb i w.
Proof.
  intros w i. unfold tb. rewrite wmask_ones. destruct (Nat.ltb_spec i w).
  - apply N.ones_spec_low. lia.
  - apply N.ones_spec_high. lia.
Qed.

Lemma tb_b2n : forall b i, tb (N.b2n b) i = match i with O => b | S _ => false end.
Proof.
  intros b [|i]; unfold tb.
  - apply N.b2n_bit0.
  - destruct b; cbn [N.b2n]; [|apply N.bits_0].
    rewrite Nat2N.inj_succ. change 1 with (2 ^ 0). rewrite N.pow2_bits_false; [reflexivity|lia].
Qed.

Lemma tb_shiftl1 : forall x i, tb (N.shiftl x 1) i = match i with O => false | S j => tb x j end.
Proof.
  intros x [|j]; unfold tb.
  - apply N.shiftl_spec_low. lia.
  - rewrite N.shiftl_spec_high by lia. f_equal. lia.
Qed.

Lemma tb_high : forall w x i, x < 2 ^ N.of_nat w -> (w <= i)%nat -> tb x i = false.
Proof.
  intros w x i Hx Hi. unfold tb. rewrite <- (N.mod_small x (2 ^ N.of_nat w)) by auto.
  apply N.mod_pow2_bits_high. lia.
Qed.

(* ---- the word-level expressions, bit by bit ------------------------------------------------------------- *)

Section Word.
Variable w : nat.
Hypothesis w64 : (w <= 64)%nat.
Variables (m1 : N) (crb : bool).
Hypothesis m1_small : m1 < 2 ^ N.of_nat w.

Let W := N.of_nat w.
Let cr := N.b2n crb.
Let m1' := N.ldiff m1 cr.
Let fe := N.land (N.lor (N.shiftl m1' 1) cr) (wmask W).
Let os := N.land (N.ldiff m1' fe) (ODD W).
Let sum := os + m1'.
Let es := N.land (N.shiftl (N.land sum (wmask W)) 1) (wmask W).
Let escaped := N.land fe (N.lxor es (EVEN W)).

Lemma m0_mask_unfold : m0_mask W m1 cr = (escaped, N.shiftr sum W).
Proof. reflexivity. Qed.

Lemma tb_m1' : forall i, tb m1' i = match i with O => tb m1 0 && negb crb | S _ => tb m1 i end.
Proof.
  intros i. unfold m1', tb. rewrite N.ldiff_spec. fold (tb m1 i). fold (tb cr i). unfold cr. rewrite tb_b2n.
  destruct i; [reflexivity|]. apply andb_true_r.
Qed.

Lemma m1'_high : forall i, (w <= i)%nat -> tb m1' i = false.
Proof.
  intros i Hi. rewrite tb_m1'. destruct i; rewrite (tb_high w m1) by (auto; lia); reflexivity.
Qed.

Lemma tb_fe : forall i, (i < w)%nat -> tb fe i = match i with O => crb | S j => tb m1' j end.
Proof.
  intros i Hi. unfold fe. unfold tb at 1. rewrite N.land_spec, N.lor_spec.
  fold (tb (N.shiftl m1' 1) i). fold (tb cr i). fold (tb (wmask W) i). unfold W. rewrite tb_wmask, tb_shiftl1.
  unfold cr. rewrite tb_b2n. destruct (Nat.ltb_spec i w); [|lia]. rewrite andb_true_r.
  destruct i; [reflexivity|apply orb_false_r].
Qed.

Lemma tb_os : forall i, (i < w)%nat -> tb os i = tb m1' i && negb (tb fe i) && negb (Nat.even i).
Proof.
  intros i Hi. unfold os, ODD. unfold tb at 1. rewrite !N.land_spec, N.ldiff_spec.
  fold (tb m1' i). fold (tb fe i). fold (tb 0xaaaaaaaaaaaaaaaa i). fold (tb (wmask W) i).
  unfold W. rewrite tb_wmask, odd_const by lia. destruct (Nat.ltb_spec i w); [|lia].
  rewrite andb_true_r, <- Nat.negb_even. reflexivity.
Qed.

Lemma os_high : forall i, (w <= i)%nat -> tb os i = false.
Proof.
  intros i Hi. unfold os, ODD. unfold tb. rewrite !N.land_spec. fold (tb (wmask W) i). unfold W. rewrite tb_wmask.
  destruct (Nat.ltb_spec i w); [lia|]. rewrite !andb_false_r. reflexivity.
Qed.

(* the carries of os + m1' *)
Lemma carries : exists cb, tb cb 0 = false /\
  (forall i, tb sum i = xorb (xorb (tb os i) (tb m1' i)) (tb cb i)) /\
  (forall i, tb cb (S i) = (tb os i && tb m1' i) || (tb os i && tb cb i) || (tb m1' i && tb cb i)).
Proof.
  destruct (N.add_carry_bits os m1' false) as (cb & H1 & H2 & H3).
  exists cb. split; [exact H3|]. split.
  - intros i. unfold sum. cbn [N.b2n] in H1. rewrite N.add_0_r in H1. rewrite H1. unfold tb. rewrite !N.lxor_spec. reflexivity.
  - intros i. unfold tb. rewrite Nat2N.inj_succ. rewrite <- N.div2_bits, H2.
    rewrite N.lor_spec, !N.land_spec, N.lor_spec.
    destruct (N.testbit os (N.of_nat i)), (N.testbit m1' (N.of_nat i)), (N.testbit cb (N.of_nat i)); reflexivity.
Qed.

Lemma tb_es : forall i, (i < w)%nat -> tb es i = match i with O => false | S j => tb sum j end.
Proof.
  intros i Hi. unfold es. unfold tb at 1. rewrite N.land_spec.
  fold (tb (N.shiftl (N.land sum (wmask W)) 1) i). fold (tb (wmask W) i). unfold W. rewrite tb_wmask, tb_shiftl1.
  destruct (Nat.ltb_spec i w); [|lia]. rewrite andb_true_r. destruct i as [|j]; [reflexivity|].
  unfold tb. rewrite N.land_spec. fold (tb (wmask (N.of_nat w)) j). rewrite tb_wmask.
  destruct (Nat.ltb_spec j w); [|lia]. apply andb_true_r.
Qed.

Lemma tb_escaped : forall i, (i < w)%nat -> tb escaped i = tb fe i && xorb (tb es i) (Nat.even i).
Proof.
  intros i Hi. unfold escaped, EVEN. unfold tb at 1. rewrite N.land_spec, N.lxor_spec, N.land_spec.
  fold (tb fe i). fold (tb es i). fold (tb 0x5555555555555555 i). fold (tb (wmask W) i).
  unfold W. rewrite tb_wmask, even_const by lia. destruct (Nat.ltb_spec i w); [|lia]. rewrite andb_true_r. reflexivity.
Qed.

(* the ripple reading, started at bit k *)
Lemma trick_from : forall cb,
  tb cb 0 = false ->
  (forall i, tb sum i = xorb (xorb (tb os i) (tb m1' i)) (tb cb i)) ->
  (forall i, tb cb (S i) = (tb os i && tb m1' i) || (tb os i && tb cb i) || (tb m1' i && tb cb i)) ->
  forall n k, (k + n = w)%nat ->
  trick (Nat.even k) (tb fe k) (tb cb k) (tb es k) (map (tb m1') (seq k n)) = (map (tb escaped) (seq k n), tb cb w).
Proof.
  intros cb C0 CS CC. induction n as [|n IH]; intros k Hk.
  - cbn. f_equal. f_equal. lia.
  - cbn [seq map trick].
    assert (Hkw : (k < w)%nat) by lia.
    rewrite <- (tb_os k Hkw), <- (CS k), <- (CC k), <- (tb_escaped k Hkw).
    destruct n as [|n'].
    + cbn [seq map trick]. f_equal. f_equal. lia.
    + specialize (IH (S k) ltac:(lia)).
      rewrite Nat.even_succ, <- Nat.negb_even in IH.
      rewrite (tb_fe (S k)) in IH by lia. rewrite (tb_es (S k)) in IH by lia.
      rewrite IH. reflexivity.
Qed.

Lemma bits_m1' : bits w m1' = match bits w m1 with [] => [] | b0 :: r => (b0 && negb crb) :: r end.
Proof.
  unfold bits. destruct w as [|n]; [reflexivity|]. cbn [seq map]. rewrite tb_m1'. f_equal.
  apply map_ext_in. intros i Hi. apply in_seq in Hi. rewrite tb_m1'. destruct i; [lia|reflexivity].
Qed.

(* m0_mask on words = m0_mask_bits on their bits *)
Theorem m0_mask_word_bits : (0 < w)%nat ->
  bits w escaped = fst (m0_mask_bits crb (bits w m1)) /\ N.shiftr sum W = N.b2n (snd (m0_mask_bits crb (bits w m1))).
Proof.
  intros Hw. destruct carries as (cb & C0 & CS & CC).
  pose proof (trick_from cb C0 CS CC w 0%nat eq_refl) as T.
  rewrite (tb_fe 0 Hw), (tb_es 0 Hw), C0 in T. change (Nat.even 0) with true in T.
  fold (bits w m1') in T. fold (bits w escaped) in T. rewrite bits_m1' in T.
  unfold m0_mask_bits. destruct (bits w m1) as [|b0 r] eqn:EB; [unfold bits in EB; destruct w; [lia|discriminate]|].
  rewrite T. cbn [fst snd]. split; [reflexivity|].
  (* the carry out: sum >> W *)
  assert (CH : forall j, tb cb (S (w + j)) = false).
  { intros j. rewrite CC. rewrite os_high by lia. rewrite m1'_high by lia. reflexivity. }
  apply N.bits_inj. intros j. rewrite N.shiftr_spec by lia.
  replace (j + W) with (N.of_nat (N.to_nat j + w)) by (unfold W; lia).
  fold (tb sum (N.to_nat j + w)). rewrite CS, os_high by lia. rewrite m1'_high by lia.
  change (xorb false false) with false. rewrite xorb_false_l. rewrite <- (N2Nat.id j) at 2. fold (tb (N.b2n (tb cb w)) (N.to_nat j)). rewrite tb_b2n.
  destruct (N.to_nat j) as [|j'] eqn:Ej; cbn [Nat.add]; [reflexivity|].
  replace (S (j' + w)) with (S (w + j')) by lia. apply CH.
Qed.
End Word.

(* m0_mask_spec for machine words of every even width w <= 64 - in particular 32 (add32) and 64 (add64):
   the escaped mask agrees with the sequential definition at every position that is not a backslash, and the carry
   out is the pending escape at the end of the block *)
Theorem m0_mask_spec : forall w m1 crb, (0 < w <= 64)%nat -> Nat.even w = true -> m1 < 2 ^ N.of_nat w ->
  let '(escaped, cr') := m0_mask (N.of_nat w) m1 (N.b2n crb) in
  cr' = N.b2n (snd (esc_flags crb (bits w m1))) /\
  forall i, (i < w)%nat -> tb m1 i = false -> tb escaped i = nth i (fst (esc_flags crb (bits w m1))) false.
Proof.
  intros w m1 crb Hw He Hm. rewrite m0_mask_unfold.
  destruct (m0_mask_word_bits w ltac:(lia) m1 crb Hm ltac:(lia)) as [B C].
  assert (L : length (bits w m1) = w) by (unfold bits; rewrite map_length, seq_length; reflexivity).
  destruct (m0_mask_bits_spec crb (bits w m1) ltac:(rewrite L; auto)) as [S1 S2].
  split.
  - rewrite C, S1. reflexivity.
  - intros i Hi Hb. rewrite <- S2.
    + rewrite <- B. rewrite nth_bits by lia. reflexivity.
    + rewrite nth_bits by lia. exact Hb.
Qed.

Corollary m0_mask_spec_64 : forall m1 crb, m1 < 2 ^ 64 ->
  let '(escaped, cr') := m0_mask 64 m1 (N.b2n crb) in
  cr' = N.b2n (snd (esc_flags crb (bits 64 m1))) /\
  forall i, (i < 64)%nat -> tb m1 i = false -> tb escaped i = nth i (fst (esc_flags crb (bits 64 m1))) false.
Proof. intros m1 crb H. apply (m0_mask_spec 64 m1 crb); [lia|reflexivity|exact H]. Qed.

Corollary m0_mask_spec_32 : forall m1 crb, m1 < 2 ^ 32 ->
  let '(escaped, cr') := m0_mask 32 m1 (N.b2n crb) in
  cr' = N.b2n (snd (esc_flags crb (bits 32 m1))) /\
  forall i, (i < 32)%nat -> tb m1 i = false -> tb escaped i = nth i (fst (esc_flags crb (bits 32 m1))) false.
Proof. intros m1 crb H. apply (m0_mask_spec 32 m1 crb); [lia|reflexivity|exact H]. Qed.
