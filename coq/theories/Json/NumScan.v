(* do_skip_number + check_index of native/scanning.h at the level of its scalar loop
   (the 32/16-byte rounds compute the same first indices / duplicate tests block-wise; only the error
   *position* differs, which no caller of the validating FSM uses).

   Argument: the suffix starting at the first digit.  Result: the suffix after the number, None = negative return. *)
From Coq Require Import List NArith Bool Arith Lia.
From SV.Json Require Import Chars.
Import ListNotations.
Open Scope N_scope.

Record nidx := { di : option nat; ei : option nat; si : option nat }.

(* /* remaining bytes, do with scalar code */  while (likely(nb-- > 0)) switch on the next byte ...
   idx = sp - ss before the byte is read; check_sidx(iv): iv == -1 ? iv = sp - ss - 1 : return error *)
Fixpoint num_loop (s : list N) (idx : nat) (st : nidx) : option (nidx * nat * list N) :=
  match s with
  | [] => Some (st, idx, [])
  | c :: r =>
      if is_digit c then num_loop r (S idx) st
      else if c =? 46 then
        match di st with None => num_loop r (S idx) {| di := Some idx; ei := ei st; si := si st |} | Some _ => None end
      else if is_exp c then
        match ei st with None => num_loop r (S idx) {| di := di st; ei := Some idx; si := si st |} | Some _ => None end
      else if is_sign c then
        match si st with None => num_loop r (S idx) {| di := di st; ei := ei st; si := Some idx |} | Some _ => None end
      else Some (st, idx, s)           (* default: sp--; goto check_index; *)
  end.

Definition oeq (o : option nat) (n : nat) : bool := match o with Some k => Nat.eqb k n | None => false end.

(* check_index:   n = sp - ss  *)
Definition check_index (st : nidx) (n : nat) : bool :=
  if oeq (di st) 0 || oeq (si st) 0 || oeq (ei st) 0 then false
  else if oeq (di st) (n - 1) || oeq (si st) (n - 1) || oeq (ei st) (n - 1) then false
  else
    let c3 := (* si > 0 && ei != si - 1 *)
      match si st with
      | Some s => if Nat.ltb 0 s then negb (oeq (ei st) (s - 1)) else false
      | None => false
      end in
    if c3 then false
    else match di st, ei st with
         | Some d, Some e => if Nat.ltb (e - 1) d then false          (* di > ei - 1  (ei >= 1 here) *)
                             else if Nat.eqb d (e - 1) then false     (* di == ei - 1 *)
                             else true
         | _, _ => true
         end.

Definition do_skip_number (s : list N) : option (list N) :=
  match s with
  | [] => None                                             (* if (nb == 0) return -1; *)
  | c :: r =>
      (* /* special case of '0' */ *)
      if (c =? 48) && (match r with [] => true | d :: _ => negb ((d =? 46) || (d =? 101) || (d =? 69)) end)
      then Some r
      else match num_loop s 0 {| di := None; ei := None; si := None |} with
           | None => None
           | Some (st, n, rest) => if check_index st n then Some rest else None
           end
  end.
