(* fast_skip_on_valid: on a structurally valid value the non-validating skippers stop at the end of the value
   (exactly the span the validating FSM accepts); for a number the end may lie inside the blanks that follow it
   (skip_number_fast looks for the next structural byte block-wise), never beyond them. *)
From Coq Require Import List NArith Bool Arith Lia.
From SV.Json Require Import Chars StrScan NumScan Fsm Grammar StrScanProofs NumScanProofs FsmProofs Lang FsmSound FsmComplete Wrappers Fast.
Import ListNotations.
Open Scope N_scope.

(* ---- containers ----------------------------------------------------------------------------------------- *)

Section Brackets.
Variables lc rc : N.
Hypothesis kinds : (lc = 91 /\ rc = 93) \/ (lc = 123 /\ rc = 125).

Definition cf (s : list N) (d : nat) : option (list N) := container_fast lc rc s d false false.

(* a segment the bracket scan passes through without any net effect *)
Definition tr (x : list N) : Prop := forall s d, cf (x ++ s) d = cf s d.

Definition inert (c : N) : Prop := c <> 92 /\ c <> 34 /\ c <> 91 /\ c <> 93 /\ c <> 123 /\ c <> 125.

Lemma inert_step : forall c s d inq, inert c ->
  container_fast lc rc (c :: s) d inq false = container_fast lc rc s d inq false.
Proof.
  intros c s d inq (A & B & C & D & E & F). cbn [container_fast].
  rewrite (proj2 (N.eqb_neq c 92) A), (proj2 (N.eqb_neq c 34) B).
  destruct inq; [reflexivity|].
  assert (c <> lc /\ c <> rc) as [G H] by (destruct kinds as [[-> ->]|[-> ->]]; auto).
  rewrite (proj2 (N.eqb_neq c lc) G), (proj2 (N.eqb_neq c rc) H). reflexivity.
Qed.

Lemma tr_nil : tr [].
Proof. intros s d. reflexivity. Qed.

Lemma tr_app : forall a b, tr a -> tr b -> tr (a ++ b).
Proof. intros a b Ha Hb s d. rewrite <- app_assoc, Ha, Hb. reflexivity. Qed.

Lemma tr_inert : forall c, inert c -> tr [c].
Proof. intros c H s d. cbn [app]. unfold cf. apply inert_step; auto. Qed.

Lemma tr_inert_all : forall x, Forall inert x -> tr x.
Proof.
  induction 1; [apply tr_nil|]. change (x :: l) with ([x] ++ l). apply tr_app; auto. apply tr_inert; auto.
Qed.

Lemma ws_inert : forall c, isspace c = true -> inert c.
Proof.
  intros c H. unfold isspace in H. repeat rewrite orb_true_iff in H. repeat rewrite N.eqb_eq in H.
  unfold inert. lia.
Qed.

Lemma tr_ws : forall w, all_ws w -> tr w.
Proof.
  intros w H. apply tr_inert_all. unfold all_ws in H. rewrite forallb_forall in H.
  apply Forall_forall. intros c Hc. apply ws_inert; auto.
Qed.

Lemma numclass_inert : forall c, numclass c = true -> inert c.
Proof.
  intros c H. destruct (numclass_cases c H) as [Hd|[->|[He|Hs]]].
  - unfold is_digit in Hd. rewrite andb_true_iff in Hd. repeat rewrite N.leb_le in Hd. unfold inert. lia.
  - unfold inert. lia.
  - unfold is_exp in He. rewrite orb_true_iff in He. repeat rewrite N.eqb_eq in He. unfold inert. lia.
  - unfold is_sign in Hs. rewrite orb_true_iff in Hs. repeat rewrite N.eqb_eq in Hs. unfold inert. lia.
Qed.

Lemma digits_numclass : forall d, forallb is_digit d = true -> Forall (fun c => numclass c = true) d.
Proof.
  intros d H. rewrite forallb_forall in H. apply Forall_forall. intros c Hc. unfold numclass. rewrite (H c Hc). reflexivity.
Qed.

Lemma sunsigned_numclass : forall n, sunsigned n -> Forall (fun c => numclass c = true) n.
Proof.
  intros n (i & f & e & -> & Hi & Hf & He).
  apply Forall_app; split; [|apply Forall_app; split].
  - apply digits_numclass. apply sint_digits in Hi. apply Hi.
  - destruct Hf as [->|(d & -> & Hd)]; [constructor|]. constructor; [reflexivity|]. apply digits_numclass, Hd.
  - destruct He as [->|(x & d & Hx & Hd & [->|(g & Hg & ->)])]; [constructor| |].
    + constructor; [unfold numclass; rewrite Hx; destruct (is_digit x), (x =? 46); reflexivity|]. apply digits_numclass, Hd.
    + constructor; [unfold numclass; rewrite Hx; destruct (is_digit x), (x =? 46); reflexivity|].
      constructor; [unfold numclass; rewrite Hg; destruct (is_digit g), (g =? 46), (is_exp g); reflexivity|].
      apply digits_numclass, Hd.
Qed.

Lemma snumber_numclass : forall n, snumber n -> Forall (fun c => numclass c = true) n.
Proof.
  intros n [H|(m & -> & H)]; [apply sunsigned_numclass; auto|].
  constructor; [reflexivity|apply sunsigned_numclass; auto].
Qed.

Lemma tr_number : forall n, snumber n -> tr n.
Proof.
  intros n H. apply tr_inert_all. eapply Forall_impl; [|apply snumber_numclass; eauto].
  intros c Hc. apply numclass_inert; auto.
Qed.

(* inside a string *)
Lemma body_inq : forall b s d, sbody b ->
  container_fast lc rc (b ++ s) d true false = container_fast lc rc s d true false.
Proof.
  induction 1; cbn [app].
  - reflexivity.
  - cbn [container_fast]. rewrite (proj2 (N.eqb_neq c 92) H0), (proj2 (N.eqb_neq c 34) H). auto.
  - cbn [container_fast]. change (92 =? 92) with true. cbv iota. cbn [negb].
    destruct (x =? 92) eqn:E1; [cbn [negb]; auto|].
    destruct (x =? 34) eqn:E2; auto.
Qed.

Lemma tr_string : forall b, sbody b -> tr (34 :: b ++ [34]).
Proof.
  intros b Hb s d. unfold cf. cbn [app container_fast]. change (34 =? 92) with false. change (34 =? 34) with true.
  cbv iota. cbn [negb]. rewrite <- app_assoc. rewrite body_inq by auto.
  cbn [app container_fast]. change (34 =? 92) with false. change (34 =? 34) with true. cbv iota. reflexivity.
Qed.

(* a bracketed segment whose inside is transparent *)
Lemma tr_bracket : forall l r x, ((l = 91 /\ r = 93) \/ (l = 123 /\ r = 125)) -> tr x -> tr (l :: x ++ [r]).
Proof.
  intros l r x K Hx s d. unfold cf.
  assert (L1 : l <> 92 /\ l <> 34 /\ r <> 92 /\ r <> 34) by (destruct K as [[-> ->]|[-> ->]]; lia).
  destruct L1 as (A & B & C & D).
  cbn [app container_fast]. rewrite (proj2 (N.eqb_neq l 92) A), (proj2 (N.eqb_neq l 34) B).
  destruct (N.eq_dec l lc) as [El|El].
  - (* same kind: depth goes up and comes back *)
    assert (Er : r = rc) by (destruct K as [[-> ->]|[-> ->]], kinds as [[? ?]|[? ?]]; subst; congruence).
    rewrite (proj2 (N.eqb_eq l lc) El).
    fold (cf ((x ++ [r]) ++ s) (S d)). rewrite <- app_assoc, Hx. unfold cf. cbn [app container_fast].
    rewrite (proj2 (N.eqb_neq r 92) C), (proj2 (N.eqb_neq r 34) D).
    assert (r <> lc) by (destruct K as [[-> ->]|[-> ->]], kinds as [[? ?]|[? ?]]; subst; lia).
    rewrite (proj2 (N.eqb_neq r lc) H), (proj2 (N.eqb_eq r rc) Er). reflexivity.
  - (* the other kind: both brackets are ignored *)
    assert (l <> rc /\ r <> lc /\ r <> rc) as (F & G & H)
      by (destruct K as [[-> ->]|[-> ->]], kinds as [[? ?]|[? ?]]; subst; lia).
    rewrite (proj2 (N.eqb_neq l lc) El), (proj2 (N.eqb_neq l rc) F).
    fold (cf ((x ++ [r]) ++ s) d). rewrite <- app_assoc, Hx. unfold cf. cbn [app container_fast].
    rewrite (proj2 (N.eqb_neq r 92) C), (proj2 (N.eqb_neq r 34) D), (proj2 (N.eqb_neq r lc) G), (proj2 (N.eqb_neq r rc) H).
    reflexivity.
Qed.

Lemma tr_cons_inert : forall c x, inert c -> tr x -> tr (c :: x).
Proof. intros c x Hc Hx. change (c :: x) with ([c] ++ x). apply tr_app; auto. apply tr_inert; auto. Qed.

Lemma inert_comma : inert 44. Proof. unfold inert. lia. Qed.
Lemma inert_colon : inert 58. Proof. unfold inert. lia. Qed.

(* every value is transparent; the tails are transparent up to their closing bracket *)
Lemma tr_all :
  (forall h v, sval h v -> tr v) /\
  (forall h t, atail h t -> exists t0, t = t0 ++ [93] /\ tr t0) /\
  (forall h t, otail h t -> exists t0, t = t0 ++ [125] /\ tr t0).
Proof.
  apply sval_mutind; intros;
    repeat match goal with HE : exists t0, _ = _ /\ _ |- _ => destruct HE as (t0 & -> & Ht0) end.
  - apply tr_inert_all. repeat constructor; unfold inert; lia.
  - apply tr_inert_all. repeat constructor; unfold inert; lia.
  - apply tr_inert_all. repeat constructor; unfold inert; lia.
  - apply tr_number; auto.
  - apply tr_string; auto.
  - apply tr_bracket; auto. apply tr_ws; auto.
  - rewrite !app_assoc. apply tr_bracket; auto.
    repeat apply tr_app; auto. apply tr_ws; auto.
  - apply tr_bracket; auto. apply tr_ws; auto.
  - replace (w ++ 34 :: b ++ 34 :: w1 ++ 58 :: w2 ++ v ++ t0 ++ [125])
      with ((w ++ (34 :: b ++ [34]) ++ w1 ++ 58 :: w2 ++ v ++ t0) ++ [125])
      by (repeat (rewrite <- !app_assoc; cbn [app]); reflexivity).
    apply tr_bracket; auto.
    apply tr_app; [apply tr_ws; auto|]. apply tr_app; [apply tr_string; auto|].
    apply tr_app; [apply tr_ws; auto|]. apply tr_cons_inert; [apply inert_colon|].
    apply tr_app; [apply tr_ws; auto|]. apply tr_app; auto.
  - exists w. split; [reflexivity|apply tr_ws; auto].
  - exists (w ++ 44 :: w' ++ v ++ t0).
    split; [repeat (rewrite <- !app_assoc; cbn [app]); reflexivity|].
    apply tr_app; [apply tr_ws; auto|]. apply tr_cons_inert; [apply inert_comma|].
    apply tr_app; [apply tr_ws; auto|]. apply tr_app; auto.
  - exists w. split; [reflexivity|apply tr_ws; auto].
  - exists (w ++ 44 :: w0 ++ (34 :: b ++ [34]) ++ w1 ++ 58 :: w2 ++ v ++ t0).
    split; [repeat (rewrite <- !app_assoc; cbn [app]); reflexivity|].
    apply tr_app; [apply tr_ws; auto|]. apply tr_cons_inert; [apply inert_comma|].
    apply tr_app; [apply tr_ws; auto|]. apply tr_app; [apply tr_string; auto|].
    apply tr_app; [apply tr_ws; auto|]. apply tr_cons_inert; [apply inert_colon|].
    apply tr_app; [apply tr_ws; auto|]. apply tr_app; auto.
Qed.

End Brackets.

(* ---- numbers ---------------------------------------------------------------------------------------------- *)

Definition plain (c : N) : bool := negb (is_struct c || isspace c).

Lemma numclass_plain : forall c, numclass c = true -> plain c = true.
Proof.
  intros c H. pose proof (numclass_inert 91 93 (or_introl (conj eq_refl eq_refl)) c H) as (A & B & C & D & E & F).
  unfold plain, is_struct.
  destruct (numclass_cases c H) as [Hd|[->|[He|Hs]]]; try reflexivity.
  - unfold is_digit in Hd. rewrite andb_true_iff in Hd. repeat rewrite N.leb_le in Hd.
    unfold isspace. rewrite negb_true_iff. repeat rewrite orb_false_iff. repeat split; apply N.eqb_neq; lia.
  - unfold is_exp in He. rewrite orb_true_iff in He. repeat rewrite N.eqb_eq in He. destruct He as [-> | ->]; reflexivity.
  - unfold is_sign in Hs. rewrite orb_true_iff in Hs. repeat rewrite N.eqb_eq in Hs. destruct Hs as [-> | ->]; reflexivity.
Qed.

Lemma ws_not_struct : forall c, isspace c = true -> is_struct c = false.
Proof.
  intros c H. unfold isspace in H. repeat rewrite orb_true_iff in H. repeat rewrite N.eqb_eq in H.
  destruct H as [[[->| ->]| ->]| ->]; reflexivity.
Qed.

(* what may follow a value in a valid document: blanks, then the end or a structural byte *)
Definition valid_follow (r : list N) : Prop :=
  exists ws r2, r = ws ++ r2 /\ all_ws ws /\ (r2 = [] \/ is_struct (hd0 r2) = true).

Lemma tail_plain : forall x s, forallb plain x = true -> (s = [] \/ (is_struct (hd0 s) || isspace (hd0 s)) = true) ->
  number_fast_tail (x ++ s) = s.
Proof.
  induction x as [|c x IH]; intros s Hx Hs; cbn [app].
  - destruct Hs as [->|Hs]; [reflexivity|]. destruct s as [|c s]; [reflexivity|]. cbn [hd0] in Hs. cbn [number_fast_tail].
    rewrite Hs. reflexivity.
  - cbn [forallb] in Hx. apply andb_true_iff in Hx. destruct Hx as [Hc Hx]. cbn [number_fast_tail].
    unfold plain in Hc. apply negb_true_iff in Hc. rewrite Hc. auto.
Qed.

Lemma find_struct_none_app : forall a s, forallb (fun c => negb (is_struct c)) a = true ->
  find_struct (a ++ s) = match find_struct s with Some (x, y) => Some (a ++ x, y) | None => None end.
Proof.
  induction a as [|c a IH]; intros s H; cbn [app].
  - destruct (find_struct s) as [[x y]|]; reflexivity.
  - cbn [forallb] in H. apply andb_true_iff in H. destruct H as [Hc Ha]. apply negb_true_iff in Hc.
    cbn [find_struct]. rewrite Hc, IH by auto. destruct (find_struct s) as [[x y]|]; reflexivity.
Qed.

Lemma span_ws_app : forall w s, all_ws w -> isspace (hd0 s) = false -> fst (span_ws (w ++ s)) = w.
Proof.
  induction w as [|c w IH]; intros s Hw Hs; cbn [app].
  - destruct s as [|c s]; [reflexivity|]. cbn [hd0] in Hs. cbn [span_ws]. rewrite Hs. reflexivity.
  - apply all_ws_cons in Hw. destruct Hw as [Hc Hw]. cbn [span_ws]. rewrite Hc.
    specialize (IH s Hw Hs). destruct (span_ws (w ++ s)). cbn [fst] in *. subst. reflexivity.
Qed.

Lemma all_ws_rev : forall w, all_ws w -> all_ws (rev w).
Proof.
  intros w H. unfold all_ws in *. rewrite forallb_forall in *. intros c Hc. apply H. apply in_rev. auto.
Qed.

Lemma find_struct_free : forall blk, forallb (fun c => negb (is_struct c)) blk = true -> find_struct blk = None.
Proof.
  induction blk as [|c blk IH]; intros H; [reflexivity|]. cbn [forallb] in H. apply andb_true_iff in H.
  destruct H as [Hc Hb]. apply negb_true_iff in Hc. cbn [find_struct]. rewrite Hc, IH by auto. reflexivity.
Qed.

Definition follow_struct (tl : list N) : Prop := tl = [] \/ is_struct (hd0 tl) = true.

Lemma tail_generic : forall a tl, forallb (fun c => negb (is_struct c)) a = true -> follow_struct tl ->
  exists a1 a2, a = a1 ++ a2 /\ (a2 = [] \/ isspace (hd0 a2) = true) /\ number_fast_tail (a ++ tl) = a2 ++ tl.
Proof.
  induction a as [|c a IH]; intros tl Ha Ht; cbn [app].
  - exists [], []. split; [reflexivity|]. split; [auto|]. destruct Ht as [->|Ht]; [reflexivity|].
    destruct tl as [|c tl]; [reflexivity|]. cbn [hd0] in Ht. cbn [number_fast_tail app]. rewrite Ht. reflexivity.
  - cbn [forallb] in Ha. apply andb_true_iff in Ha. destruct Ha as [Hc Ha]. apply negb_true_iff in Hc.
    cbn [number_fast_tail]. rewrite Hc. cbn [orb]. destruct (isspace c) eqn:Es.
    + exists [], (c :: a). split; [reflexivity|]. split; [right; auto|reflexivity].
    + destruct (IH tl Ha Ht) as (a1 & a2 & -> & H2 & H3). exists (c :: a1), a2. split; [reflexivity|]. auto.
Qed.

(* the 16-byte rounds of skip_number_fast on `a ++ tl` (a free of structural bytes, tl empty or starting with one):
   either the structural byte was found in a vector round and the blanks before it were given back (shape V),
   or the scalar tail stopped at the first blank / structural byte of what was left for it (shape T) *)
Lemma rounds_generic : forall fuel rpre a tl,
  forallb (fun c => negb (is_struct c)) a = true -> follow_struct tl ->
  (number_fast_rounds fuel rpre (a ++ tl) = rev (fst (span_ws (rev a ++ rpre))) ++ tl) \/
  (exists a1 a2, a = a1 ++ a2 /\ (a2 = [] \/ isspace (hd0 a2) = true) /\ number_fast_rounds fuel rpre (a ++ tl) = a2 ++ tl).
Proof.
  induction fuel as [|f IH]; intros rpre a tl Ha Ht; cbn [number_fast_rounds].
  - right. apply tail_generic; auto.
  - destruct (split_at 16 (a ++ tl)) as [[blk rest]|] eqn:E; [|right; apply tail_generic; auto].
    apply split_at_spec in E. destruct E as [E Hb].
    symmetry in E. apply app_eq_app in E. destruct E as [l [[E1 E2]|[E1 E2]]].
    + (* the block reaches into tl *)
      destruct l as [|c l].
      * rewrite app_nil_r in E1. subst blk. cbn [app] in E2. subst rest.
        rewrite find_struct_free by auto.
        destruct (IH (rev a ++ rpre) [] tl eq_refl Ht) as [V|(a1 & a2 & Ea & H2 & H3)].
        -- left. cbn [app] in V. rewrite V. cbn [rev app]. reflexivity.
        -- right. destruct a1; [|discriminate]. cbn [app] in Ea. subst a2. exists a, []. rewrite app_nil_r.
           split; [reflexivity|]. split; [auto|]. cbn [app] in H3. rewrite H3. reflexivity.
      * left. subst blk tl. destruct Ht as [Ht|Ht]; [discriminate|]. cbn [app hd0] in Ht.
        rewrite find_struct_none_app by auto. cbn [find_struct]. rewrite Ht. rewrite app_nil_r.
        destruct (span_ws (rev a ++ rpre)) as [sp rem]. cbn [fst app]. reflexivity.
    + (* the block lies inside a *)
      subst a rest. rewrite forallb_app in Ha. apply andb_true_iff in Ha. destruct Ha as [Hb1 Hl].
      rewrite find_struct_free by auto.
      destruct (IH (rev blk ++ rpre) l tl Hl Ht) as [V|(a1 & a2 & -> & H2 & H3)].
      * left. rewrite V. rewrite rev_app_distr, <- app_assoc. reflexivity.
      * right. exists (blk ++ a1), a2. rewrite <- app_assoc. auto.
Qed.

Lemma span_ws_rev : forall ws s, all_ws ws -> isspace (hd0 s) = false -> rev (fst (span_ws (rev ws ++ s))) = ws.
Proof. intros ws s Hw Hs. rewrite span_ws_app; auto; [apply rev_involutive|apply all_ws_rev; auto]. Qed.

Lemma suffix_in_ws : forall (x ws a1 a2 : list N), forallb plain x = true -> a1 ++ a2 = x ++ ws ->
  (a2 = [] \/ isspace (hd0 a2) = true) -> exists ws1, ws = ws1 ++ a2.
Proof.
  induction x as [|c x IH]; intros ws a1 a2 Hx E Ha; cbn [app] in E.
  - exists a1. auto.
  - cbn [forallb] in Hx. apply andb_true_iff in Hx. destruct Hx as [Hc Hx].
    destruct a1 as [|d a1].
    + cbn [app] in E. subst a2. destruct Ha as [Ha|Ha]; [discriminate|]. cbn [hd0] in Ha.
      unfold plain in Hc. rewrite Ha, orb_true_r in Hc. discriminate.
    + cbn [app] in E. inversion E; subst. eauto.
Qed.

Lemma last_nonspace : forall n, n <> [] -> forallb plain n = true -> isspace (hd0 (rev n)) = false.
Proof.
  intros n Hn Hp. destruct (rev n) as [|c r] eqn:E.
  - apply (f_equal (@rev N)) in E. rewrite rev_involutive in E. cbn in E. congruence.
  - cbn [hd0]. assert (In c n) by (apply in_rev; rewrite E; left; reflexivity).
    rewrite forallb_forall in Hp. specialize (Hp c H). unfold plain in Hp. apply negb_true_iff in Hp.
    apply orb_false_iff in Hp. tauto.
Qed.

(* skip_number_fast on a number followed by blanks and then the end / a structural byte: stops inside the blanks *)
Lemma skip_number_fast_spec : forall fuel ch n' ws r2,
  forallb plain (ch :: n') = true -> all_ws ws -> follow_struct r2 ->
  exists ws1 ws2, ws = ws1 ++ ws2 /\ skip_number_fast fuel ch (n' ++ ws ++ r2) = ws2 ++ r2.
Proof.
  intros fuel ch n' ws r2 Hp Hw Hr. unfold skip_number_fast.
  assert (Hfree : forallb (fun c => negb (is_struct c)) (n' ++ ws) = true).
  { rewrite forallb_app. apply andb_true_iff. split.
    - cbn [forallb] in Hp. apply andb_true_iff in Hp. destruct Hp as [_ Hp].
      rewrite forallb_forall in *. intros c Hc. specialize (Hp c Hc). unfold plain in Hp.
      apply negb_true_iff in Hp. apply orb_false_iff in Hp. destruct Hp as [-> _]. reflexivity.
    - unfold all_ws in Hw. rewrite forallb_forall in *. intros c Hc. rewrite ws_not_struct; auto. }
  rewrite app_assoc.
  destruct (rounds_generic fuel [ch] (n' ++ ws) r2 Hfree Hr) as [V|(a1 & a2 & Ea & H2 & H3)].
  - exists [], ws. split; [reflexivity|]. rewrite V. f_equal.
    rewrite rev_app_distr, <- app_assoc. change (rev n' ++ [ch]) with (rev (ch :: n')).
    apply span_ws_rev; auto. apply last_nonspace; [discriminate|auto].
  - symmetry in Ea. cbn [forallb] in Hp. apply andb_true_iff in Hp. destruct Hp as [_ Hp].
    destruct (suffix_in_ws n' ws a1 a2 Hp Ea H2) as [ws1 ->]. exists ws1, a2. auto.
Qed.

(* ---- skip_one_fast_1 on valid values -------------------------------------------------------------------- *)

Lemma arr_kind : (91 = 91 /\ 93 = 93) \/ (91 = 123 /\ 93 = 125). Proof. left; auto. Qed.
Lemma obj_kind : (123 = 91 /\ 125 = 93) \/ (123 = 123 /\ 125 = 125). Proof. right; auto. Qed.

Lemma sof : forall w c x, all_ws w -> isspace c = false ->
  skip_one_fast_1 (w ++ c :: x) = fast_dispatch c x (c :: x).
Proof.
  intros. unfold skip_one_fast_1. rewrite advance_ns_app by auto. rewrite drop_ws_app, drop_ws_nonspace by auto. reflexivity.
Qed.

(* same span as the validating FSM, up to blanks after a number *)
Theorem fast_skip_on_valid : forall h w v r,
  all_ws w -> sval h v -> (snumber v -> valid_follow r) ->
  exists ws1 r', all_ws ws1 /\ r = ws1 ++ r' /\ (~ snumber v -> ws1 = []) /\
                 skip_one_fast_1 (w ++ v ++ r) = Ok (v ++ r, r').
Proof.
  intros h w v r Hw Hv Hf.
  inversion Hv; subst.
  - exists [], r. split; [apply all_ws_nil|split; [reflexivity|split; [auto|]]].
    cbn [lit_null app]. rewrite sof by auto. unfold fast_dispatch. cbn. destruct r; reflexivity.
  - exists [], r. split; [apply all_ws_nil|split; [reflexivity|split; [auto|]]].
    cbn [lit_true app]. rewrite sof by auto. unfold fast_dispatch. cbn. destruct r; reflexivity.
  - exists [], r. split; [apply all_ws_nil|split; [reflexivity|split; [auto|]]].
    cbn [lit_false app]. rewrite sof by auto. unfold fast_dispatch. cbn. destruct r; reflexivity.
  - (* number *)
    destruct (Hf H) as (ws & r2 & -> & Hws & Hr2).
    assert (Hpl : forallb plain v = true).
    { pose proof (snumber_numclass _ H) as F. rewrite forallb_forall. rewrite Forall_forall in F.
      intros x Hx. apply numclass_plain. auto. }
    destruct v as [|c0 v'].
    { destruct H as [Hu|(m & E & Hu)]; [apply sunsigned_nonempty in Hu; congruence|discriminate]. }
    assert (Hcd : ((c0 =? 45) || is_digit c0) = true).
    { destruct H as [Hu|(m & E & Hu)].
      - destruct (sunsigned_head _ Hu) as (d & m' & E & Hd). inversion E; subst. rewrite Hd. apply orb_true_r.
      - inversion E; subst. reflexivity. }
    assert (Hns : isspace c0 = false).
    { cbn [forallb] in Hpl. apply andb_true_iff in Hpl. destruct Hpl as [Hp _]. unfold plain in Hp.
      apply negb_true_iff in Hp. apply orb_false_iff in Hp. tauto. }
    assert (N1 : (c0 =? 91) = false /\ (c0 =? 123) = false /\ (c0 =? 34) = false).
    { pose proof (snumber_numclass _ H) as F. inversion F; subst.
      pose proof (numclass_inert 91 93 arr_kind _ H2) as (A & B & C & D & E & G).
      repeat split; apply N.eqb_neq; auto. }
    destruct N1 as (N1 & N2 & N3).
    cbn [app]. rewrite sof by auto. unfold fast_dispatch. rewrite N1, N2, N3, Hcd.
    destruct (skip_number_fast_spec (length (v' ++ ws ++ r2)) c0 v' ws r2 Hpl Hws Hr2) as (ws1 & ws2 & -> & E).
    exists ws1, (ws2 ++ r2). apply all_ws_app in Hws. destruct Hws as [Hw1 Hw2].
    split; [auto|]. split; [rewrite <- app_assoc; reflexivity|]. split; [tauto|].
    rewrite E. reflexivity.
  - (* string *)
    exists [], r. split; [apply all_ws_nil|]. split; [reflexivity|]. split; [auto|].
    cbn [app]. rewrite sof by auto. unfold fast_dispatch.
    change (34 =? 91) with false. change (34 =? 123) with false. change (34 =? 34) with true. cbv iota.
    unfold skip_string_fast. rewrite <- app_assoc. cbn [app].
    destruct (sbody_scan b r H) as [-> _]. reflexivity.
  - (* [] *)
    exists [], r. split; [apply all_ws_nil|]. split; [reflexivity|]. split; [auto|].
    cbn [app]. rewrite sof by auto. unfold fast_dispatch.
    change (91 =? 91) with true. cbv iota. unfold skip_container_fast.
    rewrite <- app_assoc. fold (cf 91 93 (w0 ++ [93] ++ r) 0). rewrite (tr_ws 91 93 arr_kind w0 H).
    unfold cf. cbn. reflexivity.
  - (* [v ...] *)
    exists [], r. split; [apply all_ws_nil|]. split; [reflexivity|]. split; [auto|].
    cbn [app]. rewrite sof by auto. unfold fast_dispatch.
    change (91 =? 91) with true. cbv iota. unfold skip_container_fast.
    destruct (proj1 (proj2 (tr_all 91 93 arr_kind)) _ _ H1) as (t0 & -> & Ht0).
    pose proof (proj1 (tr_all 91 93 arr_kind) _ _ H0) as Tv.
    replace ((w0 ++ v0 ++ t0 ++ [93]) ++ r) with ((w0 ++ v0 ++ t0) ++ 93 :: r)
      by (repeat (rewrite <- !app_assoc; cbn [app]); reflexivity).
    fold (cf 91 93 ((w0 ++ v0 ++ t0) ++ 93 :: r) 0).
    rewrite (tr_app 91 93 _ _ (tr_ws 91 93 arr_kind w0 H) (tr_app 91 93 _ _ Tv Ht0)).
    unfold cf. cbn. reflexivity.
  - (* {} *)
    exists [], r. split; [apply all_ws_nil|]. split; [reflexivity|]. split; [auto|].
    cbn [app]. rewrite sof by auto. unfold fast_dispatch.
    change (123 =? 91) with false. change (123 =? 123) with true. cbv iota. unfold skip_container_fast.
    rewrite <- app_assoc. fold (cf 123 125 (w0 ++ [125] ++ r) 0). rewrite (tr_ws 123 125 obj_kind w0 H).
    unfold cf. cbn. reflexivity.
  - (* {"k": v ...} *)
    exists [], r. split; [apply all_ws_nil|]. split; [reflexivity|]. split; [auto|].
    cbn [app]. rewrite sof by auto. unfold fast_dispatch.
    change (123 =? 91) with false. change (123 =? 123) with true. cbv iota. unfold skip_container_fast.
    destruct (proj2 (proj2 (tr_all 123 125 obj_kind)) _ _ H4) as (t0 & -> & Ht0).
    pose proof (proj1 (tr_all 123 125 obj_kind) _ _ H3) as Tv.
    replace ((w0 ++ 34 :: b ++ 34 :: w1 ++ 58 :: w2 ++ v0 ++ t0 ++ [125]) ++ r)
      with ((w0 ++ (34 :: b ++ [34]) ++ w1 ++ [58] ++ w2 ++ v0 ++ t0) ++ 125 :: r)
      by (repeat (rewrite <- !app_assoc; cbn [app]); reflexivity).
    fold (cf 123 125 ((w0 ++ (34 :: b ++ [34]) ++ w1 ++ [58] ++ w2 ++ v0 ++ t0) ++ 125 :: r) 0).
    assert (T : tr 123 125 (w0 ++ (34 :: b ++ [34]) ++ w1 ++ [58] ++ w2 ++ v0 ++ t0)).
    { apply (tr_app 123 125); [apply (tr_ws 123 125 obj_kind); auto|].
      apply (tr_app 123 125); [apply (tr_string 123 125); auto|].
      apply (tr_app 123 125); [apply (tr_ws 123 125 obj_kind); auto|].
      apply (tr_app 123 125); [apply (tr_inert 123 125 obj_kind); unfold inert; lia|].
      apply (tr_app 123 125); [apply (tr_ws 123 125 obj_kind); auto|]. apply (tr_app 123 125); auto. }
    rewrite T. unfold cf. cbn. reflexivity.
Qed.

(* the blanks after a number can really be swallowed: `1` followed by 16 blanks *)
Theorem fast_skip_exact_span_refuted : exists s v r r',
  skip_one s = Ok (v, r) /\ skip_one_fast_1 s = Ok (v, r') /\ r <> r'.
Proof.
  exists (49 :: repeat 32 16). eexists _, _, _. split; [vm_compute; reflexivity|]. split; [vm_compute; reflexivity|]. discriminate.
Qed.
