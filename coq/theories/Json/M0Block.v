(* One vector round of advance_string_default as the shipped code computes it - movemask of the quote and backslash
   comparisons, the m0_mask bit trick, "m0 != 0 ? ctz(m0)" - proved equal to the specification `block_scan` used by
   StrScan.v, and the blocked string scanner restated without that abstraction. *)
From Coq Require Import List NArith Bool Arith Lia.
From SV.Json Require Import Chars StrScan StrScanProofs M0MaskList BitTrick M0MaskWord.
From SV.Simd Require Import Blocked.
Import ListNotations.
Open Scope N_scope.

(* ---- movemask: bit i = p (byte i) ---------------------------------------------------------------------- *)

Fixpoint mask_of (p : N -> bool) (l : list N) : N :=
  match l with
  | [] => 0
  | c :: r => 2 * mask_of p r + N.b2n (p c)
  end.

Lemma tb_mask_of : forall p l i, tb (mask_of p l) i = nth i (map p l) false.
Proof.
  induction l as [|c r IH]; intros i; cbn [mask_of map].
  - unfold tb. rewrite N.bits_0. destruct i; reflexivity.
  - destruct i as [|j]; unfold tb.
    + apply N.testbit_0_r.
    + rewrite Nat2N.inj_succ, N.testbit_succ_r. apply IH.
Qed.

Lemma mask_of_lt : forall p l, mask_of p l < 2 ^ N.of_nat (length l).
Proof.
  induction l as [|c r IH]; cbn [mask_of length]; [reflexivity|].
  rewrite Nat2N.inj_succ, N.pow_succ_r'. destruct (p c); cbn [N.b2n]; lia.
Qed.

Lemma bits_mask_of : forall p l, bits (length l) (mask_of p l) = map p l.
Proof.
  intros p l. apply nth_ext with (d := false) (d' := false).
  - unfold bits. rewrite !map_length, seq_length. reflexivity.
  - intros i Hi. unfold bits in Hi. rewrite map_length, seq_length in Hi.
    rewrite nth_bits by auto. apply tb_mask_of.
Qed.

(* ---- ctz -------------------------------------------------------------------------------------------------- *)

Lemma ctz_spec : forall m, m <> 0 -> tb m (ctz m) = true /\ forall j, (j < ctz m)%nat -> tb m j = false.
Proof.
  intros [|q] H; [congruence|]. clear H. unfold ctz. induction q as [q IH|q IH|]; cbn [ctz_pos].
  - split; [reflexivity|intros j Hj; lia].
  - destruct IH as [I1 I2]. split.
    + unfold tb in *. rewrite Nat2N.inj_succ. change (N.pos q~0) with (2 * N.pos q + N.b2n false).
      rewrite N.testbit_succ_r. exact I1.
    + intros [|j] Hj; [reflexivity|]. unfold tb in *. rewrite Nat2N.inj_succ.
      change (N.pos q~0) with (2 * N.pos q + N.b2n false). rewrite N.testbit_succ_r. apply I2. lia.
  - split; [reflexivity|intros j Hj; lia].
Qed.

(* ---- sequential form of block_scan with an explicit escape flag ------------------------------------------ *)

Definition isq (c : N) : bool := c =? 34.
Definition isb (c : N) : bool := c =? 92.

Fixpoint bscan (esc : bool) (blk : list N) : block_res :=
  match blk with
  | [] => BNone esc
  | c :: r =>
      if esc then bscan false r
      else if c =? 34 then BQuote r
      else if c =? 92 then bscan true r
      else bscan false r
  end.

Lemma block_scan0_bscan : forall blk, block_scan0 blk = bscan false blk.
Proof. induction blk using scan_ind; cbn [bscan]; scan_case; auto. Qed.

Lemma block_scan_bscan : forall cr blk, block_scan cr blk = bscan cr blk.
Proof.
  intros [|] blk; cbn [block_scan]; [|apply block_scan0_bscan].
  destruct blk; cbn [bscan]; [reflexivity|apply block_scan0_bscan].
Qed.

(* unescaped-quote flags and the first of them *)
Fixpoint uq_flags (qs fl : list bool) : list bool :=
  match qs, fl with
  | q :: qs', f :: fl' => (q && negb f) :: uq_flags qs' fl'
  | _, _ => []
  end.

Fixpoint first_true (l : list bool) : option nat :=
  match l with
  | [] => None
  | b :: r => if b then Some O else match first_true r with Some i => Some (S i) | None => None end
  end.

Lemma bscan_flags : forall blk esc,
  bscan esc blk =
  match first_true (uq_flags (map isq blk) (fst (esc_flags esc (map isb blk)))) with
  | Some i => BQuote (skipn (S i) blk)
  | None => BNone (snd (esc_flags esc (map isb blk)))
  end.
Proof.
  induction blk as [|c r IH]; intros esc; [reflexivity|].
  cbn [bscan map esc_flags]. change (c =? 92) with (isb c). change (c =? 34) with (isq c).
  specialize (IH (if isb c then negb esc else false)).
  destruct (esc_flags (if isb c then negb esc else false) (map isb r)) as [fl o] eqn:EF.
  cbn [fst snd uq_flags first_true] in *.
  destruct esc.
  - rewrite andb_false_r. replace (if isb c then negb true else false) with false in * by (destruct (isb c); reflexivity).
    rewrite IH. destruct (first_true (uq_flags (map isq r) fl)); reflexivity.
  - rewrite andb_true_r. destruct (isq c) eqn:Eq; [reflexivity|].
    destruct (isb c); cbn [negb] in *; rewrite IH; destruct (first_true (uq_flags (map isq r) fl)); reflexivity.
Qed.

Lemma first_true_spec : forall l,
  match first_true l with
  | Some i => nth i l false = true /\ (forall j, (j < i)%nat -> nth j l false = false) /\ (i < length l)%nat
  | None => forall j, nth j l false = false
  end.
Proof.
  induction l as [|b r IH]; cbn [first_true]; [intros [|j]; reflexivity|].
  destruct b.
  - split; [reflexivity|]. split; [intros j Hj; lia|cbn; lia].
  - destruct (first_true r) as [i|].
    + destruct IH as (A & B & C). split; [exact A|]. split; [|cbn [length]; lia].
      intros [|j] Hj; [reflexivity|]. apply B. lia.
    + intros [|j]; [reflexivity|apply IH].
Qed.

Lemma nth_uq_flags : forall qs fl i, length qs = length fl ->
  nth i (uq_flags qs fl) false = nth i qs false && negb (nth i fl false).
Proof.
  induction qs as [|q qs IH]; intros fl i HL; destruct fl as [|f fl]; try discriminate.
  - destruct i; reflexivity.
  - destruct i; cbn [uq_flags nth]; [reflexivity|]. apply IH. cbn in HL. lia.
Qed.

Lemma uq_flags_length : forall qs fl, length qs = length fl -> length (uq_flags qs fl) = length qs.
Proof.
  induction qs as [|q qs IH]; intros [|f fl] HL; try discriminate; [reflexivity|].
  cbn [uq_flags length]. f_equal. apply IH. cbn in HL. lia.
Qed.

(* ---- the round as the code computes it -------------------------------------------------------------------- *)

(* w = 64: m0_mask(add64); w = 32: m0_mask(add32).
     if (m1 != 0 || cr != 0) { m0_mask }      if (m0 != 0) return sp - ss + ctz(m0) + 1;      next block *)
Definition block_round (w : nat) (crb : bool) (blk : list N) : block_res :=
  let m0 := mask_of isq blk in
  let m1 := mask_of isb blk in
  let '(m0', cr') :=
    if (m1 =? 0) && negb crb then (m0, 0)
    else let '(escaped, c) := m0_mask (N.of_nat w) m1 (N.b2n crb) in (N.ldiff m0 escaped, c) in
  if m0' =? 0 then BNone (cr' =? 1) else BQuote (skipn (S (ctz m0')) blk).

Lemma isq_not_isb : forall c, isq c = true -> isb c = false.
Proof. intros c H. unfold isq, isb in *. apply N.eqb_eq in H. subst. reflexivity. Qed.

Lemma m0_mask_zero : forall w, m0_mask w 0 0 = (0, 0).
Proof.
  intros w. unfold m0_mask. cbn [N.ldiff N.shiftl N.lor N.land N.add]. rewrite N.shiftr_0_l. reflexivity.
Qed.

Theorem block_round_eq : forall w crb blk, length blk = w -> (0 < w <= 64)%nat -> Nat.even w = true ->
  block_round w crb blk = block_scan crb blk.
Proof.
  intros w crb blk HL Hw He. rewrite block_scan_bscan, bscan_flags. unfold block_round.
  set (m0 := mask_of isq blk). set (m1 := mask_of isb blk).
  assert (Hm1 : m1 < 2 ^ N.of_nat w) by (subst m1; rewrite <- HL; apply mask_of_lt).
  assert (Bm1 : bits w m1 = map isb blk) by (subst m1; rewrite <- HL; apply bits_mask_of).
  (* the guarded form equals the unguarded one *)
  assert (G : (if (m1 =? 0) && negb crb then (m0, 0)
               else let '(escaped, c) := m0_mask (N.of_nat w) m1 (N.b2n crb) in (N.ldiff m0 escaped, c)) =
              (let '(escaped, c) := m0_mask (N.of_nat w) m1 (N.b2n crb) in (N.ldiff m0 escaped, c))).
  { destruct (m1 =? 0) eqn:E0; [|reflexivity]. destruct crb; [reflexivity|]. cbn [andb negb N.b2n].
    apply N.eqb_eq in E0. rewrite E0, m0_mask_zero, N.ldiff_0_r. reflexivity. }
  rewrite G. clear G.
  pose proof (m0_mask_spec w m1 crb Hw He Hm1) as S.
  destruct (m0_mask (N.of_nat w) m1 (N.b2n crb)) as [escaped c]. destruct S as [SC SE].
  rewrite Bm1 in SC, SE.
  set (fl := fst (esc_flags crb (map isb blk))) in *.
  assert (Lfl : length fl = w) by (subst fl; rewrite esc_flags_length, map_length; exact HL).
  (* bits of m0 & ~escaped *)
  assert (TB : forall i, tb (N.ldiff m0 escaped) i = nth i (uq_flags (map isq blk) fl) false).
  { intros i. unfold tb. rewrite N.ldiff_spec. fold (tb m0 i). fold (tb escaped i).
    subst m0. rewrite tb_mask_of.
    destruct (Nat.lt_ge_cases i w) as [Hi|Hi].
    - rewrite nth_uq_flags by (rewrite map_length; lia).
      destruct (nth i (map isq blk) false) eqn:Q; [|reflexivity]. cbn [andb]. f_equal. apply SE; auto.
      subst m1. rewrite tb_mask_of.
      rewrite (nth_indep _ false (isq 0)) in Q by (rewrite map_length; lia). rewrite map_nth in Q.
      rewrite (nth_indep _ false (isb 0)) by (rewrite map_length; lia). rewrite map_nth. apply isq_not_isb; auto.
    - rewrite !nth_overflow; [reflexivity| |]; try (rewrite uq_flags_length; rewrite map_length; lia); rewrite map_length; lia. }
  pose proof (first_true_spec (uq_flags (map isq blk) fl)) as FT.
  destruct (first_true (uq_flags (map isq blk) fl)) as [i|].
  - destruct FT as (A & B & C).
    assert (NZ : N.ldiff m0 escaped <> 0).
    { intros Z. specialize (TB i). rewrite Z in TB. unfold tb in TB. rewrite N.bits_0 in TB. congruence. }
    destruct (N.eqb_spec (N.ldiff m0 escaped) 0); [congruence|].
    destruct (ctz_spec _ NZ) as [C1 C2].
    assert (ctz (N.ldiff m0 escaped) = i).
    { destruct (Nat.lt_trichotomy (ctz (N.ldiff m0 escaped)) i) as [L|[E|L]]; [|exact E|].
      - rewrite TB, (B _ L) in C1. discriminate.
      - pose proof (TB i) as T. rewrite (C2 _ L), A in T. discriminate. }
    rewrite H. reflexivity.
  - assert (Z : N.ldiff m0 escaped = 0).
    { apply N.bits_inj. intros j. rewrite N.bits_0. rewrite <- (N2Nat.id j). fold (tb (N.ldiff m0 escaped) (N.to_nat j)).
      rewrite TB. apply FT. }
    rewrite Z. cbn [N.eqb]. rewrite SC. destruct (snd (esc_flags crb (map isb blk))); reflexivity.
Qed.

(* ---- advance_string_default with the rounds as the code computes them ------------------------------------- *)

Fixpoint rounds64_bits (fuel : nat) (cr : bool) (s : list N) : option (list N) + (bool * list N) :=
  match fuel with
  | O => inr (cr, s)
  | S f =>
      match split_at 64 s with
      | None => inr (cr, s)
      | Some (blk, rest) =>
          match block_round 64 cr blk with
          | BQuote after => inl (Some (after ++ rest))
          | BNone cr' => rounds64_bits f cr' rest
          end
      end
  end.

Definition advance_string_default_bits (fuel : nat) (s : list N) : option (list N) :=
  match s with
  | [] => None
  | _ =>
      match rounds64_bits fuel false s with
      | inl r => r
      | inr (cr, s1) =>
          let after32 :=
            match split_at 32 s1 with
            | None => inr (cr, s1)
            | Some (blk, rest) =>
                match block_round 32 cr blk with
                | BQuote after => inl (Some (after ++ rest))
                | BNone cr' => inr (cr', rest)
                end
            end in
          match after32 with
          | inl r => r
          | inr (cr2, s2) =>
              if cr2 then match s2 with [] => None | _ :: s3 => string_tail s3 end
              else string_tail s2
          end
      end
  end.

Lemma rounds64_bits_eq : forall fuel cr s, rounds64_bits fuel cr s = rounds64 fuel cr s.
Proof.
  induction fuel as [|f IH]; intros cr s; cbn [rounds64_bits rounds64]; [reflexivity|].
  destruct (split_at 64 s) as [[blk rest]|] eqn:E; [|reflexivity].
  apply split_at_spec in E. destruct E as [_ HL].
  rewrite (block_round_eq 64 cr blk HL ltac:(lia) eq_refl).
  destruct (block_scan cr blk); auto.
Qed.

Theorem advance_string_default_bits_eq : forall fuel s, advance_string_default_bits fuel s = advance_string_default fuel s.
Proof.
  intros fuel s. unfold advance_string_default_bits, advance_string_default. destruct s as [|c s0]; [reflexivity|].
  rewrite rounds64_bits_eq. destruct (rounds64 fuel false (c :: s0)) as [r|[cr s1]]; [reflexivity|].
  destruct (split_at 32 s1) as [[blk rest]|] eqn:E; [|reflexivity].
  apply split_at_spec in E. destruct E as [_ HL].
  rewrite (block_round_eq 32 cr blk HL ltac:(lia) eq_refl). reflexivity.
Qed.

(* the blocked string scanner, every round computed with movemask + m0_mask + ctz as in the C text, equals the
   scalar scan except on the defect class of the uninitialised `ch` *)
Theorem advance_string_default_bits_spec : forall fuel s, s <> [] -> (length s <= fuel)%nat ->
  advance_string_default_bits fuel s = if bug_class s then Some [] else scan_scalar s.
Proof. intros. rewrite advance_string_default_bits_eq. apply advance_string_default_spec; auto. Qed.
