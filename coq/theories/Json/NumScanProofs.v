(* do_skip_number + check_index accept exactly the RFC 8259 numbers (without the sign, handled by the callers):
   num_sound     a successful return consumed an unsigned number
   num_complete  an unsigned number followed by a byte that cannot continue it is consumed exactly *)
From Coq Require Import List NArith Bool Arith Lia.
From SV.Json Require Import Chars NumScan Grammar.
Import ListNotations.
Open Scope N_scope.

Definition mk (d e s : option nat) : nidx := {| di := d; ei := e; si := s |}.
Definition st0 : nidx := mk None None None.

(* ---- byte class facts ------------------------------------------------------------------------------- *)

Lemma digit_not_special : forall c, is_digit c = true -> (c =? 46) = false /\ is_exp c = false /\ is_sign c = false.
Proof.
  intros c H. unfold is_digit in H. rewrite andb_true_iff in H. repeat rewrite N.leb_le in H.
  unfold is_exp, is_sign. repeat split; repeat rewrite orb_false_iff; repeat split; apply N.eqb_neq; lia.
Qed.

Lemma exp_not_other : forall c, is_exp c = true -> is_digit c = false /\ (c =? 46) = false /\ is_sign c = false.
Proof.
  intros c H. unfold is_exp in H. rewrite orb_true_iff in H. repeat rewrite N.eqb_eq in H.
  destruct H as [-> | ->]; repeat split; reflexivity.
Qed.

Lemma sign_not_other : forall c, is_sign c = true -> is_digit c = false /\ (c =? 46) = false /\ is_exp c = false.
Proof.
  intros c H. unfold is_sign in H. rewrite orb_true_iff in H. repeat rewrite N.eqb_eq in H.
  destruct H as [-> | ->]; repeat split; reflexivity.
Qed.

Lemma numclass_cases : forall c, numclass c = true ->
  is_digit c = true \/ c = 46 \/ is_exp c = true \/ is_sign c = true.
Proof.
  intros c H. unfold numclass in H. repeat rewrite orb_true_iff in H. rewrite N.eqb_eq in H. tauto.
Qed.

Lemma not_numclass : forall c, numclass c = false ->
  is_digit c = false /\ (c =? 46) = false /\ is_exp c = false /\ is_sign c = false.
Proof. intros c H. unfold numclass in H. repeat rewrite orb_false_iff in H. tauto. Qed.

(* ---- the loop, one byte at a time ------------------------------------------------------------------- *)

Definition num_step (c : N) (idx : nat) (st : nidx) : option nidx :=
  if is_digit c then Some st
  else if c =? 46 then match di st with None => Some (mk (Some idx) (ei st) (si st)) | Some _ => None end
  else if is_exp c then match ei st with None => Some (mk (di st) (Some idx) (si st)) | Some _ => None end
  else match si st with None => Some (mk (di st) (ei st) (Some idx)) | Some _ => None end.

Lemma num_loop_cons : forall c r idx st,
  num_loop (c :: r) idx st =
  if numclass c then match num_step c idx st with Some st' => num_loop r (S idx) st' | None => None end
  else Some (st, idx, c :: r).
Proof.
  intros c r idx st. cbn [num_loop]. unfold numclass, num_step, mk.
  destruct (is_digit c); [reflexivity|]. cbn [orb].
  destruct (c =? 46); [destruct (di st); reflexivity|]. cbn [orb].
  destruct (is_exp c); [destruct (ei st); reflexivity|]. cbn [orb].
  destruct (is_sign c); [destruct (si st); reflexivity|reflexivity].
Qed.

Lemma num_loop_stop : forall r idx st, numclass (hd0 r) = false -> num_loop r idx st = Some (st, idx, r).
Proof.
  intros [|c r] idx st H; [reflexivity|]. cbn [hd0] in H. rewrite num_loop_cons, H. reflexivity.
Qed.

Lemma num_loop_digits : forall d s idx st, forallb is_digit d = true ->
  num_loop (d ++ s) idx st = num_loop s (idx + length d) st.
Proof.
  induction d as [|c d IH]; intros s idx st H; cbn [app length].
  - f_equal. lia.
  - cbn [forallb] in H. apply andb_true_iff in H. destruct H as [Hc Hd].
    cbn [num_loop]. rewrite Hc. rewrite IH by auto. f_equal. lia.
Qed.

Lemma num_loop_dot : forall s idx st, di st = None ->
  num_loop (46 :: s) idx st = num_loop s (S idx) (mk (Some idx) (ei st) (si st)).
Proof. intros s idx st H. cbn [num_loop]. change (is_digit 46) with false. rewrite N.eqb_refl. cbv iota. rewrite H. reflexivity. Qed.

Lemma num_loop_exp : forall x s idx st, is_exp x = true -> ei st = None ->
  num_loop (x :: s) idx st = num_loop s (S idx) (mk (di st) (Some idx) (si st)).
Proof.
  intros x s idx st Hx H. destruct (exp_not_other x Hx) as (A & B & C).
  cbn [num_loop]. rewrite A, B, Hx, H. reflexivity.
Qed.

Lemma num_loop_sign : forall g s idx st, is_sign g = true -> si st = None ->
  num_loop (g :: s) idx st = num_loop s (S idx) (mk (di st) (ei st) (Some idx)).
Proof.
  intros g s idx st Hg H. destruct (sign_not_other g Hg) as (A & B & C).
  cbn [num_loop]. rewrite A, B, C, Hg, H. reflexivity.
Qed.

(* ---- completeness ----------------------------------------------------------------------------------- *)

Ltac nat_tests :=
  repeat match goal with
  | |- context [Nat.eqb ?a ?b] => destruct (Nat.eqb_spec a b); try lia
  | |- context [Nat.ltb ?a ?b] => destruct (Nat.ltb_spec a b); try lia
  end; cbn [orb andb negb]; try reflexivity.

Lemma digits_len : forall d, digits d -> (1 <= length d)%nat /\ forallb is_digit d = true.
Proof. intros d [H1 H2]. split; auto. destruct d; [congruence|cbn; lia]. Qed.

(* the general path on int ++ frac ++ exp with an arbitrary digit string as integer part *)
Lemma general_complete : forall i f e r,
  digits i -> sfrac f -> sexp e -> numclass (hd0 r) = false ->
  exists st n, num_loop (i ++ f ++ e ++ r) 0 st0 = Some (st, n, r) /\ check_index st n = true.
Proof.
  intros i f e r Hi Hf He Hr.
  destruct (digits_len i Hi) as [Li Di].
  rewrite num_loop_digits by auto. cbn [Nat.add].
  destruct Hf as [->|[d1 [-> H1]]]; [|destruct (digits_len d1 H1) as [L1 D1]];
  (destruct He as [->|[x [d2 [Hx [H2 [->|[g [Hg ->]]]]]]]]; [|destruct (digits_len d2 H2) as [L2 D2]..]);
  cbn [app].
  - rewrite num_loop_stop by auto. eexists _, _. split; [reflexivity|]. reflexivity.
  - rewrite num_loop_exp by auto. rewrite num_loop_digits by auto. rewrite num_loop_stop by auto.
    eexists _, _. split; [reflexivity|]. unfold check_index, oeq, mk, st0; cbn [di ei si]. nat_tests.
  - rewrite num_loop_exp by auto. rewrite num_loop_sign by auto. rewrite num_loop_digits by auto.
    rewrite num_loop_stop by auto.
    eexists _, _. split; [reflexivity|]. unfold check_index, oeq, mk, st0; cbn [di ei si]. nat_tests.
  - rewrite num_loop_dot by auto. rewrite num_loop_digits by auto.
    rewrite num_loop_stop by auto.
    eexists _, _. split; [reflexivity|]. unfold check_index, oeq, mk, st0; cbn [di ei si]. nat_tests.
  - rewrite num_loop_dot by auto. rewrite num_loop_digits by auto.
    rewrite num_loop_exp by auto. rewrite num_loop_digits by auto. rewrite num_loop_stop by auto.
    eexists _, _. split; [reflexivity|]. unfold check_index, oeq, mk, st0; cbn [di ei si]. nat_tests.
  - rewrite num_loop_dot by auto. rewrite num_loop_digits by auto.
    rewrite num_loop_exp by auto. rewrite num_loop_sign by auto. rewrite num_loop_digits by auto.
    rewrite num_loop_stop by auto.
    eexists _, _. split; [reflexivity|]. unfold check_index, oeq, mk, st0; cbn [di ei si]. nat_tests.
Qed.

Lemma sint_digits : forall i, sint i -> digits i.
Proof.
  intros i [->|[c [d [-> [Hc [_ Hd]]]]]]; split; try discriminate; cbn [forallb]; auto.
  rewrite Hc, Hd. reflexivity.
Qed.

Lemma zero_next : forall x, is_exp x = true -> negb ((x =? 46) || (x =? 101) || (x =? 69)) = false.
Proof.
  intros x H. destruct (exp_not_other x H) as (_ & B & _). rewrite B. cbn [orb].
  unfold is_exp in H. rewrite H. reflexivity.
Qed.

Theorem num_complete : forall n r, sunsigned n -> numclass (hd0 r) = false -> do_skip_number (n ++ r) = Some r.
Proof.
  intros n r [i [f [e [-> [Hi [Hf He]]]]]] Hr.
  rewrite <- !app_assoc.
  destruct (general_complete i f e r (sint_digits i Hi) Hf He Hr) as [st [k [HL HC]]].
  assert (GEN : forall c rest, i ++ f ++ e ++ r = c :: rest ->
            match num_loop (c :: rest) 0 st0 with
            | Some (st1, n1, rest1) => if check_index st1 n1 then Some rest1 else None
            | None => None
            end = Some r).
  { intros c rest E. rewrite <- E, HL, HC. reflexivity. }
  destruct Hi as [->|[c [d [-> [Hc [Hnz Hd]]]]]].
  - (* integer part 0 *)
    cbn [app]. unfold do_skip_number. rewrite N.eqb_refl. cbn [andb].
    destruct Hf as [->|[d1 [-> H1]]].
    + destruct He as [->|[x [d2 [Hx [H2 [->|[g [Hg ->]]]]]]]]; cbn [app].
      * destruct (not_numclass _ Hr) as (A & B & C & D). unfold is_exp in C. apply orb_false_iff in C.
        destruct r as [|c r']; [reflexivity|]. cbn [hd0] in *. rewrite B. destruct C as [-> ->]. reflexivity.
      * rewrite zero_next by auto. apply (GEN 48 _ eq_refl).
      * rewrite zero_next by auto. apply (GEN 48 _ eq_refl).
    + cbn [app]. rewrite N.eqb_refl. cbn [orb negb]. apply (GEN 48 _ eq_refl).
  - (* integer part starts with a non-zero digit *)
    cbn [app]. unfold do_skip_number. rewrite (proj2 (N.eqb_neq c 48) Hnz). cbn [andb].
    apply (GEN c _ eq_refl).
Qed.

(* ---- soundness: phases of a scan ---------------------------------------------------------------------- *)

Inductive mant : list N -> option nat -> Prop :=
| M_int : forall d, digits d -> mant d None
| M_frac : forall d f, digits d -> digits f -> mant (d ++ 46 :: f) (Some (length d)).

Definition doomed (st : nidx) (idx : nat) : Prop :=
  (exists k, si st = Some k /\ (0 < k < idx)%nat /\ (ei st = None \/ exists j, ei st = Some j /\ j <> (k - 1)%nat)) \/
  (exists d e, di st = Some d /\ ei st = Some e /\ (0 < e)%nat /\ (e - 1 <= d)%nat).

Inductive phase : list N -> nidx -> Prop :=
| P_mant : forall m dio, mant m dio -> phase m (mk dio None None)
| P_dot : forall d, digits d -> phase (d ++ [46]) (mk (Some (length d)) None None)
| P_e : forall m dio x, mant m dio -> is_exp x = true -> phase (m ++ [x]) (mk dio (Some (length m)) None)
| P_sign : forall m dio x g, mant m dio -> is_exp x = true -> is_sign g = true ->
    phase (m ++ [x; g]) (mk dio (Some (length m)) (Some (S (length m))))
| P_exp0 : forall m dio x d, mant m dio -> is_exp x = true -> digits d ->
    phase (m ++ x :: d) (mk dio (Some (length m)) None)
| P_exp1 : forall m dio x g d, mant m dio -> is_exp x = true -> is_sign g = true -> digits d ->
    phase (m ++ x :: g :: d) (mk dio (Some (length m)) (Some (S (length m))))
| P_doom : forall pre st, doomed st (length pre) -> phase pre st.

Lemma digits_snoc : forall d c, digits d -> is_digit c = true -> digits (d ++ [c]).
Proof.
  intros d c [H1 H2] Hc. split; [destruct d; discriminate|].
  rewrite forallb_app, H2. cbn. rewrite Hc. reflexivity.
Qed.

Lemma digits_one : forall c, is_digit c = true -> digits [c].
Proof. intros c H. split; [discriminate|]. cbn. rewrite H. reflexivity. Qed.

Lemma mant_len : forall m dio, mant m dio -> (1 <= length m)%nat /\ (forall d, dio = Some d -> (1 <= d /\ d + 2 <= length m)%nat).
Proof.
  intros m dio H. inversion H; subst.
  - destruct (digits_len _ H0). split; [auto|]. intros; discriminate.
  - destruct (digits_len _ H0), (digits_len _ H1). rewrite app_length. cbn [length]. split; [lia|].
    intros d0 E. inversion E; subst. lia.
Qed.

Lemma doomed_step : forall c st st' idx, doomed st idx -> num_step c idx st = Some st' -> doomed st' (S idx).
Proof.
  intros c st st' idx D H. unfold num_step in H.
  destruct (is_digit c).
  { inversion H; subst. destruct D as [(k & A & B & C)|D]; [left|right; auto]. exists k. repeat split; auto; lia. }
  destruct (c =? 46).
  { destruct (di st) eqn:E; [discriminate|]. inversion H; subst. unfold mk.
    destruct D as [(k & A & B & C)|(d & e & A & _)]; [left|congruence].
    exists k. cbn [si ei]. repeat split; auto; lia. }
  destruct (is_exp c).
  { destruct (ei st) eqn:E; [discriminate|]. inversion H; subst. unfold mk.
    destruct D as [(k & A & B & C)|(d & e & _ & A & _)]; [left|congruence].
    exists k. cbn [si ei]. repeat split; auto; try lia. right. exists idx. split; [reflexivity|lia]. }
  destruct (si st) eqn:E; [discriminate|]. inversion H; subst. unfold mk.
  destruct D as [(k & A & _)|(d & e & A & B & C)]; [congruence|right].
  exists d, e. cbn [di ei]. auto.
Qed.

Lemma app_cons_assoc : forall (a : list N) x b, a ++ x :: b = (a ++ [x]) ++ b.
Proof. intros. rewrite <- app_assoc. reflexivity. Qed.

Lemma phase_step : forall pre st c st', phase pre st -> numclass c = true ->
  num_step c (length pre) st = Some st' -> phase (pre ++ [c]) st'.
Proof.
  intros pre st c st' P Hc H.
  destruct P as [m dio Hm|d Hd|m dio x Hm Hx|m dio x g Hm Hx Hg|m dio x d Hm Hx Hd|m dio x g d Hm Hx Hg Hd|pre st D].
  7: { apply P_doom. rewrite app_length. cbn [length]. rewrite Nat.add_1_r. eapply doomed_step; eauto. }
  all: try (destruct (mant_len _ _ Hm) as [Lm Ld]).
  all: try (destruct (digits_len _ Hd) as [Ld' Dd']).
  all: destruct (numclass_cases c Hc) as [Hd0|[->|[He0|Hs0]]].
  all: unfold num_step, mk in H; cbn [di ei si] in H.
  all: try (rewrite Hd0 in H; inversion H; subst; clear H).
  all: try (destruct (exp_not_other c He0) as (X1 & X2 & X3); rewrite X1, X2, He0 in H).
  all: try (destruct (sign_not_other c Hs0) as (X1 & X2 & X3); rewrite X1, X2, X3 in H).
  all: try (change (is_digit 46) with false in H; rewrite N.eqb_refl in H; cbv iota in H).
  all: try discriminate.
  - (* mant, digit *)
    inversion Hm; subst.
    + apply P_mant. apply M_int. apply digits_snoc; auto.
    + rewrite <- app_assoc. cbn [app]. apply P_mant. apply M_frac; auto. apply digits_snoc; auto.
  - (* mant, '.' *)
    inversion Hm; subst; [|discriminate]. inversion H; subst. apply P_dot; auto.
  - (* mant, e *)
    inversion H; subst. apply P_e; auto.
  - (* mant, sign : doomed *)
    inversion H; subst. apply P_doom. left. exists (length m). cbn [si ei]. rewrite app_length. cbn [length].
    repeat split; auto; lia.
  - (* dot, digit *)
    rewrite <- app_assoc. cbn [app]. apply P_mant. apply M_frac; auto. apply digits_one; auto.
  - (* dot, e : doomed *)
    inversion H; subst. apply P_doom. right. exists (length d), (length (d ++ [46])). cbn [di ei].
    rewrite !app_length. cbn [length]. repeat split; auto; lia.
  - (* dot, sign : doomed *)
    inversion H; subst. apply P_doom. left. exists (length (d ++ [46])). cbn [si ei].
    rewrite !app_length. cbn [length]. repeat split; auto; lia.
  - (* e, digit *)
    rewrite <- app_assoc. cbn [app]. apply P_exp0; auto. apply digits_one; auto.
  - (* e, '.' *)
    destruct dio; [discriminate|]. inversion H; subst. apply P_doom. right.
    exists (length (m ++ [x])), (length m). cbn [di ei]. rewrite !app_length. cbn [length]. repeat split; auto; lia.
  - (* e, sign *)
    inversion H; subst. rewrite <- app_assoc. cbn [app].
    replace (length (m ++ [x])) with (S (length m)) by (rewrite app_length; cbn [length]; lia).
    apply P_sign; auto.
  - (* sign, digit *)
    rewrite <- app_assoc. cbn [app]. apply P_exp1; auto. apply digits_one; auto.
  - (* sign, '.' *)
    destruct dio; [discriminate|]. inversion H; subst. apply P_doom. right.
    exists (length (m ++ [x; g])), (length m). cbn [di ei]. rewrite !app_length. cbn [length]. repeat split; auto; lia.
  - (* exp0, digit *)
    rewrite <- app_assoc. cbn [app]. apply P_exp0; auto. apply digits_snoc; auto.
  - (* exp0, '.' *)
    destruct dio; [discriminate|]. inversion H; subst. apply P_doom. right.
    exists (length (m ++ x :: d)), (length m). cbn [di ei]. rewrite !app_length. cbn [length]. repeat split; auto; lia.
  - (* exp0, sign : doomed *)
    inversion H; subst. apply P_doom. left. exists (length (m ++ x :: d)). cbn [si ei].
    rewrite !app_length. cbn [length]. repeat split; auto; try lia. right. exists (length m). split; [reflexivity|lia].
  - (* exp1, digit *)
    rewrite <- app_assoc. cbn [app]. apply P_exp1; auto. apply digits_snoc; auto.
  - (* exp1, '.' *)
    destruct dio; [discriminate|]. inversion H; subst. apply P_doom. right.
    exists (length (m ++ x :: g :: d)), (length m). cbn [di ei]. rewrite !app_length. cbn [length]. repeat split; auto; lia.
Qed.

Lemma num_loop_phase : forall s pre st st' n r,
  phase pre st -> num_loop s (length pre) st = Some (st', n, r) ->
  exists run, s = run ++ r /\ n = length (pre ++ run) /\ phase (pre ++ run) st'.
Proof.
  induction s as [|c s IH]; intros pre st st' n r P H.
  - cbn [num_loop] in H. inversion H; subst. exists []. rewrite !app_nil_r. auto.
  - rewrite num_loop_cons in H. destruct (numclass c) eqn:Hc.
    + destruct (num_step c (length pre) st) as [st1|] eqn:ES; [|discriminate].
      pose proof (phase_step _ _ _ _ P Hc ES) as P1.
      replace (S (length pre)) with (length (pre ++ [c])) in H by (rewrite app_length; cbn [length]; lia).
      destruct (IH _ _ _ _ _ P1 H) as [run [-> [-> P2]]].
      exists (c :: run). rewrite <- app_assoc in *. cbn [app] in *. auto.
    + inversion H; subst. exists []. rewrite !app_nil_r. auto.
Qed.

(* what an accepted final phase looks like *)
Definition wunsigned (n : list N) : Prop := exists i f e, n = i ++ f ++ e /\ digits i /\ sfrac f /\ sexp e.

Lemma mant_shape : forall m dio, mant m dio -> exists i f, m = i ++ f /\ digits i /\ sfrac f.
Proof.
  intros m dio H. inversion H; subst.
  - exists m, []. rewrite app_nil_r. split; [reflexivity|split; [auto|left; reflexivity]].
  - exists d, (46 :: f). split; [reflexivity|split; [auto|right; eauto]].
Qed.

Lemma doomed_check : forall st n, doomed st n -> check_index st n = false.
Proof.
  intros st n D. unfold check_index, oeq.
  destruct D as [(k & A & B & C)|(d & e & A & B & C & E)].
  - rewrite A.
    destruct (match di st with Some k0 => Nat.eqb k0 0 | None => false end || Nat.eqb k 0 ||
              match ei st with Some k0 => Nat.eqb k0 0 | None => false end); [reflexivity|].
    destruct (match di st with Some k0 => Nat.eqb k0 (n - 1) | None => false end || Nat.eqb k (n - 1) ||
              match ei st with Some k0 => Nat.eqb k0 (n - 1) | None => false end); [reflexivity|].
    destruct (Nat.ltb_spec 0 k); [|lia].
    destruct C as [->|(j & -> & Hj)]; [reflexivity|].
    destruct (Nat.eqb_spec j (k - 1)); [lia|]. reflexivity.
  - rewrite A, B.
    destruct (Nat.eqb d 0 || match si st with Some k => Nat.eqb k 0 | None => false end || Nat.eqb e 0); [reflexivity|].
    destruct (Nat.eqb d (n - 1) || match si st with Some k => Nat.eqb k (n - 1) | None => false end || Nat.eqb e (n - 1)); [reflexivity|].
    destruct (match si st with
              | Some s => if Nat.ltb 0 s then negb (Nat.eqb e (s - 1)) else false
              | None => false
              end); [reflexivity|].
    destruct (Nat.ltb_spec (e - 1) d); [reflexivity|].
    destruct (Nat.eqb_spec d (e - 1)); [reflexivity|lia].
Qed.

Lemma phase_accept : forall pre st, phase pre st -> check_index st (length pre) = true -> wunsigned pre.
Proof.
  intros pre st P H.
  destruct P as [m dio Hm|d Hd|m dio x Hm Hx|m dio x g Hm Hx Hg|m dio x d Hm Hx Hd|m dio x g d Hm Hx Hg Hd|pre st D].
  - destruct (mant_shape _ _ Hm) as (i & f & -> & Hi & Hf). exists i, f, []. rewrite app_nil_r. split; [reflexivity|split; [auto|split; [auto|left; reflexivity]]].
  - exfalso. assert (F : check_index (mk (Some (length d)) None None) (length (d ++ [46])) = false); [|congruence].
    unfold check_index, oeq, mk; cbn [di ei si]. rewrite app_length; cbn [length]. nat_tests.
  - exfalso. assert (F : check_index (mk dio (Some (length m)) None) (length (m ++ [x])) = false); [|congruence].
    unfold check_index, oeq, mk; cbn [di ei si]. rewrite app_length; cbn [length]. destruct dio; nat_tests.
  - exfalso. assert (F : check_index (mk dio (Some (length m)) (Some (S (length m)))) (length (m ++ [x; g])) = false); [|congruence].
    unfold check_index, oeq, mk; cbn [di ei si]. rewrite app_length; cbn [length]. destruct dio; nat_tests.
  - destruct (mant_shape _ _ Hm) as (i & f & -> & Hi & Hf). exists i, f, (x :: d).
    rewrite <- app_assoc. split; [reflexivity|split; [auto|split; [auto|]]]. right. exists x, d. auto.
  - destruct (mant_shape _ _ Hm) as (i & f & -> & Hi & Hf). exists i, f, (x :: g :: d).
    rewrite <- app_assoc. split; [reflexivity|split; [auto|split; [auto|]]]. right. exists x, d.
    split; [auto|split; [auto|right; eauto]].
  - rewrite doomed_check in H by auto. discriminate.
Qed.

Lemma wunsigned_first_nondigit : forall i f e r c2 rest,
  digits i -> sfrac f -> sexp e -> i ++ f ++ e ++ r = 48 :: c2 :: rest -> is_digit c2 = false -> i = [48].
Proof.
  intros i f e r c2 rest [Hne Hd] Hf He E Hc2.
  destruct i as [|a [|b i']]; [congruence| |].
  - cbn [app] in E. inversion E; subst. reflexivity.
  - cbn [app] in E. inversion E; subst. cbn [forallb] in Hd. rewrite Hc2 in Hd.
    rewrite andb_false_r in Hd. discriminate.
Qed.

Theorem num_sound : forall s r, do_skip_number s = Some r -> is_digit (hd0 s) = true ->
  exists n, s = n ++ r /\ sunsigned n.
Proof.
  intros s r H Hd. unfold do_skip_number in H.
  destruct s as [|c rest]; [discriminate|]. cbn [hd0] in Hd.
  destruct ((c =? 48) && match rest with [] => true | d :: _ => negb ((d =? 46) || (d =? 101) || (d =? 69)) end) eqn:Ez.
  - (* the special case of 0 *)
    apply andb_true_iff in Ez. destruct Ez as [Ec _]. apply N.eqb_eq in Ec. subst c. inversion H; subst.
    exists [48]. split; [reflexivity|]. exists [48], [], []. repeat split; auto; left; reflexivity.
  - change {| di := None; ei := None; si := None |} with st0 in H.
    destruct (num_loop (c :: rest) 0 st0) as [[[st n] r1]|] eqn:EL; [|discriminate].
    destruct (check_index st n) eqn:EC; [|discriminate]. inversion H; subst r1. clear H.
    (* first byte: a digit *)
    rewrite num_loop_cons in EL.
    assert (Hnc : numclass c = true) by (unfold numclass; rewrite Hd; reflexivity).
    rewrite Hnc in EL. unfold num_step in EL. rewrite Hd in EL.
    assert (P0 : phase [c] st0) by (apply P_mant, M_int, digits_one; auto).
    change 1%nat with (length [c]) in EL.
    destruct (num_loop_phase _ _ _ _ _ _ P0 EL) as [run [-> [-> P1]]].
    destruct (phase_accept _ _ P1 EC) as (i & f & e & E & Hi & Hf & He).
    exists ([c] ++ run). split; [reflexivity|]. rewrite E.
    exists i, f, e. repeat split; auto.
    (* the integer part has no leading zero *)
    destruct (N.eq_dec c 48) as [->|Hnz].
    + rewrite N.eqb_refl in Ez. cbn [andb] in Ez.
      assert (E2 : i ++ f ++ e ++ r = 48 :: run ++ r).
      { rewrite !app_assoc. rewrite <- (app_assoc i f e). rewrite <- E. reflexivity. }
      destruct (run ++ r) as [|c2 rest2] eqn:ER; [discriminate|].
      apply negb_false_iff in Ez.
      assert (Hc2 : is_digit c2 = false).
      { repeat rewrite orb_true_iff in Ez. repeat rewrite N.eqb_eq in Ez. destruct Ez as [[->| ->]| ->]; reflexivity. }
      left. eapply wunsigned_first_nondigit; eauto.
    + destruct Hi as [Hne Hdi]. destruct i as [|a i']; [congruence|].
      cbn [app] in E. inversion E; subst a.
      right. exists c, i'. cbn [forallb] in Hdi. apply andb_true_iff in Hdi. tauto.
Qed.
