(* The odd/even backslash-run bit trick (m0_mask of advance_string_default / _validate, get_string_maskx64,
   skip_string_fast), written generically in the word width w and checked against the sequential definition
   of "escaped position" in M0MaskList.v (bit lists, every even width) and M0MaskWord.v (these N-level expressions have
   the bits of the ripple reading; m0_mask_spec for every even w <= 64, in particular 32 and 64). *)
From Coq Require Import List NArith Bool Arith Lia.
Import ListNotations.
Open Scope N_scope.

Section Width.
Variable w : N.
Definition wmask : N := 2 ^ w - 1.
(* ODD_MASK = 0xaaaa..., EVEN_MASK = 0x5555... truncated to w bits *)
Definition ODD : N := N.land 0xaaaaaaaaaaaaaaaa wmask.
Definition EVEN : N := N.land 0x5555555555555555 wmask.

(*  m1 &= ~cr;  fe = (m1 << 1) | cr;  os = (m1 & ~fe) & ODD_MASK;  es = add(os, m1, &cr) << 1;
    escaped = fe & (es ^ EVEN_MASK)      -- returns (escaped, carry out) *)
Definition m0_mask (m1 cr : N) : N * N :=
  let m1 := N.ldiff m1 cr in
  let fe := N.land (N.lor (N.shiftl m1 1) cr) wmask in
  let os := N.land (N.ldiff m1 fe) ODD in
  let sum := os + m1 in
  let cr' := N.shiftr sum w in
  let es := N.land (N.shiftl (N.land sum wmask) 1) wmask in
  (N.land fe (N.lxor es EVEN), cr').
End Width.

