(* The odd/even backslash-run bit trick (m0_mask of advance_string_default / _validate, get_string_maskx64,
   skip_string_fast), written generically in the word width w and checked against the sequential definition
   of "escaped position" by a complete sweep for w = 14 (all 2^14 backslash masks x both carries).
   The shipped code uses w = 32 and w = 64: for those widths the equality is only tied by the correspondence run
   (m0_mask_spec at full width is NOT proved). *)
From Coq Require Import List NArith Bool Arith Lia.
Import ListNotations.
Open Scope N_scope.

Section Width.
Variable w : N.
Definition wmask : N := 2 ^ w - 1.
(* ODD_MASK = 0xaaaa..., EVEN_MASK = 0x5555... truncated to w bits *)
Definition ODD : N := N.land 0xaaaaaaaaaaaaaaaa wmask.
Definition EVEN : N := N.land 0x5555555555555555 wmask.

(*  m1 &= ~cr;  fe = (m1 << 1) | cr;  os = (m1 & ~fe) & ODD_MASK;  es = add(os, m1, &cr) << 1;
    escaped = fe & (es ^ EVEN_MASK)      -- returns (escaped, carry out) *)
Definition m0_mask (m1 cr : N) : N * N :=
  let m1 := N.ldiff m1 cr in
  let fe := N.land (N.lor (N.shiftl m1 1) cr) wmask in
  let os := N.land (N.ldiff m1 fe) ODD in
  let sum := os + m1 in
  let cr' := N.shiftr sum w in
  let es := N.land (N.shiftl (N.land sum wmask) 1) wmask in
  (N.land fe (N.lxor es EVEN), cr').
End Width.

(* sequential definition on the bits of the backslash mask, least significant first: position i is escaped iff
   the byte before it is an unescaped backslash; returns the escaped positions that are not backslashes
   themselves (the only ones m0 &= ~escaped can matter for) and the pending escape at the end *)
Fixpoint seq_escaped (n : nat) (m1 : N) (i : N) (esc : bool) : N * bool :=
  match n with
  | O => (0, esc)
  | S n' =>
      let bs := N.testbit m1 i in
      let '(rest, out) := seq_escaped n' m1 (i + 1) (if bs then negb esc else false) in
      ((if esc && negb bs then N.lor rest (N.shiftl 1 i) else rest), out)
  end.

Definition check14 (m1 cr : N) : bool :=
  let '(e, c) := m0_mask 14 m1 cr in
  let '(se, sc) := seq_escaped 14 m1 0 (cr =? 1) in
  (N.ldiff e m1 =? se) && (c =? (if sc then 1 else 0)).

Definition all14 : list N := map N.of_nat (seq 0 (N.to_nat 16384)).

Lemma sweep14 : forallb (fun m => check14 m 0 && check14 m 1) all14 = true.
Proof. vm_compute. reflexivity. Qed.

(* for the 14-bit version of the algorithm: every backslash mask, both carries *)
Theorem m0_mask_spec_w14_partial : forall m1 cr, m1 < 16384 -> cr < 2 -> check14 m1 cr = true.
Proof.
  intros m1 cr Hm Hc.
  assert (In m1 all14).
  { unfold all14. rewrite <- (N2Nat.id m1). apply in_map. apply in_seq. split; [lia|]. cbn [Nat.add]. lia. }
  pose proof (proj1 (forallb_forall _ _) sweep14 m1 H) as P. apply andb_true_iff in P.
  assert (cr = 0 \/ cr = 1) as [-> | ->] by lia; tauto.
Qed.
