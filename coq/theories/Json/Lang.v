(* The FSM stack read as a continuation grammar: lang F st s r  =  "from stack st, the input s can be consumed
   down to the suffix r", each frame contributing the language of what it still expects, with the frame budget
   (MAX_RECURSE minus the number of frames below) bounding the stack need of the values still to come.
   F = true additionally records that a number is not followed by a byte that would continue it (needed for
   completeness, not guaranteed by soundness: `01` is accepted as the value `0` followed by `1`). *)
From Coq Require Import List NArith Bool Arith Lia.
From SV.Json Require Import Chars StrScan NumScan Fsm Grammar.
Import ListNotations.
Open Scope N_scope.

Definition follow_ok (F : bool) (v rest : list N) : Prop :=
  F = true -> snumber v -> numclass (hd0 rest) = false.

Definition frame_val (F : bool) (b : nat) (x rest : list N) : Prop :=
  exists w v, x = w ++ v /\ all_ws w /\ sval b v /\ follow_ok F v rest.

Definition frame (F : bool) (t : vt) (b : nat) (x rest : list N) : Prop :=
  match t with
  | FSM_VAL => frame_val F b x rest
  | FSM_ARR => atail (b - 1) x
  | FSM_OBJ => otail (b - 1) x
  | FSM_KEY => exists w bd w1 y, x = w ++ 34 :: bd ++ 34 :: w1 ++ 58 :: y /\ all_ws w /\ sbody bd /\ all_ws w1 /\ frame_val F b y rest
  | FSM_ELEM => exists w y, x = w ++ 58 :: y /\ all_ws w /\ frame_val F b y rest
  | FSM_ARR_0 => (exists w, x = w ++ [93] /\ all_ws w) \/
                 (exists w v t, x = w ++ v ++ t /\ all_ws w /\ sval (b - 1) v /\ atail (b - 1) t)
  | FSM_OBJ_0 => (exists w, x = w ++ [125] /\ all_ws w) \/
                 (exists w bd w1 w2 v t, x = w ++ 34 :: bd ++ 34 :: w1 ++ 58 :: w2 ++ v ++ t /\ (2 <= b)%nat /\
                    all_ws w /\ sbody bd /\ all_ws w1 /\ all_ws w2 /\ sval (b - 1) v /\ otail (b - 1) t)
  end.

Fixpoint lang (F : bool) (st : list vt) (s r : list N) : Prop :=
  match st with
  | [] => s = r
  | t :: st' => exists x s', s = x ++ s' /\ frame F t (MAX_RECURSE - length st') x s' /\ lang F st' s' r
  end.

(* ---- first bytes of the tails (they never continue a number) ---------------------------------------- *)

Lemma ws_not_numclass : forall c, isspace c = true -> numclass c = false.
Proof.
  intros c H. unfold isspace in H. repeat rewrite orb_true_iff in H. repeat rewrite N.eqb_eq in H.
  destruct H as [[[->| ->]| ->]| ->]; reflexivity.
Qed.

Lemma hd0_ws_app : forall w c s, all_ws w -> numclass c = false -> numclass (hd0 (w ++ c :: s)) = false.
Proof.
  intros [|a w] c s Hw Hc; cbn; auto. apply all_ws_cons in Hw. apply ws_not_numclass. tauto.
Qed.

Lemma atail_hd : forall h t s, atail h t -> numclass (hd0 (t ++ s)) = false.
Proof.
  intros h t s H. inversion H; subst; rewrite <- app_assoc; cbn [app]; apply hd0_ws_app; auto.
Qed.

Lemma otail_hd : forall h t s, otail h t -> numclass (hd0 (t ++ s)) = false.
Proof.
  intros h t s H. inversion H; subst; rewrite <- app_assoc; cbn [app]; apply hd0_ws_app; auto.
Qed.
