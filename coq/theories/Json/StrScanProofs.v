(* The blocked string-terminator search equals the scalar scan, except on the input class on which the shipped
   routine tests an uninitialised variable (bug_class), where it accepts an unterminated string. *)
From Coq Require Import List NArith Bool Arith Lia.
From SV.Json Require Import Chars StrScan.
Import ListNotations.
Open Scope N_scope.

(* induction principle following the recursion of the scalar scan *)
Lemma scan_ind : forall P : list N -> Prop,
  P [] ->
  (forall r, P (34 :: r)) ->
  P [92] ->
  (forall x r, P r -> P (92 :: x :: r)) ->
  (forall c r, c <> 34 -> c <> 92 -> P r -> P (c :: r)) ->
  forall s, P s.
Proof.
  intros P H0 Hq Hb1 Hb2 Hc s.
  remember (length s) as n eqn:Hn. revert s Hn.
  induction n as [n IH] using lt_wf_ind. intros s Hn.
  destruct s as [|c r]; [exact H0|].
  destruct (N.eq_dec c 34) as [->|Hq']; [apply Hq|].
  destruct (N.eq_dec c 92) as [->|Hb'].
  - destruct r as [|x r']; [exact Hb1|]. apply Hb2. apply (IH (length r')); [cbn in Hn; lia|reflexivity].
  - apply Hc; auto. apply (IH (length r)); [cbn in Hn; lia|reflexivity].
Qed.

Ltac scan_case := cbn [scan_scalar block_scan0 open_end];
  repeat match goal with
  | |- context [34 =? 34] => rewrite (N.eqb_refl 34)
  | |- context [92 =? 92] => rewrite (N.eqb_refl 92)
  | |- context [92 =? 34] => change (92 =? 34) with false
  | H : ?c <> 34 |- context [?c =? 34] => rewrite (proj2 (N.eqb_neq c 34) H)
  | H : ?c <> 92 |- context [?c =? 92] => rewrite (proj2 (N.eqb_neq c 92) H)
  end; cbv iota.

(* pending-escape variants *)
Definition open_end_c (cr : bool) (s : list N) : option bool :=
  if cr then match s with [] => Some true | _ :: r => open_end r end else open_end s.

Lemma open_end_app : forall a b,
  open_end (a ++ b) = match open_end a with None => None | Some cr => open_end_c cr b end.
Proof.
  intros a b. induction a using scan_ind; cbn [app]; scan_case; auto.
Qed.

Lemma open_end_c_app : forall cr a b,
  open_end_c cr (a ++ b) = match open_end_c cr a with None => None | Some cr' => open_end_c cr' b end.
Proof.
  intros [|] a b; cbn [open_end_c]; [|apply open_end_app].
  destruct a as [|x a]; cbn [app]; [reflexivity|apply open_end_app].
Qed.

Lemma scan_none_open : forall s, scan_scalar s = None <-> open_end s <> None.
Proof.
  induction s using scan_ind; scan_case; try tauto; split; intros; congruence.
Qed.

Lemma scan_app_open : forall a b cr, open_end a = Some cr -> scan_scalar (a ++ b) = scan_carry cr b.
Proof.
  induction a using scan_ind; intros b cr HH; cbn [app]; revert HH; scan_case; intros HH; try discriminate; auto.
  - inversion HH; reflexivity.
  - inversion HH. destruct b; reflexivity.
Qed.

Lemma scan_carry_app_open : forall cr a b cr', a <> [] -> open_end_c cr a = Some cr' ->
  scan_carry cr (a ++ b) = scan_carry cr' b.
Proof.
  intros [|] a b cr' Hne H; cbn [open_end_c scan_carry] in *; [|apply scan_app_open; auto].
  destruct a as [|x a]; [congruence|]. cbn [app]. apply scan_app_open; auto.
Qed.

(* block_scan0 against the scalar notions *)
Lemma block_scan0_none : forall blk cr, block_scan0 blk = BNone cr <-> open_end blk = Some cr.
Proof.
  induction blk using scan_ind; intros cr; scan_case; auto; split; intros HH; try discriminate; try congruence.
Qed.

Lemma block_scan0_quote : forall blk after rest, block_scan0 blk = BQuote after ->
  scan_scalar (blk ++ rest) = Some (after ++ rest) /\ open_end blk = None.
Proof.
  induction blk using scan_ind; intros after rest HH; cbn [app]; revert HH; scan_case; intros HH; try discriminate; auto.
  inversion HH; auto.
Qed.

Lemma block_scan_none : forall cr blk cr', blk <> [] -> block_scan cr blk = BNone cr' -> open_end_c cr blk = Some cr'.
Proof.
  intros [|] blk cr' Hne H; cbn [block_scan open_end_c] in *.
  - destruct blk; [congruence|]. apply block_scan0_none; auto.
  - apply block_scan0_none; auto.
Qed.

Lemma block_scan_quote : forall cr blk after rest, blk <> [] -> block_scan cr blk = BQuote after ->
  scan_carry cr (blk ++ rest) = Some (after ++ rest) /\ open_end_c cr blk = None.
Proof.
  intros [|] blk after rest Hne H; cbn [block_scan open_end_c scan_carry] in *.
  - destruct blk; [congruence|]. cbn [app]. apply block_scan0_quote; auto.
  - apply block_scan0_quote; auto.
Qed.

Lemma split_at_spec : forall n s a b, split_at n s = Some (a, b) -> s = a ++ b /\ length a = n.
Proof.
  induction n; intros s a b H; cbn [split_at] in H.
  - inversion H; subst; auto.
  - destruct s as [|c r]; [discriminate|].
    destruct (split_at n r) as [[a' b']|] eqn:E; [|discriminate].
    inversion H; subst. apply IHn in E. destruct E as [-> <-]. auto.
Qed.

Lemma split_at_none : forall n s, split_at n s = None -> (length s < n)%nat.
Proof.
  induction n; intros s H; cbn [split_at] in H; [discriminate|].
  destruct s as [|c r]; [cbn; lia|].
  destruct (split_at n r) as [[a' b']|] eqn:E; [discriminate|]. apply IHn in E. cbn [length]. lia.
Qed.

(* the 64-byte rounds *)
Lemma rounds64_spec : forall fuel cr s, (length s <= fuel)%nat ->
  match rounds64 fuel cr s with
  | inl r => r = scan_carry cr s /\ open_end_c cr s = None
  | inr (cr', s') => exists pre k, s = pre ++ s' /\ length pre = (64 * k)%nat /\ (length s' < 64)%nat /\
                                   open_end_c cr pre = Some cr' /\ scan_carry cr s = scan_carry cr' s'
  end.
Proof.
  induction fuel as [|f IH]; intros cr s Hl; cbn [rounds64].
  - destruct s; [|cbn in Hl; lia]. exists [], 0%nat. cbn. destruct cr; repeat split; auto; lia.
  - destruct (split_at 64 s) as [[blk rest]|] eqn:E.
    + apply split_at_spec in E. destruct E as [-> Hb].
      assert (Hne : blk <> []) by (destruct blk; [cbn in Hb; lia|discriminate]).
      destruct (block_scan cr blk) as [after|cr'] eqn:EB.
      * destruct (block_scan_quote cr blk after rest Hne EB) as [H1 H2]. split; [auto|].
        rewrite open_end_c_app, H2. reflexivity.
      * pose proof (block_scan_none cr blk cr' Hne EB) as HO.
        rewrite app_length in Hl.
        specialize (IH cr' rest ltac:(lia)).
        destruct (rounds64 f cr' rest) as [r|[cr2 s2]].
        -- destruct IH as [-> H2]. split.
           ++ symmetry. apply scan_carry_app_open; auto.
           ++ rewrite open_end_c_app, HO. auto.
        -- destruct IH as [pre [k [-> [Hp [Hs [Ho Hsc]]]]]].
           exists (blk ++ pre), (S k). rewrite app_assoc. repeat split; auto.
           ++ rewrite app_length. lia.
           ++ rewrite open_end_c_app, HO. auto.
           ++ rewrite <- app_assoc. rewrite (scan_carry_app_open cr blk (pre ++ s2) cr' Hne HO). auto.
    + apply split_at_none in E. exists [], 0%nat. cbn. destruct cr; repeat split; auto.
Qed.

(* the input class on which the shipped code is wrong, stated without reference to the blocked routine:
   s (the bytes after the opening quote, up to the end of the input) has no terminator, and with
   L = length s, B = L - L mod 32 (the bytes consumed by the vector rounds):
   either no escape is pending at B and L mod 32 = 0, or an escape is pending at B and L mod 32 = 1 *)
Definition bug_class (s : list N) : bool :=
  let L := length s in
  let B := (L - L mod 32)%nat in
  match open_end s with
  | None => false
  | Some _ =>
      match open_end (firstn B s) with
      | Some pend => if pend then Nat.eqb (L mod 32) 1 else Nat.eqb (L mod 32) 0 && Nat.ltb 0 L
      | None => false
      end
  end.

Lemma open_end_prefix_none : forall a b, open_end a = None -> open_end (a ++ b) = None.
Proof. intros a b H. rewrite open_end_app, H. reflexivity. Qed.

Lemma bug_class_terminated : forall s, open_end s = None -> bug_class s = false.
Proof. intros s H. unfold bug_class. rewrite H. reflexivity. Qed.

Lemma len_split32 : forall (pre s2 : list N) k, length pre = (32 * k)%nat -> (length s2 < 32)%nat ->
  (length (pre ++ s2) mod 32 = length s2 /\ length (pre ++ s2) - length (pre ++ s2) mod 32 = length pre)%nat.
Proof.
  intros pre s2 k Hp Hs. rewrite app_length, Hp.
  assert (((32 * k + length s2) mod 32)%nat = length s2).
  { rewrite Nat.add_comm, Nat.mul_comm, Nat.mod_add by lia. apply Nat.mod_small; lia. }
  lia.
Qed.

Lemma firstn_app_exact : forall (a b : list N), firstn (length a) (a ++ b) = a.
Proof. intros. rewrite firstn_app, Nat.sub_diag, firstn_all. cbn. apply app_nil_r. Qed.

(* tail of the routine: s = pre ++ s2, vector rounds consumed pre (a multiple of 32 bytes), carry cr2 *)
Lemma tail_spec : forall (pre s2 : list N) k cr2,
  pre ++ s2 <> [] ->
  length pre = (32 * k)%nat -> (length s2 < 32)%nat ->
  open_end pre = Some cr2 ->
  (if cr2 then match s2 with [] => None | _ :: s3 => string_tail s3 end else string_tail s2) =
  if bug_class (pre ++ s2) then Some [] else scan_scalar (pre ++ s2).
Proof.
  intros pre s2 k cr2 Hne Hp Hs Ho.
  destruct (len_split32 pre s2 k Hp Hs) as [Hm HB].
  rewrite (scan_app_open pre s2 cr2 Ho).
  unfold bug_class. rewrite HB, Hm, firstn_app_exact, Ho.
  rewrite open_end_app, Ho.
  destruct cr2; cbn [open_end_c scan_carry].
  - destruct s2 as [|x s3]; [reflexivity|].
    destruct s3 as [|y s4].
    + cbn. reflexivity.
    + cbn [string_tail length]. destruct (open_end (y :: s4)) eqn:E; [|reflexivity].
      replace (Nat.eqb (S (S (length s4))) 1) with false by reflexivity. reflexivity.
  - destruct s2 as [|x s3].
    + cbn [string_tail open_end length Nat.eqb andb].
      assert (0 < length (pre ++ []))%nat. { destruct pre; [cbn in Hne; congruence|cbn; lia]. }
      destruct (Nat.ltb_spec 0 (length (pre ++ []))); [reflexivity|lia].
    + cbn [string_tail length]. destruct (open_end (x :: s3)); reflexivity.
Qed.

(* main theorem: the blocked routine against the scalar specification *)
Theorem advance_string_default_spec : forall fuel s, s <> [] -> (length s <= fuel)%nat ->
  advance_string_default fuel s = if bug_class s then Some [] else scan_scalar s.
Proof.
  intros fuel s Hne Hl. unfold advance_string_default.
  destruct s as [|c0 s0] eqn:Es; [congruence|]. rewrite <- Es in *. clear c0 s0 Es.
  pose proof (rounds64_spec fuel false s Hl) as R.
  destruct (rounds64 fuel false s) as [r|[cr s1]].
  - destruct R as [-> HO]. cbn [scan_carry open_end_c] in *. rewrite (bug_class_terminated s HO). reflexivity.
  - destruct R as [pre [k [-> [Hp [Hs [Ho Hsc]]]]]]. cbn [open_end_c scan_carry] in *.
    destruct (split_at 32 s1) as [[blk rest]|] eqn:E.
    + apply split_at_spec in E. destruct E as [-> Hb].
      assert (Hbne : blk <> []) by (destruct blk; [cbn in Hb; lia|discriminate]).
      rewrite app_length in Hs.
      destruct (block_scan cr blk) as [after|cr'] eqn:EB.
      * destruct (block_scan_quote cr blk after rest Hbne EB) as [H1 H2].
        rewrite Hsc, H1.
        rewrite bug_class_terminated; [reflexivity|].
        rewrite open_end_app, Ho, open_end_c_app, H2. reflexivity.
      * pose proof (block_scan_none cr blk cr' Hbne EB) as HO.
        rewrite app_assoc.
        apply (tail_spec (pre ++ blk) rest (2 * k + 1) cr').
        -- rewrite <- app_assoc. auto.
        -- rewrite app_length. lia.
        -- lia.
        -- rewrite open_end_app, Ho. auto.
    + apply split_at_none in E.
      apply (tail_spec pre s1 (2 * k) cr); auto. lia.
Qed.

Corollary scan_blocked_eq_scalar_partial : forall fuel s, s <> [] -> (length s <= fuel)%nat ->
  bug_class s = false -> advance_string_default fuel s = scan_scalar s.
Proof. intros fuel s Hne Hl Hb. rewrite advance_string_default_spec, Hb; auto. Qed.

(* on the defect class the string is unterminated (the scalar scan fails) but the shipped routine accepts it,
   consuming the input up to its end *)
Lemma bug_class_unterminated : forall s, bug_class s = true ->
  scan_scalar s = None /\ (32 <= length s)%nat /\ (length s mod 32 = 0 \/ length s mod 32 = 1)%nat.
Proof.
  intros s H. unfold bug_class in H.
  destruct (open_end s) eqn:E; [|discriminate].
  split; [apply scan_none_open; congruence|].
  destruct (open_end (firstn (length s - length s mod 32) s)) as [[|]|] eqn:E2; [| |discriminate].
  - apply Nat.eqb_eq in H. split; [|auto].
    destruct (Nat.lt_ge_cases (length s) 32) as [Hlt|]; [|lia].
    rewrite (Nat.mod_small _ _ Hlt) in *. rewrite H in E2.
    destruct s as [|x [|y s]]; cbn in H; try lia. cbn in E2. discriminate.
  - apply andb_true_iff in H. destruct H as [H1 H2]. apply Nat.eqb_eq in H1. apply Nat.ltb_lt in H2.
    split; [|auto].
    destruct (Nat.lt_ge_cases (length s) 32) as [Hlt|]; [|lia].
    rewrite (Nat.mod_small _ _ Hlt) in H1. lia.
Qed.

Theorem scan_blocked_refuted : exists s, s <> [] /\
  scan_scalar s = None /\ advance_string_default (length s) s = Some [].
Proof. exists (repeat 97 32). split; [discriminate|]. split; vm_compute; reflexivity. Qed.

(* fuel independence (any fuel >= length s gives the same answer) *)
Corollary advance_string_default_fuel : forall f1 f2 s, (length s <= f1)%nat -> (length s <= f2)%nat ->
  advance_string_default f1 s = advance_string_default f2 s.
Proof.
  intros f1 f2 s H1 H2. destruct s as [|c r] eqn:E; [reflexivity|]. rewrite <- E in *.
  rewrite !advance_string_default_spec; auto; congruence.
Qed.

(* what the FSM proofs use: a successful return is a suffix strictly shorter than the argument *)
Lemma scan_scalar_shorter : forall s r, scan_scalar s = Some r -> (length r < length s)%nat.
Proof.
  induction s using scan_ind; intros r0 HH; revert HH; scan_case; intros HH; try discriminate.
  - inversion HH; subst. cbn; lia.
  - apply IHs in HH. cbn [length]. lia.
  - apply IHs in HH. cbn [length]. lia.
Qed.

Lemma advance_string_default_shorter : forall fuel s r, (length s <= fuel)%nat ->
  advance_string_default fuel s = Some r -> (length r < length s)%nat.
Proof.
  intros fuel s r Hl H. destruct s as [|c s'] eqn:E; [discriminate|]. rewrite <- E in *.
  rewrite advance_string_default_spec in H by (auto; congruence).
  destruct (bug_class s).
  - inversion H; subst. cbn [length]. lia.
  - apply scan_scalar_shorter; auto.
Qed.
