(* The string-validating variant (flags & MASK_VALIDATE_STRING: ConfigStd / ValidateString) accepts a subset of
   what the default variant accepts, with the same spans; hence its accept set is sound for the structural grammar,
   without the exception of the default scanner (advance_string_validate has no uninitialised variable). *)
From Coq Require Import List NArith Bool Arith Lia.
From SV.Json Require Import Chars StrScan NumScan Fsm Grammar StrScanProofs NumScanProofs FsmProofs Lang FsmSound FsmComplete Wrappers.
Import ListNotations.
Open Scope N_scope.

Lemma hex_plain : forall c, is_hex c = true -> (c =? 34) = false /\ (c =? 92) = false.
Proof. intros c H. destruct (is_hex_plain c H). split; apply N.eqb_neq; auto. Qed.

(* scalar tail: success of the validating loop is success of the plain loop, same suffix *)
Lemma string_tail_v_sub : forall n s r, (length s <= n)%nat -> string_tail_v s = SOk r -> scan_scalar s = Some r.
Proof.
  induction n as [|n IH]; intros s r Hl H.
  - destruct s; [discriminate|cbn in Hl; lia].
  - destruct s as [|c s1]; [discriminate|]. cbn [string_tail_v scan_scalar] in *. cbn [length] in Hl.
    destruct (c =? 34); [inversion H; reflexivity|].
    destruct (c =? 92).
    + destruct s1 as [|e r2]; [discriminate|]. cbn [length] in Hl.
      destruct (simple_escape e); [apply IH; auto; lia|].
      destruct (e =? 117); [|discriminate].
      destruct r2 as [|h1 [|h2 [|h3 [|h4 r6]]]]; try discriminate.
      destruct (is_hex h1) eqn:E1; [|discriminate]. destruct (is_hex h2) eqn:E2; [|discriminate].
      destruct (is_hex h3) eqn:E3; [|discriminate]. destruct (is_hex h4) eqn:E4; [|discriminate].
      cbn [andb] in H. cbn [length] in Hl.
      destruct (hex_plain _ E1) as [A1 B1], (hex_plain _ E2) as [A2 B2], (hex_plain _ E3) as [A3 B3], (hex_plain _ E4) as [A4 B4].
      cbn [scan_scalar]. rewrite A1, B1, A2, B2, A3, B3, A4, B4. apply IH; auto; lia.
    + destruct (is_cchar c); [discriminate|]. apply IH; auto; lia.
Qed.

Lemma block_scan_v_quote : forall cr blk after, block_scan_v cr blk = VQuote after -> block_scan cr blk = BQuote after.
Proof.
  intros cr blk after H. unfold block_scan_v in H. destruct (block_scan cr blk) as [a|c].
  - destruct (existsb is_cchar _); [discriminate|]. inversion H; reflexivity.
  - destruct (existsb is_cchar blk); discriminate.
Qed.

Lemma block_scan_v_none : forall cr blk cr', block_scan_v cr blk = VNone cr' -> block_scan cr blk = BNone cr'.
Proof.
  intros cr blk cr' H. unfold block_scan_v in H. destruct (block_scan cr blk) as [a|c].
  - destruct (existsb is_cchar _); discriminate.
  - destruct (existsb is_cchar blk); [discriminate|]. inversion H; reflexivity.
Qed.

Lemma rounds64_v_sub : forall fuel cr s,
  match rounds64_v fuel cr s with
  | inl (SOk r) => rounds64 fuel cr s = inl (Some r)
  | inl _ => True
  | inr x => rounds64 fuel cr s = inr x
  end.
Proof.
  induction fuel as [|f IH]; intros cr s; cbn [rounds64_v rounds64]; [reflexivity|].
  destruct (split_at 64 s) as [[blk rest]|]; [|reflexivity].
  destruct (block_scan_v cr blk) as [after| |cr'] eqn:E.
  - rewrite (block_scan_v_quote _ _ _ E). reflexivity.
  - exact I.
  - rewrite (block_scan_v_none _ _ _ E). apply IH.
Qed.

Lemma carry_tail_v_sub : forall cr s r, carry_tail_v cr s = SOk r ->
  (if cr then match s with [] => None | _ :: s3 => string_tail s3 end else string_tail s) = Some r.
Proof.
  intros cr s r H. unfold carry_tail_v in H.
  assert (T : forall x, string_tail_v x = SOk r -> string_tail x = Some r).
  { intros x Hx. destruct x as [|c x]; [discriminate|]. unfold string_tail.
    apply (string_tail_v_sub (length (c :: x))); auto. }
  destruct cr; [destruct s; [discriminate|]|]; auto.
Qed.

(* advance_string_validate succeeds only where advance_string_default succeeds, with the same suffix *)
Theorem advance_string_validate_sub : forall fuel s r,
  advance_string_validate fuel s = SOk r -> advance_string_default fuel s = Some r.
Proof.
  intros fuel s r H. unfold advance_string_validate in H. unfold advance_string_default.
  destruct s as [|c0 s0]; [discriminate|].
  pose proof (rounds64_v_sub fuel false (c0 :: s0)) as R.
  destruct (rounds64_v fuel false (c0 :: s0)) as [[r1| |]|[cr s1]]; try discriminate.
  - rewrite R. inversion H; reflexivity.
  - rewrite R. destruct (split_at 32 s1) as [[blk rest]|].
    + destruct (block_scan_v cr blk) as [after| |cr'] eqn:E; try discriminate.
      * rewrite (block_scan_v_quote _ _ _ E). inversion H; reflexivity.
      * rewrite (block_scan_v_none _ _ _ E). apply carry_tail_v_sub; auto.
    + apply carry_tail_v_sub; auto.
Qed.

Corollary skip_string_v_sub : forall fuel rest r, skip_string_v fuel rest = Ok r -> skip_string_1 fuel rest = Ok r.
Proof.
  intros fuel rest r H. unfold skip_string_v in H. unfold skip_string_1.
  destruct (advance_string_validate fuel rest) eqn:E; try discriminate. inversion H; subst.
  rewrite (advance_string_validate_sub _ _ _ E). reflexivity.
Qed.

(* the accepted string really is terminated: the defect class of the default scanner is never reached *)
Lemma skip_string_v_terminated : forall fuel rest r, (length rest <= fuel)%nat ->
  skip_string_v fuel rest = Ok r -> bug_class rest = false.
Proof.
  intros fuel rest r Hl H. unfold skip_string_v in H.
  destruct (advance_string_validate fuel rest) eqn:E; try discriminate.
  (* success of the validating scanner is success of the scalar scan *)
  assert (S : scan_scalar rest = Some r0).
  { clear H. unfold advance_string_validate in E. destruct rest as [|c0 s0]; [discriminate|].
    pose proof (rounds64_spec fuel false (c0 :: s0) Hl) as RS.
    pose proof (rounds64_v_sub fuel false (c0 :: s0)) as R.
    destruct (rounds64_v fuel false (c0 :: s0)) as [[r1| |]|[cr s1]]; try discriminate.
    - rewrite R in RS. destruct RS as [RS _]. inversion E; subst. cbn [scan_carry] in RS. auto.
    - rewrite R in RS. destruct RS as (pre & k & Es & Hp & Hs & Ho & Hsc). cbn [scan_carry open_end_c] in *.
      rewrite Hsc.
      assert (CT : forall cr x, carry_tail_v cr x = SOk r0 -> scan_carry cr x = Some r0).
      { intros cr1 x Hx. unfold carry_tail_v in Hx. unfold scan_carry.
        destruct cr1; [destruct x as [|y x]; [discriminate|]|];
          eapply string_tail_v_sub; eauto. }
      destruct (split_at 32 s1) as [[blk rest]|] eqn:E32.
      + apply split_at_spec in E32. destruct E32 as [-> Hb].
        assert (Hbne : blk <> []) by (destruct blk; [cbn in Hb; lia|discriminate]).
        destruct (block_scan_v cr blk) as [after| |cr'] eqn:EB; try discriminate.
        * apply block_scan_v_quote in EB. destruct (block_scan_quote cr blk after rest Hbne EB) as [H1 _].
          inversion E; subst. auto.
        * apply block_scan_v_none in EB. pose proof (block_scan_none cr blk cr' Hbne EB) as HO.
          rewrite (scan_carry_app_open cr blk rest cr' Hbne HO). auto.
      + auto. }
  apply bug_class_terminated. destruct (open_end rest) eqn:O; [|reflexivity].
  exfalso. assert (scan_scalar rest = None) by (apply scan_none_open; congruence). congruence.
Qed.

(* ---- the loop is monotone in the string scanner --------------------------------------------------------- *)

Section Mono.
Variables scanA scanB : nat -> list N -> res (list N).
Hypothesis sub : forall fuel rest r, scanA fuel rest = Ok r -> scanB fuel rest = Ok r.

Lemma bind_ok_l : forall A B (x : res A) (f : A -> res B) a, x = Ok a -> bind x f = f a.
Proof. intros. subst. reflexivity. Qed.

Lemma fsm_value_g_mono : forall fuel slen st ch rest o,
  fsm_value_g scanA fuel slen st ch rest = Ok o -> fsm_value_g scanB fuel slen st ch rest = Ok o.
Proof.
  intros fuel slen st ch rest o H. unfold fsm_value_g in *.
  repeat match type of H with (if ?c then _ else _) = _ => destruct c end; auto.
  apply bind_ok in H. destruct H as [r [H1 H2]]. rewrite (sub _ _ _ H1). exact H2.
Qed.

Lemma fsm_step_g_mono : forall fuel slen t st s o,
  fsm_step_g scanA fuel slen t st s = Ok o -> fsm_step_g scanB fuel slen t st s = Ok o.
Proof.
  intros fuel slen t st s o H. unfold fsm_step_g in *.
  destruct (advance_ns s) as [ch rest]. destruct (ch =? 0); [discriminate|].
  destruct t; auto using fsm_value_g_mono.
  - destruct (negb (ch =? 34)); [discriminate|].
    apply bind_ok in H. destruct H as [r [H1 H2]]. rewrite (sub _ _ _ H1). exact H2.
  - destruct (ch =? 93); auto using fsm_value_g_mono.
  - destruct (ch =? 125); auto. destruct (ch =? 34); auto.
    apply bind_ok in H. destruct H as [r [H1 H2]]. rewrite (sub _ _ _ H1). exact H2.
Qed.

Lemma fsm_exec_g_mono : forall fuel slen st s r,
  fsm_exec_g scanA fuel slen st s = Some (Ok r) -> fsm_exec_g scanB fuel slen st s = Some (Ok r).
Proof.
  induction fuel as [|f IH]; intros slen st s r H; destruct st as [|t st]; cbn [fsm_exec_g] in *; auto.
  destruct (fsm_step_g scanA (S f) slen t st s) as [[st2 s2]|e|] eqn:E; try discriminate.
  rewrite (fsm_step_g_mono _ _ _ _ _ _ E). auto.
Qed.
End Mono.

(* ---- skip_one with MASK_VALIDATE_STRING -------------------------------------------------------------------- *)

Theorem skip_one_vs_sub : forall s v r, skip_one_vs s = Ok (v, r) -> skip_one s = Ok (v, r).
Proof.
  intros s v r H. unfold skip_one_vs, fsm_exec_v in H. unfold skip_one, skip_one_at, fsm_exec_1.
  destruct (fsm_exec_g skip_string_v (S (length s)) (length s) [FSM_VAL] s) as [[r0|e|]|] eqn:E; try discriminate.
  rewrite (fsm_exec_g_mono skip_string_v skip_string_1 skip_string_v_sub _ _ _ _ _ E). exact H.
Qed.

(* soundness at full strength: what the string-validating FSM accepts is blank* followed by a structural value *)
Theorem skip_one_vs_sound : forall s v r, skip_one_vs s = Ok (v, r) ->
  exists w val, s = w ++ val ++ r /\ v = val ++ r /\ all_ws w /\ sval MAX_RECURSE val.
Proof.
  intros s v r H. pose proof (skip_one_vs_sub _ _ _ H) as H0.
  destruct (skip_one_sound_sharp _ _ _ H0) as [G|[-> (w & body & -> & Hw & B)]]; [exact G|exfalso].
  (* a bare string of the defect class is not accepted by the validating scanner: unfold the first iteration *)
  unfold skip_one_vs, fsm_exec_v in H.
  destruct (fsm_exec_g skip_string_v (S (length (w ++ 34 :: body))) (length (w ++ 34 :: body)) [FSM_VAL] (w ++ 34 :: body))
    as [[r0|e|]|] eqn:E; try discriminate.
  cbn [fsm_exec_g] in E. unfold fsm_step_g in E. rewrite advance_ns_app in E by auto.
  change (34 =? 0) with false in E. cbv iota in E. unfold fsm_value_g in E.
  change (is_digit 34) with false in E. change (34 =? 45) with false in E. change (34 =? 110) with false in E.
  change (34 =? 116) with false in E. change (34 =? 102) with false in E. change (34 =? 91) with false in E.
  change (34 =? 123) with false in E. change (34 =? 34) with true in E. cbv iota in E.
  destruct (skip_string_v (S (length (w ++ 34 :: body))) body) as [r1|e1|] eqn:ES; cbn [bind] in E; try discriminate.
  apply skip_string_v_terminated in ES; [congruence|]. rewrite app_length. cbn [length]. lia.
Qed.
