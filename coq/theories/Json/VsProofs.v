(* The string-validating variant (flags & MASK_VALIDATE_STRING: ConfigStd / ValidateString) accepts a subset of
   what the default variant accepts, with the same spans; hence its accept set is sound for the structural grammar,
   without the exception of the default scanner (advance_string_validate has no uninitialised variable). *)
From Coq Require Import List NArith Bool Arith Lia.
From SV.Json Require Import Chars StrScan NumScan Fsm Grammar StrScanProofs NumScanProofs FsmProofs Lang FsmSound FsmComplete Wrappers.
Import ListNotations.
Open Scope N_scope.

Lemma hex_plain : forall c, is_hex c = true -> (c =? 34) = false /\ (c =? 92) = false.
Proof. intros c H. destruct (is_hex_plain c H). split; apply N.eqb_neq; auto. Qed.

(* scalar tail: success of the validating loop is success of the plain loop, same suffix *)
Lemma string_tail_v_sub : forall n s r, (length s <= n)%nat -> string_tail_v s = SOk r -> scan_scalar s = Some r.
Proof.
  induction n as [|n IH]; intros s r Hl H.
  - destruct s; [discriminate|cbn in Hl; lia].
  - destruct s as [|c s1]; [discriminate|]. cbn [string_tail_v scan_scalar] in *. cbn [length] in Hl.
    destruct (c =? 34); [inversion H; reflexivity|].
    destruct (c =? 92).
    + destruct s1 as [|e r2]; [discriminate|]. cbn [length] in Hl.
      destruct (simple_escape e); [apply IH; auto; lia|].
      destruct (e =? 117); [|discriminate].
      destruct r2 as [|h1 [|h2 [|h3 [|h4 r6]]]]; try discriminate.
      destruct (is_hex h1) eqn:E1; [|discriminate]. destruct (is_hex h2) eqn:E2; [|discriminate].
      destruct (is_hex h3) eqn:E3; [|discriminate]. destruct (is_hex h4) eqn:E4; [|discriminate].
      cbn [andb] in H. cbn [length] in Hl.
      destruct (hex_plain _ E1) as [A1 B1], (hex_plain _ E2) as [A2 B2], (hex_plain _ E3) as [A3 B3], (hex_plain _ E4) as [A4 B4].
      cbn [scan_scalar]. rewrite A1, B1, A2, B2, A3, B3, A4, B4. apply IH; auto; lia.
    + destruct (is_cchar c); [discriminate|]. apply IH; auto; lia.
Qed.

Lemma block_scan_v_quote : forall cr blk after, block_scan_v cr blk = VQuote after -> block_scan cr blk = BQuote after.
Proof.
  intros cr blk after H. unfold block_scan_v in H. destruct (block_scan cr blk) as [a|c].
  - destruct (existsb is_cchar _); [discriminate|]. inversion H; reflexivity.
  - destruct (existsb is_cchar blk); discriminate.
Qed.

Lemma block_scan_v_none : forall cr blk cr', block_scan_v cr blk = VNone cr' -> block_scan cr blk = BNone cr'.
Proof.
  intros cr blk cr' H. unfold block_scan_v in H. destruct (block_scan cr blk) as [a|c].
  - destruct (existsb is_cchar _); discriminate.
  - destruct (existsb is_cchar blk); [discriminate|]. inversion H; reflexivity.
Qed.

Lemma rounds64_v_sub : forall fuel cr s,
  match rounds64_v fuel cr s with
  | inl (SOk r) => rounds64 fuel cr s = inl (Some r)
  | inl _ => True
  | inr x => rounds64 fuel cr s = inr x
  end.
Proof.
  induction fuel as [|f IH]; intros cr s; cbn [rounds64_v rounds64]; [reflexivity|].
  destruct (split_at 64 s) as [[blk rest]|]; [|reflexivity].
  destruct (block_scan_v cr blk) as [after| |cr'] eqn:E.
  - rewrite (block_scan_v_quote _ _ _ E). reflexivity.
  - exact I.
  - rewrite (block_scan_v_none _ _ _ E). apply IH.
Qed.

Lemma carry_tail_v_sub : forall cr s r, carry_tail_v cr s = SOk r ->
  (if cr then match s with [] => None | _ :: s3 => string_tail s3 end else string_tail s) = Some r.
Proof.
  intros cr s r H. unfold carry_tail_v in H.
  assert (T : forall x, string_tail_v x = SOk r -> string_tail x = Some r).
  { intros x Hx. destruct x as [|c x]; [discriminate|]. unfold string_tail.
    apply (string_tail_v_sub (length (c :: x))); auto. }
  destruct cr; [destruct s; [discriminate|]|]; auto.
Qed.

(* advance_string_validate succeeds only where advance_string_default succeeds, with the same suffix *)
Theorem advance_string_validate_sub : forall fuel s r,
  advance_string_validate fuel s = SOk r -> advance_string_default fuel s = Some r.
Proof.
  intros fuel s r H. unfold advance_string_validate in H. unfold advance_string_default.
  destruct s as [|c0 s0]; [discriminate|].
  pose proof (rounds64_v_sub fuel false (c0 :: s0)) as R.
  destruct (rounds64_v fuel false (c0 :: s0)) as [[r1| |]|[cr s1]]; try discriminate.
  - rewrite R. inversion H; reflexivity.
  - rewrite R. destruct (split_at 32 s1) as [[blk rest]|].
    + destruct (block_scan_v cr blk) as [after| |cr'] eqn:E; try discriminate.
      * rewrite (block_scan_v_quote _ _ _ E). inversion H; reflexivity.
      * rewrite (block_scan_v_none _ _ _ E). apply carry_tail_v_sub; auto.
    + apply carry_tail_v_sub; auto.
Qed.

Corollary skip_string_v_sub : forall fuel rest r, skip_string_v fuel rest = Ok r -> skip_string_1 fuel rest = Ok r.
Proof.
  intros fuel rest r H. unfold skip_string_v in H. unfold skip_string_1.
  destruct (advance_string_validate fuel rest) eqn:E; try discriminate. inversion H; subst.
  rewrite (advance_string_validate_sub _ _ _ E). reflexivity.
Qed.

(* the accepted string really is terminated: the defect class of the default scanner is never reached *)
Lemma skip_string_v_terminated : forall fuel rest r, (length rest <= fuel)%nat ->
  skip_string_v fuel rest = Ok r -> bug_class rest = false.
Proof.
  intros fuel rest r Hl H. unfold skip_string_v in H.
  destruct (advance_string_validate fuel rest) eqn:E; try discriminate.
  (* success of the validating scanner is success of the scalar scan *)
  assert (S : scan_scalar rest = Some r0).
  { clear H. unfold advance_string_validate in E. destruct rest as [|c0 s0]; [discriminate|].
    pose proof (rounds64_spec fuel false (c0 :: s0) Hl) as RS.
    pose proof (rounds64_v_sub fuel false (c0 :: s0)) as R.
    destruct (rounds64_v fuel false (c0 :: s0)) as [[r1| |]|[cr s1]]; try discriminate.
    - rewrite R in RS. destruct RS as [RS _]. inversion E; subst. cbn [scan_carry] in RS. auto.
    - rewrite R in RS. destruct RS as (pre & k & Es & Hp & Hs & Ho & Hsc). cbn [scan_carry open_end_c] in *.
      rewrite Hsc.
      assert (CT : forall cr x, carry_tail_v cr x = SOk r0 -> scan_carry cr x = Some r0).
      { intros cr1 x Hx. unfold carry_tail_v in Hx. unfold scan_carry.
        destruct cr1; [destruct x as [|y x]; [discriminate|]|];
          eapply string_tail_v_sub; eauto. }
      destruct (split_at 32 s1) as [[blk rest]|] eqn:E32.
      + apply split_at_spec in E32. destruct E32 as [-> Hb].
        assert (Hbne : blk <> []) by (destruct blk; [cbn in Hb; lia|discriminate]).
        destruct (block_scan_v cr blk) as [after| |cr'] eqn:EB; try discriminate.
        * apply block_scan_v_quote in EB. destruct (block_scan_quote cr blk after rest Hbne EB) as [H1 _].
          inversion E; subst. auto.
        * apply block_scan_v_none in EB. pose proof (block_scan_none cr blk cr' Hbne EB) as HO.
          rewrite (scan_carry_app_open cr blk rest cr' Hbne HO). auto.
      + auto. }
  apply bug_class_terminated. destruct (open_end rest) eqn:O; [|reflexivity].
  exfalso. assert (scan_scalar rest = None) by (apply scan_none_open; congruence). congruence.
Qed.

(* ---- the loop is monotone in the string scanner --------------------------------------------------------- *)

Section Mono.
Variables scanA scanB : nat -> list N -> res (list N).
Hypothesis sub : forall fuel rest r, scanA fuel rest = Ok r -> scanB fuel rest = Ok r.

Lemma bind_ok_l : forall A B (x : res A) (f : A -> res B) a, x = Ok a -> bind x f = f a.
Proof. intros. subst. reflexivity. Qed.

Lemma fsm_value_g_mono : forall fuel slen st ch rest o,
  fsm_value_g scanA fuel slen st ch rest = Ok o -> fsm_value_g scanB fuel slen st ch rest = Ok o.
Proof.
  intros fuel slen st ch rest o H. unfold fsm_value_g in *.
  repeat match type of H with (if ?c then _ else _) = _ => destruct c end; auto.
  apply bind_ok in H. destruct H as [r [H1 H2]]. rewrite (sub _ _ _ H1). exact H2.
Qed.

Lemma fsm_step_g_mono : forall fuel slen t st s o,
  fsm_step_g scanA fuel slen t st s = Ok o -> fsm_step_g scanB fuel slen t st s = Ok o.
Proof.
  intros fuel slen t st s o H. unfold fsm_step_g in *.
  destruct (advance_ns s) as [ch rest]. destruct (ch =? 0); [discriminate|].
  destruct t; auto using fsm_value_g_mono.
  - destruct (negb (ch =? 34)); [discriminate|].
    apply bind_ok in H. destruct H as [r [H1 H2]]. rewrite (sub _ _ _ H1). exact H2.
  - destruct (ch =? 93); auto using fsm_value_g_mono.
  - destruct (ch =? 125); auto. destruct (ch =? 34); auto.
    apply bind_ok in H. destruct H as [r [H1 H2]]. rewrite (sub _ _ _ H1). exact H2.
Qed.

Lemma fsm_exec_g_mono : forall fuel slen st s r,
  fsm_exec_g scanA fuel slen st s = Some (Ok r) -> fsm_exec_g scanB fuel slen st s = Some (Ok r).
Proof.
  induction fuel as [|f IH]; intros slen st s r H; destruct st as [|t st]; cbn [fsm_exec_g] in *; auto.
  destruct (fsm_step_g scanA (S f) slen t st s) as [[st2 s2]|e|] eqn:E; try discriminate.
  rewrite (fsm_step_g_mono _ _ _ _ _ _ E). auto.
Qed.
End Mono.

(* ---- skip_one with MASK_VALIDATE_STRING -------------------------------------------------------------------- *)

Theorem skip_one_vs_sub : forall s v r, skip_one_vs s = Ok (v, r) -> skip_one s = Ok (v, r).
Proof.
  intros s v r H. unfold skip_one_vs, fsm_exec_v in H. unfold skip_one, skip_one_at, fsm_exec_1.
  destruct (fsm_exec_g skip_string_v (S (length s)) (length s) [FSM_VAL] s) as [[r0|e|]|] eqn:E; try discriminate.
  rewrite (fsm_exec_g_mono skip_string_v skip_string_1 skip_string_v_sub _ _ _ _ _ E). exact H.
Qed.

(* soundness at full strength: what the string-validating FSM accepts is blank* followed by a structural value *)
Theorem skip_one_vs_sound : forall s v r, skip_one_vs s = Ok (v, r) ->
  exists w val, s = w ++ val ++ r /\ v = val ++ r /\ all_ws w /\ sval MAX_RECURSE val.
Proof.
  intros s v r H. pose proof (skip_one_vs_sub _ _ _ H) as H0.
  destruct (skip_one_sound_sharp _ _ _ H0) as [G|[-> (w & body & -> & Hw & B)]]; [exact G|exfalso].
  (* a bare string of the defect class is not accepted by the validating scanner: unfold the first iteration *)
  unfold skip_one_vs, fsm_exec_v in H.
  destruct (fsm_exec_g skip_string_v (S (length (w ++ 34 :: body))) (length (w ++ 34 :: body)) [FSM_VAL] (w ++ 34 :: body))
    as [[r0|e|]|] eqn:E; try discriminate.
  cbn [fsm_exec_g] in E. unfold fsm_step_g in E. rewrite advance_ns_app in E by auto.
  change (34 =? 0) with false in E. cbv iota in E. unfold fsm_value_g in E.
  change (is_digit 34) with false in E. change (34 =? 45) with false in E. change (34 =? 110) with false in E.
  change (34 =? 116) with false in E. change (34 =? 102) with false in E. change (34 =? 91) with false in E.
  change (34 =? 123) with false in E. change (34 =? 34) with true in E. cbv iota in E.
  destruct (skip_string_v (S (length (w ++ 34 :: body))) body) as [r1|e1|] eqn:ES; cbn [bind] in E; try discriminate.
  apply skip_string_v_terminated in ES; [congruence|]. rewrite app_length. cbn [length]. lia.
Qed.

(* ---- completeness of advance_string_validate on strict RFC 8259 string bodies --------------------------------
   (no control characters, every escape one of the eight single-character ones or u + 4 hex digits): accepted
   with exactly the body, wherever the vector rounds fall and for every fuel *)

Lemma simple_escape_plain : forall x, simple_escape x = true -> is_cchar x = false.
Proof.
  intros x H. unfold simple_escape in H. repeat rewrite orb_true_iff in H. repeat rewrite N.eqb_eq in H.
  unfold is_cchar. apply N.ltb_ge. lia.
Qed.

Lemma hex_not_cchar : forall c, is_hex c = true -> is_cchar c = false.
Proof.
  intros c H. unfold is_hex, is_digit in H. repeat rewrite orb_true_iff in H. repeat rewrite andb_true_iff in H.
  repeat rewrite N.leb_le in H. unfold is_cchar. apply N.ltb_ge. lia.
Qed.

Lemma strict_nocc : forall b, strict_body b -> existsb is_cchar b = false.
Proof.
  induction 1; cbn [existsb]; auto.
  - rewrite IHstrict_body, orb_false_r. unfold is_cchar. apply N.ltb_ge. lia.
  - rewrite IHstrict_body, (simple_escape_plain _ H). reflexivity.
  - rewrite IHstrict_body, (hex_not_cchar _ H), (hex_not_cchar _ H0), (hex_not_cchar _ H1), (hex_not_cchar _ H2). reflexivity.
Qed.

Lemma sbody_open_end : forall b, sbody b -> open_end b = Some false.
Proof. induction 1; scan_case; auto. Qed.

Lemma open_end_prefix : forall p q c, open_end (p ++ q) = Some c -> exists c', open_end p = Some c'.
Proof. intros p q c H. rewrite open_end_app in H. destruct (open_end p); [eauto|discriminate]. Qed.

Lemma block_scan0_app : forall x y c, open_end x = Some c -> block_scan0 (x ++ y) = block_scan c y.
Proof.
  induction x using scan_ind; intros y c0 HH; cbn [app]; revert HH; scan_case; intros HH; try discriminate; auto.
  - inversion HH. reflexivity.
  - inversion HH. destruct y; reflexivity.
Qed.

Lemma block_scan_app : forall cr x y c, open_end_c cr x = Some c -> block_scan cr (x ++ y) = block_scan c y.
Proof.
  intros [|] x y c H; cbn [open_end_c block_scan] in *.
  - destruct x as [|a x]; cbn [app].
    + inversion H. reflexivity.
    + apply block_scan0_app; auto.
  - apply block_scan0_app; auto.
Qed.

Lemma block_scan_none_of : forall cr blk c, open_end_c cr blk = Some c -> block_scan cr blk = BNone c.
Proof.
  intros cr blk c H. rewrite <- (app_nil_r blk). rewrite (block_scan_app cr blk [] c H).
  destruct c; reflexivity.
Qed.

(* scalar tail on a suffix of a strict body: b = p ++ x, p left the scan with carry cr *)
Lemma plain_step : forall c t, (c =? 34) = false -> (c =? 92) = false -> is_cchar c = false ->
  string_tail_v (c :: t) = string_tail_v t.
Proof. intros c t A B C. cbn [string_tail_v]. rewrite A, B, C. reflexivity. Qed.

Lemma hex_step : forall c t, is_hex c = true -> string_tail_v (c :: t) = string_tail_v t.
Proof. intros c t H. destruct (hex_plain _ H). apply plain_step; auto. apply hex_not_cchar; auto. Qed.

Lemma string_tail_v_strict : forall b r, strict_body b -> string_tail_v (b ++ 34 :: r) = SOk r.
Proof.
  induction 1; cbn [app].
  - cbn [string_tail_v]. reflexivity.
  - rewrite plain_step; auto; try (apply N.eqb_neq; auto). unfold is_cchar. apply N.ltb_ge. lia.
  - cbn [string_tail_v]. change (92 =? 34) with false. change (92 =? 92) with true. cbv iota. rewrite H. auto.
  - cbn [string_tail_v]. change (92 =? 34) with false. change (92 =? 92) with true. cbv iota.
    change (simple_escape 117) with false. change (117 =? 117) with true. cbv iota.
    rewrite H, H0, H1, H2. cbn [andb]. auto.
Qed.

Lemma carry_tail_v_strict : forall b r, strict_body b -> forall p x cr, b = p ++ x -> open_end p = Some cr ->
  carry_tail_v cr (x ++ 34 :: r) = SOk r.
Proof.
  induction 1; intros p xs cr E O.
  - destruct p; [|discriminate]. destruct xs; [|discriminate]. cbn in O. inversion O; subst. reflexivity.
  - destruct p as [|a p].
    + cbn [app] in E. subst xs. cbn in O. inversion O; subst. cbn [carry_tail_v].
      apply (string_tail_v_strict (c :: b)). apply stb_char; auto.
    + cbn [app] in E. inversion E; subst a. revert O. scan_case. intros O. eapply IHstrict_body; eauto.
  - destruct p as [|a [|a2 p]].
    + cbn [app] in E. subst xs. cbn in O. inversion O; subst. cbn [carry_tail_v].
      apply (string_tail_v_strict (92 :: x :: b)). apply stb_esc; auto.
    + cbn [app] in E. inversion E; subst. cbn in O. inversion O; subst. cbn [carry_tail_v app].
      apply string_tail_v_strict; auto.
    + cbn [app] in E. inversion E; subst. revert O. scan_case. intros O. eapply IHstrict_body; eauto.
  - (* 92 117 h1 h2 h3 h4 b : the split may fall anywhere inside the escape *)
    destruct (hex_plain _ H) as [A1 B1], (hex_plain _ H0) as [A2 B2], (hex_plain _ H1) as [A3 B3], (hex_plain _ H2) as [A4 B4].
    assert (S0 : string_tail_v (b ++ 34 :: r) = SOk r) by (apply string_tail_v_strict; auto).
    destruct p as [|a0 [|a1 [|a2 [|a3 [|a4 [|a5 p]]]]]]; cbn [app] in E; inversion E; subst; try clear E.
    + cbn in O. inversion O; subst. cbn [carry_tail_v].
      apply (string_tail_v_strict (92 :: 117 :: h1 :: h2 :: h3 :: h4 :: b)). apply stb_u; auto.
    + cbn in O. inversion O; subst. cbn [carry_tail_v app]. rewrite !hex_step; auto.
    + cbn in O. inversion O; subst. cbn [carry_tail_v app]. rewrite !hex_step; auto.
    + cbn in O. rewrite ?A1, ?B1, ?A2, ?B2, ?A3, ?B3, ?A4, ?B4 in O. inversion O; subst. cbn [carry_tail_v app]. rewrite ?hex_step; auto.
    + cbn in O. rewrite ?A1, ?B1, ?A2, ?B2, ?A3, ?B3, ?A4, ?B4 in O. inversion O; subst. cbn [carry_tail_v app]. rewrite ?hex_step; auto.
    + cbn in O. rewrite ?A1, ?B1, ?A2, ?B2, ?A3, ?B3, ?A4, ?B4 in O. inversion O; subst. cbn [carry_tail_v app]. rewrite ?hex_step; auto.
    + cbn [open_end] in O. change (92 =? 34) with false in O. change (92 =? 92) with true in O. cbv iota in O.
      cbn [open_end] in O. rewrite ?A1, ?B1, ?A2, ?B2, ?A3, ?B3, ?A4, ?B4 in O. eapply IHstrict_body; eauto.
Qed.

(* state of the rounds: what is left is a suffix x of the body, then the closing quote and r *)
Definition st_ok (b r : list N) (cr : bool) (s : list N) : Prop :=
  exists p x, b = p ++ x /\ s = x ++ 34 :: r /\ open_end p = Some cr.

Lemma existsb_sub : forall (p x q : list N), existsb is_cchar (p ++ x ++ q) = false -> existsb is_cchar x = false.
Proof. intros p x q H. rewrite !existsb_app in H. repeat (apply orb_false_iff in H; destruct H as [? H]). auto. Qed.

Lemma round_ok : forall b r cr s n blk rest, strict_body b -> st_ok b r cr s ->
  split_at n s = Some (blk, rest) ->
  (exists after, block_scan_v cr blk = VQuote after /\ after ++ rest = r) \/
  (exists cr', block_scan_v cr blk = VNone cr' /\ st_ok b r cr' rest).
Proof.
  intros b r cr s n blk rest Hb (p & x & Eb & Es & O) E.
  apply split_at_spec in E. destruct E as [E _]. rewrite Es in E.
  pose proof (strict_body_sbody _ Hb) as Sb. pose proof (sbody_open_end _ Sb) as Ob.
  pose proof (strict_nocc _ Hb) as NC.
  symmetry in E. apply app_eq_app in E. destruct E as [l [[E1 E2]|[E1 E2]]].
  - (* blk = x ++ l *)
    destruct l as [|q l].
    + (* the block is exactly x: no quote in it *)
      right. rewrite app_nil_r in E1. subst blk. cbn [app] in E2. subst rest.
      assert (OC : open_end_c cr x = Some false).
      { rewrite Eb, open_end_app, O in Ob. exact Ob. }
      exists false. split.
      * unfold block_scan_v. rewrite (block_scan_none_of _ _ _ OC).
        rewrite Eb in NC. rewrite <- (app_nil_r x) in NC. rewrite (existsb_sub p x [] NC). reflexivity.
      * exists b, []. rewrite app_nil_r. repeat split; auto.
    + (* the closing quote is in the block *)
      left. inversion E2; subst q. subst blk. exists l. split; [|reflexivity].
      assert (OC : open_end_c cr x = Some false).
      { rewrite Eb, open_end_app, O in Ob. exact Ob. }
      unfold block_scan_v. rewrite (block_scan_app cr x (34 :: l) false OC). cbn [block_scan block_scan0].
      change (34 =? 34) with true. cbv iota.
      replace (Nat.sub (length (x ++ 34 :: l)) (S (length l))) with (length x) by (rewrite app_length; cbn [length]; lia).
      rewrite firstn_app_exact.
      rewrite Eb in NC. rewrite <- (app_nil_r x) in NC. rewrite (existsb_sub p x [] NC). reflexivity.
  - (* x = blk ++ l : the block lies inside the body *)
    right. subst x rest.
    assert (exists c', open_end (p ++ blk) = Some c') as [c' Oc].
    { apply (open_end_prefix (p ++ blk) l false). rewrite <- app_assoc, <- Eb. exact Ob. }
    assert (OC : open_end_c cr blk = Some c') by (rewrite open_end_app, O in Oc; exact Oc).
    exists c'. split.
    + unfold block_scan_v. rewrite (block_scan_none_of _ _ _ OC).
      rewrite Eb in NC. rewrite (existsb_sub p blk l NC). reflexivity.
    + exists (p ++ blk), l. rewrite <- app_assoc. auto.
Qed.

Theorem advance_string_validate_complete : forall fuel b r, strict_body b ->
  advance_string_validate fuel (b ++ 34 :: r) = SOk r.
Proof.
  intros fuel b r Hb. unfold advance_string_validate.
  destruct (b ++ 34 :: r) as [|c0 s0] eqn:Es; [destruct b; discriminate|]. rewrite <- Es.
  assert (I0 : st_ok b r false (b ++ 34 :: r)) by (exists [], b; auto).
  (* the 64-byte rounds keep the invariant or find the closing quote *)
  assert (R : forall f cr s, st_ok b r cr s ->
            rounds64_v f cr s = inl (SOk r) \/ exists cr' s', rounds64_v f cr s = inr (cr', s') /\ st_ok b r cr' s').
  { induction f as [|f IH]; intros cr s I; cbn [rounds64_v]; [right; eauto|].
    destruct (split_at 64 s) as [[blk rest]|] eqn:E; [|right; eauto].
    destruct (round_ok _ _ _ _ _ _ _ Hb I E) as [(after & -> & <-)|(cr' & -> & I')]; [left; reflexivity|auto]. }
  destruct (R fuel false _ I0) as [->|(cr & s1 & -> & I1)]; [reflexivity|].
  assert (T : forall cr s, st_ok b r cr s -> carry_tail_v cr s = SOk r).
  { intros cr2 s2 (p & x & Eb & -> & O). eapply carry_tail_v_strict; eauto. }
  destruct (split_at 32 s1) as [[blk rest]|] eqn:E; [|auto].
  destruct (round_ok _ _ _ _ _ _ _ Hb I1 E) as [(after & -> & <-)|(cr' & -> & I')]; [reflexivity|auto].
Qed.
