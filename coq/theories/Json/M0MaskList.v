(* The odd/even backslash-run bit trick (m0_mask of advance_string_default/_validate, get_string_maskx64,
   skip_string_fast) over little-endian bit lists of ANY even length W, proved equal to the sequential definition
   of "escaped position" and "pending escape at the end of the block".

     m1 &= ~cr;  fe = (m1 << 1) | cr;  os = (m1 & ~fe) & ODD_MASK;  es = add(os, m1, &cr) << 1;
     escaped = fe & (es ^ EVEN_MASK)

   `trick` is the left-to-right (ripple) reading of these word operations: at bit i it knows
     ie   = i is even                       (EVEN_MASK / ODD_MASK bit)
     prev = fe[i]   = m1[i-1]  (cr for i = 0)
     c    = the carry of the addition os + m1 into bit i
     sp   = es[i]   = sum[i-1] (0 for i = 0)
   M0MaskWord.v shows that the N-level expressions have exactly these bits. *)
From Coq Require Import List Bool Arith Lia.
Import ListNotations.

(* sequential definition: esc = "this position is escaped" (an odd run of backslashes ends right before it) *)
Fixpoint esc_flags (esc : bool) (bs : list bool) : list bool * bool :=
  match bs with
  | [] => ([], esc)
  | b :: r => let (f, o) := esc_flags (if b then negb esc else false) r in (esc :: f, o)
  end.

Fixpoint trick (ie prev c sp : bool) (bs : list bool) : list bool * bool :=
  match bs with
  | [] => ([], c)
  | b :: r =>
      let os := b && negb prev && negb ie in                 (* (m1 & ~fe) & ODD_MASK *)
      let s := xorb (xorb os b) c in                         (* bit of os + m1 *)
      let c' := (os && b) || (os && c) || (b && c) in        (* carry out of this bit *)
      let e := prev && xorb sp ie in                         (* fe & (es ^ EVEN_MASK) *)
      let (es, out) := trick (negb ie) b c' s r in
      (e :: es, out)
  end.

(* m1 &= ~cr first *)
Definition m0_mask_bits (cr : bool) (bs : list bool) : list bool * bool :=
  match bs with
  | [] => ([], cr)
  | b0 :: r => trick true cr false false ((b0 && negb cr) :: r)
  end.

(* the three situations the ripple can be in, against the sequential flag *)
Definition inv (ie prev c sp esc : bool) : Prop :=
  (prev = false /\ c = false /\ esc = false) \/                 (* previous byte is not a backslash *)
  (prev = true /\ c = true /\ sp = false /\ esc = ie) \/        (* inside a run that started at an odd position *)
  (prev = true /\ c = false /\ sp = true /\ esc = negb ie).     (* inside a run that started at an even position *)

Lemma trick_spec : forall bs ie prev c sp esc, inv ie prev c sp esc ->
  (Nat.even (length bs) = ie -> snd (trick ie prev c sp bs) = snd (esc_flags esc bs)) /\
  (forall i, nth i bs true = false -> nth i (fst (trick ie prev c sp bs)) false = nth i (fst (esc_flags esc bs)) false).
Proof.
  induction bs as [|b r IH]; intros ie prev c sp esc I.
  - cbn. split.
    + intros <-. destruct I as [(-> & -> & ->)|[(-> & -> & -> & ->)|(-> & -> & -> & ->)]]; reflexivity.
    + intros [|i]; discriminate.
  - cbn [trick esc_flags].
    set (os := b && negb prev && negb ie).
    set (s := xorb (xorb os b) c).
    set (c' := (os && b) || (os && c) || (b && c)).
    set (esc' := if b then negb esc else false).
    assert (I' : inv (negb ie) b c' s esc').
    { subst os s c' esc'. unfold inv in *.
      destruct I as [(-> & -> & ->)|[(-> & -> & -> & ->)|(-> & -> & -> & ->)]]; destruct b, ie; cbn; tauto. }
    destruct (IH (negb ie) b c' s esc' I') as [IH1 IH2].
    destruct (trick (negb ie) b c' s r) as [es out] eqn:ET.
    destruct (esc_flags esc' r) as [fl o] eqn:EF. cbn [fst snd] in *.
    split.
    + intros HL. apply IH1. cbn [length] in HL. rewrite Nat.even_succ in HL. rewrite <- Nat.negb_even in HL.
      destruct (Nat.even (length r)), ie; cbn in *; congruence.
    + intros [|i] Hi; cbn [nth] in *.
      * subst b. unfold inv in I.
        destruct I as [(-> & -> & ->)|[(-> & -> & -> & ->)|(-> & -> & -> & ->)]]; destruct ie; reflexivity.
      * apply IH2; auto.
Qed.

(* m0_mask_spec over bit lists: for every even width, every backslash mask and both carries, the trick marks
   exactly the escaped positions (at the positions that are not backslashes themselves - the only ones a quote can
   occupy) and its carry out is the pending escape at the end of the block *)
Theorem m0_mask_bits_spec : forall cr bs, Nat.even (length bs) = true ->
  snd (m0_mask_bits cr bs) = snd (esc_flags cr bs) /\
  (forall i, nth i bs true = false -> nth i (fst (m0_mask_bits cr bs)) false = nth i (fst (esc_flags cr bs)) false).
Proof.
  intros cr bs HL. destruct bs as [|b0 r]; [split; [reflexivity|intros [|i]; discriminate]|].
  unfold m0_mask_bits. destruct cr.
  - (* carry in: position 0 is escaped, a backslash there does not start a run *)
    rewrite andb_false_r. cbn [trick esc_flags]. cbn [andb negb xorb orb].
    replace (if b0 then false else false) with false by (destruct b0; reflexivity).
    assert (I : inv false false false false false) by (left; auto).
    destruct (trick_spec r false false false false false I) as [H1 H2].
    destruct (trick false false false false r) as [es out]. destruct (esc_flags false r) as [fl o].
    cbn [fst snd] in *. split.
    + apply H1. cbn [length] in HL. rewrite Nat.even_succ, <- Nat.negb_even in HL.
      destruct (Nat.even (length r)); cbn in *; congruence.
    + intros [|i] Hi; cbn [nth] in *; auto.
  - rewrite andb_true_r.
    assert (I : inv true false false false false) by (left; auto).
    destruct (trick_spec (b0 :: r) true false false false false I) as [H1 H2]. split; auto.
Qed.

(* length facts *)
Lemma trick_length : forall bs ie prev c sp, length (fst (trick ie prev c sp bs)) = length bs.
Proof.
  induction bs as [|b r IH]; intros; [reflexivity|]. cbn [trick].
  specialize (IH (negb ie) b ((b && negb prev && negb ie && b) || (b && negb prev && negb ie && c) || (b && c))
                 (xorb (xorb (b && negb prev && negb ie) b) c)).
  destruct (trick _ _ _ _ r). cbn [fst length] in *. congruence.
Qed.

Lemma esc_flags_length : forall bs esc, length (fst (esc_flags esc bs)) = length bs.
Proof.
  induction bs as [|b r IH]; intros; [reflexivity|]. cbn [esc_flags].
  specialize (IH (if b then negb esc else false)). destruct (esc_flags _ r). cbn [fst length] in *. congruence.
Qed.
