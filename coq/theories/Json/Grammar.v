(* The structural grammar of JSON (RFC 8259 structure; string bodies relaxed to "bytes with backslash pairs,
   ending at the first unescaped quote") as an inductive predicate on byte strings, indexed by the number of
   stack frames the validating FSM needs for the value (`sval h v`: v is a value needing at most h frames), and
   the strict RFC 8259 grammar indexed by nesting depth (`strict d v`), with strict d v -> sval (S d) v. *)
From Coq Require Import List NArith Bool Arith Lia.
From SV.Json Require Import Chars.
Import ListNotations.
Open Scope N_scope.

(* ---- numbers (RFC 8259 section 6) ----------------------------------------------------------------- *)

Definition digits (d : list N) : Prop := d <> [] /\ forallb is_digit d = true.

Definition sint (i : list N) : Prop :=
  i = [48] \/ exists c d, i = c :: d /\ is_digit c = true /\ c <> 48 /\ forallb is_digit d = true.

Definition sfrac (f : list N) : Prop := f = [] \/ exists d, f = 46 :: d /\ digits d.

Definition sexp (e : list N) : Prop :=
  e = [] \/ exists x d, is_exp x = true /\ digits d /\ (e = x :: d \/ exists g, is_sign g = true /\ e = x :: g :: d).

Definition sunsigned (n : list N) : Prop := exists i f e, n = i ++ f ++ e /\ sint i /\ sfrac f /\ sexp e.

Definition snumber (n : list N) : Prop := sunsigned n \/ exists m, n = 45 :: m /\ sunsigned m.

(* ---- string bodies -------------------------------------------------------------------------------- *)

(* relaxed: any bytes, a backslash pairs with the byte after it, no unpaired quote *)
Inductive sbody : list N -> Prop :=
| sb_nil : sbody []
| sb_char : forall c b, c <> 34 -> c <> 92 -> sbody b -> sbody (c :: b)
| sb_esc : forall x b, sbody b -> sbody (92 :: x :: b).

Definition sstring (s : list N) : Prop := exists b, sbody b /\ s = 34 :: b ++ [34].

Definition lit_null : list N := [110; 117; 108; 108].
Definition lit_true : list N := [116; 114; 117; 101].
Definition lit_false : list N := [102; 97; 108; 115; 101].

(* ---- values ------------------------------------------------------------------------------------------
   sval h v : v (no surrounding blanks) is a structurally valid value for which the FSM needs at most h stack
   frames beyond the ones below it:  scalars 0;  []  {}  1;  [v1] 1 + need v1;  [v1,...,vn] (n >= 2) and
   {"k":v,...}  max 2 (1 + need vi).
   atail h t : t is what may follow an element inside an array ( blank* ] | blank* , blank* value atail )
   otail h t : the same for objects ( blank* } | blank* , blank* string blank* : blank* value otail ) *)
Inductive sval : nat -> list N -> Prop :=
| SV_null : forall h, sval h lit_null
| SV_true : forall h, sval h lit_true
| SV_false : forall h, sval h lit_false
| SV_num : forall h n, snumber n -> sval h n
| SV_str : forall h b, sbody b -> sval h (34 :: b ++ [34])
| SV_arr0 : forall h w, all_ws w -> sval (S h) (91 :: w ++ [93])
| SV_arr : forall h w v t, all_ws w -> sval h v -> atail h t -> sval (S h) (91 :: w ++ v ++ t)
| SV_obj0 : forall h w, all_ws w -> sval (S h) (123 :: w ++ [125])
| SV_obj : forall h w b w1 w2 v t, all_ws w -> sbody b -> all_ws w1 -> all_ws w2 -> sval (S h) v -> otail (S h) t ->
    sval (S (S h)) (123 :: w ++ 34 :: b ++ 34 :: w1 ++ 58 :: w2 ++ v ++ t)
with atail : nat -> list N -> Prop :=
| AT_end : forall h w, all_ws w -> atail h (w ++ [93])
| AT_more : forall h w w' v t, all_ws w -> all_ws w' -> sval (S h) v -> atail (S h) t ->
    atail (S h) (w ++ 44 :: w' ++ v ++ t)
with otail : nat -> list N -> Prop :=
| OT_end : forall h w, all_ws w -> otail h (w ++ [125])
| OT_more : forall h w w0 b w1 w2 v t, all_ws w -> all_ws w0 -> sbody b -> all_ws w1 -> all_ws w2 ->
    sval (S h) v -> otail (S h) t -> otail (S h) (w ++ 44 :: w0 ++ 34 :: b ++ 34 :: w1 ++ 58 :: w2 ++ v ++ t).

Scheme sval_mind := Minimality for sval Sort Prop
  with atail_mind := Minimality for atail Sort Prop
  with otail_mind := Minimality for otail Sort Prop.
Combined Scheme sval_mutind from sval_mind, atail_mind, otail_mind.

(* structurally valid JSON value, any nesting *)
Definition sjson (v : list N) : Prop := exists h, sval h v.

(* monotonicity in the frame budget *)
Lemma sval_mono_all :
  (forall h v, sval h v -> forall h', (h <= h')%nat -> sval h' v) /\
  (forall h t, atail h t -> forall h', (h <= h')%nat -> atail h' t) /\
  (forall h t, otail h t -> forall h', (h <= h')%nat -> otail h' t).
Proof.
  apply sval_mutind; intros;
  repeat match goal with
  | Hle : (S _ <= ?h')%nat |- _ => is_var h'; destruct h'; [lia|apply le_S_n in Hle]
  end;
  (constructor; solve [auto with arith]).
Qed.

Lemma sval_mono : forall h h' v, sval h v -> (h <= h')%nat -> sval h' v.
Proof. intros. eapply (proj1 sval_mono_all); eauto. Qed.

(* ---- strict RFC 8259 (what encoding/json.Valid accepts, UTF-8 aside), indexed by nesting depth ------ *)

Inductive strict_body : list N -> Prop :=
| stb_nil : strict_body []
| stb_char : forall c b, c <> 34 -> c <> 92 -> 32 <= c -> strict_body b -> strict_body (c :: b)
| stb_esc : forall x b, simple_escape x = true -> strict_body b -> strict_body (92 :: x :: b)
| stb_u : forall h1 h2 h3 h4 b, is_hex h1 = true -> is_hex h2 = true -> is_hex h3 = true -> is_hex h4 = true ->
    strict_body b -> strict_body (92 :: 117 :: h1 :: h2 :: h3 :: h4 :: b).

(* strict d v : v is a JSON text value of nesting depth at most d (scalars 0, containers 1 + their members) *)
Inductive strict : nat -> list N -> Prop :=
| ST_null : forall d, strict d lit_null
| ST_true : forall d, strict d lit_true
| ST_false : forall d, strict d lit_false
| ST_num : forall d n, snumber n -> strict d n
| ST_str : forall d b, strict_body b -> strict d (34 :: b ++ [34])
| ST_arr0 : forall d w, all_ws w -> strict (S d) (91 :: w ++ [93])
| ST_arr : forall d w v t, all_ws w -> strict d v -> strict_atail d t -> strict (S d) (91 :: w ++ v ++ t)
| ST_obj0 : forall d w, all_ws w -> strict (S d) (123 :: w ++ [125])
| ST_obj : forall d w b w1 w2 v t, all_ws w -> strict_body b -> all_ws w1 -> all_ws w2 -> strict d v -> strict_otail d t ->
    strict (S d) (123 :: w ++ 34 :: b ++ 34 :: w1 ++ 58 :: w2 ++ v ++ t)
with strict_atail : nat -> list N -> Prop :=
| SAT_end : forall d w, all_ws w -> strict_atail d (w ++ [93])
| SAT_more : forall d w w' v t, all_ws w -> all_ws w' -> strict d v -> strict_atail d t ->
    strict_atail d (w ++ 44 :: w' ++ v ++ t)
with strict_otail : nat -> list N -> Prop :=
| SOT_end : forall d w, all_ws w -> strict_otail d (w ++ [125])
| SOT_more : forall d w w0 b w1 w2 v t, all_ws w -> all_ws w0 -> strict_body b -> all_ws w1 -> all_ws w2 ->
    strict d v -> strict_otail d t -> strict_otail d (w ++ 44 :: w0 ++ 34 :: b ++ 34 :: w1 ++ 58 :: w2 ++ v ++ t).

Scheme strict_mind := Minimality for strict Sort Prop
  with strict_atail_mind := Minimality for strict_atail Sort Prop
  with strict_otail_mind := Minimality for strict_otail Sort Prop.
Combined Scheme strict_mutind from strict_mind, strict_atail_mind, strict_otail_mind.

Lemma is_hex_plain : forall c, is_hex c = true -> c <> 34 /\ c <> 92.
Proof.
  intros c H. unfold is_hex, is_digit in H.
  repeat rewrite orb_true_iff in H. repeat rewrite andb_true_iff in H. repeat rewrite N.leb_le in H. lia.
Qed.

Lemma strict_body_sbody : forall b, strict_body b -> sbody b.
Proof.
  induction 1.
  - constructor.
  - apply sb_char; auto.
  - apply sb_esc; auto.
  - apply sb_esc.
    apply is_hex_plain in H, H0, H1, H2.
    repeat (apply sb_char; try tauto).
Qed.

(* a strict value of depth d is a structural value needing at most d + 1 frames *)
Lemma strict_sval_all :
  (forall d v, strict d v -> sval (S d) v) /\
  (forall d t, strict_atail d t -> atail (S d) t) /\
  (forall d t, strict_otail d t -> otail (S d) t).
Proof.
  apply strict_mutind; intros; (constructor; solve [auto using strict_body_sbody]).
Qed.

Theorem strict_sub_sval : forall d v, strict d v -> sval (S d) v.
Proof. exact (proj1 strict_sval_all). Qed.

Corollary strict_sub_sjson : forall d v, strict d v -> sjson v.
Proof. intros d v H. exists (S d). apply strict_sub_sval; auto. Qed.
