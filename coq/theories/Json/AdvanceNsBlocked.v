(* advance_ns / lspace_1 as written (four unrolled scalar tests, then the vector loop of lspace_1 - 32-byte rounds
   under AVX2, none under SSE - then its scalar tail) equals the specification Fsm.advance_ns (skip the blanks, return
   the next byte).  The vector loop is the generic cascade finder of Simd/Blocked.v (b-c10). *)
From Coq Require Import List NArith Bool Arith Lia.
From SV.Json Require Import Chars StrScan Fsm.
From SV.Simd Require Import Blocked.
Import ListNotations.
Open Scope N_scope.

Lemma is_space_isspace : forall c, is_space c = isspace c.
Proof. intros c. unfold is_space, isspace. destruct (c =? 32), (c =? 9), (c =? 10), (c =? 13); reflexivity. Qed.

(* lspace_1(sp, nb, p): index of the first non-blank byte at or after p (nb when there is none); `ps` is the list
   of vector phases of the compilation: [Loop 32] for AVX2, [] for SSE *)
Definition lspace_1 (ps : list phase) (s : list N) : nat := cascade non_space ps s.

(* if (vi < nb && !isspace(sp[vi])) goto nospace; else vi++;     -- on the suffix at vi *)
Definition ns_test (s : list N) : option (N * list N) + list N :=
  match s with
  | [] => inr []                                   (* vi >= nb: vi++ *)
  | c :: r => if negb (isspace c) then inl (Some (c, r)) else inr r
  end.

Definition advance_ns_c (ps : list phase) (s : list N) : N * list N :=
  match ns_test s with inl (Some x) => x | inl None => (0, []) | inr s1 =>
  match ns_test s1 with inl (Some x) => x | inl None => (0, []) | inr s2 =>
  match ns_test s2 with inl (Some x) => x | inl None => (0, []) | inr s3 =>
  match ns_test s3 with inl (Some x) => x | inl None => (0, []) | inr s4 =>
    match s4 with
    | [] => (0, [])                                 (* /* check EOF */ if (vi >= nb) return 0 *)
    | _ =>
        (* /* too many spaces, use SIMD to search for characters */ *)
        match skipn (lspace_1 ps s4) s4 with
        | [] => (0, [])                             (* lspace_1(...) >= nb *)
        | c :: r => (c, r)                          (* nospace: *p = vi + 1; return src->buf[vi] *)
        end
    end
  end end end end.

Lemma skipn_find_drop_ws : forall s, skipn (find_scalar non_space s) s = drop_ws s.
Proof.
  induction s as [|c r IH]; [reflexivity|]. cbn [find_scalar drop_ws]. unfold non_space at 1. rewrite is_space_isspace.
  destruct (isspace c); cbn [negb]; [exact IH|reflexivity].
Qed.

Lemma ns_test_spec : forall s,
  match ns_test s with
  | inl (Some x) => advance_ns s = x
  | inl None => False
  | inr s1 => drop_ws s = drop_ws s1
  end.
Proof.
  intros [|c r]; cbn [ns_test]; [reflexivity|]. destruct (isspace c) eqn:E; cbn [negb].
  - cbn [drop_ws]. rewrite E. reflexivity.
  - unfold advance_ns. rewrite drop_ws_nonspace by auto. reflexivity.
Qed.

(* both compilations of advance_ns equal the specification *)
Theorem advance_ns_c_eq : forall ps, Forall (fun ph => width ph > 0)%nat ps ->
  forall s, advance_ns_c ps s = advance_ns s.
Proof.
  intros ps Hps s. unfold advance_ns_c.
  pose proof (ns_test_spec s) as T0. destruct (ns_test s) as [[x|]|s1]; [auto|tauto|].
  pose proof (ns_test_spec s1) as T1. destruct (ns_test s1) as [[x|]|s2]; [unfold advance_ns in *; rewrite T0; auto|tauto|].
  pose proof (ns_test_spec s2) as T2. destruct (ns_test s2) as [[x|]|s3]; [unfold advance_ns in *; rewrite T0, T1; auto|tauto|].
  pose proof (ns_test_spec s3) as T3. destruct (ns_test s3) as [[x|]|s4]; [unfold advance_ns in *; rewrite T0, T1, T2; auto|tauto|].
  unfold advance_ns. rewrite T0, T1, T2, T3.
  destruct s4 as [|c4 r4]; [reflexivity|].
  unfold lspace_1. rewrite (cascade_eq_scalar non_space ps Hps), skipn_find_drop_ws. reflexivity.
Qed.

Corollary advance_ns_avx2_eq : forall s, advance_ns_c [Loop 32] s = advance_ns s.
Proof. apply advance_ns_c_eq. repeat constructor. Qed.

Corollary advance_ns_sse_eq : forall s, advance_ns_c [] s = advance_ns s.
Proof. apply advance_ns_c_eq. constructor. Qed.
