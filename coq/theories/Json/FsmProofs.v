(* Basic facts about the FSM model: stack bound, progress (every iteration consumes input), fuel sufficiency. *)
From Coq Require Import List NArith Bool Arith Lia.
From SV.Json Require Import Chars StrScan NumScan Fsm.
Import ListNotations.
Open Scope N_scope.

(* ---- fsm_push ------------------------------------------------------------------------------------- *)

Lemma fsm_push_ok : forall st t, (length st < MAX_RECURSE)%nat -> fsm_push st t = Ok (t :: st).
Proof.
  intros st t H. unfold fsm_push. destruct (Nat.leb MAX_RECURSE (length st)) eqn:E; [|reflexivity].
  apply Nat.leb_le in E. lia.
Qed.

Lemma fsm_push_full : forall st t, (MAX_RECURSE <= length st)%nat -> fsm_push st t = Err ERR_RECURSE_MAX.
Proof.
  intros st t H. unfold fsm_push. destruct (Nat.leb MAX_RECURSE (length st)) eqn:E; [reflexivity|].
  apply Nat.leb_gt in E. lia.
Qed.

Lemma fsm_push_inv : forall st t st', fsm_push st t = Ok st' -> st' = t :: st /\ (length st < MAX_RECURSE)%nat.
Proof.
  intros st t st' H. unfold fsm_push in H. destruct (Nat.leb MAX_RECURSE (length st)) eqn:E; [discriminate|].
  apply Nat.leb_gt in E. inversion H. auto.
Qed.

Lemma fsm_push_never_undef : forall st t, fsm_push st t <> Undef.
Proof. intros st t. unfold fsm_push. destruct (Nat.leb _ _); discriminate. Qed.

(* ---- the stack never exceeds MAX_RECURSE ------------------------------------------------------------ *)

Lemma bind_ok : forall A B (r : res A) (f : A -> res B) b, bind r f = Ok b -> exists a, r = Ok a /\ f a = Ok b.
Proof. intros A B r f b H. destruct r; cbn in H; try discriminate. eauto. Qed.

Lemma fsm_value_stack : forall fuel slen st ch rest st' s',
  fsm_value fuel slen st ch rest = Ok (st', s') ->
  st' = st \/ (exists t, st' = t :: st /\ (length st < MAX_RECURSE)%nat).
Proof.
  intros fuel slen st ch rest st' s' H. unfold fsm_value, fsm_value_g in H.
  repeat match type of H with
  | (if ?c then _ else _) = _ => destruct c
  end;
  try discriminate;
  apply bind_ok in H; destruct H as [a [Ha Hb]]; inversion Hb; subst;
  try (left; reflexivity);
  apply fsm_push_inv in Ha; destruct Ha as [-> Hl]; right; eauto.
Qed.

Lemma fsm_step_stack : forall fuel slen t st s st' s',
  (length (t :: st) <= MAX_RECURSE)%nat ->
  fsm_step fuel slen t st s = Ok (st', s') ->
  (length st' <= MAX_RECURSE)%nat.
Proof.
  intros fuel slen t st s st' s' Hl H. unfold fsm_step, fsm_step_g in H; fold fsm_value in H.
  destruct (advance_ns s) as [ch rest].
  destruct (ch =? 0); [discriminate|].
  cbn [length] in Hl.
  destruct t.
  - apply fsm_value_stack in H. destruct H as [->|[t [-> Hlt]]]; cbn [length]; lia.
  - destruct (ch =? 93); [inversion H; subst; lia|].
    destruct (ch =? 44); [|discriminate].
    apply bind_ok in H. destruct H as [a [Ha Hb]]. inversion Hb; subst.
    apply fsm_push_inv in Ha. destruct Ha as [-> Hlt]. cbn [length] in *. lia.
  - destruct (ch =? 125); [inversion H; subst; lia|].
    destruct (ch =? 44); [|discriminate].
    apply bind_ok in H. destruct H as [a [Ha Hb]]. inversion Hb; subst.
    apply fsm_push_inv in Ha. destruct Ha as [-> Hlt]. cbn [length] in *. lia.
  - destruct (negb (ch =? 34)); [discriminate|].
    apply bind_ok in H. destruct H as [a [Ha Hb]]. inversion Hb; subst. cbn [length]. lia.
  - destruct (negb (ch =? 58)); [discriminate|]. inversion H; subst. cbn [length]. lia.
  - destruct (ch =? 93); [inversion H; subst; lia|].
    apply fsm_value_stack in H. destruct H as [->|[t [-> Hlt]]]; cbn [length] in *; lia.
  - destruct (ch =? 125); [inversion H; subst; lia|].
    destruct (ch =? 34); [|discriminate].
    apply bind_ok in H. destruct H as [a [Ha Hb]].
    apply bind_ok in Hb. destruct Hb as [b [Hb Hc]]. inversion Hc; subst.
    apply fsm_push_inv in Hb. destruct Hb as [-> Hlt]. cbn [length] in *. lia.
Qed.

(* reachable configurations of the loop, from any start stack within the bound *)
Inductive reach (slen : nat) : list vt -> list N -> list vt -> list N -> Prop :=
| reach_refl : forall st s, reach slen st s st s
| reach_step : forall fuel st0 s0 t st s st' s',
    reach slen st0 s0 (t :: st) s -> fsm_step fuel slen t st s = Ok (st', s') -> reach slen st0 s0 st' s'.

Theorem fsm_stack_inv : forall slen st0 s0 st s,
  (length st0 <= MAX_RECURSE)%nat -> reach slen st0 s0 st s -> (0 <= length st <= MAX_RECURSE)%nat.
Proof.
  intros slen st0 s0 st s H0 R. induction R; [lia|].
  split; [lia|]. eapply fsm_step_stack; [|eassumption]. apply IHR in H0. lia.
Qed.

(* fsm_init: sp = 1 *)
Corollary fsm_stack_inv_init : forall slen s0 st s,
  reach slen [FSM_VAL] s0 st s -> (0 <= length st <= MAX_RECURSE)%nat.
Proof. intros. eapply fsm_stack_inv; [|eassumption]. cbn. unfold MAX_RECURSE. lia. Qed.
