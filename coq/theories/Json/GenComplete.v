(* Completeness of the FSM loop, generic in the string scanner `scan` and in the class B of string bodies the
   scanner is complete for.  (A copy of Grammar.sval / Lang.lang / FsmComplete with `sbody` replaced by B.)
   Instance: the string-validating scanner (MASK_VALIDATE_STRING) with B = strict_body, which gives: every strict
   RFC 8259 document of nesting depth < MAX_RECURSE is accepted under ConfigStd / ValidateString, with its exact span. *)
From Coq Require Import List NArith Bool Arith Lia.
From SV.Json Require Import Chars StrScan NumScan Fsm Grammar StrScanProofs NumScanProofs FsmProofs Lang FsmSound FsmComplete Wrappers VsProofs.
Import ListNotations.
Open Scope N_scope.

Section Generic.
Variable B : list N -> Prop.
Variable scan : nat -> list N -> res (list N).
Hypothesis scan_complete : forall fuel b r, B b -> Nat.le (length (b ++ 34 :: r)) fuel -> scan fuel (b ++ 34 :: r) = Ok r.
Hypothesis step_shorter_h : forall fuel slen t st s st' s',
  fsm_step_g scan fuel slen t st s = Ok (st', s') -> (length s <= fuel)%nat -> (length s' < length s)%nat.

Inductive gval : nat -> list N -> Prop :=
| GV_null : forall h, gval h lit_null
| GV_true : forall h, gval h lit_true
| GV_false : forall h, gval h lit_false
| GV_num : forall h n, snumber n -> gval h n
| GV_str : forall h b, B b -> gval h (34 :: b ++ [34])
| GV_arr0 : forall h w, all_ws w -> gval (S h) (91 :: w ++ [93])
| GV_arr : forall h w v t, all_ws w -> gval h v -> gatail h t -> gval (S h) (91 :: w ++ v ++ t)
| GV_obj0 : forall h w, all_ws w -> gval (S h) (123 :: w ++ [125])
| GV_obj : forall h w b w1 w2 v t, all_ws w -> B b -> all_ws w1 -> all_ws w2 -> gval (S h) v -> gotail (S h) t ->
    gval (S (S h)) (123 :: w ++ 34 :: b ++ 34 :: w1 ++ 58 :: w2 ++ v ++ t)
with gatail : nat -> list N -> Prop :=
| GAT_end : forall h w, all_ws w -> gatail h (w ++ [93])
| GAT_more : forall h w w' v t, all_ws w -> all_ws w' -> gval (S h) v -> gatail (S h) t ->
    gatail (S h) (w ++ 44 :: w' ++ v ++ t)
with gotail : nat -> list N -> Prop :=
| GOT_end : forall h w, all_ws w -> gotail h (w ++ [125])
| GOT_more : forall h w w0 b w1 w2 v t, all_ws w -> all_ws w0 -> B b -> all_ws w1 -> all_ws w2 ->
    gval (S h) v -> gotail (S h) t -> gotail (S h) (w ++ 44 :: w0 ++ 34 :: b ++ 34 :: w1 ++ 58 :: w2 ++ v ++ t).

Scheme gval_mind := Minimality for gval Sort Prop
  with gatail_mind := Minimality for gatail Sort Prop
  with gotail_mind := Minimality for gotail Sort Prop.
Combined Scheme gval_mutind from gval_mind, gatail_mind, gotail_mind.

(* monotonicity in the gframe budget *)
Lemma gval_mono_all :
  (forall h v, gval h v -> forall h', (h <= h')%nat -> gval h' v) /\
  (forall h t, gatail h t -> forall h', (h <= h')%nat -> gatail h' t) /\
  (forall h t, gotail h t -> forall h', (h <= h')%nat -> gotail h' t).
Proof.
  apply gval_mutind; intros;
  repeat match goal with
  | Hle : (S _ <= ?h')%nat |- _ => is_var h'; destruct h'; [lia|apply le_S_n in Hle]
  end;
  (constructor; solve [auto with arith]).
Qed.

Lemma gval_mono : forall h h' v, gval h v -> (h <= h')%nat -> gval h' v.
Proof. intros. eapply (proj1 gval_mono_all); eauto. Qed.

Definition gfollow_ok (v rest : list N) : Prop :=
  snumber v -> numclass (hd0 rest) = false.

Definition gframe_val (b : nat) (x rest : list N) : Prop :=
  exists w v, x = w ++ v /\ all_ws w /\ gval b v /\ gfollow_ok v rest.

Definition gframe (t : vt) (b : nat) (x rest : list N) : Prop :=
  match t with
  | FSM_VAL => gframe_val b x rest
  | FSM_ARR => gatail (b - 1) x
  | FSM_OBJ => gotail (b - 1) x
  | FSM_KEY => exists w bd w1 y, x = w ++ 34 :: bd ++ 34 :: w1 ++ 58 :: y /\ all_ws w /\ B bd /\ all_ws w1 /\ gframe_val b y rest
  | FSM_ELEM => exists w y, x = w ++ 58 :: y /\ all_ws w /\ gframe_val b y rest
  | FSM_ARR_0 => (exists w, x = w ++ [93] /\ all_ws w) \/
                 (exists w v t, x = w ++ v ++ t /\ all_ws w /\ gval (b - 1) v /\ gatail (b - 1) t)
  | FSM_OBJ_0 => (exists w, x = w ++ [125] /\ all_ws w) \/
                 (exists w bd w1 w2 v t, x = w ++ 34 :: bd ++ 34 :: w1 ++ 58 :: w2 ++ v ++ t /\ (2 <= b)%nat /\
                    all_ws w /\ B bd /\ all_ws w1 /\ all_ws w2 /\ gval (b - 1) v /\ gotail (b - 1) t)
  end.

Fixpoint glang (st : list vt) (s r : list N) : Prop :=
  match st with
  | [] => s = r
  | t :: st' => exists x s', s = x ++ s' /\ gframe t (MAX_RECURSE - length st') x s' /\ glang st' s' r
  end.

Lemma gatail_hd : forall h t s, gatail h t -> numclass (hd0 (t ++ s)) = false.
Proof.
  intros h t s H. inversion H; subst; rewrite <- app_assoc; cbn [app]; apply hd0_ws_app; auto.
Qed.

Lemma gotail_hd : forall h t s, gotail h t -> numclass (hd0 (t ++ s)) = false.
Proof.
  intros h t s H. inversion H; subst; rewrite <- app_assoc; cbn [app]; apply hd0_ws_app; auto.
Qed.
(* ---- one value ------------------------------------------------------------------------------------- *)

Lemma gvalue_complete : forall fuel slen st0 b v s1 r,
  gval b v -> (b + length st0 <= MAX_RECURSE)%nat ->
  (snumber v -> numclass (hd0 s1) = false) ->
  glang st0 s1 r ->
  (length (v ++ s1) <= fuel)%nat -> (length (v ++ s1) <= slen)%nat ->
  exists c rest st' s', v ++ s1 = c :: rest /\ isspace c = false /\ (c =? 0) = false /\ (c =? 93) = false /\
    fsm_value_g scan fuel slen st0 c rest = Ok (st', s') /\ glang st' s' r /\
    ((length st0 <= MAX_RECURSE)%nat -> (length st' <= MAX_RECURSE)%nat).
Proof.
  intros fuel slen st0 b v s1 r Hv Hb Hfol L Hf Hs.
  inversion Hv; subst.
  - (* null *)
    exists 110, (lit_ull ++ s1), st0, s1. cbn [lit_null app] in *. unfold fsm_value_g. ev.
    rewrite advance_dword_complete by (cbn [length] in Hs; lia). cbn [bind]. repeat split; auto.
  - exists 116, (lit_rue ++ s1), st0, s1. cbn [lit_true app] in *. unfold fsm_value_g. ev.
    rewrite advance_dword_complete by (cbn [length] in Hs; lia). cbn [bind]. repeat split; auto.
  - exists 102, (lit_alse ++ s1), st0, s1. cbn [lit_false app] in *. unfold fsm_value_g. ev.
    rewrite advance_dword_complete by (cbn [length] in Hs; lia). cbn [bind]. repeat split; auto.
  - (* number *)
    assert (Hnf := Hfol H).
    destruct H as [Hu|[m [-> Hu]]].
    + destruct (sunsigned_head _ Hu) as [c [n' [-> Hc]]].
      destruct (digit_facts c Hc) as (F1 & F2 & F3 & F4 & F5).
      exists c, (n' ++ s1), st0, s1. unfold fsm_value_g. rewrite Hc.
      unfold skip_positive_1. change (c :: n' ++ s1) with ((c :: n') ++ s1).
      rewrite num_complete by auto. cbn [bind]. repeat split; auto.
    + destruct (sunsigned_head _ Hu) as [c [n' [-> Hc]]].
      exists 45, ((c :: n') ++ s1), st0, s1. unfold fsm_value_g. ev.
      unfold skip_negative_1. cbn [app]. rewrite Hc. cbn [negb].
      change (c :: n' ++ s1) with ((c :: n') ++ s1).
      rewrite num_complete by auto. cbn [bind]. repeat split; auto.
  - (* string *)
    exists 34, (b0 ++ 34 :: s1), st0, s1. unfold fsm_value_g. ev.
    rewrite scan_complete; auto.
    + cbn [bind]. repeat split; auto. cbn [app]. rewrite <- app_assoc. reflexivity.
    + cbn [app length] in Hf. rewrite <- app_assoc in Hf. cbn [app] in Hf. lia.
  - (* [] *)
    exists 91, (w ++ 93 :: s1), (FSM_ARR_0 :: st0), (w ++ 93 :: s1). unfold fsm_value_g. ev.
    rewrite fsm_push_ok by lia. cbn [bind]. repeat split; auto.
    + cbn [app]. rewrite <- app_assoc. reflexivity.
    + cbn [glang]. exists (w ++ [93]), s1. rewrite <- app_assoc. split; [reflexivity|]. split; [|auto].
      cbn [gframe]. left. eauto.
    + cbn [length]. lia.
  - (* [v ...] *)
    exists 91, (w ++ v0 ++ t ++ s1), (FSM_ARR_0 :: st0), (w ++ v0 ++ t ++ s1). unfold fsm_value_g. ev.
    rewrite fsm_push_ok by lia. cbn [bind]. repeat split; auto.
    + cbn [app]. rewrite <- !app_assoc. reflexivity.
    + cbn [glang]. exists (w ++ v0 ++ t), s1. rewrite <- !app_assoc. split; [reflexivity|]. split; [|auto].
      cbn [gframe]. right. exists w, v0, t. repeat split; auto.
      * eapply gval_mono; eauto. lia.
      * eapply (proj1 (proj2 gval_mono_all)); eauto. lia.
    + cbn [length]. lia.
  - (* {} *)
    exists 123, (w ++ 125 :: s1), (FSM_OBJ_0 :: st0), (w ++ 125 :: s1). unfold fsm_value_g. ev.
    rewrite fsm_push_ok by lia. cbn [bind]. repeat split; auto.
    + cbn [app]. rewrite <- app_assoc. reflexivity.
    + cbn [glang]. exists (w ++ [125]), s1. rewrite <- app_assoc. split; [reflexivity|]. split; [|auto].
      cbn [gframe]. left. eauto.
    + cbn [length]. lia.
  - (* {"k":v ...} *)
    exists 123, (w ++ 34 :: b0 ++ 34 :: w1 ++ 58 :: w2 ++ v0 ++ t ++ s1), (FSM_OBJ_0 :: st0),
           (w ++ 34 :: b0 ++ 34 :: w1 ++ 58 :: w2 ++ v0 ++ t ++ s1). unfold fsm_value_g. ev.
    rewrite fsm_push_ok by lia. cbn [bind]. repeat split; auto.
    + cbn [app]. repeat (rewrite <- !app_assoc; cbn [app]). reflexivity.
    + cbn [glang]. exists (w ++ 34 :: b0 ++ 34 :: w1 ++ 58 :: w2 ++ v0 ++ t), s1.
      split; [repeat (rewrite <- !app_assoc; cbn [app]); reflexivity|]. split; [|auto].
      cbn [gframe]. right. exists w, b0, w1, w2, v0, t. repeat split; auto.
      * lia.
      * eapply gval_mono; eauto. lia.
      * eapply (proj2 (proj2 gval_mono_all)); eauto. lia.
    + cbn [length]. lia.
Qed.

(* ---- one iteration ------------------------------------------------------------------------------------ *)

Lemma gstep_complete : forall fuel slen t st s r,
  glang (t :: st) s r -> (length (t :: st) <= MAX_RECURSE)%nat ->
  (length s <= fuel)%nat -> (length s <= slen)%nat ->
  exists st' s', fsm_step_g scan fuel slen t st s = Ok (st', s') /\ glang st' s' r /\ (length st' <= MAX_RECURSE)%nat.
Proof.
  intros fuel slen t st s r L Hst Hf Hs. cbn [glang] in L. destruct L as (x & s1 & -> & Fr & L).
  cbn [length] in Hst.
  remember (MAX_RECURSE - length st)%nat as b eqn:Hb.
  (* the VAL-like dispatch through fsm_value *)
  assert (VAL : forall st0 w v s2, all_ws w -> gval (MAX_RECURSE - length st0) v ->
            (snumber v -> numclass (hd0 s2) = false) -> glang st0 s2 r ->
            (length st0 <= MAX_RECURSE)%nat ->
            (length (w ++ v ++ s2) <= fuel)%nat -> (length (w ++ v ++ s2) <= slen)%nat ->
            exists c rest st' s', advance_ns (w ++ v ++ s2) = (c, rest) /\ (c =? 0) = false /\ (c =? 93) = false /\
              fsm_value_g scan fuel slen st0 c rest = Ok (st', s') /\ glang st' s' r /\ (length st' <= MAX_RECURSE)%nat).
  { intros st0 w v s2 Hw Hv Hfo L0 Hl0 Hf0 Hs0. rewrite app_length in Hf0, Hs0.
    destruct (gvalue_complete fuel slen st0 _ v s2 r Hv ltac:(lia) Hfo L0 ltac:(lia) ltac:(lia))
      as (c & rest & st' & s' & E & F1 & F2 & F3 & FV & L' & HL).
    exists c, rest, st', s'. rewrite E. rewrite advance_ns_app by auto. repeat split; auto. }
  destruct t; cbn [gframe] in Fr.
  - (* VAL *)
    destruct Fr as (w & v & -> & Hw & Hv & Hfo).
    rewrite <- app_assoc in *.
    destruct (VAL st w v s1 Hw ltac:(subst b; auto) Hfo L ltac:(lia) Hf Hs)
      as (c & rest & st' & s' & EA & F2 & F3 & FV & L' & HL).
    exists st', s'. unfold fsm_step_g. rewrite EA, F2. auto.
  - (* ARR *)
    inversion Fr; subst.
    + exists st, s1. unfold fsm_step_g. rewrite <- app_assoc. cbn [app]. rewrite advance_ns_app by auto. ev.
      repeat split; auto. lia.
    + exists (FSM_VAL :: FSM_ARR :: st), (w' ++ v ++ t ++ s1). unfold fsm_step_g.
      repeat (rewrite <- !app_assoc; cbn [app]). rewrite advance_ns_app by auto. ev.
      rewrite fsm_push_ok by (cbn [length]; lia). cbn [bind]. split; [reflexivity|]. split; [|cbn [length]; lia].
      cbn [glang]. exists (w' ++ v), (t ++ s1). rewrite <- app_assoc. split; [reflexivity|]. split.
      * cbn [gframe length]. exists w', v. repeat split; auto.
        -- replace (MAX_RECURSE - S (length st))%nat with (S h) by lia. auto.
        -- intros _. eapply gatail_hd; eauto.
      * exists t, s1. split; [reflexivity|]. split; [|auto]. cbn [gframe]. rewrite <- H. auto.
  - (* OBJ *)
    inversion Fr; subst.
    + exists st, s1. unfold fsm_step_g. rewrite <- app_assoc. cbn [app]. rewrite advance_ns_app by auto. ev.
      repeat split; auto. lia.
    + exists (FSM_KEY :: FSM_OBJ :: st), (w0 ++ 34 :: b0 ++ 34 :: w1 ++ 58 :: w2 ++ v ++ t ++ s1). unfold fsm_step_g.
      repeat (rewrite <- !app_assoc; cbn [app]). rewrite advance_ns_app by auto. ev.
      rewrite fsm_push_ok by (cbn [length]; lia). cbn [bind]. split; [reflexivity|]. split; [|cbn [length]; lia].
      cbn [glang]. exists (w0 ++ 34 :: b0 ++ 34 :: w1 ++ 58 :: w2 ++ v), (t ++ s1).
      split; [repeat (rewrite <- !app_assoc; cbn [app]); reflexivity|]. split.
      * cbn [gframe length]. exists w0, b0, w1, (w2 ++ v). repeat split; auto.
        exists w2, v. repeat split; auto.
        -- replace (MAX_RECURSE - S (length st))%nat with (S h) by lia. auto.
        -- intros _. eapply gotail_hd; eauto.
      * exists t, s1. split; [reflexivity|]. split; [|auto]. cbn [gframe]. rewrite <- H. auto.
  - (* KEY *)
    destruct Fr as (w & bd & w1 & y & -> & Hw & Hbd & Hw1 & Fv).
    exists (FSM_ELEM :: st), (w1 ++ 58 :: y ++ s1). unfold fsm_step_g.
    repeat (rewrite <- !app_assoc; cbn [app]). rewrite advance_ns_app by auto. ev.
    rewrite scan_complete; auto.
    + cbn [bind]. split; [reflexivity|]. split; [|cbn [length]; lia].
      cbn [glang]. exists (w1 ++ 58 :: y), s1. split; [rewrite <- app_assoc; reflexivity|]. split; [|auto].
      cbn [gframe]. exists w1, y. rewrite <- Hb. auto.
    + repeat (rewrite <- !app_assoc in Hf; cbn [app] in Hf). rewrite app_length in Hf. cbn [length] in Hf. lia.
  - (* ELEM *)
    destruct Fr as (w & y & -> & Hw & Fv).
    exists (FSM_VAL :: st), (y ++ s1). unfold fsm_step_g.
    repeat (rewrite <- !app_assoc; cbn [app]). rewrite advance_ns_app by auto. ev.
    split; [reflexivity|]. split; [|cbn [length]; lia].
    cbn [glang]. exists y, s1. split; [reflexivity|]. split; [|auto]. cbn [gframe]. rewrite <- Hb. auto.
  - (* ARR_0 *)
    destruct Fr as [(w & -> & Hw)|(w & v & t0 & -> & Hw & Hv & Ht)].
    + exists st, s1. unfold fsm_step_g. rewrite <- app_assoc. cbn [app]. rewrite advance_ns_app by auto. ev.
      repeat split; auto. lia.
    + assert (Hb1 : (1 <= b)%nat). { inversion Ht; subst; lia. }
      rewrite <- !app_assoc in *.
      assert (LA : glang (FSM_ARR :: st) (t0 ++ s1) r).
      { cbn [glang]. exists t0, s1. split; [reflexivity|]. split; [|auto]. cbn [gframe]. rewrite <- Hb. auto. }
      destruct (VAL (FSM_ARR :: st) w v (t0 ++ s1) Hw) as (c & rest & st' & s' & EA & F2 & F3 & FV & L' & HL); auto.
      * cbn [length]. replace (MAX_RECURSE - S (length st))%nat with (b - 1)%nat by lia. auto.
      * intros _. eapply gatail_hd; eauto.
      * exists st', s'. unfold fsm_step_g. rewrite EA, F2, F3. auto.
  - (* OBJ_0 *)
    destruct Fr as [(w & -> & Hw)|(w & bd & w1 & w2 & v & t0 & -> & H2b & Hw & Hbd & Hw1 & Hw2 & Hv & Ht)].
    + exists st, s1. unfold fsm_step_g. rewrite <- app_assoc. cbn [app]. rewrite advance_ns_app by auto. ev.
      repeat split; auto. lia.
    + exists (FSM_ELEM :: FSM_OBJ :: st), (w1 ++ 58 :: w2 ++ v ++ t0 ++ s1). unfold fsm_step_g.
      repeat (rewrite <- !app_assoc; cbn [app]). rewrite advance_ns_app by auto. ev.
      rewrite scan_complete; auto.
      * cbn [bind]. rewrite fsm_push_ok by (cbn [length]; lia). cbn [bind].
        split; [reflexivity|]. split; [|cbn [length]; lia].
        cbn [glang]. exists (w1 ++ 58 :: w2 ++ v), (t0 ++ s1).
        split; [repeat (rewrite <- !app_assoc; cbn [app]); reflexivity|]. split.
        -- cbn [gframe length]. exists w1, (w2 ++ v). repeat split; auto. exists w2, v. repeat split; auto.
           ++ replace (MAX_RECURSE - S (length st))%nat with (b - 1)%nat by lia. auto.
           ++ intros _. eapply gotail_hd; eauto.
        -- exists t0, s1. split; [reflexivity|]. split; [|auto]. cbn [gframe]. rewrite <- Hb. auto.
      * repeat (rewrite <- !app_assoc in Hf; cbn [app] in Hf). rewrite app_length in Hf. cbn [length] in Hf. lia.
Qed.

(* ---- the loop ------------------------------------------------------------------------------------------ *)

Theorem gexec_complete : forall fuel slen st s r,
  glang st s r -> (length st <= MAX_RECURSE)%nat -> (length s < fuel)%nat -> (length s <= slen)%nat ->
  fsm_exec_g scan fuel slen st s = Some (Ok r).
Proof.
  induction fuel as [|f IH]; intros slen st s r L Hst Hf Hs; [lia|].
  destruct st as [|t st]; cbn [fsm_exec_g].
  - cbn [glang] in L. subst. reflexivity.
  - destruct (gstep_complete (S f) slen t st s r L Hst ltac:(lia) Hs) as (st' & s' & ES & L' & Hst').
    rewrite ES.
    pose proof (step_shorter_h _ _ _ _ _ _ _ ES ltac:(lia)) as Hsh.
    apply IH; auto; lia.
Qed.

(* validate_one / skip_one: every structural value needing at most MAX_RECURSE frames, after blanks, followed by
   anything that does not continue a number, is accepted with exactly its span *)
Theorem gfsm_complete : forall fuel slen w v r,
  all_ws w -> gval MAX_RECURSE v -> (snumber v -> numclass (hd0 r) = false) ->
  (length (w ++ v ++ r) < fuel)%nat -> (length (w ++ v ++ r) <= slen)%nat ->
  fsm_exec_g scan fuel slen [FSM_VAL] (w ++ v ++ r) = Some (Ok r).
Proof.
  intros fuel slen w v r Hw Hv Hfo Hf Hs. apply gexec_complete; auto.
  - cbn [glang length]. exists (w ++ v), r. rewrite <- app_assoc. split; [reflexivity|]. split; [|reflexivity].
    cbn [gframe]. exists w, v. rewrite Nat.sub_0_r. repeat split; auto.
  - cbn [length]. unfold MAX_RECURSE. lia.
Qed.


End Generic.

(* ---- instance: MASK_VALIDATE_STRING ---------------------------------------------------------------------- *)

Lemma strict_gval_all :
  (forall d v, strict d v -> gval strict_body (S d) v) /\
  (forall d t, strict_atail d t -> gatail strict_body (S d) t) /\
  (forall d t, strict_otail d t -> gotail strict_body (S d) t).
Proof.
  apply strict_mutind; intros; (constructor; solve [auto]).
Qed.

Lemma skip_string_v_complete : forall fuel b r, strict_body b -> Nat.le (length (b ++ 34 :: r)) fuel ->
  skip_string_v fuel (b ++ 34 :: r) = Ok r.
Proof. intros fuel b r Hb _. unfold skip_string_v. rewrite advance_string_validate_complete; auto. Qed.

Lemma step_shorter_v : forall fuel slen t st s st' s',
  fsm_step_g skip_string_v fuel slen t st s = Ok (st', s') -> (length s <= fuel)%nat -> (length s' < length s)%nat.
Proof.
  intros fuel slen t st s st' s' H Hl.
  apply (fsm_step_g_mono skip_string_v skip_string_1 skip_string_v_sub) in H.
  eapply step_shorter'; eauto.
Qed.

(* every strict RFC 8259 value of nesting depth < MAX_RECURSE, after blanks, is accepted by the string-validating
   FSM with exactly its span *)
Theorem skip_one_vs_complete_strict : forall d w v r,
  all_ws w -> strict d v -> (d < MAX_RECURSE)%nat -> (snumber v -> numclass (hd0 r) = false) ->
  skip_one_vs (w ++ v ++ r) = Ok (v ++ r, r).
Proof.
  intros d w v r Hw Hv Hd Hf. unfold skip_one_vs, fsm_exec_v.
  assert (G : gval strict_body MAX_RECURSE v).
  { eapply (gval_mono strict_body); [apply (proj1 strict_gval_all); eauto|lia]. }
  rewrite (gfsm_complete strict_body skip_string_v skip_string_v_complete step_shorter_v
             (S (length (w ++ v ++ r))) (length (w ++ v ++ r)) w v r Hw G Hf); [|lia|lia].
  rewrite (drop_ws_value w v r (S d) Hw (strict_sub_sval _ _ Hv)). reflexivity.
Qed.
