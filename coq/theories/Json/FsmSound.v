(* Soundness of the validating FSM: acceptance implies that the consumed span is a value of the structural grammar
   (within the frame budget), except when the run ends in the unterminated-string defect class of
   advance_string_default, in which case everything up to the end of the input has been consumed. *)
From Coq Require Import List NArith Bool Arith Lia.
From SV.Json Require Import Chars StrScan NumScan Fsm Grammar StrScanProofs FsmProofs Lang.
Import ListNotations.
Open Scope N_scope.

(* ---- helpers ---------------------------------------------------------------------------------------- *)

Lemma advance_ns_spec : forall s ch rest, advance_ns s = (ch, rest) -> (ch =? 0) = false ->
  exists w, s = w ++ ch :: rest /\ all_ws w.
Proof.
  intros s ch rest H Hz. unfold advance_ns in H.
  destruct (drop_ws_split s) as [w [Hw Hs]].
  destruct (drop_ws s) as [|c r] eqn:E.
  - inversion H; subst. rewrite N.eqb_refl in Hz. discriminate.
  - inversion H; subst. exists w. auto.
Qed.

Lemma scan_scalar_sound : forall s r, scan_scalar s = Some r -> exists b, s = b ++ 34 :: r /\ sbody b.
Proof.
  induction s using scan_ind; intros r0 HH; revert HH; scan_case; intros HH; try discriminate.
  - inversion HH; subst. exists []. split; [reflexivity|constructor].
  - destruct (IHs _ HH) as [b [-> Hb]]. exists (92 :: x :: b). split; [reflexivity|apply sb_esc; auto].
  - destruct (IHs _ HH) as [b [-> Hb]]. exists (c :: b). split; [reflexivity|apply sb_char; auto].
Qed.

Lemma strip_prefix_sound : forall lit s r, strip_prefix lit s = Some r -> s = lit ++ r.
Proof.
  induction lit as [|a lit IH]; intros s r H; cbn [strip_prefix] in H.
  - inversion H; reflexivity.
  - destruct s as [|b s]; [discriminate|]. destruct (a =? b) eqn:E; [|discriminate].
    apply N.eqb_eq in E. subst. cbn [app]. f_equal. auto.
Qed.

(* the defect: some suffix of s that starts right after a quote and runs to the end of the input is in the
   defect class of the string scanner *)
Definition bugged (s : list N) : Prop := exists pre body, s = pre ++ 34 :: body /\ bug_class body = true.

Lemma bugged_app : forall a s, bugged s -> bugged (a ++ s).
Proof. intros a s [pre [body [-> H]]]. exists (a ++ pre), body. rewrite app_assoc. auto. Qed.

Lemma skip_string_sound : forall fuel rest r1, skip_string_1 fuel rest = Ok r1 -> (length rest <= fuel)%nat ->
  (exists b, rest = b ++ 34 :: r1 /\ sbody b) \/ (r1 = [] /\ bug_class rest = true).
Proof.
  intros fuel rest r1 H Hl. unfold skip_string_1 in H.
  destruct (advance_string_default fuel rest) as [r|] eqn:E; [|discriminate]. inversion H; subst.
  destruct rest as [|c rest'] eqn:Er; [discriminate|]. rewrite <- Er in *.
  rewrite advance_string_default_spec in E by (auto; congruence).
  destruct (bug_class rest).
  - right. inversion E. auto.
  - left. apply scan_scalar_sound; auto.
Qed.

Lemma advance_dword_sound : forall slen dec lit rest r, advance_dword slen dec lit rest = Ok r -> rest = lit ++ r.
Proof.
  intros slen dec lit rest r H. unfold advance_dword in H.
  destruct (Nat.ltb (dec + slen) 4); [discriminate|].
  destruct (shorter rest lit); [discriminate|].
  destruct (strip_prefix lit rest) eqn:E; [|discriminate]. inversion H; subst. apply strip_prefix_sound; auto.
Qed.

Lemma numclass_digit_false : forall c, numclass c = false -> is_digit c = false.
Proof. intros c H. unfold numclass in H. repeat rewrite orb_false_iff in H. tauto. Qed.

Lemma sunsigned_nonempty : forall n, sunsigned n -> n <> [].
Proof.
  intros n [i [f [e [-> [Hi _]]]]]. destruct Hi as [->|[c [d [-> _]]]]; discriminate.
Qed.

Section WithNumberScanner.
(* the specification of do_skip_number (proved in NumScanProofs.v: num_sound) *)
Hypothesis num_sound : forall s r, do_skip_number s = Some r -> is_digit (hd0 s) = true ->
  exists n, s = n ++ r /\ sunsigned n.

Lemma num_shorter : forall s r, do_skip_number s = Some r -> is_digit (hd0 s) = true -> (length r < length s)%nat.
Proof.
  intros s r H Hd. destruct (num_sound s r H Hd) as [n [-> Hn]]. apply sunsigned_nonempty in Hn.
  rewrite app_length. destruct n; [congruence|cbn [length]; lia].
Qed.

(* ---- one value ------------------------------------------------------------------------------------- *)

(* fsm_value on continuation stack st0: either every continuation language lifts through a value in front, or the
   defect class was hit (and then the new suffix is empty) *)
Lemma value_sound : forall fuel slen st0 ch rest st' s',
  fsm_value fuel slen st0 ch rest = Ok (st', s') -> (length rest <= fuel)%nat ->
  (forall r, lang false st' s' r ->
     exists v s1, ch :: rest = v ++ s1 /\ sval (MAX_RECURSE - length st0) v /\ lang false st0 s1 r) \/
  (s' = [] /\ st' = st0 /\ ch = 34 /\ bug_class rest = true).
Proof.
  intros fuel slen st0 ch rest st' s' H Hl. unfold fsm_value, fsm_value_g in H.
  destruct (is_digit ch) eqn:Ed.
  { (* number *)
    apply bind_ok in H. destruct H as [r1 [H1 H2]]. inversion H2; subst. left. intros r L.
    unfold skip_positive_1 in H1. destruct (do_skip_number (ch :: rest)) as [r0|] eqn:E; [|discriminate].
    inversion H1; subst.
    destruct (num_sound _ _ E) as [n [Hn Hu]]; [cbn; auto|].
    exists n, s'. split; [auto|]. split; [|auto]. apply SV_num. left. auto. }
  destruct (ch =? 45) eqn:Em.
  { apply N.eqb_eq in Em. subst ch.
    apply bind_ok in H. destruct H as [r1 [H1 H2]]. inversion H2; subst. left. intros r L.
    unfold skip_negative_1 in H1. destruct rest as [|c rest']; [discriminate|].
    destruct (is_digit c) eqn:Ec; cbn [negb] in H1; [|discriminate].
    destruct (do_skip_number (c :: rest')) as [r0|] eqn:E; [|discriminate]. inversion H1; subst.
    destruct (num_sound _ _ E) as [n [Hn Hu]]; [cbn; auto|].
    exists (45 :: n), s'. split; [cbn [app]; f_equal; auto|]. split; [|auto]. apply SV_num. right. eauto. }
  destruct (ch =? 110) eqn:En.
  { apply N.eqb_eq in En. subst ch.
    apply bind_ok in H. destruct H as [r1 [H1 H2]]. inversion H2; subst. left. intros r L.
    apply advance_dword_sound in H1. subst rest.
    exists lit_null, s'. split; [reflexivity|]. split; [constructor|auto]. }
  destruct (ch =? 116) eqn:Et.
  { apply N.eqb_eq in Et. subst ch.
    apply bind_ok in H. destruct H as [r1 [H1 H2]]. inversion H2; subst. left. intros r L.
    apply advance_dword_sound in H1. subst rest.
    exists lit_true, s'. split; [reflexivity|]. split; [constructor|auto]. }
  destruct (ch =? 102) eqn:Ef.
  { apply N.eqb_eq in Ef. subst ch.
    apply bind_ok in H. destruct H as [r1 [H1 H2]]. inversion H2; subst. left. intros r L.
    apply advance_dword_sound in H1. subst rest.
    exists lit_false, s'. split; [reflexivity|]. split; [constructor|auto]. }
  destruct (ch =? 91) eqn:Ea.
  { apply N.eqb_eq in Ea. subst ch.
    apply bind_ok in H. destruct H as [st1 [H1 H2]]. inversion H2; subst. left. intros r L.
    apply fsm_push_inv in H1. destruct H1 as [-> Hlt].
    cbn [lang] in L. destruct L as [x [s1 [-> [Fr L]]]].
    remember (MAX_RECURSE - length st0)%nat as b eqn:Hb.
    destruct b as [|b']; [lia|].
    cbn [frame] in Fr. replace (S b' - 1)%nat with b' in Fr by lia.
    destruct Fr as [[w [-> Hw]]|[w [v [t [-> [Hw [Hv Ht]]]]]]].
    - exists (91 :: w ++ [93]), s1. split; [cbn [app]; rewrite <- app_assoc; reflexivity|]. split; [apply SV_arr0; auto|auto].
    - exists (91 :: w ++ v ++ t), s1. split; [cbn [app]; rewrite <- !app_assoc; reflexivity|].
      split; [apply SV_arr; auto|auto]. }
  destruct (ch =? 123) eqn:Eo.
  { apply N.eqb_eq in Eo. subst ch.
    apply bind_ok in H. destruct H as [st1 [H1 H2]]. inversion H2; subst. left. intros r L.
    apply fsm_push_inv in H1. destruct H1 as [-> Hlt].
    cbn [lang] in L. destruct L as [x [s1 [-> [Fr L]]]].
    remember (MAX_RECURSE - length st0)%nat as b eqn:Hb.
    cbn [frame] in Fr.
    destruct Fr as [(w & -> & Hw)|(w & bd & w1 & w2 & v & t & -> & H2b & Hw & Hbd & Hw1 & Hw2 & Hv & Ht)].
    - destruct b as [|b']; [lia|].
      exists (123 :: w ++ [125]), s1. split; [cbn [app]; rewrite <- app_assoc; reflexivity|]. split; [apply SV_obj0; auto|auto].
    - destruct b as [|[|b']]; try lia. replace (S (S b') - 1)%nat with (S b') in * by lia.
      exists (123 :: w ++ 34 :: bd ++ 34 :: w1 ++ 58 :: w2 ++ v ++ t), s1.
      split; [cbn [app]; repeat (rewrite <- !app_assoc; cbn [app]); reflexivity|].
      split; [apply SV_obj; auto|auto]. }
  destruct (ch =? 34) eqn:Eq.
  { apply N.eqb_eq in Eq. subst ch.
    apply bind_ok in H. destruct H as [r1 [H1 H2]]. inversion H2; subst.
    destruct (skip_string_sound _ _ _ H1 Hl) as [[bd [-> Hbd]]|[-> Hbug]].
    - left. intros r L. exists (34 :: bd ++ [34]), s'.
      split; [cbn [app]; rewrite <- app_assoc; reflexivity|]. split; [apply SV_str; auto|auto].
    - right. auto. }
  destruct (ch =? 0); discriminate.
Qed.

(* ---- one iteration ------------------------------------------------------------------------------------ *)

Lemma step_sound : forall fuel slen t st s st' s',
  fsm_step fuel slen t st s = Ok (st', s') -> (length s <= fuel)%nat ->
  (forall r, lang false st' s' r -> lang false (t :: st) s r) \/
  (s' = [] /\ (st' <> [] \/ (t = FSM_VAL /\ st = [])) /\
   exists w body, s = w ++ 34 :: body /\ all_ws w /\ bug_class body = true).
Proof.
  intros fuel slen t st s st' s' H Hl. unfold fsm_step, fsm_step_g in H; fold fsm_value in H.
  destruct (advance_ns s) as [ch rest] eqn:EA.
  destruct (ch =? 0) eqn:Ez; [discriminate|].
  destruct (advance_ns_spec _ _ _ EA Ez) as [w [-> Hw]].
  assert (Hlr : (length rest <= fuel)%nat) by (rewrite app_length in Hl; cbn [length] in Hl; lia).
  destruct t.
  - (* VAL *)
    destruct (value_sound _ _ _ _ _ _ _ H Hlr) as [V|(-> & -> & -> & B)]; [left|right].
    2: { split; [auto|]. split; [destruct st; [right; auto|left; discriminate]|]. exists w, rest. auto. }
    intros r L. destruct (V r L) as [v [s1 [E [Hv L1]]]].
    cbn [lang]. exists (w ++ v), s1. split; [rewrite <- app_assoc, <- E; reflexivity|]. split; [|auto].
    cbn [frame]. exists w, v. repeat split; auto. intros Hf; discriminate.
  - (* ARR *)
    left. destruct (ch =? 93) eqn:E1.
    + apply N.eqb_eq in E1. subst ch. inversion H; subst. intros r L.
      cbn [lang]. exists (w ++ [93]), s'. split; [rewrite <- app_assoc; reflexivity|]. split; [|auto].
      cbn [frame]. apply AT_end; auto.
    + destruct (ch =? 44) eqn:E2; [|discriminate]. apply N.eqb_eq in E2. subst ch.
      apply bind_ok in H. destruct H as [st1 [H1 H2]]. inversion H2; subst.
      apply fsm_push_inv in H1. destruct H1 as [-> Hlt]. cbn [length] in Hlt.
      intros r L. cbn [lang] in L.
      destruct L as [x1 [s1 [-> [[w1 [v [-> [Hw1 [Hv _]]]]] [x2 [s2 [-> [Ft L]]]]]]]].
      cbn [frame length] in *.
      remember (MAX_RECURSE - length st)%nat as b eqn:Hb.
      replace (MAX_RECURSE - S (length st))%nat with (b - 1)%nat in * by lia.
      destruct b as [|[|b']]; try lia. replace (S (S b') - 1)%nat with (S b') in * by lia.
      exists (w ++ 44 :: w1 ++ v ++ x2), s2.
      split; [repeat (rewrite <- !app_assoc; cbn [app]); reflexivity|]. split; [|auto].
      cbn [frame]. rewrite <- Hb. replace (S (S b') - 1)%nat with (S b') by lia. apply AT_more; auto.
  - (* OBJ *)
    left. destruct (ch =? 125) eqn:E1.
    + apply N.eqb_eq in E1. subst ch. inversion H; subst. intros r L.
      cbn [lang]. exists (w ++ [125]), s'. split; [rewrite <- app_assoc; reflexivity|]. split; [|auto].
      cbn [frame]. apply OT_end; auto.
    + destruct (ch =? 44) eqn:E2; [|discriminate]. apply N.eqb_eq in E2. subst ch.
      apply bind_ok in H. destruct H as [st1 [H1 H2]]. inversion H2; subst.
      apply fsm_push_inv in H1. destruct H1 as [-> Hlt]. cbn [length] in Hlt.
      intros r L. cbn [lang] in L.
      destruct L as (x1 & s1 & -> & (w0 & bd & w1 & y & -> & Hw0 & Hbd & Hw1 & w2 & v & -> & Hw2 & Hv & _) & x2 & s2 & -> & Ft & L).
      cbn [frame length] in *.
      remember (MAX_RECURSE - length st)%nat as b eqn:Hb.
      replace (MAX_RECURSE - S (length st))%nat with (b - 1)%nat in * by lia.
      destruct b as [|[|b']]; try lia. replace (S (S b') - 1)%nat with (S b') in * by lia.
      exists (w ++ 44 :: w0 ++ 34 :: bd ++ 34 :: w1 ++ 58 :: w2 ++ v ++ x2), s2.
      split; [repeat (rewrite <- !app_assoc; cbn [app]); reflexivity|]. split; [|auto].
      cbn [frame]. rewrite <- Hb. replace (S (S b') - 1)%nat with (S b') by lia. apply OT_more; auto.
  - (* KEY *)
    destruct (ch =? 34) eqn:E1; cbn [negb] in H; [|discriminate]. apply N.eqb_eq in E1. subst ch.
    apply bind_ok in H. destruct H as [r1 [H1 H2]]. inversion H2; subst.
    destruct (skip_string_sound _ _ _ H1 Hlr) as [[bd [-> Hbd]]|[-> Hbug]].
    + left. intros r L. cbn [lang] in L. destruct L as [x1 [s1 [-> [[w1 [y [-> [Hw1 Fv]]]] L]]]].
      cbn [lang]. exists (w ++ 34 :: bd ++ 34 :: w1 ++ 58 :: y), s1.
      split; [repeat (rewrite <- !app_assoc; cbn [app]); reflexivity|]. split; [|auto].
      cbn [frame]. exists w, bd, w1, y. auto.
    + right. split; [reflexivity|]. split; [left; discriminate|]. exists w, rest. auto.
  - (* ELEM *)
    left. destruct (ch =? 58) eqn:E1; cbn [negb] in H; [|discriminate]. apply N.eqb_eq in E1. subst ch.
    inversion H; subst. intros r L. cbn [lang] in L. destruct L as [x1 [s1 [-> [Fv L]]]].
    cbn [lang]. exists (w ++ 58 :: x1), s1. split; [rewrite <- app_assoc; reflexivity|]. split; [|auto].
    cbn [frame]. exists w, x1. auto.
  - (* ARR_0 *)
    destruct (ch =? 93) eqn:E1.
    + left. apply N.eqb_eq in E1. subst ch. inversion H; subst. intros r L.
      cbn [lang]. exists (w ++ [93]), s'. split; [rewrite <- app_assoc; reflexivity|]. split; [|auto].
      cbn [frame]. left. exists w. auto.
    + destruct (value_sound _ _ _ _ _ _ _ H Hlr) as [V|(-> & -> & -> & B)]; [left|right].
      2: { split; [auto|]. split; [left; discriminate|]. exists w, rest. auto. }
      intros r L. destruct (V r L) as [v [s1 [E [Hv L1]]]].
      cbn [lang length] in L1. destruct L1 as [x2 [s2 [-> [Ft L2]]]]. cbn [frame] in Ft.
      cbn [length] in Hv.
      replace (MAX_RECURSE - S (length st))%nat with (MAX_RECURSE - length st - 1)%nat in Hv by lia.
      cbn [lang]. exists (w ++ v ++ x2), s2.
      split; [rewrite E, <- !app_assoc; reflexivity|]. split; [|auto].
      cbn [frame]. right. exists w, v, x2. auto.
  - (* OBJ_0 *)
    destruct (ch =? 125) eqn:E1.
    + left. apply N.eqb_eq in E1. subst ch. inversion H; subst. intros r L.
      cbn [lang]. exists (w ++ [125]), s'. split; [rewrite <- app_assoc; reflexivity|]. split; [|auto].
      cbn [frame]. left. exists w. auto.
    + destruct (ch =? 34) eqn:E2; [|discriminate]. apply N.eqb_eq in E2. subst ch.
      apply bind_ok in H. destruct H as [r1 [H1 H2]].
      apply bind_ok in H2. destruct H2 as [st1 [H2 H3]]. inversion H3; subst.
      apply fsm_push_inv in H2. destruct H2 as [-> Hlt]. cbn [length] in Hlt.
      destruct (skip_string_sound _ _ _ H1 Hlr) as [[bd [-> Hbd]]|[-> Hbug]].
      * left. intros r L. cbn [lang] in L.
        destruct L as [x1 [s1 [-> [[w1 [y [-> [Hw1 [w2 [v [-> [Hw2 [Hv _]]]]]]]]] [x2 [s2 [-> [Ft L]]]]]]]].
        cbn [frame length] in *.
        replace (MAX_RECURSE - S (length st))%nat with (MAX_RECURSE - length st - 1)%nat in * by lia.
        cbn [lang]. exists (w ++ 34 :: bd ++ 34 :: w1 ++ 58 :: w2 ++ v ++ x2), s2.
        split; [repeat (rewrite <- !app_assoc; cbn [app]); reflexivity|]. split; [|auto].
        cbn [frame]. right. exists w, bd, w1, w2, v, x2. repeat split; auto. lia.
      * right. split; [reflexivity|]. split; [left; discriminate|]. exists w, rest. auto.
Qed.

Lemma precise_bugged : forall s, (exists w body, s = w ++ 34 :: body /\ all_ws w /\ bug_class body = true) -> bugged s.
Proof. intros s (w & body & -> & _ & B). exists w, body. auto. Qed.

(* progress: an iteration consumes a non-empty prefix of its input *)
Lemma value_suffix : forall fuel slen st0 ch rest st' s',
  fsm_value fuel slen st0 ch rest = Ok (st', s') -> (length rest <= fuel)%nat ->
  exists c, ch :: rest = c ++ s' /\ c <> [].
Proof.
  intros fuel slen st0 ch rest st' s' H Hl. unfold fsm_value, fsm_value_g in H.
  destruct (is_digit ch) eqn:Ed.
  { apply bind_ok in H. destruct H as [r1 [H1 H2]]. inversion H2; subst.
    unfold skip_positive_1 in H1. destruct (do_skip_number (ch :: rest)) eqn:E; [|discriminate]. inversion H1; subst.
    destruct (num_sound _ _ E) as [n [Hn Hu]]; [cbn; auto|]. exists n. split; [auto|apply sunsigned_nonempty; auto]. }
  destruct (ch =? 45).
  { apply bind_ok in H. destruct H as [r1 [H1 H2]]. inversion H2; subst.
    unfold skip_negative_1 in H1. destruct rest as [|c rest']; [discriminate|].
    destruct (is_digit c) eqn:Ec; cbn [negb] in H1; [|discriminate].
    destruct (do_skip_number (c :: rest')) eqn:E; [|discriminate]. inversion H1; subst.
    destruct (num_sound _ _ E) as [n [Hn Hu]]; [cbn; auto|]. exists (ch :: n). rewrite Hn. split; [reflexivity|discriminate]. }
  destruct (ch =? 110).
  { apply bind_ok in H. destruct H as [r1 [H1 H2]]. inversion H2; subst.
    apply advance_dword_sound in H1. subst. exists (ch :: lit_ull). split; [reflexivity|discriminate]. }
  destruct (ch =? 116).
  { apply bind_ok in H. destruct H as [r1 [H1 H2]]. inversion H2; subst.
    apply advance_dword_sound in H1. subst. exists (ch :: lit_rue). split; [reflexivity|discriminate]. }
  destruct (ch =? 102).
  { apply bind_ok in H. destruct H as [r1 [H1 H2]]. inversion H2; subst.
    apply advance_dword_sound in H1. subst. exists (ch :: lit_alse). split; [reflexivity|discriminate]. }
  destruct (ch =? 91).
  { apply bind_ok in H. destruct H as [r1 [H1 H2]]. inversion H2; subst. exists [ch]. split; [reflexivity|discriminate]. }
  destruct (ch =? 123).
  { apply bind_ok in H. destruct H as [r1 [H1 H2]]. inversion H2; subst. exists [ch]. split; [reflexivity|discriminate]. }
  destruct (ch =? 34).
  { apply bind_ok in H. destruct H as [r1 [H1 H2]]. inversion H2; subst.
    destruct (skip_string_sound _ _ _ H1 Hl) as [[bd [-> Hbd]]|[-> Hbug]].
    - exists (ch :: bd ++ [34]). split; [cbn [app]; rewrite <- app_assoc; reflexivity|discriminate].
    - exists (ch :: rest). split; [rewrite app_nil_r; reflexivity|discriminate]. }
  destruct (ch =? 0); discriminate.
Qed.

Lemma step_suffix : forall fuel slen t st s st' s',
  fsm_step fuel slen t st s = Ok (st', s') -> (length s <= fuel)%nat -> exists c, s = c ++ s' /\ c <> [].
Proof.
  intros fuel slen t st s st' s' H Hl. unfold fsm_step, fsm_step_g in H; fold fsm_value in H.
  destruct (advance_ns s) as [ch rest] eqn:EA.
  destruct (ch =? 0) eqn:Ez; [discriminate|].
  destruct (advance_ns_spec _ _ _ EA Ez) as [w [-> Hw]].
  assert (Hlr : (length rest <= fuel)%nat) by (rewrite app_length in Hl; cbn [length] in Hl; lia).
  assert (ONE : exists c, w ++ ch :: rest = c ++ rest /\ c <> []).
  { exists (w ++ [ch]). rewrite <- app_assoc. split; [reflexivity|]. destruct w; discriminate. }
  assert (VAL : forall st0, fsm_value fuel slen st0 ch rest = Ok (st', s') -> exists c, w ++ ch :: rest = c ++ s' /\ c <> []).
  { intros st0 HV. destruct (value_suffix _ _ _ _ _ _ _ HV Hlr) as [c [E Hc]]. exists (w ++ c).
    rewrite <- app_assoc, <- E. split; [reflexivity|]. destruct w; [auto|discriminate]. }
  assert (SS : forall r1, skip_string_1 fuel rest = Ok r1 -> exists c, w ++ ch :: rest = c ++ r1 /\ c <> []).
  { intros r1 H1. destruct (skip_string_sound _ _ _ H1 Hlr) as [[bd [-> Hbd]]|[-> Hbug]].
    - exists (w ++ ch :: bd ++ [34]). split; [repeat (rewrite <- !app_assoc; cbn [app]); reflexivity|destruct w; discriminate].
    - exists (w ++ ch :: rest). split; [rewrite app_nil_r; reflexivity|destruct w; discriminate]. }
  destruct t.
  - eauto.
  - destruct (ch =? 93); [inversion H; subst; auto|]. destruct (ch =? 44); [|discriminate].
    apply bind_ok in H. destruct H as [a [Ha Hb]]. inversion Hb; subst. auto.
  - destruct (ch =? 125); [inversion H; subst; auto|]. destruct (ch =? 44); [|discriminate].
    apply bind_ok in H. destruct H as [a [Ha Hb]]. inversion Hb; subst. auto.
  - destruct (negb (ch =? 34)); [discriminate|].
    apply bind_ok in H. destruct H as [a [Ha Hb]]. inversion Hb; subst. auto.
  - destruct (negb (ch =? 58)); [discriminate|]. inversion H; subst. auto.
  - destruct (ch =? 93); [inversion H; subst; auto|]. eauto.
  - destruct (ch =? 125); [inversion H; subst; auto|]. destruct (ch =? 34); [|discriminate].
    apply bind_ok in H. destruct H as [a [Ha Hb]]. apply bind_ok in Hb. destruct Hb as [b [Hb Hc]].
    inversion Hc; subst. auto.
Qed.

Lemma step_shorter : forall fuel slen t st s st' s',
  fsm_step fuel slen t st s = Ok (st', s') -> (length s <= fuel)%nat -> (length s' < length s)%nat.
Proof.
  intros. destruct (step_suffix _ _ _ _ _ _ _ H H0) as [c [-> Hc]]. rewrite app_length.
  destruct c; [congruence|cbn [length]; lia].
Qed.

(* on the empty input the loop can only succeed with an empty stack *)
Lemma fsm_exec_nil : forall fuel slen st r, fsm_exec_1 fuel slen st [] = Some (Ok r) -> st = [] /\ r = [].
Proof.
  intros fuel slen st r H. destruct st as [|t st].
  - destruct fuel; exec_unfold_in H; inversion H; subst; split; reflexivity.
  - destruct fuel; exec_unfold_in H; [discriminate|]. unfold fsm_step, fsm_step_g in H; fold fsm_value in H. cbn in H. discriminate.
Qed.

(* ---- the loop ------------------------------------------------------------------------------------------ *)

Theorem fsm_exec_sound : forall fuel slen st s r,
  fsm_exec_1 fuel slen st s = Some (Ok r) -> (length s <= fuel)%nat ->
  lang false st s r \/ (r = [] /\ bugged s).
Proof.
  induction fuel as [|f IH]; intros slen st s r H Hl.
  - destruct st; exec_unfold_in H; [|discriminate]. inversion H; subst. left. reflexivity.
  - destruct st as [|t st]; exec_unfold_in H; [inversion H; subst; left; reflexivity|].
    destruct (fsm_step (S f) slen t st s) as [[st2 s2]|e|] eqn:ES; try discriminate.
    pose proof (step_shorter _ _ _ _ _ _ _ ES Hl) as Hsh.
    destruct (step_suffix _ _ _ _ _ _ _ ES Hl) as [c [Ec _]].
    destruct (step_sound _ _ _ _ _ _ _ ES Hl) as [P|(-> & _ & B)].
    2: apply precise_bugged in B.
    + destruct (IH slen st2 s2 r H ltac:(lia)) as [L|[-> B]].
      * left. auto.
      * right. split; [auto|]. rewrite Ec. apply bugged_app. auto.
    + apply fsm_exec_nil in H. destruct H as [-> ->]. right. auto.
Qed.

(* validate_one / skip_one: fsm_init(FSM_VAL) *)
Theorem fsm_sound_partial : forall fuel slen s r,
  fsm_exec_1 fuel slen [FSM_VAL] s = Some (Ok r) -> (length s <= fuel)%nat ->
  (exists w v, s = w ++ v ++ r /\ all_ws w /\ sval MAX_RECURSE v) \/ (r = [] /\ bugged s).
Proof.
  intros fuel slen s r H Hl. destruct (fsm_exec_sound _ _ _ _ _ H Hl) as [L|B]; [left|right; auto].
  cbn [lang length] in L. destruct L as [x [s1 [-> [[w [v [-> [Hw [Hv _]]]]] ->]]]].
  rewrite Nat.sub_0_r in Hv. exists w, v. rewrite <- app_assoc. auto.
Qed.

(* ---- the defect can only fire on a bare top-level string --------------------------------------------------
   after the first iteration the bottom frame of the stack is a container frame, so a string in the defect
   class that leaves the stack empty must be the value scanned by the very first iteration *)

Definition okb (t : vt) : Prop :=
  match t with FSM_ARR | FSM_OBJ | FSM_ARR_0 | FSM_OBJ_0 => True | _ => False end.

Definition good (st : list vt) : Prop := st = [] \/ okb (last st FSM_VAL).

Lemma last_app_ne : forall (pre st : list vt) d, st <> [] -> last (pre ++ st) d = last st d.
Proof.
  induction pre as [|a pre IH]; intros st d H; [reflexivity|]. cbn [app].
  assert (NE : pre ++ st <> []) by (destruct pre; cbn [app]; [auto|discriminate]).
  transitivity (last (pre ++ st) d); [destruct (pre ++ st); [congruence|reflexivity]|apply IH; auto].
Qed.

Lemma step_shape : forall fuel slen t st s st' s',
  fsm_step fuel slen t st s = Ok (st', s') ->
  exists pre, st' = pre ++ st /\
    (st = [] -> okb t -> st' = [] \/ okb (last st' FSM_VAL)) /\
    (st = [] -> t = FSM_VAL -> st' = [] \/ okb (last st' FSM_VAL)).
Proof.
  intros fuel slen t st s st' s' H. unfold fsm_step, fsm_step_g in H; fold fsm_value in H.
  destruct (advance_ns s) as [ch rest]. destruct (ch =? 0); [discriminate|].
  assert (VS : forall st0, fsm_value fuel slen st0 ch rest = Ok (st', s') ->
            st' = st0 \/ (st' = FSM_ARR_0 :: st0 \/ st' = FSM_OBJ_0 :: st0)).
  { intros st0 HV. unfold fsm_value, fsm_value_g in HV.
    repeat match type of HV with (if ?c then _ else _) = _ => destruct c end; try discriminate;
    apply bind_ok in HV; destruct HV as [a [Ha Hb]]; inversion Hb; subst; auto;
    apply fsm_push_inv in Ha; destruct Ha as [-> _]; auto. }
  destruct t.
  - destruct (VS _ H) as [->|[->| ->]].
    + exists []. split; [reflexivity|]. split; intros -> _; left; reflexivity.
    + exists [FSM_ARR_0]. split; [reflexivity|]. split; intros -> _; right; exact I.
    + exists [FSM_OBJ_0]. split; [reflexivity|]. split; intros -> _; right; exact I.
  - destruct (ch =? 93); [inversion H; subst; exists []; split; [reflexivity|split; [intros -> _; left; reflexivity|intros _ E; discriminate]]|].
    destruct (ch =? 44); [|discriminate]. apply bind_ok in H. destruct H as [a [Ha Hb]]. inversion Hb; subst.
    apply fsm_push_inv in Ha. destruct Ha as [-> _]. exists [FSM_VAL; FSM_ARR]. split; [reflexivity|].
    split; [intros -> _; right; exact I|intros _ E; discriminate].
  - destruct (ch =? 125); [inversion H; subst; exists []; split; [reflexivity|split; [intros -> _; left; reflexivity|intros _ E; discriminate]]|].
    destruct (ch =? 44); [|discriminate]. apply bind_ok in H. destruct H as [a [Ha Hb]]. inversion Hb; subst.
    apply fsm_push_inv in Ha. destruct Ha as [-> _]. exists [FSM_KEY; FSM_OBJ]. split; [reflexivity|].
    split; [intros -> _; right; exact I|intros _ E; discriminate].
  - destruct (negb (ch =? 34)); [discriminate|]. apply bind_ok in H. destruct H as [a [Ha Hb]]. inversion Hb; subst.
    exists [FSM_ELEM]. split; [reflexivity|]. split; [intros _ []|intros _ E; discriminate].
  - destruct (negb (ch =? 58)); [discriminate|]. inversion H; subst.
    exists [FSM_VAL]. split; [reflexivity|]. split; [intros _ []|intros _ E; discriminate].
  - destruct (ch =? 93); [inversion H; subst; exists []; split; [reflexivity|split; [intros -> _; left; reflexivity|intros _ E; discriminate]]|].
    destruct (VS _ H) as [->|[->| ->]].
    + exists [FSM_ARR]. split; [reflexivity|]. split; [intros -> _; right; exact I|intros _ E; discriminate].
    + exists [FSM_ARR_0; FSM_ARR]. split; [reflexivity|]. split; [intros -> _; right; exact I|intros _ E; discriminate].
    + exists [FSM_OBJ_0; FSM_ARR]. split; [reflexivity|]. split; [intros -> _; right; exact I|intros _ E; discriminate].
  - destruct (ch =? 125); [inversion H; subst; exists []; split; [reflexivity|split; [intros -> _; left; reflexivity|intros _ E; discriminate]]|].
    destruct (ch =? 34); [|discriminate].
    apply bind_ok in H. destruct H as [a [Ha Hb]]. apply bind_ok in Hb. destruct Hb as [b [Hb Hc]]. inversion Hc; subst.
    apply fsm_push_inv in Hb. destruct Hb as [-> _]. exists [FSM_ELEM; FSM_OBJ]. split; [reflexivity|].
    split; [intros -> _; right; exact I|intros _ E; discriminate].
Qed.

Lemma good_step : forall fuel slen t st s st' s',
  fsm_step fuel slen t st s = Ok (st', s') -> good (t :: st) -> good st'.
Proof.
  intros fuel slen t st s st' s' H [G|G]; [discriminate|].
  destruct (step_shape _ _ _ _ _ _ _ H) as (pre & -> & A & _).
  destruct st as [|u st].
  - cbn [last] in G. rewrite app_nil_r in *. apply A; auto.
  - right. rewrite last_app_ne by discriminate. cbn [last] in G. exact G.
Qed.

(* under `good` the defect branch is impossible: the loop accepts only what the grammar derives *)
Lemma fsm_exec_sound_good : forall fuel slen st s r,
  fsm_exec_1 fuel slen st s = Some (Ok r) -> (length s <= fuel)%nat -> good st -> lang false st s r.
Proof.
  induction fuel as [|f IH]; intros slen st s r H Hl G.
  - destruct st; exec_unfold_in H; [|discriminate]. inversion H; subst. reflexivity.
  - destruct st as [|t st]; exec_unfold_in H; [inversion H; subst; reflexivity|].
    destruct (fsm_step (S f) slen t st s) as [[st2 s2]|e|] eqn:ES; try discriminate.
    pose proof (step_shorter _ _ _ _ _ _ _ ES Hl) as Hsh.
    pose proof (good_step _ _ _ _ _ _ _ ES G) as G2.
    destruct (step_sound _ _ _ _ _ _ _ ES Hl) as [P|(-> & [NE|[-> ->]] & _)].
    + apply P. apply (IH slen st2 s2 r H); auto; lia.
    + apply fsm_exec_nil in H. destruct H as [-> _]. congruence.
    + destruct G as [G|G]; [discriminate|]. cbn [last] in G. destruct G.
Qed.

(* sharp form of the partial soundness theorem: the only accepted non-values are blank* quote body with body in
   the defect class of the string scanner, and they are consumed to the end of the input *)
Theorem fsm_sound_sharp : forall fuel slen s r,
  fsm_exec_1 fuel slen [FSM_VAL] s = Some (Ok r) -> (length s <= fuel)%nat ->
  (exists w v, s = w ++ v ++ r /\ all_ws w /\ sval MAX_RECURSE v) \/
  (r = [] /\ exists w body, s = w ++ 34 :: body /\ all_ws w /\ bug_class body = true).
Proof.
  intros fuel slen s r H Hl.
  destruct fuel as [|f]; [discriminate|]. exec_unfold_in H.
  destruct (fsm_step (S f) slen FSM_VAL [] s) as [[st2 s2]|e|] eqn:ES; try discriminate.
  pose proof (step_shorter _ _ _ _ _ _ _ ES Hl) as Hsh.
  destruct (step_shape _ _ _ _ _ _ _ ES) as (pre & _ & _ & G2). specialize (G2 eq_refl eq_refl).
  destruct (step_sound _ _ _ _ _ _ _ ES Hl) as [P|(-> & _ & B)].
  - left. assert (L : lang false [FSM_VAL] s r).
    { apply P. apply (fsm_exec_sound_good f slen st2 s2 r H); [lia|exact G2]. }
    cbn [lang length] in L. destruct L as [x [s1 [-> [[w [v [-> [Hw [Hv _]]]]] ->]]]].
    rewrite Nat.sub_0_r in Hv. exists w, v. rewrite <- app_assoc. auto.
  - right. apply fsm_exec_nil in H. destruct H as [_ ->]. auto.
Qed.

End WithNumberScanner.
