(* The vector rounds of do_skip_number (32-byte rounds under AVX2, then 16-byte rounds, then the scalar loop) equal
   the scalar loop num_loop of NumScan.v.

   One round on a block of W bytes, as in the C text:
     i  = ctz(~mr | 1 << W)                  first byte of the block that is not a number byte
     md, me, ms &= (1 << i) - 1              the '.', 'e/E', '+/-' positions before it
     check_bits(m)                           error when m has two bits set
     check_vidx(idx, m)                      m != 0: error when idx is already set, else idx = offset + ctz(m)
     if (i != W) goto check_index            else next block
   The masks are read here as what they denote: `count p pre` = popcount of the mask restricted to the prefix,
   `first p pre` = its ctz. *)
From Coq Require Import List NArith Bool Arith Lia.
From SV.Json Require Import Chars NumScan Grammar NumScanProofs.
Import ListNotations.
Open Scope N_scope.

Definition isdot (c : N) : bool := c =? 46.

Fixpoint count (p : N -> bool) (l : list N) : nat :=
  match l with [] => O | c :: r => if p c then S (count p r) else count p r end.

Fixpoint first (p : N -> bool) (l : list N) : nat :=
  match l with [] => O | c :: r => if p c then O else S (first p r) end.

(* maximal prefix of number bytes *)
Fixpoint nspan (l : list N) : list N * list N :=
  match l with
  | [] => ([], [])
  | c :: r => if numclass c then let (a, b) := nspan r in (c :: a, b) else ([], l)
  end.

(* check_bits + check_vidx for one index variable *)
Definition upd (o : option nat) (idx : nat) (p : N -> bool) (pre : list N) : option (option nat) :=
  match count p pre with
  | O => Some o
  | S O => match o with None => Some (Some (idx + first p pre)%nat) | Some _ => None end
  | _ => None
  end.

(* one round: None = negative return; Some (st', i) = indices updated, i number bytes at the start of the block *)
Definition num_round (blk : list N) (idx : nat) (st : nidx) : option (nidx * nat) :=
  let pre := fst (nspan blk) in
  match upd (di st) idx isdot pre, upd (ei st) idx is_exp pre, upd (si st) idx is_sign pre with
  | Some d, Some e, Some s => Some (mk d e s, length pre)
  | _, _, _ => None
  end.

(* while (nb >= W) { round }   -- inl = finished (result of the whole scan), inr = fell through to the next phase *)
Fixpoint num_loopW (W fuel : nat) (s : list N) (idx : nat) (st : nidx)
  : option (nidx * nat * list N) + (list N * nat * nidx) :=
  match fuel with
  | O => inr (s, idx, st)
  | S f =>
      if Nat.leb W (length s) then
        match num_round (firstn W s) idx st with
        | None => inl None
        | Some (st', i) =>
            if Nat.eqb i W then num_loopW W f (skipn W s) (idx + W) st'
            else inl (Some (st', (idx + i)%nat, skipn i s))              (* sp += i; goto check_index *)
        end
      else inr (s, idx, st)
  end.

Fixpoint num_cascade (ws : list nat) (s : list N) (idx : nat) (st : nidx) : option (nidx * nat * list N) :=
  match ws with
  | [] => num_loop s idx st                                              (* remaining bytes, scalar code *)
  | W :: ws' =>
      match num_loopW W (S (length s)) s idx st with
      | inl r => r
      | inr (s', idx', st') => num_cascade ws' s' idx' st'
      end
  end.

(* do_skip_number with its vector rounds: ws = [32; 16] (AVX2) or [16] (SSE) *)
Definition do_skip_number_blocked (ws : list nat) (s : list N) : option (list N) :=
  match s with
  | [] => None
  | c :: r =>
      if (c =? 48) && (match r with [] => true | d :: _ => negb ((d =? 46) || (d =? 101) || (d =? 69)) end)
      then Some r
      else match num_cascade ws s 0 {| di := None; ei := None; si := None |} with
           | None => None
           | Some (st, n, rest) => if check_index st n then Some rest else None
           end
  end.

(* ---- upd under cons -------------------------------------------------------------------------------------- *)

Lemma upd_miss : forall o idx p c pre, p c = false -> upd o idx p (c :: pre) = upd o (S idx) p pre.
Proof.
  intros o idx p c pre H. unfold upd. cbn [count first]. rewrite H.
  replace (idx + S (first p pre))%nat with (S idx + first p pre)%nat by lia. reflexivity.
Qed.

Lemma upd_hit_some : forall k idx p c pre, p c = true -> upd (Some k) idx p (c :: pre) = None.
Proof. intros k idx p c pre H. unfold upd. cbn [count]. rewrite H. destruct (count p pre); reflexivity. Qed.

Lemma upd_hit_none : forall idx p c pre, p c = true -> upd None idx p (c :: pre) = upd (Some idx) (S idx) p pre.
Proof.
  intros idx p c pre H. unfold upd. cbn [count first]. rewrite H. rewrite Nat.add_0_r.
  destruct (count p pre) as [|[|n]]; reflexivity.
Qed.

Lemma upd_nil : forall o idx p, upd o idx p [] = Some o.
Proof. reflexivity. Qed.

(* ---- a prefix of number bytes: the scalar loop against the round ---------------------------------------- *)

Lemma num_loop_prefix : forall pre rest idx st, forallb numclass pre = true ->
  num_loop (pre ++ rest) idx st =
  match upd (di st) idx isdot pre, upd (ei st) idx is_exp pre, upd (si st) idx is_sign pre with
  | Some d, Some e, Some s => num_loop rest (idx + length pre) (mk d e s)
  | _, _, _ => None
  end.
Proof.
  induction pre as [|c pre IH]; intros rest idx st H.
  - cbn [app length]. rewrite !upd_nil, Nat.add_0_r. destruct st; reflexivity.
  - cbn [forallb] in H. apply andb_true_iff in H. destruct H as [Hc Hp].
    cbn [app length]. rewrite num_loop_cons, Hc. unfold num_step.
    replace (idx + S (length pre))%nat with (S idx + length pre)%nat by lia.
    destruct (numclass_cases c Hc) as [Hd|[->|[He|Hs]]].
    + destruct (digit_not_special c Hd) as (A & B & C). rewrite Hd.
      rewrite (upd_miss _ _ isdot), (upd_miss _ _ is_exp), (upd_miss _ _ is_sign) by auto. apply IH; auto.
    + change (is_digit 46) with false. rewrite N.eqb_refl. cbv iota.
      rewrite (upd_miss _ _ is_exp), (upd_miss _ _ is_sign) by reflexivity.
      destruct (di st) as [k|] eqn:Ed.
      * rewrite upd_hit_some by reflexivity. reflexivity.
      * rewrite upd_hit_none by reflexivity. rewrite IH by auto. reflexivity.
    + destruct (exp_not_other c He) as (A & B & C). rewrite A, B, He.
      rewrite (upd_miss _ _ isdot), (upd_miss _ _ is_sign) by auto.
      destruct (ei st) as [k|] eqn:Ee.
      * rewrite upd_hit_some by auto. destruct (upd (di st) (S idx) isdot pre); reflexivity.
      * rewrite upd_hit_none by auto. rewrite IH by auto. reflexivity.
    + destruct (sign_not_other c Hs) as (A & B & C). rewrite A, B, C.
      rewrite (upd_miss _ _ isdot), (upd_miss _ _ is_exp) by auto.
      destruct (si st) as [k|] eqn:Es.
      * rewrite upd_hit_some by auto.
        destruct (upd (di st) (S idx) isdot pre); [destruct (upd (ei st) (S idx) is_exp pre)|]; reflexivity.
      * rewrite upd_hit_none by auto. rewrite IH by auto. reflexivity.
Qed.

Lemma nspan_spec : forall l, let (a, b) := nspan l in
  l = a ++ b /\ forallb numclass a = true /\ numclass (hd0 b) = false.
Proof.
  induction l as [|c r IH]; cbn [nspan]; [repeat split; reflexivity|].
  destruct (numclass c) eqn:E.
  - destruct (nspan r) as [a b]. destruct IH as (-> & H1 & H2). cbn [forallb app]. rewrite E. repeat split; auto.
  - repeat split; auto.
Qed.

(* ---- the rounds --------------------------------------------------------------------------------------------- *)

Lemma num_loopW_spec : forall W, (0 < W)%nat -> forall fuel s idx st, (length s < fuel)%nat ->
  match num_loopW W fuel s idx st with
  | inl r => r = num_loop s idx st
  | inr (s', idx', st') => num_loop s' idx' st' = num_loop s idx st
  end.
Proof.
  intros W HW. induction fuel as [|f IH]; intros s idx st Hf; [lia|].
  cbn [num_loopW]. destruct (Nat.leb_spec W (length s)) as [HL|HL]; [|reflexivity].
  unfold num_round.
  pose proof (nspan_spec (firstn W s)) as S. destruct (nspan (firstn W s)) as [a b] eqn:EN. cbn [fst].
  destruct S as (E & Ha & Hb).
  remember (skipn W s) as t eqn:Et.
  assert (Es : s = a ++ b ++ t) by (rewrite app_assoc, <- E, Et; symmetry; apply firstn_skipn).
  assert (NL : num_loop s idx st = num_loop (a ++ b ++ t) idx st) by (rewrite <- Es; reflexivity).
  rewrite (num_loop_prefix a (b ++ t) idx st Ha) in NL.
  destruct (upd (di st) idx isdot a) as [d|]; [|symmetry; exact NL].
  destruct (upd (ei st) idx is_exp a) as [e|]; [|symmetry; exact NL].
  destruct (upd (si st) idx is_sign a) as [sg|]; [|symmetry; exact NL].
  assert (LW : length (firstn W s) = W) by (apply firstn_length_le; lia).
  destruct (Nat.eqb_spec (length a) W) as [EW|NW].
  - (* the whole block consists of number bytes *)
    assert (b = []).
    { rewrite E, app_length in LW. destruct b; [reflexivity|cbn in LW; lia]. }
    subst b. cbn [app] in NL. rewrite EW in NL.
    specialize (IH t (idx + W)%nat (mk d e sg)). rewrite Et, skipn_length in IH. specialize (IH ltac:(lia)).
    rewrite <- Et in IH. rewrite NL. exact IH.
  - (* a non-number byte inside the block: stop there *)
    assert (Hskip : skipn (length a) s = b ++ t).
    { rewrite Es. rewrite skipn_app, skipn_all, Nat.sub_diag. reflexivity. }
    rewrite Hskip, NL.
    destruct b as [|c b']; [rewrite app_nil_r in E; rewrite E in LW; congruence|].
    cbn [hd0] in Hb. cbn [app]. rewrite num_loop_cons, Hb. reflexivity.
Qed.

Theorem num_cascade_eq : forall ws, Forall (fun W => 0 < W)%nat ws ->
  forall s idx st, num_cascade ws s idx st = num_loop s idx st.
Proof.
  induction ws as [|W ws IH]; intros Hws s idx st; [reflexivity|].
  inversion Hws; subst. cbn [num_cascade].
  pose proof (num_loopW_spec W H1 (S (length s)) s idx st (Nat.lt_succ_diag_r _)) as SP.
  destruct (num_loopW W (S (length s)) s idx st) as [r|[[s' idx'] st']]; [auto|].
  rewrite IH by auto. exact SP.
Qed.

(* do_skip_number with the vector rounds of either compilation = the scalar model *)
Theorem do_skip_number_blocked_eq : forall ws, Forall (fun W => 0 < W)%nat ws ->
  forall s, do_skip_number_blocked ws s = do_skip_number s.
Proof.
  intros ws Hws s. unfold do_skip_number_blocked, do_skip_number. destruct s as [|c r]; [reflexivity|].
  rewrite num_cascade_eq by auto. reflexivity.
Qed.

Corollary do_skip_number_avx2_eq : forall s, do_skip_number_blocked [32; 16]%nat s = do_skip_number s.
Proof. apply do_skip_number_blocked_eq. repeat constructor; lia. Qed.

Corollary do_skip_number_sse_eq : forall s, do_skip_number_blocked [16]%nat s = do_skip_number s.
Proof. apply do_skip_number_blocked_eq. repeat constructor; lia. Qed.
