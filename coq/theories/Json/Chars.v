(* Byte classes used by the scanners of native/scanning.h and by the structural grammar.
   Bytes are N (each < 256). *)
From Coq Require Import List NArith Bool Arith Lia.
Import ListNotations.
Open Scope N_scope.

Definition c_tab    : N := 9.
Definition c_lf     : N := 10.
Definition c_cr     : N := 13.
Definition c_space  : N := 32.
Definition c_quote  : N := 34.   (* double quote *)
Definition c_plus   : N := 43.
Definition c_comma  : N := 44.
Definition c_minus  : N := 45.
Definition c_dot    : N := 46.
Definition c_0      : N := 48.
Definition c_9      : N := 57.
Definition c_colon  : N := 58.
Definition c_E      : N := 69.
Definition c_lbrk   : N := 91.   (* '[' *)
Definition c_bslash : N := 92.
Definition c_rbrk   : N := 93.   (* ']' *)
Definition c_e      : N := 101.
Definition c_f      : N := 102.
Definition c_n      : N := 110.
Definition c_t      : N := 116.
Definition c_lbrc   : N := 123.  (* '{' *)
Definition c_rbrc   : N := 125.  (* '}' *)

(* scanning.h: isspace  (the `|` of the last disjunct has the same truth table as `||`) *)
Definition isspace (c : N) : bool :=
  (c =? 32) || (c =? 13) || (c =? 10) || (c =? 9).

Definition is_digit (c : N) : bool := (48 <=? c) && (c <=? 57).
Definition is_exp (c : N) : bool := (c =? 101) || (c =? 69).
Definition is_sign (c : N) : bool := (c =? 43) || (c =? 45).
(* the byte class do_skip_number keeps scanning over *)
Definition numclass (c : N) : bool := is_digit c || (c =? 46) || is_exp c || is_sign c.

(* hexadecimal digit / single-character escapes of RFC 8259 section 7 *)
Definition is_hex (c : N) : bool :=
  is_digit c || ((65 <=? c) && (c <=? 70)) || ((97 <=? c) && (c <=? 102)).

Definition simple_escape (c : N) : bool :=
  (c =? 34) || (c =? 92) || (c =? 47) || (c =? 98) || (c =? 102) || (c =? 110) || (c =? 114) || (c =? 116).

Definition all_ws (w : list N) : Prop := forallb isspace w = true.

Fixpoint drop_ws (s : list N) : list N :=
  match s with
  | c :: r => if isspace c then drop_ws r else s
  | [] => []
  end.

(* the head of a byte string, 0 for the empty one (what the C code sees as NUL / EOF) *)
Definition hd0 (s : list N) : N := match s with c :: _ => c | [] => 0 end.

Lemma all_ws_nil : all_ws []. Proof. reflexivity. Qed.

Lemma all_ws_app : forall a b, all_ws (a ++ b) <-> all_ws a /\ all_ws b.
Proof. intros a b. unfold all_ws. rewrite forallb_app, andb_true_iff. tauto. Qed.

Lemma all_ws_cons : forall c w, all_ws (c :: w) <-> isspace c = true /\ all_ws w.
Proof. intros c w. unfold all_ws. cbn [forallb]. rewrite andb_true_iff. tauto. Qed.

Lemma drop_ws_app : forall w s, all_ws w -> drop_ws (w ++ s) = drop_ws s.
Proof.
  induction w as [|c w IH]; intros s H; [reflexivity|].
  apply all_ws_cons in H. destruct H as [Hc Hw]. cbn [app drop_ws]. rewrite Hc. auto.
Qed.

Lemma drop_ws_nonspace : forall c r, isspace c = false -> drop_ws (c :: r) = c :: r.
Proof. intros c r H. cbn [drop_ws]. now rewrite H. Qed.

(* drop_ws splits its argument into a whitespace prefix and the result *)
Lemma drop_ws_split : forall s, exists w, all_ws w /\ s = w ++ drop_ws s.
Proof.
  induction s as [|c r IH]; [exists []; split; [apply all_ws_nil|reflexivity]|].
  cbn [drop_ws]. destruct (isspace c) eqn:E.
  - destruct IH as [w [Hw Hs]]. exists (c :: w). split.
    + apply all_ws_cons; auto.
    + cbn [app]. now rewrite <- Hs.
  - exists []. split; [apply all_ws_nil|reflexivity].
Qed.

Lemma drop_ws_head : forall s c r, drop_ws s = c :: r -> isspace c = false.
Proof.
  induction s as [|a s IH]; intros c r H; [discriminate|].
  cbn [drop_ws] in H. destruct (isspace a) eqn:E; [eauto|]. inversion H; subst; auto.
Qed.

Lemma drop_ws_length : forall s, (length (drop_ws s) <= length s)%nat.
Proof.
  induction s as [|a s IH]; cbn [drop_ws length]; [lia|].
  destruct (isspace a); cbn [length]; lia.
Qed.

Lemma drop_ws_idem : forall s, drop_ws (drop_ws s) = drop_ws s.
Proof.
  induction s as [|a s IH]; [reflexivity|]. cbn [drop_ws]. destruct (isspace a) eqn:E; auto.
  cbn [drop_ws]. now rewrite E.
Qed.
